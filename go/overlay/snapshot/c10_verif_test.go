package snapshot

// C10 driver: snapshot transfer installs exactly the source data or nothing.
//
// Streams produced by the real Store.Open (and tiny hand-framed ones) are fed, whole or mutated,
// in arbitrary write splits and optionally through the zstd transport, into the real Sink and
// into the real Restore.  Per stream the driver records what the code did (class, error kind,
// failing write, installed/restored file sums, bytes read) for the Coq model (Model/C10.v), and
// evaluates the property with a reference acceptance test written from the property text
// (c10RefParse): anything accepted must be an exact frame whose installed data is the source's.

import (
	"bytes"
	"encoding/binary"
	"encoding/hex"
	"encoding/json"
	"fmt"
	"hash/crc32"
	"io"
	"math/rand"
	"os"
	"path/filepath"
	"sort"
	"strings"
	"testing"

	"github.com/hashicorp/raft"
	"github.com/rqlite/rqlite/v10/db"
	"github.com/rqlite/rqlite/v10/internal/rarchive/zstd"
	"github.com/rqlite/rqlite/v10/snapshot/proto"
	"github.com/rqlite/rqlite/v10/snapshot/sidecar"
	pb "google.golang.org/protobuf/proto"
)

type c10Trial struct {
	Kind   string `json:"kind"` // "sink" | "restore"
	FN     bool   `json:"fn,omitempty"`
	Mut    string `json:"mut"` // description of the mutation (for tags and signatures)
	Pos    int    `json:"pos"`
	Len    int    `json:"len"`
	Ins    []byte `json:"ins,omitempty"`
	Comp   int64  `json:"comp"` // -1: no compression; otherwise the size declared to the Compressor
	BufSz  int    `json:"bufsz,omitempty"`
	Chunks []int  `json:"chunks,omitempty"`
}

type c10Input struct {
	Shape  string     `json:"shape"`
	Trials []c10Trial `json:"trials"`
}

type c10Base struct {
	name   string
	stream []byte
	files  [][]byte // source files: db, wals...
	hdrLen int      // length of the marshaled header
	expDB  []byte   // the source database with the source WALs checkpointed (by db.ReplayWAL, independently)
	real   bool
}

var c10Castagnoli = crc32.MakeTable(crc32.Castagnoli)

func c10Scratch() string {
	root := os.TempDir()
	if st, err := os.Stat("/dev/shm"); err == nil && st.IsDir() {
		root = "/dev/shm"
	}
	d, err := os.MkdirTemp(root, "c10-")
	if err != nil {
		panic(err)
	}
	return d
}

type c10STC struct{ full bool }

func (c c10STC) DueNext() (Type, error) {
	if c.full {
		return Full, nil
	}
	return Incremental, nil
}
func (c c10STC) SetDueNext(Type) error { return nil }

// ---------------------------------------------------------------- bases

func c10Frame(hdr *proto.SnapshotHeader, files ...[]byte) ([]byte, int) {
	hb, err := pb.Marshal(hdr)
	if err != nil {
		panic(err)
	}
	var l [4]byte
	binary.BigEndian.PutUint32(l[:], uint32(len(hb)))
	out := append([]byte{}, l[:]...)
	out = append(out, hb...)
	for _, f := range files {
		out = append(out, f...)
	}
	return out, len(hb)
}

func c10HeaderFor(files [][]byte) *proto.SnapshotHeader {
	full := &proto.FullSnapshot{DbHeader: &proto.Header{SizeBytes: uint64(len(files[0])), Crc32: crc32.Checksum(files[0], c10Castagnoli)}}
	for _, w := range files[1:] {
		full.WalHeaders = append(full.WalHeaders, &proto.Header{SizeBytes: uint64(len(w)), Crc32: crc32.Checksum(w, c10Castagnoli)})
	}
	return &proto.SnapshotHeader{FormatVersion: 1, Payload: &proto.SnapshotHeader_Full{Full: full}}
}

func c10TinyDB(extra string) []byte { return append([]byte("SQLite format 3\x00"), []byte(extra)...) }
func c10TinyWAL(extra string) []byte {
	b := []byte{0x37, 0x7f, 0x06, 0x82, 0, 0x2d, 0xe2, 0x18}
	return append(b, []byte(extra)...)
}

func c10Must(err error) {
	if err != nil {
		panic(err)
	}
}

func c10CopyFile(src, dst string) {
	b, err := os.ReadFile(src)
	c10Must(err)
	c10Must(os.WriteFile(dst, b, 0644))
}

// c10Snap adds one snapshot to the real store through the real API: a full one from dbFile, or
// an incremental one whose WAL directory holds walFiles.
func c10Snap(s *Store, scratch string, index uint64, dbFile string, walFiles ...string) string {
	sk, err := s.Create(1, index, 1, raft.Configuration{}, 1, nil)
	c10Must(err)
	sink := sk.(*Sink)
	sink.fatalFn = nil
	if dbFile != "" {
		st, err := NewSnapshotStreamer(dbFile)
		c10Must(err)
		c10Must(st.Open())
		_, err = io.Copy(sink, st)
		c10Must(err)
		st.Close()
	} else {
		walDir, err := os.MkdirTemp(scratch, "waldir-")
		c10Must(err)
		for i, w := range walFiles {
			p := filepath.Join(walDir, fmt.Sprintf("%020d.wal", i+1))
			c10CopyFile(w, p)
			b, _ := os.ReadFile(p)
			c10Must(sidecar.WriteFile(p+crcSuffix, crc32.Checksum(b, c10Castagnoli)))
		}
		st, err := NewSnapshotPathStreamer(walDir)
		c10Must(err)
		_, err = io.Copy(sink, st)
		c10Must(err)
	}
	c10Must(sink.Close())
	return sink.ID()
}

func c10OpenStream(s *Store, id string) ([]byte, [][]byte) {
	_, rc, err := s.Open(id)
	c10Must(err)
	stream, err := io.ReadAll(rc)
	c10Must(err)
	rc.Close()
	set, err := s.getSnapshots()
	c10Must(err)
	dbf, wfs, err := set.ResolveFiles(id)
	c10Must(err)
	var files [][]byte
	b, err := os.ReadFile(dbf.Path)
	c10Must(err)
	files = append(files, b)
	for _, w := range wfs {
		b, err := os.ReadFile(w.Path)
		c10Must(err)
		files = append(files, b)
	}
	return stream, files
}

func c10Replay(scratch string, files [][]byte) ([]byte, error) {
	d, err := os.MkdirTemp(scratch, "exp-")
	c10Must(err)
	defer os.RemoveAll(d)
	dbp := filepath.Join(d, "exp.db")
	c10Must(os.WriteFile(dbp, files[0], 0644))
	var wals []string
	for i, w := range files[1:] {
		p := filepath.Join(d, fmt.Sprintf("w-%d", i))
		c10Must(os.WriteFile(p, w, 0644))
		wals = append(wals, p)
	}
	if len(wals) > 0 {
		if err := db.ReplayWAL(dbp, wals, false); err != nil {
			return nil, err
		}
	}
	return os.ReadFile(dbp)
}

func c10TryBuildBase(name, scratch string) (b *c10Base, failure string) {
	defer func() {
		if r := recover(); r != nil {
			b, failure = nil, fmt.Sprint(r)
		}
	}()
	return c10BuildBase(name, scratch), ""
}

func c10BuildBase(name, scratch string) *c10Base {
	td := "testdata/db-and-wals/"
	b := &c10Base{name: name}
	switch name {
	case "tiny-db":
		b.files = [][]byte{c10TinyDB("tinydata")}
	case "tiny-db-wal":
		b.files = [][]byte{c10TinyDB("AB"), c10TinyWAL("wal0")}
	case "tiny-db-2wal":
		b.files = [][]byte{c10TinyDB(""), c10TinyWAL("x"), c10TinyWAL("yz")}
	default:
		b.real = true
		dir, err := os.MkdirTemp(scratch, "src-")
		c10Must(err)
		s, err := NewStore(dir)
		c10Must(err)
		defer s.Close()
		s.reapDisabled.Set()
		s.fatalFn = nil
		id := c10Snap(s, scratch, 10, td+"backup.db")
		switch name {
		case "real-full":
		case "real-full-inc":
			id = c10Snap(s, scratch, 11, "", td+"wal-00")
		case "real-full-3inc":
			c10Snap(s, scratch, 11, "", td+"wal-00")
			c10Snap(s, scratch, 12, "", td+"wal-01")
			id = c10Snap(s, scratch, 13, "", td+"wal-02", td+"wal-03")
		case "real-installed":
			// the stream of full+inc installed into a second real store; that store's own stream is the base
			id = c10Snap(s, scratch, 11, "", td+"wal-00")
			stream, _ := c10OpenStream(s, id)
			dir2, err := os.MkdirTemp(scratch, "dst-")
			c10Must(err)
			s2, err := NewStore(dir2)
			c10Must(err)
			defer s2.Close()
			s2.reapDisabled.Set()
			s2.fatalFn = nil
			sk, err := s2.Create(1, 11, 1, raft.Configuration{}, 1, nil)
			c10Must(err)
			_, err = io.Copy(sk, bytes.NewReader(stream))
			c10Must(err)
			c10Must(sk.Close())
			b.stream, b.files = c10OpenStream(s2, sk.ID())
		default:
			panic("unknown shape " + name)
		}
		if b.stream == nil {
			b.stream, b.files = c10OpenStream(s, id)
		}
	}
	if b.stream == nil {
		b.stream, b.hdrLen = c10Frame(c10HeaderFor(b.files), b.files...)
	} else {
		b.hdrLen = int(binary.BigEndian.Uint32(b.stream[:4]))
	}
	if b.real {
		var err error
		b.expDB, err = c10Replay(scratch, b.files)
		c10Must(err)
	}
	return b
}

// ---------------------------------------------------------------- reference parse (property text)

// c10RefParse says whether s is exactly: 4-byte length, a header that decodes to a full
// snapshot, and then precisely the files the header describes (sizes and CRC-32C), nothing
// missing and nothing left over.  Returns the files.
func c10RefParse(s []byte) ([][]byte, bool) {
	if len(s) < 4 {
		return nil, false
	}
	n := int(binary.BigEndian.Uint32(s[:4]))
	if n < 0 || len(s)-4 < n {
		return nil, false
	}
	h := &proto.SnapshotHeader{}
	if pb.Unmarshal(s[4:4+n], h) != nil {
		return nil, false
	}
	full := h.GetFull()
	if full == nil || full.DbHeader == nil {
		return nil, false
	}
	rest := s[4+n:]
	var files [][]byte
	for _, fh := range append([]*proto.Header{full.DbHeader}, full.WalHeaders...) {
		if fh.SizeBytes > uint64(len(rest)) {
			return nil, false
		}
		f := rest[:fh.SizeBytes]
		rest = rest[fh.SizeBytes:]
		if crc32.Checksum(f, c10Castagnoli) != fh.Crc32 {
			return nil, false
		}
		files = append(files, f)
	}
	if len(rest) != 0 {
		return nil, false
	}
	return files, true
}

// ---------------------------------------------------------------- running one stream

type c10Obs struct {
	class  int
	code   int
	codeIx int
	ix     int
	sums   [][2]uint64
	read   int64
	files  [][]byte // installed / restored bytes (not sent to the model)
	errStr string
}

func c10Ix(msg, marker string) int {
	i := strings.Index(msg, marker)
	if i < 0 {
		return 0
	}
	var n int
	fmt.Sscanf(msg[i+len(marker):], "%d", &n)
	return n
}

func c10Classify(err error) (int, int) {
	m := err.Error()
	switch {
	case strings.Contains(m, "failed to unmarshal snapshot header"), strings.Contains(m, "unmarshaling header"):
		return 1, 0
	case strings.Contains(m, "unrecognized snapshot header payload"):
		return 2, 0
	case strings.Contains(m, "full snapshot needed before incremental"):
		return 3, 0
	case strings.Contains(m, "unexpected data after incremental file header"):
		return 4, 0
	case strings.Contains(m, ErrHeaderInvalid.Error()):
		return 5, 0
	case strings.Contains(m, ErrUnexpectedData.Error()):
		return 6, 0
	case strings.Contains(m, ErrIncomplete.Error()):
		return 7, 0
	case strings.Contains(m, ErrInvalidSQLiteFile.Error()):
		return 8, 0
	case strings.Contains(m, ErrInvalidWALFile.Error()):
		return 9, c10Ix(m, "WAL file ")
	case strings.Contains(m, "CRC32 mismatch for DB file"):
		return 10, 0
	case strings.Contains(m, "CRC32 mismatch for WAL file"):
		return 11, c10Ix(m, "CRC32 mismatch for WAL file ")
	case strings.Contains(m, "reading header length"):
		return 12, 0
	case strings.Contains(m, "reading header:"):
		return 13, 0
	case strings.Contains(m, "snapshot has no database"):
		return 14, 0
	case strings.Contains(m, "extracting database"):
		return 15, 0
	case strings.Contains(m, "extracting WAL"):
		return 16, c10Ix(m, "extracting WAL ")
	}
	return 99, 0
}

func c10Cut(s []byte, lens []int) [][]byte {
	var out [][]byte
	for _, l := range lens {
		if len(s) == 0 {
			return out
		}
		if l > len(s) {
			l = len(s)
		}
		out = append(out, s[:l])
		s = s[l:]
	}
	if len(s) > 0 {
		out = append(out, s)
	}
	return out
}

func c10Sum(b []byte) [2]uint64 {
	return [2]uint64{uint64(len(b)), uint64(crc32.Checksum(b, c10Castagnoli))}
}

func c10RunSink(scratch string, s []byte, fn bool, lens []int) (o c10Obs) {
	dir, err := os.MkdirTemp(scratch, "sink-")
	c10Must(err)
	defer os.RemoveAll(dir)
	meta := &raft.SnapshotMeta{ID: "1-7-1", Index: 7, Term: 1, Version: 1}
	sink := NewSink(dir, meta, c10STC{fn}, nil)
	sink.fatalFn = nil
	c10Must(sink.Open())
	for i, c := range c10Cut(s, lens) {
		n, err := sink.Write(c)
		if err != nil {
			sink.Cancel()
			o.class, o.ix, o.errStr = 3, i, err.Error()
			o.code, o.codeIx = c10Classify(err)
			return o
		}
		if n != len(c) {
			o.class, o.code, o.errStr = 3, 98, "short write without error"
			return o
		}
	}
	if err := sink.Close(); err != nil {
		o.errStr = err.Error()
		if strings.Contains(o.errStr, "failed to move WAL directory") {
			o.class = 1
			return o
		}
		o.class = 4
		o.code, o.codeIx = c10Classify(err)
		return o
	}
	snapDir := filepath.Join(dir, meta.ID)
	if _, err := os.Stat(snapDir); err != nil {
		o.class = 2
		return o
	}
	o.class = 0
	names := []string{filepath.Join(snapDir, dbfileName)}
	wals, _ := filepath.Glob(filepath.Join(snapDir, "*"+walfileSuffix))
	sort.Strings(wals)
	names = append(names, wals...)
	for _, p := range names {
		b, err := os.ReadFile(p)
		if err != nil {
			o.errStr = "installed snapshot lacks " + filepath.Base(p)
			b = nil
		}
		o.files = append(o.files, b)
		o.sums = append(o.sums, c10Sum(b))
		// the sidecar written next to it must record this very checksum
		if ok, err := sidecar.CompareFile(p, p+crcSuffix); err != nil || !ok {
			o.errStr = "sidecar of " + filepath.Base(p) + " does not match the installed bytes"
		}
	}
	return o
}

type c10Reader struct {
	s    []byte
	lens []int
}

func (r *c10Reader) Read(p []byte) (int, error) {
	if len(r.s) == 0 {
		return 0, io.EOF
	}
	n := len(r.s)
	if len(r.lens) > 0 {
		n = r.lens[0]
		r.lens = r.lens[1:]
	}
	if n > len(p) {
		n = len(p)
	}
	if n > len(r.s) {
		n = len(r.s)
	}
	copy(p, r.s[:n])
	r.s = r.s[n:]
	return n, nil
}

func c10RunRestore(scratch string, s []byte, lens []int) (o c10Obs) {
	dir, err := os.MkdirTemp(scratch, "rst-")
	c10Must(err)
	defer os.RemoveAll(dir)
	dst := filepath.Join(dir, "restored.db")
	defer func() {
		if r := recover(); r != nil {
			o = c10Obs{class: 5, errStr: fmt.Sprintf("panic: %v", r)}
		}
	}()
	n, err := Restore(&c10Reader{s: s, lens: append([]int{}, lens...)}, dst)
	o.read = n
	if err != nil {
		o.errStr = err.Error()
		if strings.Contains(o.errStr, "checkpointing WALs") {
			o.class = 0
		} else {
			o.class = 4
			o.code, o.codeIx = c10Classify(err)
			return o
		}
	}
	if b, err := os.ReadFile(dst); err == nil {
		o.files = [][]byte{b}
		o.sums = [][2]uint64{c10Sum(b)}
	}
	return o
}

// c10Transport pushes s through the real Compressor (declared size) and Decompressor.
func c10Transport(s []byte, size int64, bufSz int, lens []int) ([]byte, error) {
	if bufSz <= 0 {
		bufSz = zstd.DefaultBufferSize
	}
	c, err := zstd.NewCompressor(&c10Reader{s: s, lens: append([]int{}, lens...)}, size, bufSz)
	if err != nil {
		return nil, err
	}
	wire, err := io.ReadAll(c)
	if err != nil {
		return nil, err
	}
	c.Close()
	d := zstd.NewDecompressor(&c10Reader{s: wire, lens: append([]int{}, lens...)})
	return io.ReadAll(d)
}

// ---------------------------------------------------------------- Gallina

func c10CoqHdr(s []byte) string {
	if len(s) < 4 {
		return "None"
	}
	n := int(binary.BigEndian.Uint32(s[:4]))
	if len(s)-4 < n {
		return "None"
	}
	h := &proto.SnapshotHeader{}
	if pb.Unmarshal(s[4:4+n], h) != nil {
		return "None"
	}
	fh := func(x *proto.Header) string {
		return fmt.Sprintf("{| h_size := %s; h_crc := %s |}", coqN(x.GetSizeBytes()), coqN(uint64(x.GetCrc32())))
	}
	switch p := h.Payload.(type) {
	case *proto.SnapshotHeader_Full:
		var ws []string
		for _, w := range p.Full.WalHeaders {
			ws = append(ws, fh(w))
		}
		return fmt.Sprintf("(Some (HFull %s %s))", coqOpt(p.Full.DbHeader != nil, fh(p.Full.DbHeader)), coqList(ws))
	case *proto.SnapshotHeader_IncrementalFile:
		return fmt.Sprintf("(Some (HInc %s))", coqBytes([]byte(p.IncrementalFile.WalDirPath)))
	}
	return "(Some HNoPayload)"
}

func c10CoqTrial(t c10Trial, s []byte, o c10Obs) string {
	kind := "KSink"
	if t.Kind == "restore" {
		kind = "KRestore"
	}
	var sums, lens []string
	for _, x := range o.sums {
		sums = append(sums, coqPair(coqN(x[0]), coqN(x[1])))
	}
	for _, l := range t.Chunks {
		lens = append(lens, coqN(uint64(l)))
	}
	return fmt.Sprintf("{| t_kind := %s; t_fn := %s; t_pos := %s; t_len := %s; t_ins := %s; t_comp := %s; t_chunks := %s; t_dec := %s; "+
		"t_obs := {| o_class := %s; o_err := %s; o_ix := %s; o_files := %s; o_read := %s |} |}",
		kind, coqBool(t.FN), coqN(uint64(t.Pos)), coqN(uint64(t.Len)), coqBytes(t.Ins), coqOpt(t.Comp >= 0, coqN(uint64(t.Comp))),
		coqList(lens), c10CoqHdr(s),
		coqN(uint64(o.class)), coqPair(coqN(uint64(o.code)), coqN(uint64(o.codeIx))), coqN(uint64(o.ix)), coqList(sums), coqN(uint64(o.read)))
}

// c10CoqHex renders b as Model.C10's run-length coded base: (zero run, hex of up to 32 literal bytes)
func c10CoqHex(b []byte) string {
	var parts []string
	for len(b) > 0 {
		z := 0
		for z < len(b) && b[z] == 0 {
			z++
		}
		b = b[z:]
		n := 0
		for n < len(b) && n < 32 {
			// a literal run ends where at least 8 zero bytes follow
			if b[n] == 0 {
				k := n
				for k < len(b) && k < n+8 && b[k] == 0 {
					k++
				}
				if k == n+8 || k == len(b) {
					break
				}
			}
			n++
		}
		parts = append(parts, coqPair(coqN(uint64(z)), coqStr(hex.EncodeToString(b[:n]))))
		b = b[n:]
	}
	return coqList(parts)
}

// ---------------------------------------------------------------- one trial: run, oracle

type c10Done struct {
	trial c10Trial
	coq   string
	fail  string
	sig   string
	nontr bool
}

func c10Splice(base []byte, t c10Trial) []byte {
	pos, l := t.Pos, t.Len
	if pos > len(base) {
		pos = len(base)
	}
	if pos+l > len(base) {
		l = len(base) - pos
	}
	out := append([]byte{}, base[:pos]...)
	out = append(out, t.Ins...)
	return append(out, base[pos+l:]...)
}

func c10RunTrial(scratch string, b *c10Base, t c10Trial) c10Done {
	d := c10Done{trial: t}
	s0 := c10Splice(b.stream, t)
	s := s0
	mutated := !bytes.Equal(s0, b.stream)
	if t.Comp >= 0 {
		var err error
		s, err = c10Transport(s0, t.Comp, t.BufSz, t.Chunks)
		if err != nil {
			d.fail, d.sig = "compressed transport failed on an intact wire: "+err.Error(), "C10:transport:error"
			return d
		}
		want := s0
		if t.Comp < int64(len(want)) {
			want = want[:t.Comp]
		}
		if !bytes.Equal(s, want) {
			d.fail, d.sig = fmt.Sprintf("decompress(compress(stream, size=%d)) returned %d bytes that are not the first min(size,len) bytes of the %d-byte stream", t.Comp, len(s), len(s0)), "C10:transport:alters-stream"
			return d
		}
		if t.Comp < int64(len(s0)) {
			mutated = true
		}
	}
	var o c10Obs
	if t.Kind == "sink" {
		o = c10RunSink(scratch, s, t.FN, t.Chunks)
	} else {
		o = c10RunRestore(scratch, s, t.Chunks)
	}
	d.coq = c10CoqTrial(t, s, o)
	d.nontr = mutated

	// ---- the property, by reference
	refFiles, exact := c10RefParse(s)
	accepted := o.class == 0 && !(t.Kind == "restore" && strings.Contains(o.errStr, "checkpointing WALs"))
	what := fmt.Sprintf("shape %s, %s, mutation %q at %d (len %d, %d inserted), comp %d, chunks %v", b.name, t.Kind, t.Mut, t.Pos, t.Len, len(t.Ins), t.Comp, t.Chunks)
	switch {
	case o.class == 5:
		d.fail, d.sig = what+": "+o.errStr, "C10:restore:panic"
	case o.code == 99 || o.code == 98:
		d.fail, d.sig = what+": unclassified outcome: "+o.errStr, "C10:"+t.Kind+":unclassified-error"
	case accepted && !exact:
		kind := "header-does-not-describe-data"
		if fs, ok := c10RefParse(s[:c10FrameLen(s)]); ok && len(fs) > 0 && c10FrameLen(s) < len(s) {
			kind = "trailing-bytes"
		}
		d.fail, d.sig = what+": accepted a stream that is not an exact frame ("+kind+")", "C10:"+t.Kind+":accepts-inexact-stream:"+kind
	case accepted && t.Kind == "sink":
		if len(o.files) != len(refFiles) {
			d.fail, d.sig = what+fmt.Sprintf(": installed %d files, stream carries %d", len(o.files), len(refFiles)), "C10:sink:installed-data-differs"
		} else {
			for i := range refFiles {
				if !bytes.Equal(o.files[i], refFiles[i]) {
					d.fail, d.sig = what+fmt.Sprintf(": installed file %d differs from the bytes sent", i), "C10:sink:installed-data-differs"
				}
			}
		}
		if d.fail == "" && o.errStr != "" {
			d.fail, d.sig = what+": "+o.errStr, "C10:sink:sidecar-mismatch"
		}
	case accepted && t.Kind == "restore":
		exp := b.expDB
		same := len(refFiles) == len(b.files)
		for i := 0; same && i < len(refFiles); i++ {
			same = bytes.Equal(refFiles[i], b.files[i])
		}
		if !same || exp == nil {
			var err error
			if exp, err = c10Replay(scratch, refFiles); err != nil {
				exp = nil
			}
		}
		if len(o.files) != 1 || exp == nil || !bytes.Equal(o.files[0], exp) {
			d.fail, d.sig = what+": restored database is not the streamed database with the streamed WALs applied", "C10:restore:restored-db-differs"
		}
	case !accepted && !mutated && !t.FN:
		if t.Kind == "restore" && !b.real && o.class == 0 {
			break // hand-made WAL stubs cannot be checkpointed; the stream itself was accepted
		}
		d.fail, d.sig = what+": intact stream rejected: "+o.errStr, "C10:"+t.Kind+":valid-stream-rejected"
	case o.class == 2 && exact:
		d.fail, d.sig = what+": Close returned nil but nothing was installed for an exact frame", "C10:sink:nothing-installed"
	}
	return d
}

// c10FrameLen: the length the header of s claims for the whole stream (or len(s) if it cannot be told)
func c10FrameLen(s []byte) int {
	if len(s) < 4 {
		return len(s)
	}
	n := int(binary.BigEndian.Uint32(s[:4]))
	if len(s)-4 < n {
		return len(s)
	}
	h := &proto.SnapshotHeader{}
	if pb.Unmarshal(s[4:4+n], h) != nil || h.GetFull() == nil || h.GetFull().DbHeader == nil {
		return len(s)
	}
	tot := uint64(4 + n)
	tot += h.GetFull().DbHeader.SizeBytes
	for _, w := range h.GetFull().WalHeaders {
		tot += w.SizeBytes
	}
	if tot > uint64(len(s)) {
		return len(s)
	}
	return int(tot)
}

// ---------------------------------------------------------------- generators

func c10Chunks(rng *rand.Rand, n int) []int {
	switch rng.Intn(5) {
	case 0:
		return nil // one write
	case 1:
		return []int{1 + rng.Intn(n+1)}
	case 2:
		var ls []int
		for i, k := 0, 2+rng.Intn(6); i < k; i++ {
			ls = append(ls, 1+rng.Intn(n/2+1))
		}
		return ls
	case 3:
		var ls []int
		for i, k := 0, 1+rng.Intn(40); i < k; i++ {
			ls = append(ls, 1+rng.Intn(9))
		}
		return ls
	}
	return []int{1, 2, 1, 4, 1 + rng.Intn(n+1), 3}
}

// boundaries of the frame: after the length, after the header, after each file
func c10Bounds(b *c10Base) []int {
	bs := []int{0, 4, 4 + b.hdrLen}
	p := 4 + b.hdrLen
	for _, f := range b.files {
		p += len(f)
		bs = append(bs, p)
	}
	return bs
}

func c10HeaderMutations(b *c10Base) []c10Trial {
	var out []c10Trial
	add := func(name string, h *proto.SnapshotHeader, raw []byte) {
		hb := raw
		if h != nil {
			var err error
			hb, err = pb.Marshal(h)
			c10Must(err)
		}
		var l [4]byte
		binary.BigEndian.PutUint32(l[:], uint32(len(hb)))
		out = append(out, c10Trial{Mut: "hdr:" + name, Pos: 0, Len: 4 + b.hdrLen, Ins: append(l[:], hb...), Comp: -1})
	}
	base := func() *proto.SnapshotHeader { return c10HeaderFor(b.files) }
	h := base()
	h.GetFull().DbHeader.SizeBytes++
	add("db-size+1", h, nil)
	h = base()
	h.GetFull().DbHeader.SizeBytes--
	add("db-size-1", h, nil)
	h = base()
	h.GetFull().DbHeader.Crc32 ^= 1
	add("db-crc", h, nil)
	h = base()
	h.GetFull().DbHeader.SizeBytes = 1 << 63
	add("db-size-2^63", h, nil)
	h = base()
	h.GetFull().DbHeader.SizeBytes = 1<<64 - 1
	h.GetFull().DbHeader.Crc32 = 0
	add("db-size-max-crc0", h, nil)
	h = base()
	h.GetFull().DbHeader = nil
	add("no-db-header", h, nil)
	h = base()
	h.FormatVersion = 7
	add("format-version", h, nil)
	h = base()
	hb, _ := pb.Marshal(h)
	add("unknown-field", nil, append(append([]byte{}, hb...), 0x78, 0x05)) // field 15 varint 5
	h = base()
	h.GetFull().WalHeaders = append(h.GetFull().WalHeaders, &proto.Header{SizeBytes: 0, Crc32: 0})
	add("extra-empty-wal", h, nil)
	h = base()
	h.GetFull().WalHeaders = append(h.GetFull().WalHeaders, &proto.Header{SizeBytes: 5, Crc32: 9})
	add("extra-wal", h, nil)
	add("inc-payload", &proto.SnapshotHeader{FormatVersion: 1, Payload: &proto.SnapshotHeader_IncrementalFile{IncrementalFile: &proto.IncrementalFileSnapshot{WalDirPath: "/nonexistent/c10/waldir"}}}, nil)
	add("inc-empty-path", &proto.SnapshotHeader{FormatVersion: 1, Payload: &proto.SnapshotHeader_IncrementalFile{IncrementalFile: &proto.IncrementalFileSnapshot{}}}, nil)
	add("no-payload", &proto.SnapshotHeader{FormatVersion: 1}, nil)
	whole := func(name string, h *proto.SnapshotHeader) {
		s, _ := c10Frame(h)
		out = append(out, c10Trial{Mut: "hdr:" + name, Pos: 0, Len: len(b.stream), Ins: s, Comp: -1})
	}
	whole("inc-only", &proto.SnapshotHeader{FormatVersion: 1, Payload: &proto.SnapshotHeader_IncrementalFile{IncrementalFile: &proto.IncrementalFileSnapshot{WalDirPath: "/nonexistent/c10/waldir"}}})
	whole("inc-only-empty-path", &proto.SnapshotHeader{FormatVersion: 1, Payload: &proto.SnapshotHeader_IncrementalFile{IncrementalFile: &proto.IncrementalFileSnapshot{}}})
	add("empty-header", nil, []byte{})
	add("garbage-header", nil, []byte{0xff, 0xff, 0xff})
	if n := len(b.files) - 1; n > 0 {
		h = base()
		h.GetFull().WalHeaders = h.GetFull().WalHeaders[:n-1]
		add("drop-last-wal-header", h, nil)
		h = base()
		h.GetFull().WalHeaders[n-1].SizeBytes++
		add("wal-size+1", h, nil)
		h = base()
		h.GetFull().WalHeaders[n-1].SizeBytes--
		add("wal-size-1", h, nil)
		h = base()
		h.GetFull().WalHeaders[0].Crc32 ^= 0x80000000
		add("wal-crc", h, nil)
		h = base()
		h.GetFull().WalHeaders[n-1].SizeBytes = 1 << 63
		add("wal-size-2^63", h, nil)
		if n > 1 {
			h = base()
			w := h.GetFull().WalHeaders
			w[0], w[1] = w[1], w[0]
			add("swap-wal-headers", h, nil)
		}
		// the wal_headers field tag (0x12 inside FullSnapshot) turned into an unknown field: one flipped bit
		hb, _ := pb.Marshal(base())
		hb = append([]byte{}, hb...)
		full, _ := pb.Marshal(base().GetFull())
		if i := bytes.Index(hb, full); i >= 0 {
			dbh, _ := pb.Marshal(base().GetFull().DbHeader)
			j := i + 2 + len(dbh) // tag+len of db_header, then db_header
			if j < len(hb) && hb[j] == 0x12 {
				for k := j; k < len(hb); {
					if hb[k] != 0x12 {
						break
					}
					hb[k] ^= 0x40 // field 2 -> field 10
					k += 2 + int(hb[k+1])
				}
				add("wal-headers-tag-bit", nil, hb)
			}
		}
	}
	return out
}

func c10Mutations(b *c10Base, rng *rand.Rand, thorough bool) []c10Trial {
	n := len(b.stream)
	var ts []c10Trial
	flip := func(pos int, mask byte) c10Trial {
		return c10Trial{Mut: "flip", Pos: pos, Len: 1, Ins: []byte{b.stream[pos] ^ mask}, Comp: -1}
	}
	drop := func(pos int) c10Trial { return c10Trial{Mut: "drop", Pos: pos, Len: 1, Comp: -1} }
	ins := func(pos int) c10Trial {
		return c10Trial{Mut: "insert", Pos: pos, Len: 0, Ins: []byte{byte(rng.Intn(256))}, Comp: -1}
	}
	trunc := func(pos int) c10Trial { return c10Trial{Mut: "truncate", Pos: pos, Len: n - pos, Comp: -1} }
	var positions []int
	if !b.real {
		for p := 0; p < n; p++ {
			positions = append(positions, p)
		}
	} else {
		seen := map[int]bool{}
		addp := func(p int) {
			if p >= 0 && p < n && !seen[p] {
				seen[p] = true
				positions = append(positions, p)
			}
		}
		// the length prefix and the header: every byte (thorough) or every third one (the tiny
		// shapes mutate every byte of the same header layout)
		step := 3
		if thorough {
			step = 1
		}
		for p := len(b.name) % step; p < 4+b.hdrLen; p += step {
			addp(p)
		}
		for _, bd := range c10Bounds(b) {
			addp(bd - 1)
			addp(bd)
			addp(bd + 15) // inside the SQLite / WAL magic region
		}
		k := 10
		if thorough {
			k = 600
		}
		for i := 0; i < k; i++ {
			addp(rng.Intn(n))
		}
		if thorough {
			for p := 0; p < n; p += 509 {
				addp(p)
			}
		}
	}
	for _, p := range positions {
		if thorough && !b.real {
			for bit := 0; bit < 8; bit++ {
				ts = append(ts, flip(p, 1<<bit))
			}
		} else {
			ts = append(ts, flip(p, 1<<uint(rng.Intn(8))))
		}
		if !b.real || rng.Intn(3) == 0 || thorough {
			ts = append(ts, drop(p), ins(p))
		}
		if !b.real || rng.Intn(4) == 0 || thorough {
			ts = append(ts, trunc(p))
		}
	}
	ts = append(ts, ins(n), c10Trial{Mut: "append", Pos: n, Ins: []byte("trailing garbage after the last artifact"), Comp: -1},
		c10Trial{Mut: "append", Pos: n, Ins: []byte{0}, Comp: -1},
		c10Trial{Mut: "append-self", Pos: n, Ins: append([]byte{}, b.stream...), Comp: -1})
	ts = append(ts, c10HeaderMutations(b)...)
	return ts
}

// streams whose length prefix would make Restore allocate gigabytes are not fed to Restore
func c10HugeHeader(s []byte) bool {
	return len(s) >= 4 && binary.BigEndian.Uint32(s[:4]) > 1<<26
}

func c10Plan(b *c10Base, rng *rand.Rand, thorough bool) []c10Trial {
	n := len(b.stream)
	var ts []c10Trial
	both := func(t c10Trial) {
		t.Kind = "sink"
		ts = append(ts, t)
		t.Kind = "restore"
		ts = append(ts, t)
	}
	// intact stream: boundary splits, byte-by-byte (tiny), random splits, full-needed, transport
	both(c10Trial{Mut: "none", Comp: -1})
	for _, bd := range c10Bounds(b) {
		for _, d := range []int{-1, 0, 1} {
			if p := bd + d; p > 0 && p < n {
				both(c10Trial{Mut: "none", Comp: -1, Chunks: []int{p}})
			}
		}
	}
	if !b.real {
		ones := make([]int, n)
		for i := range ones {
			ones[i] = 1
		}
		both(c10Trial{Mut: "none", Comp: -1, Chunks: ones})
		for p := 1; p < n; p++ {
			ts = append(ts, c10Trial{Kind: "sink", Mut: "none", Comp: -1, Chunks: []int{p}})
		}
	}
	k := 6
	if thorough {
		k = 60
	}
	for i := 0; i < k; i++ {
		both(c10Trial{Mut: "none", Comp: -1, Chunks: c10Chunks(rng, n)})
	}
	ts = append(ts, c10Trial{Kind: "sink", Mut: "none", Comp: -1, FN: true, Chunks: c10Chunks(rng, n)})
	for _, bs := range []int{0, 7, 4096} {
		both(c10Trial{Mut: "none", Comp: int64(n), BufSz: bs, Chunks: c10Chunks(rng, n)})
	}
	both(c10Trial{Mut: "none", Comp: int64(n) + 9, BufSz: 64, Chunks: c10Chunks(rng, n)})
	both(c10Trial{Mut: "none", Comp: int64(n) - 1, BufSz: 64, Chunks: c10Chunks(rng, n)})
	both(c10Trial{Mut: "none", Comp: int64(4 + b.hdrLen), Chunks: c10Chunks(rng, n)})
	both(c10Trial{Mut: "none", Comp: 0})
	// mutated streams
	for _, m := range c10Mutations(b, rng, thorough) {
		m.Chunks = c10Chunks(rng, n)
		if strings.HasPrefix(m.Mut, "hdr:") || b.name == "tiny-db" || thorough {
			both(m)
			if m.Mut == "hdr:inc-payload" {
				m.Kind, m.FN = "sink", true
				ts = append(ts, m)
			}
			continue
		}
		m.Kind = []string{"sink", "restore"}[rng.Intn(2)]
		ts = append(ts, m)
	}
	var out []c10Trial
	for _, t := range ts {
		if t.Kind == "restore" && c10HugeHeader(c10Splice(b.stream, t)) {
			continue
		}
		out = append(out, t)
	}
	return out
}

// ---------------------------------------------------------------- test

func c10Emit(w *vWriter, b *c10Base, ds []c10Done) {
	in := c10Input{Shape: b.name}
	var coqs []string
	tags := map[string]bool{"shape=" + b.name: true}
	nontr := false
	keys := []string{b.name}
	fail, sig := "", ""
	for _, d := range ds {
		in.Trials = append(in.Trials, d.trial)
		if d.coq != "" {
			coqs = append(coqs, d.coq)
		}
		tags["kind="+d.trial.Kind] = true
		tags["mut="+strings.SplitN(d.trial.Mut, ":", 2)[0]] = true
		if d.trial.Comp >= 0 {
			tags["compressed"] = true
		}
		nontr = nontr || d.nontr
		keys = append(keys, vJSON(d.trial))
		if d.fail != "" && fail == "" {
			fail, sig = d.fail, d.sig
		}
	}
	c := VCase{Input: in, Nontrivial: nontr, Key: strings.Join(keys, "|"), OracleFail: fail, Sig: sig}
	if len(coqs) > 0 {
		c.Coq = fmt.Sprintf("{| c_base := %s; c_trials := %s |}", c10CoqHex(b.stream), coqList(coqs))
	}
	for _, k := range vSortedKeys(tags) {
		c.Tags = append(c.Tags, k)
	}
	w.Emit(c)
}

func TestVerif_C10(t *testing.T) {
	w := vOpen()
	defer w.Close()
	scratch := c10Scratch()
	defer os.RemoveAll(scratch)
	rng := vRand()
	thorough := vTier() == "thorough"

	if raw := vReplayInput(); raw != nil {
		var in c10Input
		if err := json.Unmarshal(raw, &in); err != nil {
			t.Fatal(err)
		}
		b, berr := c10TryBuildBase(in.Shape, scratch)
		if berr != "" {
			w.Emit(VCase{Input: in, Key: "base:" + in.Shape,
				OracleFail: "building the source snapshot '" + in.Shape + "' through the real store API failed: " + berr,
				Sig:        "C10:valid-stream-rejected:while-building-source"})
			return
		}
		var ds []c10Done
		for _, tr := range in.Trials {
			ds = append(ds, c10RunTrial(scratch, b, tr))
		}
		c10Emit(w, b, ds)
		return
	}

	shapes := []string{"tiny-db", "tiny-db-2wal", "real-full", "real-full-inc", "real-installed", "real-full-3inc"}
	if thorough {
		shapes = append(shapes, "tiny-db-wal")
	}
	type pending struct {
		b  *c10Base
		ds []c10Done
	}
	var small, big []pending
	for _, name := range shapes {
		b, berr := c10TryBuildBase(name, scratch)
		if berr != "" {
			// the real store cannot create, install or stream an intact snapshot of this shape
			w.Emit(VCase{Input: c10Input{Shape: name}, Key: "base:" + name, Tags: []string{"shape=" + name},
				OracleFail: "building the source snapshot '" + name + "' through the real store API failed: " + berr,
				Sig:        "C10:valid-stream-rejected:while-building-source"})
			continue
		}
		group := 1
		if b.real {
			group = 20
		}
		var cur []c10Done
		for _, tr := range c10Plan(b, rng, thorough) {
			d := c10RunTrial(scratch, b, tr)
			if d.fail != "" {
				// a failing trial is always reported on its own, so that the replay is minimal
				small = append(small, pending{b, []c10Done{d}})
				continue
			}
			cur = append(cur, d)
			if len(cur) == group {
				if b.real {
					big = append(big, pending{b, cur})
				} else {
					small = append(small, pending{b, cur})
				}
				cur = nil
			}
		}
		if len(cur) > 0 {
			big = append(big, pending{b, cur})
		}
	}
	// interleave the expensive (real-stream) cases among the cheap ones so that bin/check's
	// consecutive shards of model evaluations are balanced
	step := 1
	if len(big) > 0 {
		step = len(small)/len(big) + 1
	}
	bi := 0
	for i, p := range small {
		c10Emit(w, p.b, p.ds)
		if i%step == step-1 && bi < len(big) {
			c10Emit(w, big[bi].b, big[bi].ds)
			bi++
		}
	}
	for ; bi < len(big); bi++ {
		c10Emit(w, big[bi].b, big[bi].ds)
	}
}
