(* C09 — proofs about Model/C09.v.  The specification side (complete, sorted_catalog, chain_ok,
   the statements about FULL_NEEDED) is written from the property text. *)
From Coq Require Import List NArith Bool Lia ZifyBool ZifyN Permutation Sorted.
From RQ Require Import Model.C09.
Import ListNotations.
Open Scope N_scope.

(* ---------------------------------------------------------------- specification *)

(* a fully written snapshot directory: metadata and data (a database, or at least one WAL file) *)
Definition complete (d : dirc) : Prop := d_meta d = true /\ (d_db d = true \/ 0 < d_nwal d).

(* a is not newer than b, in the store's order (term, index, id) *)
Definition older_eq (a b : dirc) : Prop := dlt b a = false.

(* the catalog the store shows: exactly the complete directories, oldest first *)
Definition sorted_catalog (s : store) (l : list dirc) : Prop :=
  scan s = Some l /\ Permutation l (snaps s) /\ Sorted older_eq l /\ Forall complete l.

(* every listed snapshot has a full snapshot at or before it *)
Definition chain_ok (l : list dirc) : Prop :=
  match l with [] => True | d :: _ => is_full d = true end.

(* ---------------------------------------------------------------- the order *)

Lemma dlt_asym a b : dlt a b = true -> dlt b a = false.
Proof.
  unfold dlt. destruct (d_term a =? d_term b) eqn:Et.
  - apply N.eqb_eq in Et. rewrite Et, N.eqb_refl.
    destruct (d_index a =? d_index b) eqn:Ei.
    + apply N.eqb_eq in Ei. rewrite Ei, N.eqb_refl. lia.
    + apply N.eqb_neq in Ei. replace (d_index b =? d_index a) with false by (symmetry; apply N.eqb_neq; congruence). lia.
  - apply N.eqb_neq in Et. replace (d_term b =? d_term a) with false by (symmetry; apply N.eqb_neq; congruence). lia.
Qed.

Lemma insert_perm x l : Permutation (insert x l) (x :: l).
Proof.
  induction l as [|y r IH]; cbn [insert]; [reflexivity|].
  destruct (dlt x y); [reflexivity|]. rewrite IH. apply perm_swap.
Qed.

Lemma sorted_of_perm l : Permutation (sorted_of l) l.
Proof.
  induction l as [|x r IH]; cbn [sorted_of fold_right]; [reflexivity|].
  fold (sorted_of r). rewrite insert_perm, IH. reflexivity.
Qed.

Lemma insert_hdrel a x l : HdRel older_eq a l -> older_eq a x -> HdRel older_eq a (insert x l).
Proof.
  intros H Hx. destruct l as [|y r]; cbn [insert]; [constructor; assumption|].
  destruct (dlt x y); constructor; [assumption | inversion H; assumption].
Qed.

Lemma insert_sorted x l : Sorted older_eq l -> Sorted older_eq (insert x l).
Proof.
  induction l as [|y r IH]; intros H; cbn [insert].
  - repeat constructor.
  - destruct (dlt x y) eqn:E.
    + constructor; [assumption|]. constructor. unfold older_eq. apply dlt_asym. assumption.
    + inversion H; subst. constructor; [apply IH; assumption|].
      apply insert_hdrel; [assumption | exact E].
Qed.

Lemma sorted_of_sorted l : Sorted older_eq (sorted_of l).
Proof.
  induction l as [|x r IH]; cbn [sorted_of fold_right]; [constructor|]. apply insert_sorted. exact IH.
Qed.

(* ---------------------------------------------------------------- the invariant *)

Definition hdr_ok (k : sinkm) : Prop :=
  match k_hdr k with
  | HFullOK _ | HFullBad => d_db (k_dir k) = true
  | HInc n => 0 < n
  | HNone | HRejected => True
  end.

Definition inv (s : store) : Prop :=
  Forall (fun d => loadable d = true) (snaps s) /\ Forall hdr_ok (sinks s).

Lemma loadable_complete d : loadable d = true <-> complete d.
Proof.
  unfold loadable, complete. rewrite andb_true_iff, orb_true_iff, N.ltb_lt. tauto.
Qed.

Lemma find_sink_in s i k : find_sink s i = Some k -> In k (sinks s) /\ k_id k = i.
Proof.
  unfold find_sink. intros H. apply find_some in H. destruct H as [H1 H2]. apply N.eqb_eq in H2. auto.
Qed.

Lemma drop_sink_forall (P : sinkm -> Prop) l i : Forall P l -> Forall P (drop_sink l i).
Proof.
  intros H. unfold drop_sink. rewrite Forall_forall in *. intros x Hx. apply filter_In in Hx. apply H. tauto.
Qed.

(* what the micro-steps of an incremental close can do, for every cut point *)
Lemma run_micro_inc n s d fuel :
  match run_micro (HInc n) s d (close_steps (HInc n)) fuel with
  | (s1, d1, failed, complete) =>
    tmps s1 = tmps s /\ sinks s1 = sinks s /\ flag s1 = flag s /\ clock s1 = clock s /\ nsinks s1 = nsinks s /\
    (failed = true -> due_full s = true /\ snaps s1 = snaps s) /\
    (snaps s1 = snaps s \/
     (due_full s = false /\ failed = false /\ complete = true /\
      snaps s1 = set_content d true (d_db d) n false :: snaps s))
  end.
Proof.
  cbn [close_steps].
  destruct fuel as [|[|[|[|[|[|f]]]]]]; cbn [run_micro micro]; destruct (due_full s) eqn:E;
    cbn [run_micro micro upd snaps tmps sinks flag clock nsinks set_content d_meta d_db d_nwal d_incoming d_term d_index d_seq];
    repeat split; auto; try discriminate.
  all: try (destruct f; cbn [run_micro]; repeat split; auto; discriminate).
Qed.

Lemma run_micro_full h s d fuel : (h = HFullBad \/ exists n, h = HFullOK n) ->
  match run_micro h s d (close_steps h) fuel with
  | (s1, d1, failed, complete) =>
    tmps s1 = tmps s /\ sinks s1 = sinks s /\ clock s1 = clock s /\ nsinks s1 = nsinks s /\
    (snaps s1 = snaps s /\ flag s1 = flag s \/
     ((exists n, h = HFullOK n) /\ failed = false /\
      snaps s1 = set_content d true (d_db d) (d_nwal d) (d_incoming d) :: snaps s /\
      (flag s1 = flag s \/ (flag s1 = false /\ complete = true))))
  end.
Proof.
  intros [->|[n ->]]; cbn [close_steps].
  - destruct fuel; cbn [run_micro micro]; repeat split; auto.
  - destruct fuel as [|[|[|[|f]]]];
      cbn [run_micro micro upd snaps tmps sinks flag clock nsinks set_content d_meta d_db d_nwal d_incoming d_term d_index d_seq];
      repeat split; auto.
    all: try (right; repeat split; eauto; fail).
    all: try (destruct f; cbn [run_micro]; repeat split; auto; right; repeat split; eauto).
Qed.

(* ---------------------------------------------------------------- reap *)

Lemma split_go_spec l : forall older best o f n,
  split_go l older best = Some (o, f, n) ->
  best = Some (o, f, n) \/ (In f l /\ is_full f = true).
Proof.
  induction l as [|d r IH]; intros older best o f n H; cbn [split_go] in H; [left; assumption|].
  apply IH in H. destruct H as [H|[H1 H2]].
  - destruct (is_full d) eqn:E; [|left; assumption].
    inversion H; subst. right. split; [left; reflexivity | assumption].
  - right. split; [right; assumption | assumption].
Qed.

Lemma split_at_full_spec l o f n : split_at_full l = Some (o, f, n) -> In f l /\ is_full f = true.
Proof. intros H. apply split_go_spec in H. destruct H as [H|H]; [discriminate | assumption]. Qed.

Lemma scan_some s l : scan s = Some l -> l = sorted_of (snaps s) /\ Forall (fun d => loadable d = true) (snaps s).
Proof.
  unfold scan. destruct (forallb loadable (snaps s)) eqn:E; [|discriminate].
  intros H. inversion H. split; [reflexivity|]. apply Forall_forall. apply forallb_forall. assumption.
Qed.

Lemma scan_inv s : Forall (fun d => loadable d = true) (snaps s) -> scan s = Some (sorted_of (snaps s)).
Proof.
  intros H. unfold scan. replace (forallb loadable (snaps s)) with true; [reflexivity|].
  symmetry. apply forallb_forall. apply Forall_forall. assumption.
Qed.

(* the catalog after a reap: unchanged, or exactly one full snapshot *)
Lemma reap_cases s : inv s ->
  let s' := fst (reap s) in
  tmps s' = tmps s /\ sinks s' = sinks s /\ flag s' = flag s /\ nsinks s' = nsinks s /\
  (snaps s' = snaps s \/ exists c, snaps s' = [c] /\ loadable c = true /\ is_full c = true).
Proof.
  intros [Hs Hk]. unfold reap. rewrite (scan_inv s Hs).
  destruct (sorted_of (snaps s)) as [|a l] eqn:El; cbn [fst]; [repeat split; auto|].
  destruct (split_at_full (a :: l)) as [[[older f] newer]|] eqn:Es; [|repeat split; auto].
  destruct (split_at_full_spec _ _ _ _ Es) as [Hin Hf].
  assert (Hl : loadable f = true).
  { rewrite Forall_forall in Hs. apply Hs. eapply Permutation_in; [apply sorted_of_perm|]. rewrite El. assumption. }
  destruct l as [|b l']; [repeat split; auto|].
  destruct (match newer with [] => d_nwal f + sum_wals newer =? 0 | _ :: _ => false end).
  - cbn [fst upd snaps tmps sinks flag nsinks]. repeat split; auto. right. exists f. auto.
  - destruct (0 <? d_nwal f + sum_wals newer); cbn [fst snaps tmps sinks flag nsinks]; repeat split; auto.
    right. eexists. split; [reflexivity|]. split; reflexivity.
Qed.

(* ---------------------------------------------------------------- the invariant holds in every reachable state *)

Lemma hdr_ok_cons_forall k l i : hdr_ok k -> Forall hdr_ok l -> Forall hdr_ok (k :: drop_sink l i).
Proof. intros H1 H2. constructor; [assumption | apply drop_sink_forall; assumption]. Qed.

Lemma inv_step s o : inv s -> inv (fst (step s o)).
Proof.
  intros Hi. pose proof Hi as [Hs Hk]. destruct o as [t i|i n ok|i n|i m|i| | |]; cbn [step].
  - (* create *) split; cbn [fst snaps sinks]; [assumption|]. constructor; [exact I | assumption].
  - (* full payload *)
    destruct (find_sink s i) as [k|] eqn:Ef; [|assumption]. destruct (k_hdr k); try assumption.
    split; cbn [fst upd snaps sinks]; [assumption|]. apply hdr_ok_cons_forall; [|assumption].
    unfold hdr_ok. cbn [k_hdr k_dir]. destruct ok; reflexivity.
  - (* incremental payload *)
    destruct (find_sink s i) as [k|] eqn:Ef; [|assumption]. destruct (k_hdr k); try assumption.
    destruct (n =? 0) eqn:En; [assumption|]. apply N.eqb_neq in En.
    destruct (due_full s); split; cbn [fst upd snaps sinks]; try assumption;
      apply hdr_ok_cons_forall; try assumption; unfold hdr_ok; cbn [k_hdr k_dir]; [exact I | lia].
  - (* close *)
    destruct (find_sink s i) as [k|] eqn:Ef; [|assumption].
    destruct (find_sink_in _ _ _ Ef) as [Hin _].
    assert (Hok : hdr_ok k) by (rewrite Forall_forall in Hk; apply Hk; assumption).
    set (s0 := upd s (snaps s) (tmps s) (drop_sink (sinks s) i) (flag s)).
    assert (Hi0 : inv s0) by (split; cbn [s0 upd snaps sinks]; [assumption | apply drop_sink_forall; assumption]).
    destruct (k_hdr k) as [|n|  |n|] eqn:Eh; cbn [close_steps]; try exact Hi0.
    + (* full, complete payload *)
      set (fuel := match m with CNormal => _ | CFail k0 | CCrash k0 => k0 end).
      pose proof (run_micro_full (HFullOK n) s0 (k_dir k) fuel (or_intror (ex_intro _ n eq_refl))) as R.
      cbn [close_steps] in R.
      destruct (run_micro (HFullOK n) s0 (k_dir k) [MFullClose; MMeta; MRename; MClearFlag] fuel) as [[[s1 d1] failed] complete].
      destruct R as (R1 & R2 & R3 & R4 & R5).
      assert (Hi1 : inv s1).
      { destruct Hi0 as [A B]. split; [|rewrite R2; assumption].
        destruct R5 as [[E _]|(_ & _ & E & _)]; rewrite E; [assumption|].
        constructor; [|assumption]. unfold hdr_ok in Hok. rewrite Eh in Hok.
        unfold loadable. cbn [set_content d_meta d_db]. rewrite Hok. reflexivity. }
      match goal with |- inv (fst (let '(_, _) := _ in _)) => idtac | _ => idtac end.
      assert (G : forall sX, snaps sX = snaps s1 -> sinks sX = sinks s1 -> inv sX)
        by (intros sX E1 E2; destruct Hi1; split; [rewrite E1 | rewrite E2]; assumption).
      assert (GR : forall sX, snaps sX = snaps s1 -> inv (reopen sX))
        by (intros sX E1; destruct Hi1; split; cbn [reopen upd snaps sinks]; [rewrite E1; assumption | constructor]).
      destruct (existsb (fun x => d_seq x =? d_seq (k_dir k)) (snaps s1) || failed && false);
        destruct m as [|k0|k0]; try destruct complete; cbn [fst]; auto.
    + (* full, bad payload *)
      set (fuel := match m with CNormal => _ | CFail k0 | CCrash k0 => k0 end).
      pose proof (run_micro_full HFullBad s0 (k_dir k) fuel (or_introl eq_refl)) as R.
      cbn [close_steps] in R.
      destruct (run_micro HFullBad s0 (k_dir k) [MFullClose; MMeta; MRename; MClearFlag] fuel) as [[[s1 d1] failed] complete].
      destruct R as (R1 & R2 & R3 & R4 & R5).
      assert (Hi1 : inv s1).
      { destruct Hi0 as [A B]. split; [|rewrite R2; assumption].
        destruct R5 as [[E _]|([n' X] & _)]; [rewrite E; assumption | discriminate]. }
      assert (G : forall sX, snaps sX = snaps s1 -> sinks sX = sinks s1 -> inv sX)
        by (intros sX E1 E2; destruct Hi1; split; [rewrite E1 | rewrite E2]; assumption).
      assert (GR : forall sX, snaps sX = snaps s1 -> inv (reopen sX))
        by (intros sX E1; destruct Hi1; split; cbn [reopen upd snaps sinks]; [rewrite E1; assumption | constructor]).
      destruct (existsb (fun x => d_seq x =? d_seq (k_dir k)) (snaps s1) || failed && false);
        destruct m as [|k0|k0]; try destruct complete; cbn [fst]; auto.
    + (* incremental *)
      set (fuel := match m with CNormal => _ | CFail k0 | CCrash k0 => k0 end).
      pose proof (run_micro_inc n s0 (k_dir k) fuel) as R. cbn [close_steps] in R.
      destruct (run_micro (HInc n) s0 (k_dir k) [MRecheck; MMove; MDistribute; MRmIncoming; MMeta; MRename] fuel) as [[[s1 d1] failed] complete].
      destruct R as (R1 & R2 & R3 & R4 & R5 & R6 & R7).
      assert (Hi1 : inv s1).
      { destruct Hi0 as [A B]. split; [|rewrite R2; assumption].
        destruct R7 as [E|(_ & _ & _ & E)]; rewrite E; [assumption|].
        constructor; [|assumption]. unfold hdr_ok in Hok. rewrite Eh in Hok.
        unfold loadable. cbn [set_content d_meta d_db d_nwal].
        replace (0 <? n) with true by (symmetry; apply N.ltb_lt; assumption). apply orb_true_r. }
      assert (G : forall sX, snaps sX = snaps s1 -> sinks sX = sinks s1 -> inv sX)
        by (intros sX E1 E2; destruct Hi1; split; [rewrite E1 | rewrite E2]; assumption).
      assert (GR : forall sX, snaps sX = snaps s1 -> inv (reopen sX))
        by (intros sX E1; destruct Hi1; split; cbn [reopen upd snaps sinks]; [rewrite E1; assumption | constructor]).
      destruct (existsb (fun x => d_seq x =? d_seq (k_dir k)) (snaps s1) || failed && true);
        destruct m as [|k0|k0]; try destruct complete; cbn [fst]; auto.
  - (* cancel *)
    destruct (find_sink s i) as [k|]; [|assumption].
    destruct (k_hdr k); split; cbn [fst upd snaps sinks]; try assumption; apply drop_sink_forall; assumption.
  - (* set full needed *) split; assumption.
  - (* reap *)
    destruct (reap_cases s Hi) as (R1 & R2 & R3 & R4 & R5). split.
    + destruct R5 as [E|(c & E & Hc & _)]; rewrite E; [assumption | constructor; [assumption | constructor]].
    + rewrite R2. assumption.
  - (* reopen *) split; cbn [fst reopen upd snaps sinks]; [assumption | constructor].
Qed.

Lemma inv_empty : inv empty_store.
Proof. split; constructor. Qed.

Lemma inv_run ops : forall s, inv s -> inv (run s ops).
Proof. induction ops as [|o r IH]; intros s H; cbn [run]; [assumption|]. apply IH. apply inv_step. assumption. Qed.

(* ---------------------------------------------------------------- T1: the catalog is always well-formed *)

Theorem catalog_well_formed ops :
  exists l, sorted_catalog (run empty_store ops) l.
Proof.
  destruct (inv_run ops empty_store inv_empty) as [Hs _].
  exists (sorted_of (snaps (run empty_store ops))). repeat split.
  - apply scan_inv. assumption.
  - apply sorted_of_perm.
  - apply sorted_of_sorted.
  - rewrite Forall_forall in *. intros d Hd. apply loadable_complete. apply Hs.
    eapply Permutation_in; [apply sorted_of_perm | assumption].
Qed.

(* ---------------------------------------------------------------- how the catalog can change *)

Lemma due_full_upd s sk : due_full (upd s (snaps s) (tmps s) sk (flag s)) = due_full s.
Proof. reflexivity. Qed.

(* the possible results of the micro-steps, by cut point *)
Lemma run_micro_inc_enum n s d fuel :
  match run_micro (HInc n) s d (close_steps (HInc n)) fuel with
  | (s1, d1, failed, complete) =>
    flag s1 = flag s /\
    ((snaps s1 = snaps s /\ failed = false /\ complete = false) \/
     (snaps s1 = snaps s /\ failed = true /\ complete = false /\ due_full s = true) \/
     (snaps s1 = set_content d true (d_db d) n false :: snaps s /\ failed = false /\ complete = true /\ due_full s = false))
  end.
Proof.
  cbn [close_steps].
  destruct fuel as [|[|[|[|[|[|f]]]]]]; cbn [run_micro micro]; destruct (due_full s) eqn:E;
    cbn [run_micro micro upd snaps tmps sinks flag clock nsinks set_content d_meta d_db d_nwal d_incoming d_term d_index d_seq];
    try (destruct f; cbn [run_micro]); split; auto; tauto.
Qed.

Lemma run_micro_fullok_enum n s d fuel :
  match run_micro (HFullOK n) s d (close_steps (HFullOK n)) fuel with
  | (s1, d1, failed, complete) =>
    let d' := set_content d true (d_db d) (d_nwal d) (d_incoming d) in
    failed = false /\
    ((snaps s1 = snaps s /\ flag s1 = flag s /\ complete = false) \/
     (snaps s1 = d' :: snaps s /\ flag s1 = flag s /\ complete = false) \/
     (snaps s1 = d' :: snaps s /\ flag s1 = false /\ complete = true))
  end.
Proof.
  cbn [close_steps].
  destruct fuel as [|[|[|[|f]]]];
    cbn [run_micro micro upd snaps tmps sinks flag clock nsinks set_content d_meta d_db d_nwal d_incoming d_term d_index d_seq];
    try (destruct f; cbn [run_micro]); split; auto; tauto.
Qed.

Lemma run_micro_fullbad_enum s d fuel :
  match run_micro HFullBad s d (close_steps HFullBad) fuel with
  | (s1, d1, failed, complete) => snaps s1 = snaps s /\ flag s1 = flag s /\ complete = false
  end.
Proof. cbn [close_steps]. destruct fuel; cbn [run_micro micro]; auto. Qed.

(* everything a close can do, in one statement *)
Lemma close_cases s i m k : find_sink s i = Some k ->
  let s' := fst (step s (OClose i m)) in
  let r := snd (step s (OClose i m)) in
  (snaps s' = snaps s /\ flag s' = flag s /\ r <> RInstalledInc /\ r <> RInstalledFull) \/
  (exists n, k_hdr k = HInc n /\ due_full s = false /\ flag s' = flag s /\
             snaps s' = set_content (k_dir k) true (d_db (k_dir k)) n false :: snaps s) \/
  (exists n, k_hdr k = HFullOK n /\
             snaps s' = set_content (k_dir k) true (d_db (k_dir k)) (d_nwal (k_dir k)) (d_incoming (k_dir k)) :: snaps s /\
             (flag s' = flag s \/ (flag s' = false /\ r = RInstalledFull))).
Proof.
  intros Ef. cbn [step]. rewrite Ef.
  set (s0 := upd s (snaps s) (tmps s) (drop_sink (sinks s) i) (flag s)).
  destruct (k_hdr k) as [|n|  |n|] eqn:Eh; cbn [close_steps].
  - left. cbn. repeat split; discriminate.
  - set (fuel := match m with CNormal => _ | CFail k0 | CCrash k0 => k0 end).
    pose proof (run_micro_fullok_enum n s0 (k_dir k) fuel) as R. cbn [close_steps] in R.
    destruct (run_micro (HFullOK n) s0 (k_dir k) [MFullClose; MMeta; MRename; MClearFlag] fuel) as [[[s1 d1] failed] complete].
    cbv zeta in R. destruct R as (Rf & [(E1 & E2 & Ec)|[(E1 & E2 & Ec)|(E1 & E2 & Ec)]]); subst failed complete.
    + left. destruct (existsb (fun x => d_seq x =? d_seq (k_dir k)) (snaps s1) || false && false);
        destruct m as [|k0|k0]; cbn [fst snd reopen upd snaps flag]; rewrite ?E1, ?E2; repeat split; discriminate.
    + right. right. exists n. split; [reflexivity|].
      destruct (existsb (fun x => d_seq x =? d_seq (k_dir k)) (snaps s1) || false && false);
        destruct m as [|k0|k0]; cbn [fst snd reopen upd snaps flag]; rewrite ?E1, ?E2; split; auto.
    + right. right. exists n. split; [reflexivity|].
      destruct (existsb (fun x => d_seq x =? d_seq (k_dir k)) (snaps s1) || false && false);
        destruct m as [|k0|k0]; cbn [fst snd reopen upd snaps flag]; rewrite ?E1, ?E2; split; auto.
  - set (fuel := match m with CNormal => _ | CFail k0 | CCrash k0 => k0 end).
    pose proof (run_micro_fullbad_enum s0 (k_dir k) fuel) as R. cbn [close_steps] in R.
    destruct (run_micro HFullBad s0 (k_dir k) [MFullClose; MMeta; MRename; MClearFlag] fuel) as [[[s1 d1] failed] complete].
    destruct R as (E1 & E2 & Ec). subst complete. left.
    destruct (existsb (fun x => d_seq x =? d_seq (k_dir k)) (snaps s1) || failed && false);
      destruct failed; destruct m as [|k0|k0]; cbn [fst snd reopen upd snaps flag]; rewrite ?E1, ?E2; repeat split; discriminate.
  - set (fuel := match m with CNormal => _ | CFail k0 | CCrash k0 => k0 end).
    pose proof (run_micro_inc_enum n s0 (k_dir k) fuel) as R. cbn [close_steps] in R.
    destruct (run_micro (HInc n) s0 (k_dir k) [MRecheck; MMove; MDistribute; MRmIncoming; MMeta; MRename] fuel) as [[[s1 d1] failed] complete].
    destruct R as (E2 & [(E1 & Ff & Ec)|[(E1 & Ff & Ec & Ed)|(E1 & Ff & Ec & Ed)]]); subst failed complete.
    + left. destruct (existsb (fun x => d_seq x =? d_seq (k_dir k)) (snaps s1) || false && true);
        destruct m as [|k0|k0]; cbn [fst snd reopen upd snaps flag]; rewrite ?E1, ?E2; repeat split; discriminate.
    + left. destruct (existsb (fun x => d_seq x =? d_seq (k_dir k)) (snaps s1) || true && true);
        destruct m as [|k0|k0]; cbn [fst snd reopen upd snaps flag]; rewrite ?E1, ?E2; repeat split; discriminate.
    + right. left. exists n. split; [reflexivity|]. split; [exact Ed|].
      destruct (existsb (fun x => d_seq x =? d_seq (k_dir k)) (snaps s1) || false && true);
        destruct m as [|k0|k0]; cbn [fst snd reopen upd snaps flag]; rewrite ?E1, ?E2; split; auto.
  - left. cbn. repeat split; discriminate.
Qed.

(* T5: the catalog changes only by the insertion of one complete snapshot (a close) or by a
   consolidating reap; otherwise it is untouched *)
Theorem catalog_changes s o : inv s ->
  let s' := fst (step s o) in
  snaps s' = snaps s \/
  (exists i m d, o = OClose i m /\ snaps s' = d :: snaps s /\ complete d /\
                 sorted_of (snaps s') = insert d (sorted_of (snaps s))) \/
  (o = OReap /\ exists c, snaps s' = [c] /\ complete c /\ is_full c = true).
Proof.
  intros Hi. pose proof (inv_step s o Hi) as Hi'. destruct o as [t i|i n ok|i n|i m|i| | |].
  - left. reflexivity.
  - left. cbn [step]. destruct (find_sink s i) as [k|]; [|reflexivity]. destruct (k_hdr k); try reflexivity.
  - left. cbn [step]. destruct (find_sink s i) as [k|]; [|reflexivity]. destruct (k_hdr k); try reflexivity.
    destruct (n =? 0); [reflexivity|]. destruct (due_full s); reflexivity.
  - destruct (find_sink s i) as [k|] eqn:Ef; [|left; cbn [step]; rewrite Ef; reflexivity].
    pose proof (close_cases s i m k Ef) as C. cbv zeta in C. cbv zeta.
    destruct Hi' as [Hs' _].
    destruct C as [(E & _)|[(n & _ & _ & _ & E)|(n & _ & E & _)]].
    + left. exact E.
    + right. left. eexists i, m, _. split; [reflexivity|]. split; [exact E|]. split; [|rewrite E; reflexivity].
      rewrite E in Hs'. inversion Hs'; subst. apply loadable_complete. assumption.
    + right. left. eexists i, m, _. split; [reflexivity|]. split; [exact E|]. split; [|rewrite E; reflexivity].
      rewrite E in Hs'. inversion Hs'; subst. apply loadable_complete. assumption.
  - left. cbn [step]. destruct (find_sink s i) as [k|]; [destruct (k_hdr k)|]; reflexivity.
  - left. reflexivity.
  - destruct (reap_cases s Hi) as (_ & _ & _ & _ & [E|(c & E & Hc & Hf)]); [left; exact E|].
    right. right. split; [reflexivity|]. exists c. split; [exact E|]. split; [apply loadable_complete; exact Hc | exact Hf].
  - left. reflexivity.
Qed.

(* T3: an incremental snapshot is never accepted while a full snapshot is required *)
Theorem inc_never_accepted_while_full_needed s i m k n :
  find_sink s i = Some k -> k_hdr k = HInc n ->
  (snaps (fst (step s (OClose i m))) <> snaps s \/ snd (step s (OClose i m)) = RInstalledInc) ->
  due_full s = false /\ flag s = false.
Proof.
  intros Ef Eh H. pose proof (close_cases s i m k Ef) as C. cbv zeta in C.
  assert (D : due_full s = false).
  { destruct C as [(E & _ & N1 & _)|[(n' & _ & D & _)|(n' & E & _)]].
    - destruct H; congruence.
    - exact D.
    - congruence. }
  split; [exact D|]. unfold due_full in D. apply orb_false_iff in D. tauto.
Qed.

(* the incremental header itself is refused at Write time while a full snapshot is required *)
Theorem inc_header_refused_while_full_needed s i n k :
  find_sink s i = Some k -> k_hdr k = HNone -> n <> 0 -> due_full s = true ->
  snd (step s (OWriteInc i n)) = RFullNeeded /\
  forall m, snaps (fst (step (fst (step s (OWriteInc i n))) (OClose i m))) = snaps s.
Proof.
  intros Ef Eh Hn Hd. cbn [step]. rewrite Ef, Eh. replace (n =? 0) with false by (symmetry; apply N.eqb_neq; exact Hn).
  rewrite Hd. split; [reflexivity|]. intros m. cbn [fst step find_sink upd sinks find k_id]. rewrite N.eqb_refl.
  cbn [k_hdr close_steps fst upd snaps]. reflexivity.
Qed.

(* T4: FULL_NEEDED is cleared only by the successful installation of a full snapshot *)
Theorem flag_cleared_only_by_install s o : inv s ->
  flag s = true -> flag (fst (step s o)) = false ->
  exists i m k n, o = OClose i m /\ find_sink s i = Some k /\ k_hdr k = HFullOK n /\
                  snd (step s o) = RInstalledFull /\
                  exists d, snaps (fst (step s o)) = d :: snaps s /\ is_full d = d_db (k_dir k).
Proof.
  intros Hi Hf Hc. destruct o as [t i|i n ok|i n|i m|i| | |].
  - cbn in Hc. congruence.
  - cbn [step] in Hc. destruct (find_sink s i) as [k|]; [|cbn in Hc; congruence].
    destruct (k_hdr k); cbn in Hc; congruence.
  - cbn [step] in Hc. destruct (find_sink s i) as [k|]; [|cbn in Hc; congruence].
    destruct (k_hdr k); try (cbn in Hc; congruence).
    destruct (n =? 0); [cbn in Hc; congruence|]. destruct (due_full s); cbn in Hc; congruence.
  - destruct (find_sink s i) as [k|] eqn:Ef; [|cbn [step] in Hc; rewrite Ef in Hc; cbn in Hc; congruence].
    pose proof (close_cases s i m k Ef) as C. cbv zeta in C.
    destruct C as [(_ & E & _)|[(n & _ & _ & E & _)|(n & Eh & E & [F|[F R]])]]; try congruence.
    exists i, m, k, n. repeat split; try assumption. eexists. split; [exact E | reflexivity].
  - cbn [step] in Hc. destruct (find_sink s i) as [k|]; [destruct (k_hdr k)|]; cbn in Hc; congruence.
  - cbn in Hc. discriminate.
  - destruct (reap_cases s Hi) as (_ & _ & E & _). cbn [step] in Hc. congruence.
  - cbn in Hc. congruence.
Qed.

(* ---------------------------------------------------------------- T2: the chain shape, for raft's usage *)

(* strictly older by (term, index) *)
Definition plt (a b : dirc) : bool :=
  (d_term a <? d_term b) || ((d_term a =? d_term b) && (d_index a <? d_index b)).

(* raft's usage of the store: a sink is created only when no other sink is open, and with a
   (term, index) above every snapshot in the store *)
Definition seq_ok (s : store) (o : op) : Prop :=
  match o with
  | OCreate t i => sinks s = [] /\
                   forall d, In d (snaps s) -> (d_term d <? t) || ((d_term d =? t) && (d_index d <? i)) = true
  | _ => True
  end.

Fixpoint all_ok (s : store) (ops : list op) : Prop :=
  match ops with [] => True | o :: r => seq_ok s o /\ all_ok (fst (step s o)) r end.

Definition chain_inv (s : store) : Prop :=
  chain_ok (sorted_of (snaps s)) /\ (length (sinks s) <= 1)%nat /\
  forall k d, In k (sinks s) -> In d (snaps s) -> plt d (k_dir k) = true.

Lemma plt_dlt a b : plt a b = true -> dlt b a = false.
Proof.
  unfold plt, dlt. intros H. apply orb_true_iff in H. destruct H as [H|H].
  - apply N.ltb_lt in H. replace (d_term b =? d_term a) with false by (symmetry; apply N.eqb_neq; lia). lia.
  - apply andb_true_iff in H. destruct H as [H1 H2]. apply N.eqb_eq in H1. apply N.ltb_lt in H2.
    rewrite H1, N.eqb_refl. replace (d_index b =? d_index a) with false by (symmetry; apply N.eqb_neq; lia). lia.
Qed.

Lemma insert_keeps_head x l : l <> [] -> (forall y, In y l -> plt y x = true) -> hd x (insert x l) = hd x l.
Proof.
  intros Hne H. destruct l as [|y r]; [congruence|]. cbn [insert].
  rewrite (plt_dlt y x (H y (or_introl eq_refl))). reflexivity.
Qed.

Lemma chain_insert x l : (forall y, In y l -> plt y x = true) -> (l = [] -> is_full x = true) ->
  chain_ok l -> chain_ok (insert x l).
Proof.
  intros H Hx Hc. destruct l as [|y r]; cbn [insert chain_ok]; [apply Hx; reflexivity|].
  rewrite (plt_dlt y x (H y (or_introl eq_refl))). exact Hc.
Qed.

Lemma single_sink s i k : (length (sinks s) <= 1)%nat -> find_sink s i = Some k -> sinks s = [k] /\ drop_sink (sinks s) i = [].
Proof.
  intros L F. unfold find_sink in F. destruct (sinks s) as [|a [|b r]]; cbn [length] in L; [discriminate| |lia].
  cbn [find] in F. destruct (k_id a =? i) eqn:E; [|discriminate]. inversion F; subst.
  split; [reflexivity|]. unfold drop_sink. cbn [filter]. rewrite E. reflexivity.
Qed.

Lemma split_go_shape l : forall older best o f n,
  split_go l older best = Some (o, f, n) ->
  best = Some (o, f, n) \/ (exists pre, l = pre ++ f :: n).
Proof.
  induction l as [|d r IH]; intros older best o f n H; cbn [split_go] in H; [left; assumption|].
  apply IH in H. destruct H as [H|[pre H]].
  - destruct (is_full d); [|left; assumption]. inversion H; subst. right. exists []. reflexivity.
  - right. exists (d :: pre). rewrite H. reflexivity.
Qed.

Lemma last_in (l : list dirc) (f : dirc) : In (last l f) (f :: l).
Proof.
  induction l as [|a r IH]; [left; reflexivity|]. destruct r as [|b r'].
  - right. left. reflexivity.
  - change (last (a :: b :: r') f) with (last (b :: r') f). destruct IH as [E|E]; [left; exact E | right; right; exact E].
Qed.

(* the snapshot a reap leaves carries the (term, index) of a snapshot that was there *)
Lemma reap_key s : inv s ->
  snaps (fst (reap s)) = snaps s \/
  exists c x, snaps (fst (reap s)) = [c] /\ is_full c = true /\ In x (snaps s) /\
              d_term c = d_term x /\ d_index c = d_index x.
Proof.
  intros [Hs Hk]. unfold reap. rewrite (scan_inv s Hs).
  destruct (sorted_of (snaps s)) as [|a l] eqn:El; cbn [fst]; [left; reflexivity|].
  destruct (split_at_full (a :: l)) as [[[older f] newer]|] eqn:Es; [|left; reflexivity].
  destruct (split_at_full_spec _ _ _ _ Es) as [Hin Hf].
  assert (Sub : forall x, In x (a :: l) -> In x (snaps s))
    by (intros x Hx; eapply Permutation_in; [apply sorted_of_perm | rewrite El; exact Hx]).
  destruct l as [|b l']; [left; reflexivity|].
  destruct (match newer with [] => d_nwal f + sum_wals newer =? 0 | _ :: _ => false end).
  - right. exists f, f. cbn [fst upd snaps]. repeat split; auto.
  - destruct (0 <? d_nwal f + sum_wals newer); cbn [fst snaps]; [|left; reflexivity].
    right. eexists. exists (last newer f). split; [reflexivity|]. split; [reflexivity|].
    split; [|split; reflexivity]. apply Sub.
    unfold split_at_full in Es. apply split_go_shape in Es. destruct Es as [Es|[pre Es]]; [discriminate|].
    rewrite Es. apply in_or_app. right. apply last_in.
Qed.

Lemma chain_inv_step s o : inv s -> chain_inv s -> seq_ok s o -> chain_inv (fst (step s o)).
Proof.
  intros Hi (Hc & Hl & Hp) Hok. unfold chain_inv. destruct o as [t i|i n ok|i n|i m|i| | |].
  - (* create *)
    destruct Hok as [Hnil Hkeys]. cbn [step fst]. repeat split; cbn [snaps sinks].
    + exact Hc.
    + rewrite Hnil. cbn [length]. lia.
    + intros k d Hk Hd. rewrite Hnil in Hk. destruct Hk as [<-|[]]. cbn [k_dir]. unfold plt. cbn [d_term d_index].
      apply Hkeys. exact Hd.
  - (* full payload *)
    cbn [step]. destruct (find_sink s i) as [k|] eqn:Ef; [|repeat split; assumption].
    destruct (k_hdr k); try (repeat split; assumption).
    destruct (single_sink s i k Hl Ef) as [E1 E2]. cbn [fst upd snaps sinks]. rewrite E2. repeat split; [exact Hc | cbn [length]; lia|].
    intros k' d [<-|[]] Hd. cbn [k_dir]. specialize (Hp k d). rewrite E1 in Hp. specialize (Hp (or_introl eq_refl) Hd).
    unfold plt in *. cbn [set_content d_term d_index]. exact Hp.
  - (* incremental payload *)
    cbn [step]. destruct (find_sink s i) as [k|] eqn:Ef; [|repeat split; assumption].
    destruct (k_hdr k); try (repeat split; assumption).
    destruct (n =? 0); [repeat split; assumption|].
    destruct (single_sink s i k Hl Ef) as [E1 E2].
    assert (P : forall d, In d (snaps s) -> plt d (k_dir k) = true)
      by (intros d Hd; apply Hp; [rewrite E1; left; reflexivity | exact Hd]).
    destruct (due_full s); cbn [fst upd snaps sinks]; rewrite E2; (repeat split; [exact Hc | cbn [length]; lia|]);
      intros k' d [<-|[]] Hd; cbn [k_dir]; apply P; exact Hd.
  - (* close *)
    destruct (find_sink s i) as [k|] eqn:Ef; [|cbn [step]; rewrite Ef; repeat split; assumption].
    destruct (single_sink s i k Hl Ef) as [E1 E2].
    assert (P : forall d, In d (snaps s) -> plt d (k_dir k) = true)
      by (intros d Hd; apply Hp; [rewrite E1; left; reflexivity | exact Hd]).
    assert (Hok' : hdr_ok k).
    { destruct Hi as [_ Hk]. rewrite Forall_forall in Hk. apply Hk. rewrite E1. left. reflexivity. }
    assert (Sk : sinks (fst (step s (OClose i m))) = []).
    { cbn [step]. rewrite Ef.
      destruct (close_steps (k_hdr k)) eqn:Ec; [cbn [fst upd sinks]; exact E2|]. rewrite <- Ec.
      set (fuel := match m with CNormal => _ | CFail k0 | CCrash k0 => k0 end).
      set (s0 := upd s (snaps s) (tmps s) (drop_sink (sinks s) i) (flag s)).
      assert (S1 : sinks (fst (fst (fst (run_micro (k_hdr k) s0 (k_dir k) (close_steps (k_hdr k)) fuel)))) = []).
      { destruct (k_hdr k) as [|n|  |n|] eqn:Eh; try discriminate.
        - pose proof (run_micro_full (HFullOK n) s0 (k_dir k) fuel (or_intror (ex_intro _ n eq_refl))) as R.
          destruct (run_micro (HFullOK n) s0 (k_dir k) (close_steps (HFullOK n)) fuel) as [[[s1 d1] fl] cm].
          destruct R as (_ & R & _). cbn [fst]. rewrite R. exact E2.
        - pose proof (run_micro_full HFullBad s0 (k_dir k) fuel (or_introl eq_refl)) as R.
          destruct (run_micro HFullBad s0 (k_dir k) (close_steps HFullBad) fuel) as [[[s1 d1] fl] cm].
          destruct R as (_ & R & _). cbn [fst]. rewrite R. exact E2.
        - pose proof (run_micro_inc n s0 (k_dir k) fuel) as R.
          destruct (run_micro (HInc n) s0 (k_dir k) (close_steps (HInc n)) fuel) as [[[s1 d1] fl] cm].
          destruct R as (_ & R & _). cbn [fst]. rewrite R. exact E2. }
      destruct (run_micro (k_hdr k) s0 (k_dir k) (close_steps (k_hdr k)) fuel) as [[[s1 d1] fl] cm]. cbn [fst] in S1.
      destruct (existsb (fun x => d_seq x =? d_seq (k_dir k)) (snaps s1) || fl && match k_hdr k with HInc _ => true | _ => false end);
        destruct m as [|k0|k0]; try destruct cm; cbn [fst reopen upd sinks]; auto. }
    pose proof (close_cases s i m k Ef) as C. cbv zeta in C.
    unfold chain_inv. rewrite Sk. split; [|split; [cbn [length]; lia | intros k' d []]].
    destruct C as [(E & _)|[(n & Eh & D & _ & E)|(n & Eh & E & _)]]; rewrite E; [exact Hc| |].
    + cbn [sorted_of fold_right]. fold (sorted_of (snaps s)). apply chain_insert; [| |exact Hc].
      * intros y Hy. unfold plt. cbn [set_content d_term d_index]. apply (P y).
        eapply Permutation_in; [apply sorted_of_perm | exact Hy].
      * intros En. unfold due_full in D. apply orb_false_iff in D. destruct D as [_ D].
        destruct (snaps s) eqn:Es; [discriminate|]. cbn [sorted_of fold_right] in En.
        pose proof (insert_perm d (fold_right insert [] l)) as PP. rewrite En in PP. exfalso. exact (Permutation_nil_cons PP).
    + cbn [sorted_of fold_right]. fold (sorted_of (snaps s)). apply chain_insert; [| |exact Hc].
      * intros y Hy. unfold plt. cbn [set_content d_term d_index]. apply (P y).
        eapply Permutation_in; [apply sorted_of_perm | exact Hy].
      * intros _. unfold hdr_ok in Hok'. rewrite Eh in Hok'. unfold is_full. cbn [set_content d_db]. exact Hok'.
  - (* cancel *)
    cbn [step]. destruct (find_sink s i) as [k|] eqn:Ef; [|repeat split; assumption].
    destruct (single_sink s i k Hl Ef) as [E1 E2].
    destruct (k_hdr k); cbn [fst upd snaps sinks]; rewrite E2;
      (repeat split; [exact Hc | cbn [length]; lia | intros k' d []]).
  - repeat split; assumption.
  - (* reap *)
    destruct (reap_cases s Hi) as (_ & Rk & _). cbn [step]. unfold chain_inv. rewrite Rk.
    destruct (reap_key s Hi) as [E|(c & x & E & Hf & Hx & Et & Ei)]; rewrite E.
    + repeat split; assumption.
    + repeat split; [exact Hf | exact Hl|]. intros k d Hk [<-|[]]. specialize (Hp k x Hk Hx).
      unfold plt in *. rewrite Et, Ei. exact Hp.
  - (* reopen *) cbn [step fst reopen upd snaps sinks]. repeat split; [exact Hc | cbn [length]; lia | intros k d []].
Qed.

Lemma chain_inv_run ops : forall s, inv s -> chain_inv s -> all_ok s ops -> chain_inv (run s ops).
Proof.
  induction ops as [|o r IH]; intros s Hi Hc Ha; cbn [run]; [exact Hc|]. destruct Ha as [H1 H2].
  apply IH; [apply inv_step; exact Hi | apply chain_inv_step; assumption | exact H2].
Qed.

Lemma resolve_in_based l : forall b acc seq, (exists d, In d l /\ d_seq d = seq) -> resolve_in l (Some b) acc seq <> None.
Proof.
  induction l as [|d r IH]; intros b acc seq (x & Hx & Ex); [destruct Hx|].
  cbn [resolve_in]. destruct (is_full d); destruct (d_seq d =? seq) eqn:E; try discriminate.
  - apply IH. destruct Hx as [->|Hx]; [apply N.eqb_neq in E; congruence | exists x; auto].
  - apply IH. destruct Hx as [->|Hx]; [apply N.eqb_neq in E; congruence | exists x; auto].
Qed.

Lemma chain_resolves l d : chain_ok l -> In d l -> resolve_in l None 0 (d_seq d) <> None.
Proof.
  intros Hc Hd. destruct l as [|d0 r]; [destruct Hd|]. cbn [chain_ok] in Hc. cbn [resolve_in]. rewrite Hc.
  destruct (d_seq d0 =? d_seq d) eqn:E; [discriminate|].
  apply resolve_in_based. destruct Hd as [->|Hd]; [rewrite N.eqb_refl in E; discriminate | exists d; auto].
Qed.

(* T2: used the way raft uses it, every listed snapshot resolves to a full database and a chain of WALs *)
Theorem chain_shape ops : all_ok empty_store ops ->
  let s := run empty_store ops in
  exists l, scan s = Some l /\ chain_ok l /\ forall d, In d l -> resolve s (d_seq d) <> None.
Proof.
  intros Ha s.
  assert (Hi : inv s) by (apply inv_run; apply inv_empty).
  assert (Hc : chain_inv s).
  { apply chain_inv_run; [apply inv_empty | | exact Ha]. repeat split; cbn; [lia | intros k d []]. }
  destruct Hi as [Hs _]. destruct Hc as [Hc _].
  exists (sorted_of (snaps s)). split; [apply scan_inv; exact Hs|]. split; [exact Hc|].
  intros d Hd. unfold resolve. rewrite (scan_inv s Hs). apply chain_resolves; assumption.
Qed.

(* ---------------------------------------------------------------- concrete instances *)

Definition ex_base : list op := [OCreate 1 1; OWriteFull 0 1 true; OClose 0 CNormal].

(* the check-then-act history: the incremental is refused at Close and the flag survives *)
Example ex_flag_window :
  let ops := ex_base ++ [OCreate 1 2; OWriteInc 1 2; OSetFull] in
  let s := run empty_store ops in
  step s (OClose 1 CNormal) = (fst (step s (OClose 1 CNormal)), RFullNeeded) /\
  flag (fst (step s (OClose 1 CNormal))) = true /\
  option_map (map proj) (list_all (fst (step s (OClose 1 CNormal)))) = Some [(1, 1, true, 1)].
Proof. vm_compute. auto. Qed.

(* a chain, a crash in the middle of an incremental close, a restart, a reap *)
Example ex_chain :
  let ops := ex_base ++ [OCreate 1 2; OWriteInc 1 2; OClose 1 CNormal; OCreate 1 3; OWriteInc 2 1; OClose 2 (CCrash 4);
                         OCreate 1 4; OWriteInc 3 1; OClose 3 CNormal] in
  all_ok empty_store ops /\
  option_map (map proj) (list_all (run empty_store ops)) = Some [(1, 4, false, 1); (1, 2, false, 2); (1, 1, true, 1)] /\
  v_resolve (view_of (run empty_store ops) ROk) = [Some (1, 1, 4); Some (1, 1, 3); Some (1, 1, 1)] /\
  option_map (map proj) (list_all (fst (step (run empty_store ops) OReap))) = Some [(1, 4, true, 0)].
Proof.
  vm_compute. repeat split; auto;
    try (intros d H; repeat (destruct H as [<-|H]; [reflexivity|]); contradiction).
Qed.

(* the sequential-use premise of chain_shape is needed: with two sinks open at once the older
   one can be installed below the only full snapshot and then resolves to nothing *)
Example ex_interleaved_sinks :
  let ops := ex_base ++ [OCreate 1 2; OCreate 1 3; OWriteFull 2 0 true; OClose 2 CNormal; OReap;
                         OWriteInc 1 1; OClose 1 CNormal] in
  v_resolve (view_of (run empty_store ops) ROk) = [Some (1, 3, 0); None].
Proof. vm_compute. reflexivity. Qed.

Lemma inv_reachable ops : inv (run empty_store ops).
Proof. apply inv_run. apply inv_empty. Qed.
