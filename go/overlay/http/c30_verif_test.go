package http

// C30 driver: generated JSON parameter lists are sent through the real HTTP service
// (ParseRequest/makeParameter, QueryParams, response encoding) backed by a real db.DB.
// Oracles (independent of the Coq model):
//   binding  : a second, direct database/sql connection reads typeof()/value of what was stored in
//              an untyped column and compares it with the class/value the property text assigns to
//              the JSON value;
//   read-back: the same direct connection reads every stored cell (untyped, INTEGER, REAL, TEXT, BLOB
//              column and an expression); the HTTP JSON response (decoded with json.Number) must be the
//              exact JSON form of that stored value, in all four result forms.
// The Coq model (Model/C30.v) gets the JSON parameters, the stored cells and the decoded responses.

import (
	"bytes"
	"database/sql"
	"encoding/base64"
	"encoding/json"
	"fmt"
	"io"
	"math"
	"math/rand"
	nethttp "net/http"
	"path/filepath"
	"reflect"
	"sort"
	"strconv"
	"strings"
	"sync"
	"testing"
	"unicode"
	"unicode/utf8"

	"github.com/rqlite/rqlite/v10/proxy"
	"github.com/rqlite/rqlite/v10/command/encoding"
	command "github.com/rqlite/rqlite/v10/command/proto"
	"github.com/rqlite/rqlite/v10/db"
	pb "google.golang.org/protobuf/proto"
)

// ---------------------------------------------------------------- inputs

type c30Val struct {
	K   string   `json:"k"` // null | bool | num | str | arr | obj
	B   bool     `json:"b,omitempty"`
	Num string   `json:"num,omitempty"` // number literal, sent verbatim
	Str string   `json:"str,omitempty"`
	Arr []c30Val `json:"arr,omitempty"` // elements of an array; members (keys k0,k1,..) of an object
}

type c30Input struct {
	Vals     []c30Val `json:"vals"`
	Form     string   `json:"form"`     // pos | named1 | namedN | mixed
	Endpoint string   `json:"endpoint"` // query | request
	Remote   bool     `json:"remote"`   // results travel through protobuf as they do between nodes
}

func (v c30Val) render() string {
	switch v.K {
	case "null":
		return "null"
	case "bool":
		if v.B {
			return "true"
		}
		return "false"
	case "num":
		return v.Num
	case "str":
		b, _ := json.Marshal(v.Str)
		return string(b)
	case "arr":
		it := make([]string, len(v.Arr))
		for i, e := range v.Arr {
			it[i] = e.render()
		}
		return "[" + strings.Join(it, ",") + "]"
	case "obj":
		it := make([]string, len(v.Arr))
		for i, e := range v.Arr {
			it[i] = fmt.Sprintf("%q:%s", fmt.Sprintf("k%d", i), e.render())
		}
		return "{" + strings.Join(it, ",") + "}"
	}
	panic("bad kind " + v.K)
}

// ---------------------------------------------------------------- stored values

type c30SV struct {
	C string // null | integer | real | text | blob
	I int64
	F uint64 // IEEE-754 bits
	T string
	B []byte
}

func (s c30SV) String() string {
	switch s.C {
	case "integer":
		return fmt.Sprintf("integer %d", s.I)
	case "real":
		return fmt.Sprintf("real %v (bits %#x)", math.Float64frombits(s.F), s.F)
	case "text":
		return fmt.Sprintf("text %q", s.T)
	case "blob":
		return fmt.Sprintf("blob x'%x'", s.B)
	}
	return "null"
}

func (s c30SV) eq(o c30SV) bool {
	return s.C == o.C && s.I == o.I && s.F == o.F && s.T == o.T && bytes.Equal(s.B, o.B)
}

func c30FromDriver(typ string, v any) (c30SV, error) {
	switch x := v.(type) {
	case nil:
		if typ == "null" {
			return c30SV{C: "null"}, nil
		}
	case int64:
		if typ == "integer" {
			return c30SV{C: "integer", I: x}, nil
		}
	case float64:
		if typ == "real" {
			return c30SV{C: "real", F: math.Float64bits(x)}, nil
		}
	case string:
		if typ == "text" {
			return c30SV{C: "text", T: x}, nil
		}
	case []byte:
		if typ == "blob" {
			return c30SV{C: "blob", B: append([]byte{}, x...)}, nil
		}
		if typ == "text" {
			return c30SV{C: "text", T: string(x)}, nil
		}
	}
	return c30SV{}, fmt.Errorf("direct connection: typeof=%s but Go value %T", typ, v)
}

// ---------------------------------------------------------------- the property's binding rule (from the text)

func c30IsSpace(r rune) bool { return unicode.IsSpace(r) }

// a hex blob literal: x'<pairs of hex digits>' (either case), optionally surrounded by white space
func c30HexLiteral(s string) ([]byte, bool) {
	t := strings.TrimFunc(s, c30IsSpace)
	if len(t) < 3 || (t[0] != 'x' && t[0] != 'X') || t[1] != '\'' || t[len(t)-1] != '\'' {
		return nil, false
	}
	h := t[2 : len(t)-1]
	if len(h)%2 != 0 {
		return nil, false
	}
	out := make([]byte, 0, len(h)/2)
	for i := 0; i < len(h); i += 2 {
		n, err := strconv.ParseUint(h[i:i+2], 16, 8)
		if err != nil || strings.ContainsAny(h[i:i+2], "+-_") {
			return nil, false
		}
		out = append(out, byte(n))
	}
	return out, true
}

func c30IntLiteral(lit string) (int64, bool) {
	d := strings.TrimPrefix(lit, "-")
	if d == "" {
		return 0, false
	}
	for _, c := range d {
		if c < '0' || c > '9' {
			return 0, false
		}
	}
	n, err := strconv.ParseInt(lit, 10, 64)
	return n, err == nil
}

// c30Spec: the storage class and value the property assigns to a JSON parameter; ok=false when the value
// has no SQLite counterpart (must be rejected).
func c30Spec(v c30Val) (c30SV, bool) {
	switch v.K {
	case "null":
		return c30SV{C: "null"}, true
	case "bool":
		if v.B {
			return c30SV{C: "integer", I: 1}, true
		}
		return c30SV{C: "integer", I: 0}, true
	case "num":
		if n, ok := c30IntLiteral(v.Num); ok {
			return c30SV{C: "integer", I: n}, true
		}
		f, err := strconv.ParseFloat(v.Num, 64)
		if err != nil {
			return c30SV{}, false
		}
		return c30SV{C: "real", F: math.Float64bits(f)}, true
	case "str":
		if b, ok := c30HexLiteral(v.Str); ok {
			return c30SV{C: "blob", B: b}, true
		}
		return c30SV{C: "text", T: v.Str}, true
	case "arr":
		out := []byte{}
		for _, e := range v.Arr {
			if e.K != "num" {
				return c30SV{}, false
			}
			n, ok := c30IntLiteral(e.Num)
			if !ok || n < 0 || n > 255 {
				return c30SV{}, false
			}
			out = append(out, byte(n))
		}
		return c30SV{C: "blob", B: out}, true
	}
	return c30SV{}, false
}

// ---------------------------------------------------------------- Gallina printers

func c30CPs(s string) string {
	ascii := len(s) > 2
	for i := 0; i < len(s); i++ {
		if s[i] < 32 || s[i] > 126 {
			ascii = false
		}
	}
	if ascii {
		return "(cps " + coqStr(s) + ")"
	}
	it := []string{}
	for _, r := range s {
		it = append(it, strconv.Itoa(int(r))+"%N")
	}
	return coqList(it)
}

func c30NumBits(lit string) string {
	f, err := strconv.ParseFloat(lit, 64)
	if err != nil {
		return "None"
	}
	return "(Some " + coqN(math.Float64bits(f)) + ")"
}

func (v c30Val) coq() string {
	switch v.K {
	case "null":
		return "JNull"
	case "bool":
		return "(JBool " + coqBool(v.B) + ")"
	case "num":
		return "(JNum " + coqStr(v.Num) + " " + c30NumBits(v.Num) + ")"
	case "str":
		return "(JStr " + c30CPs(v.Str) + ")"
	case "arr":
		it := make([]string, len(v.Arr))
		for i, e := range v.Arr {
			it[i] = e.coq()
		}
		return "(JArr " + coqList(it) + ")"
	case "obj":
		it := make([]string, len(v.Arr))
		for i, e := range v.Arr {
			it[i] = coqPair(coqStr(fmt.Sprintf("k%d", i)), e.coq())
		}
		return "(JObj " + coqList(it) + ")"
	}
	panic("kind")
}

func (s c30SV) coq() string {
	switch s.C {
	case "integer":
		return "(SInt " + coqZ(s.I) + ")"
	case "real":
		return "(SReal " + coqN(s.F) + ")"
	case "text":
		return "(SText " + c30CPs(s.T) + ")"
	case "blob":
		return "(SBlob " + coqBytes(s.B) + ")"
	}
	return "SNull"
}

// a decoded JSON response value as a Gallina jv
func c30AnyCoq(x any) string {
	switch v := x.(type) {
	case nil:
		return "JNull"
	case bool:
		return "(JBool " + coqBool(v) + ")"
	case json.Number:
		return "(JNum " + coqStr(string(v)) + " " + c30NumBits(string(v)) + ")"
	case string:
		return "(JStr " + c30CPs(v) + ")"
	case []any:
		it := make([]string, len(v))
		for i, e := range v {
			it[i] = c30AnyCoq(e)
		}
		return "(JArr " + coqList(it) + ")"
	case map[string]any:
		it := []string{}
		for _, k := range vSortedKeys(v) {
			it = append(it, coqPair(coqStr(k), c30AnyCoq(v[k])))
		}
		return "(JObj " + coqList(it) + ")"
	}
	return "JNull"
}

// ---------------------------------------------------------------- harness

type c30Env struct {
	t      *testing.T
	d      *db.DB
	direct *sql.DB
	url    string
	client *nethttp.Client
	remote bool
	nextCS int64
	close  func()
	mu     sync.Mutex
	last   any        // what the store handed to the HTTP layer for the latest query/request
	kept   []*c30Kept // every rendering made so far, kept to be looked at again later
}

// c30Kept: one result rendered with the real encoder.  `out` is the slice the encoder returned (NOT copied),
// `seen` its contents at that moment.  The encoder is a pure function of its input in the model, so `out` must
// still read `seen` after any number of later renderings, sequential or concurrent.
type c30Kept struct {
	in    c30Input
	form  c30Form
	value any
	out   []byte
	seen  string
}

func c30Roundtrip[T pb.Message](in T, out T) (T, error) {
	b, err := pb.Marshal(in)
	if err != nil {
		return out, err
	}
	if err := pb.Unmarshal(b, out); err != nil {
		return out, err
	}
	return out, nil
}

func c30NewEnv(t *testing.T) *c30Env {
	path := filepath.Join(t.TempDir(), "c30.db")
	d, err := db.Open(path, false, true)
	if err != nil {
		t.Fatal(err)
	}
	e := &c30Env{t: t, d: d, client: &nethttp.Client{}, nextCS: 1}
	if _, err := d.ExecuteStringStmt("CREATE TABLE typed(cs INTEGER, pos INTEGER, n, i INTEGER, r REAL, t TEXT, b BLOB)"); err != nil {
		t.Fatal(err)
	}
	e.direct, err = sql.Open("sqlite3", "file:"+path)
	if err != nil {
		t.Fatal(err)
	}
	e.direct.SetMaxOpenConns(1)
	m := &MockStore{
		// every write reaches the database through the Raft log, i.e. through protobuf
		executeFn: func(er *command.ExecuteRequest) ([]*command.ExecuteQueryResponse, uint64, error) {
			er, err := c30Roundtrip(er, &command.ExecuteRequest{})
			if err != nil {
				return nil, 0, err
			}
			r, err := d.Execute(er.Request, er.Timings)
			return r, 1, err
		},
		queryFn: func(qr *command.QueryRequest) ([]*command.QueryRows, uint64, error) {
			rows, err := d.Query(qr.Request, qr.Timings)
			if e.remote && err == nil {
				// a forwarded query: the serving node marshals the rows; a failure there closes the connection
				for i := range rows {
					if rows[i], err = c30Roundtrip(rows[i], &command.QueryRows{}); err != nil {
						return nil, 0, fmt.Errorf("forwarded query failed: %w", err)
					}
				}
			}
			e.mu.Lock()
			e.last = rows
			e.mu.Unlock()
			return rows, 1, err
		},
		requestFn: func(eqr *command.ExecuteQueryRequest) ([]*command.ExecuteQueryResponse, uint64, uint64, error) {
			eqr, err := c30Roundtrip(eqr, &command.ExecuteQueryRequest{})
			if err != nil {
				return nil, 0, 0, err
			}
			r, err := d.Request(eqr.Request, eqr.Timings)
			if e.remote && err == nil {
				for i := range r {
					if r[i], err = c30Roundtrip(r[i], &command.ExecuteQueryResponse{}); err != nil {
						return nil, 0, 0, fmt.Errorf("forwarded request failed: %w", err)
					}
				}
			}
			e.mu.Lock()
			e.last = r
			e.mu.Unlock()
			return r, 1, 1, err
		},
	}
	c := &mockClusterService{}
	s := New("127.0.0.1:0", m, c, proxy.New(m, c), nil)
	s.logger.SetOutput(io.Discard)
	if err := s.Start(); err != nil {
		t.Fatal(err)
	}
	e.url = "http://" + s.Addr().String()
	e.close = func() { s.Close(); e.direct.Close(); d.Close() }
	return e
}

func (e *c30Env) post(path, body string) (int, []byte) {
	resp, err := e.client.Post(e.url+path, "application/json", strings.NewReader(body))
	if err != nil {
		e.t.Fatalf("POST %s: %v", path, err)
	}
	defer resp.Body.Close()
	b, _ := io.ReadAll(resp.Body)
	return resp.StatusCode, b
}

var c30Cols = []string{"n", "i", "r", "t", "b", "e"}
var c30Decls = []string{"", "integer", "real", "text", "blob", ""}

const c30Select = "SELECT n, i, r, t, b, +n AS e FROM typed WHERE cs=%d ORDER BY pos"

// requestBody builds the INSERT statement and its JSON parameter list for the chosen form.
func c30RequestBody(in c30Input, cs int64) string {
	k := len(in.Vals)
	rows := make([]string, k)
	csSlot := "?1"
	if in.Form == "named1" || in.Form == "namedN" {
		csSlot = ":cs"
	}
	for j := 0; j < k; j++ {
		slot := fmt.Sprintf("?%d", j+2)
		if in.Form != "pos" {
			slot = fmt.Sprintf(":p%d", j+1)
		}
		rows[j] = fmt.Sprintf("(%s,%d,%s,%s,%s,%s,%s)", csSlot, j+1, slot, slot, slot, slot, slot)
	}
	sqlText, _ := json.Marshal("INSERT INTO typed(cs,pos,n,i,r,t,b) VALUES" + strings.Join(rows, ","))
	items := []string{string(sqlText)}
	switch in.Form {
	case "pos":
		items = append(items, strconv.FormatInt(cs, 10))
		for _, v := range in.Vals {
			items = append(items, v.render())
		}
	case "named1":
		m := []string{fmt.Sprintf(`"cs":%d`, cs)}
		for j, v := range in.Vals {
			m = append(m, fmt.Sprintf(`"p%d":%s`, j+1, v.render()))
		}
		items = append(items, "{"+strings.Join(m, ",")+"}")
	case "namedN":
		items = append(items, fmt.Sprintf(`{"cs":%d}`, cs))
		for j, v := range in.Vals {
			items = append(items, fmt.Sprintf(`{"p%d":%s}`, j+1, v.render()))
		}
	case "mixed":
		items = append(items, strconv.FormatInt(cs, 10))
		m := []string{}
		for j, v := range in.Vals {
			m = append(m, fmt.Sprintf(`"p%d":%s`, j+1, v.render()))
		}
		items = append(items, "{"+strings.Join(m, ",")+"}")
	}
	return "[[" + strings.Join(items, ",") + "]]"
}

// the flattened (name, value) parameter list in the order written, for the model
func c30ParamsCoq(in c30Input, cs int64) (params string, slots string) {
	csv := fmt.Sprintf("(JNum %s %s)", coqStr(strconv.FormatInt(cs, 10)), c30NumBits(strconv.FormatInt(cs, 10)))
	ps := []string{}
	sl := []string{}
	named := in.Form != "pos"
	if in.Form == "named1" || in.Form == "namedN" {
		ps = append(ps, coqPair(coqStr("cs"), csv))
	} else {
		ps = append(ps, coqPair(coqStr(""), csv))
	}
	for j, v := range in.Vals {
		if named {
			ps = append(ps, coqPair(coqStr(fmt.Sprintf("p%d", j+1)), v.coq()))
			sl = append(sl, fmt.Sprintf("(SlotName %s)", coqStr(fmt.Sprintf("p%d", j+1))))
		} else {
			ps = append(ps, coqPair(coqStr(""), v.coq()))
			sl = append(sl, fmt.Sprintf("(SlotPos %s)", coqNat(j+2)))
		}
	}
	return coqList(ps), coqList(sl)
}

type c30Form struct {
	Assoc, BlobArr bool
}

var c30Forms = []c30Form{{false, false}, {false, true}, {true, false}, {true, true}}

// expected JSON cell for a stored value (the property: exact integer, exact float, exact text, exact blob)
func c30CellOK(sv c30SV, f c30Form, got any) (ok bool, applicable bool) {
	switch sv.C {
	case "null":
		return got == nil, true
	case "integer":
		n, isn := got.(json.Number)
		return isn && string(n) == strconv.FormatInt(sv.I, 10), true
	case "real":
		fl := math.Float64frombits(sv.F)
		if math.IsInf(fl, 0) || math.IsNaN(fl) {
			return true, false // JSON has no such number
		}
		n, isn := got.(json.Number)
		if !isn {
			return false, true
		}
		g, err := strconv.ParseFloat(string(n), 64)
		return err == nil && math.Float64bits(g) == sv.F, true
	case "text":
		if !utf8.ValidString(sv.T) {
			return true, false // JSON strings cannot carry it
		}
		s, iss := got.(string)
		return iss && s == sv.T, true
	case "blob":
		if f.BlobArr {
			a, isa := got.([]any)
			if !isa || len(a) != len(sv.B) {
				return false, true
			}
			for i := range a {
				n, isn := a[i].(json.Number)
				if !isn || string(n) != strconv.Itoa(int(sv.B[i])) {
					return false, true
				}
			}
			return true, true
		}
		s, iss := got.(string)
		return iss && s == base64.StdEncoding.EncodeToString(sv.B), true
	}
	return false, true
}

func c30Decode(b []byte) (map[string]any, error) {
	dec := json.NewDecoder(bytes.NewReader(b))
	dec.UseNumber()
	var top map[string]any
	if err := dec.Decode(&top); err != nil {
		return nil, err
	}
	return top, nil
}

func c30Run(e *c30Env, w *vWriter, in c30Input) {
	cs := e.nextCS
	e.nextCS++
	e.remote = in.Remote
	body := c30RequestBody(in, cs)
	key := fmt.Sprintf("%s|%s|%v|%s", in.Form, in.Endpoint, in.Remote, strings.Replace(body, fmt.Sprint(cs), "CS", -1))
	tags := []string{"form=" + in.Form, "endpoint=" + in.Endpoint, fmt.Sprintf("remote=%v", in.Remote), fmt.Sprintf("vals=%d", len(in.Vals))}
	vc := VCase{Input: in, Key: key}
	fail := func(sig, msg string) {
		if vc.OracleFail == "" {
			vc.OracleFail, vc.Sig = msg, sig
		}
	}

	// what the property says must be stored
	want := make([]c30SV, len(in.Vals))
	allValid := true
	for j, v := range in.Vals {
		sv, ok := c30Spec(v)
		want[j] = sv
		if !ok {
			allValid = false
		}
		tags = append(tags, "json="+v.K)
		if ok {
			tags = append(tags, "class="+sv.C)
		} else {
			tags = append(tags, "class=invalid")
		}
	}
	vc.Nontrivial = c30Nontrivial(in, want)

	// ---- bind through the HTTP API
	ep := "/db/execute"
	if in.Endpoint == "request" {
		ep = "/db/request"
	}
	status, rb := e.post(ep, body)
	params, slots := c30ParamsCoq(in, cs)
	bindObs := ""
	stored := [][]c30SV{}
	if status != 200 {
		kind := "other"
		switch {
		case strings.Contains(string(rb), "unsupported type"):
			kind = "unsupported"
		case strings.Contains(string(rb), "invalid number"):
			kind = "number"
		}
		bindObs = fmt.Sprintf("(BErr %s)", coqStr(kind))
		tags = append(tags, "rejected="+kind)
		if allValid {
			fail("C30:valid-parameters-rejected", fmt.Sprintf("request %s rejected with %d %s", body, status, strings.TrimSpace(string(rb))))
		}
	} else {
		top, err := c30Decode(rb)
		if err != nil {
			e.t.Fatalf("undecodable execute response %q", rb)
		}
		if res, _ := top["results"].([]any); len(res) != 1 || res[0].(map[string]any)["error"] != nil {
			fail("C30:execute-error", fmt.Sprintf("request %s: response %s", body, rb))
			vc.Tags = tags
			w.Emit(vc)
			return
		}
		if !allValid {
			fail("C30:invalid-parameter-accepted", fmt.Sprintf("request %s accepted although a parameter has no SQLite counterpart", body))
		}
		// ---- direct read of everything that was stored
		rows, err := e.direct.Query("SELECT typeof(n), n, typeof(i), i, typeof(r), r, typeof(t), t, typeof(b), b FROM typed WHERE cs=? ORDER BY pos", cs)
		if err != nil {
			e.t.Fatal(err)
		}
		for rows.Next() {
			var ty [5]string
			var val [5]any
			if err := rows.Scan(&ty[0], &val[0], &ty[1], &val[1], &ty[2], &val[2], &ty[3], &val[3], &ty[4], &val[4]); err != nil {
				e.t.Fatal(err)
			}
			row := make([]c30SV, 6)
			for c := 0; c < 5; c++ {
				sv, err := c30FromDriver(ty[c], val[c])
				if err != nil {
					e.t.Fatal(err)
				}
				row[c] = sv
			}
			row[5] = row[0] // +n
			stored = append(stored, row)
		}
		rows.Close()
		if len(stored) != len(in.Vals) {
			fail("C30:row-count", fmt.Sprintf("request %s stored %d rows", body, len(stored)))
			vc.Tags = tags
			w.Emit(vc)
			return
		}
		bo := make([]string, len(stored))
		for j := range stored {
			bo[j] = stored[j][0].coq()
			if allValid && !stored[j][0].eq(want[j]) {
				fail(fmt.Sprintf("C30:bind-mismatch:%s:%s-as-%s", in.Vals[j].K, want[j].C, stored[j][0].C),
					fmt.Sprintf("parameter %s (%s form) must be stored as %s, SQLite holds %s", in.Vals[j].render(), in.Form, want[j], stored[j][0]))
			}
		}
		bindObs = "(BOk " + coqList(bo) + ")"
	}

	// ---- read back in the four result forms
	respObs := []string{}
	if len(stored) > 0 {
		q, _ := json.Marshal(fmt.Sprintf(c30Select, cs))
		for _, f := range c30Forms {
			path := "/db/query?level=none"
			if in.Endpoint == "request" {
				path = "/db/request?level=none"
			}
			if f.Assoc {
				path += "&associative"
			}
			if f.BlobArr {
				path += "&blob_array"
			}
			st, b := e.post(path, "[["+string(q)+"]]")
			if st != 200 {
				fail("C30:query-failed", fmt.Sprintf("query returned %d %s", st, strings.TrimSpace(string(b))))
				respObs = append(respObs, fmt.Sprintf("(%s, %s, RFail)", coqBool(f.Assoc), coqBool(f.BlobArr)))
				continue
			}
			top, err := c30Decode(b)
			if err != nil {
				e.t.Fatalf("undecodable response %q", b)
			}
			res, _ := top["results"].([]any)
			if len(res) != 1 {
				sig := "C30:query-failed"
				if in.Remote && strings.Contains(string(b), "invalid UTF-8") && c30HasRawBlob(stored) {
					sig = "C30:blob-from-untyped-or-text-column-breaks-forwarded-query"
				}
				fail(sig, fmt.Sprintf("stored %s; query response %s", c30Rows(stored), b))
				respObs = append(respObs, fmt.Sprintf("(%s, %s, RFail)", coqBool(f.Assoc), coqBool(f.BlobArr)))
				continue
			}
			r0 := res[0].(map[string]any)
			if r0["error"] != nil {
				fail("C30:query-failed", fmt.Sprintf("query response %s", b))
				respObs = append(respObs, fmt.Sprintf("(%s, %s, RFail)", coqBool(f.Assoc), coqBool(f.BlobArr)))
				continue
			}
			// the same result rendered by the encoder directly: must be what the HTTP reply carries, and is kept
			e.mu.Lock()
			captured := e.last
			e.mu.Unlock()
			if captured != nil {
				enc := encoding.Encoder{Associative: f.Assoc, BlobsAsByteArrays: f.BlobArr}
				if out, err := enc.JSONMarshal(captured); err == nil {
					kp := &c30Kept{in: in, form: f, value: captured, out: out, seen: string(out)}
					e.kept = append(e.kept, kp)
					dec := json.NewDecoder(strings.NewReader(kp.seen))
					dec.UseNumber()
					var direct any
					if err := dec.Decode(&direct); err != nil || !reflect.DeepEqual(direct, top["results"]) {
						fail("C30:encoder-and-http-reply-differ", fmt.Sprintf("encoder renders %s, the HTTP reply carries %s", kp.seen, b))
					}
				}
			}
			// cell(i, c) accessor
			var cell func(i, c int) (any, bool)
			nrows := 0
			if f.Assoc {
				rs, _ := r0["rows"].([]any)
				nrows = len(rs)
				cell = func(i, c int) (any, bool) {
					m, _ := rs[i].(map[string]any)
					v, ok := m[c30Cols[c]]
					return v, ok
				}
				respObs = append(respObs, fmt.Sprintf("(%s, %s, RAssoc %s %s)", coqBool(f.Assoc), coqBool(f.BlobArr), c30AnyCoq(r0["types"]), c30AnyCoq(r0["rows"])))
			} else {
				vs, _ := r0["values"].([]any)
				nrows = len(vs)
				cell = func(i, c int) (any, bool) {
					r, _ := vs[i].([]any)
					if c >= len(r) {
						return nil, false
					}
					return r[c], true
				}
				respObs = append(respObs, fmt.Sprintf("(%s, %s, RStd %s %s %s)", coqBool(f.Assoc), coqBool(f.BlobArr), c30AnyCoq(r0["columns"]), c30AnyCoq(r0["types"]), c30AnyCoq(r0["values"])))
			}
			if nrows != len(stored) {
				fail("C30:readback-row-count", fmt.Sprintf("%d rows stored, %d returned: %s", len(stored), nrows, b))
				continue
			}
			for i := range stored {
				for c := range c30Cols {
					got, present := cell(i, c)
					ok, app := c30CellOK(stored[i][c], f, got)
					if !app {
						continue
					}
					if !present || !ok {
						sig := fmt.Sprintf("C30:readback-mismatch:%s-from-%s-column", stored[i][c].C, c30DeclName(c))
						if s, iss := got.(string); iss && stored[i][c].C == "blob" && s == c30Lossy(stored[i][c].B) {
							sig = "C30:blob-from-untyped-or-text-column-returned-as-text"
							if c30Decls[c] != "" && c30Decls[c] != "text" {
								sig = "C30:blob-returned-as-text:" + c30DeclName(c)
							}
						}
						fail(sig, fmt.Sprintf("stored %s in %s column (row %d of %d); response (associative=%v blob_array=%v remote=%v) has %s",
							stored[i][c], c30DeclName(c), i+1, len(stored), f.Assoc, f.BlobArr, in.Remote, vJSON(got)))
					}
				}
			}
		}
	}
	sr := make([]string, len(stored))
	for i, r := range stored {
		it := make([]string, len(r))
		for c := range r {
			it[c] = r[c].coq()
		}
		sr[i] = coqList(it)
	}
	vc.Coq = fmt.Sprintf("{| c_remote := %s; c_params := %s; c_slots := %s; c_bind := %s; c_cols := %s; c_decls := %s; c_rows := %s; c_resp := %s |}",
		coqBool(in.Remote), params, slots, bindObs, coqStrList(c30Cols), coqStrList(c30Decls), coqList(sr), coqList(respObs))
	for i := range stored {
		for c := range stored[i] {
			tags = append(tags, "stored="+stored[i][c].C+"@"+c30DeclName(c))
		}
	}
	sort.Strings(tags)
	vc.Tags = c30Uniq(tags)
	w.Emit(vc)
}

// what encoding/json makes of string(b): every byte that is not part of a valid encoding becomes U+FFFD
func c30Lossy(b []byte) string {
	var sb strings.Builder
	for len(b) > 0 {
		r, n := utf8.DecodeRune(b)
		sb.WriteRune(r)
		b = b[n:]
	}
	return sb.String()
}

// a blob that is not valid UTF-8 sits in an untyped/TEXT column or is the value of an expression
func c30HasRawBlob(stored [][]c30SV) bool {
	for _, r := range stored {
		for c, v := range r {
			if v.C == "blob" && !utf8.Valid(v.B) && (c30Decls[c] == "" || c30Decls[c] == "text") {
				return true
			}
		}
	}
	return false
}

func c30Rows(stored [][]c30SV) string {
	var sb strings.Builder
	for i, r := range stored {
		fmt.Fprintf(&sb, "row %d: %s; ", i+1, r[0])
	}
	return sb.String()
}

func c30DeclName(c int) string {
	switch c {
	case 0:
		return "untyped"
	case 5:
		return "expression"
	}
	return strings.ToUpper(c30Decls[c])
}

func c30Uniq(s []string) []string {
	out := s[:0]
	for i, x := range s {
		if i == 0 || x != s[i-1] {
			out = append(out, x)
		}
	}
	return out
}

// non-trivial: a value at an extreme, non-UTF-8 bytes in a blob, or hex-looking text
func c30Nontrivial(in c30Input, want []c30SV) bool {
	for j, v := range in.Vals {
		sv := want[j]
		switch sv.C {
		case "integer":
			if sv.I == math.MaxInt64 || sv.I == math.MinInt64 || sv.I > 1<<53 || sv.I < -(1<<53) {
				return true
			}
		case "real":
			f := math.Abs(math.Float64frombits(sv.F))
			if f > 1e300 || (f != 0 && f < 1e-300) || (f >= 9.2e18 && f < 1.9e19) {
				return true
			}
		case "blob":
			if !utf8.Valid(sv.B) || len(sv.B) == 0 {
				return true
			}
		}
		if v.K == "str" && (strings.ContainsAny(v.Str, "'") && strings.ContainsAny(v.Str, "xX")) {
			return true
		}
	}
	return false
}

// ---------------------------------------------------------------- generators

var c30Nums = []string{
	"0", "-0", "1", "-1", "255", "256", "9007199254740993", "-9007199254740993",
	"9223372036854775807", "-9223372036854775808", "9223372036854775808", "-9223372036854775809",
	"18446744073709551615", "123456789012345678901234567890",
	"1.0", "0.1", "-0.0", "1e0", "1E2", "1.5", "3.141592653589793", "1e-320", "5e-324", "1.7976931348623157e308",
	"2.2250738585072014e-308", "9.223372036854775807e18", "100000000000000000000", "1e400", "-1e400", "0.30000000000000004",
}

var c30Strs = []string{
	"", "a", "hello world", "x'41'", "X'4a4B'", "x''", "x'", "x'4'", "x'4g'", " x'41' ", "\tX'00ff'\n", "x'41' x", "0x41", "'41'",
	"x'e9'", " x'41' ", "​x'41'", "x’ 41’", "X'ÿ'", "y'41'", "xx'41'", "x'41''", "x'4 1'", "x'+1'",
	"café", "日本語", "\U0001F600", "a\u0000b", " line", "<&>", "\"quoted\"", "back\\slash", "�", "1", "1.5", "null", "true", "[1,2]",
	"QUJD", "AA==", "x'FFFE'", "x'c328'", "x'deadBEEF'",
}

func c30GenVal(rng *rand.Rand, allowInvalid bool) c30Val {
	switch n := rng.Intn(100); {
	case n < 6:
		return c30Val{K: "null"}
	case n < 12:
		return c30Val{K: "bool", B: rng.Intn(2) == 0}
	case n < 40:
		return c30GenNum(rng)
	case n < 70:
		return c30GenStr(rng)
	case n < 92 || !allowInvalid:
		k := rng.Intn(6)
		if rng.Intn(5) == 0 {
			k = 0
		}
		a := make([]c30Val, k)
		for i := range a {
			b := rng.Intn(256)
			switch rng.Intn(6) {
			case 0:
				b = 0
			case 1:
				b = 255
			case 2:
				b = 0x80 + rng.Intn(0x80)
			}
			a[i] = c30Val{K: "num", Num: strconv.Itoa(b)}
		}
		return c30Val{K: "arr", Arr: a}
	default:
		// malformed: array with a non-byte element, nested array, object value
		bad := []c30Val{{K: "num", Num: "256"}, {K: "num", Num: "-1"}, {K: "num", Num: "1.5"}, {K: "num", Num: "1e2"}, {K: "str", Str: "a"},
			{K: "null"}, {K: "bool", B: true}, {K: "arr", Arr: []c30Val{{K: "num", Num: "1"}}}, {K: "num", Num: "18446744073709551615"},
			{K: "num", Num: "9223372036854775808"}, {K: "num", Num: "-9223372036854775553"}}
		if rng.Intn(4) == 0 {
			return c30Val{K: "obj", Arr: []c30Val{{K: "num", Num: "1"}}}
		}
		a := []c30Val{{K: "num", Num: "1"}, bad[rng.Intn(len(bad))]}
		if rng.Intn(2) == 0 {
			a[0], a[1] = a[1], a[0]
		}
		return c30Val{K: "arr", Arr: a}
	}
}

func c30GenNum(rng *rand.Rand) c30Val {
	switch rng.Intn(6) {
	case 0, 1:
		return c30Val{K: "num", Num: c30Nums[rng.Intn(len(c30Nums))]}
	case 2:
		return c30Val{K: "num", Num: strconv.FormatInt(rng.Int63()-rng.Int63(), 10)}
	case 3:
		// near the int64 boundary
		d := int64(rng.Intn(5))
		if rng.Intn(2) == 0 {
			return c30Val{K: "num", Num: strconv.FormatInt(math.MaxInt64-d, 10)}
		}
		return c30Val{K: "num", Num: strconv.FormatInt(math.MinInt64+d, 10)}
	case 4:
		f := math.Float64frombits(rng.Uint64())
		for math.IsNaN(f) || math.IsInf(f, 0) {
			f = math.Float64frombits(rng.Uint64())
		}
		b, _ := json.Marshal(f)
		return c30Val{K: "num", Num: string(b)}
	default:
		f := (rng.Float64() - 0.5) * math.Pow(10, float64(rng.Intn(40)-20))
		return c30Val{K: "num", Num: strconv.FormatFloat(f, 'f', -1, 64)}
	}
}

func c30GenStr(rng *rand.Rand) c30Val {
	switch rng.Intn(5) {
	case 0, 1:
		return c30Val{K: "str", Str: c30Strs[rng.Intn(len(c30Strs))]}
	case 2:
		// a hex literal with random bytes, sometimes damaged
		n := rng.Intn(5)
		b := make([]byte, n)
		rng.Read(b)
		s := fmt.Sprintf("x'%x'", b)
		if rng.Intn(2) == 0 {
			s = fmt.Sprintf("X'%X'", b)
		}
		switch rng.Intn(8) {
		case 0:
			s = " " + s
		case 1:
			s = s + "\n"
		case 2:
			s = s[:len(s)-1]
		case 3:
			s = s + "'"
		case 4:
			if len(s) > 4 {
				s = s[:3] + s[4:]
			}
		}
		return c30Val{K: "str", Str: s}
	default:
		alphabet := []rune("ab xX'09éÿ€日\U0001F600\n\t\"\\")
		n := rng.Intn(8)
		r := make([]rune, n)
		for i := range r {
			r[i] = alphabet[rng.Intn(len(alphabet))]
		}
		return c30Val{K: "str", Str: string(r)}
	}
}

// c30CheckStable: every rendering kept so far must still read what it read when it was made, after (1) all
// the renderings that followed it, (2) one more rendering of a different result, (3) all kept results rendered
// again concurrently from several goroutines, each of which must equal its sequential rendering.
func c30CheckStable(e *c30Env, w *vWriter) {
	if len(e.kept) == 0 {
		return
	}
	enc := encoding.Encoder{}
	enc.JSONMarshal([]*command.QueryRows{{Columns: []string{"flush"}, Types: []string{"text"},
		Values: []*command.Values{{Parameters: []*command.Parameter{{Value: &command.Parameter_S{S: strings.Repeat("#", 4096)}}}}}}})
	reported := map[string]bool{}
	report := func(k *c30Kept, how, got string) {
		key := vJSON(k.in)
		if reported[key] || len(reported) >= 20 {
			return
		}
		reported[key] = true
		w.Emit(VCase{Input: k.in, Key: "stable|" + key, Nontrivial: true, Tags: []string{"kind=stability"},
			OracleFail: fmt.Sprintf("result rendered (associative=%v blob_array=%v) as %.300s reads %.300s %s", k.form.Assoc, k.form.BlobArr, k.seen, got, how),
			Sig:        "C30:rendered-output-not-stable"})
	}
	for _, k := range e.kept {
		if string(k.out) != k.seen {
			report(k, "after later results were rendered: the encoder's output aliases memory it reuses", string(k.out))
		}
	}
	var wg sync.WaitGroup
	var mu sync.Mutex
	const workers = 8
	for g := 0; g < workers; g++ {
		wg.Add(1)
		go func(g int) {
			defer wg.Done()
			for i := g; i < len(e.kept); i += workers {
				k := e.kept[i]
				enc := encoding.Encoder{Associative: k.form.Assoc, BlobsAsByteArrays: k.form.BlobArr}
				out, err := enc.JSONMarshal(k.value)
				if err != nil || string(out) != k.seen {
					mu.Lock()
					report(k, "when rendered again concurrently with other results", string(out))
					mu.Unlock()
				}
			}
		}(g)
	}
	wg.Wait()
	w.Emit(VCase{Input: map[string]any{"stability_of": len(e.kept)}, Key: "stable|summary", Tags: []string{"kind=stability"}})
}

func TestVerif_C30(t *testing.T) {
	w := vOpen()
	defer w.Close()
	e := c30NewEnv(t)
	defer e.close()
	if raw := vReplayInput(); raw != nil {
		var in c30Input
		if err := json.Unmarshal(raw, &in); err != nil {
			t.Fatal(err)
		}
		c30Run(e, w, in)
		c30CheckStable(e, w)
		return
	}
	defer c30CheckStable(e, w)
	rng := vRand()
	forms := []string{"pos", "named1", "namedN", "mixed"}
	// corpus: every hand-picked number and string alone, positional and named
	for i, s := range c30Nums {
		c30Run(e, w, c30Input{Vals: []c30Val{{K: "num", Num: s}}, Form: forms[i%2], Endpoint: "query", Remote: i%3 == 0})
	}
	for i, s := range c30Strs {
		c30Run(e, w, c30Input{Vals: []c30Val{{K: "str", Str: s}}, Form: forms[i%2], Endpoint: "query", Remote: i%3 == 0})
	}
	for i, v := range []c30Val{{K: "null"}, {K: "bool", B: true}, {K: "bool"}, {K: "arr"}, {K: "arr", Arr: []c30Val{{K: "num", Num: "0"}, {K: "num", Num: "255"}, {K: "num", Num: "128"}}},
		{K: "arr", Arr: []c30Val{{K: "num", Num: "256"}}}, {K: "arr", Arr: []c30Val{{K: "num", Num: "-1"}}}, {K: "arr", Arr: []c30Val{{K: "str", Str: "1"}}},
		{K: "arr", Arr: []c30Val{{K: "num", Num: "1.0"}}}, {K: "obj", Arr: []c30Val{{K: "num", Num: "1"}}}} {
		for _, f := range forms {
			if v.K == "obj" && f == "pos" {
				continue
			}
			c30Run(e, w, c30Input{Vals: []c30Val{v}, Form: f, Endpoint: []string{"query", "request"}[i%2], Remote: i%2 == 1})
		}
	}
	// first-row effects on expression columns: every ordered pair of classes
	reps := []c30Val{{K: "null"}, {K: "num", Num: "7"}, {K: "num", Num: "7.5"}, {K: "str", Str: "txt"}, {K: "str", Str: "x'ff41'"}, {K: "bool", B: true}}
	for _, a := range reps {
		for _, b := range reps {
			c30Run(e, w, c30Input{Vals: []c30Val{a, b}, Form: "pos", Endpoint: "query"})
		}
	}
	n := vN(220, 6000)
	for i := 0; i < n; i++ {
		k := 1 + rng.Intn(4)
		in := c30Input{Form: forms[rng.Intn(len(forms))], Endpoint: "query", Remote: rng.Intn(2) == 0}
		if rng.Intn(3) == 0 {
			in.Endpoint = "request"
		}
		inval := rng.Intn(8) == 0
		for j := 0; j < k; j++ {
			v := c30GenVal(rng, inval)
			if v.K == "obj" && in.Form == "pos" {
				// a positional object is a set of named parameters, not a value
				v = c30Val{K: "arr", Arr: []c30Val{{K: "arr"}}}
			}
			in.Vals = append(in.Vals, v)
		}
		c30Run(e, w, in)
	}
}
