(* C29 — property theorems only.  gzip enters as an explicit premise: gunzip (gzip b) = Some b. *)
From Coq Require Import List String NArith ZArith.
From RQ Require Import Model.C29_Wire Model.C29 Proofs.C29_Wire Proofs.C29.
Import ListNotations.
Open Scope list_scope.

(* The Compressed flag is set exactly when compression was worth trying (batch of at least BatchThreshold statements,
   or some statement with at least SizeThreshold bytes of SQL) and the gzip output is smaller or compression is
   forced; the stored bytes are the gzip output exactly then.  For every message codec and every gzip. *)
Theorem C29_decision_spec :
  forall (enc_body : body -> bytes) (gzip : bytes -> bytes) cfg b,
  let raw := enc_body b in
  let gz := gzip raw in
  (snd (req_marshal enc_body gzip cfg b) = true <->
     (batch_hit cfg (stmts_of b) \/ size_hit cfg (stmts_of b)) /\ ((lenZ gz < lenZ raw)%Z \/ m_force cfg = true))
  /\ fst (req_marshal enc_body gzip cfg b) = (if snd (req_marshal enc_body gzip cfg b) then gz else raw).
Proof. exact decision_spec. Qed.
Print Assumptions C29_decision_spec.

(* Compression is used only when it makes the entry smaller or is forced - for the command of every type. *)
Theorem C29_compressed_only_if_smaller_or_forced :
  forall (enc_body : body -> bytes) (gzip : bytes -> bytes) cfg b,
  c_compressed (to_command enc_body gzip cfg b) = true ->
  (lenZ (c_sub (to_command enc_body gzip cfg b)) < lenZ (enc_body b))%Z \/ m_force cfg = true.
Proof. exact compressed_only_if_smaller_or_forced. Qed.
Print Assumptions C29_compressed_only_if_smaller_or_forced.

(* Layer 1: for any protobuf codec that inverts on the messages in `wf` and any gzip that inverts, every request of
   every command type, under every marshaler configuration, decodes to itself. *)
Theorem C29_roundtrip_any_codec :
  forall enc_command dec_command enc_body dec_body gzip gunzip (wf : body -> Prop),
  (forall c, dec_command (enc_command c) = Some c) ->
  (forall b, wf b -> dec_body (ctype_of b) (enc_body b) = Some b) ->
  (forall b, gunzip (gzip b) = Some b) ->
  forall cfg b, wf b ->
  unmarshal dec_command dec_body gunzip (marshal enc_command enc_body gzip cfg b) = Some b.
Proof. exact roundtrip. Qed.
Print Assumptions C29_roundtrip_any_codec.

(* Layer 2: the proto3 wire codec of the modelled messages inverts (varints of any size, zig-zag, two's complement
   int64, fixed64, length-delimited nesting, oneof). *)
Theorem C29_wire_codec_body : forall b, wf_body b -> wire_dec_body (ctype_of b) (wire_enc_body b) = Some b.
Proof. exact body_roundtrip. Qed.
Print Assumptions C29_wire_codec_body.

Theorem C29_wire_codec_command : forall c, wire_dec_command (wire_enc_command c) = Some c.
Proof. exact command_roundtrip. Qed.
Print Assumptions C29_wire_codec_command.

(* C29: with the wire codec, only gzip remains a premise. *)
Theorem C29_roundtrip :
  forall (gzip : bytes -> bytes) (gunzip : bytes -> option bytes),
  (forall b, gunzip (gzip b) = Some b) ->
  forall cfg b, wf_body b ->
  unmarshal wire_dec_command wire_dec_body gunzip (marshal wire_enc_command wire_enc_body gzip cfg b) = Some b.
Proof. exact roundtrip_wire. Qed.
Print Assumptions C29_roundtrip.

(* Marshalling several requests before any result is used: every result is the one for its own request and decodes
   to it (the model's marshal is a function; the driver's held / concurrent cases tie the implementation to that). *)
Theorem C29_marshal_results_independent :
  forall (gzip : bytes -> bytes) (gunzip : bytes -> option bytes),
  (forall b, gunzip (gzip b) = Some b) ->
  forall cfg bs, Forall wf_body bs ->
  (forall i, nth_error (marshal_all wire_enc_command wire_enc_body gzip cfg bs) i
             = option_map (marshal wire_enc_command wire_enc_body gzip cfg) (nth_error bs i)) /\
  map (unmarshal wire_dec_command wire_dec_body gunzip) (marshal_all wire_enc_command wire_enc_body gzip cfg bs) = map Some bs.
Proof. exact marshal_results_independent. Qed.
Print Assumptions C29_marshal_results_independent.

(* Second tie (DESIGN 3.5, docs/gotrans.md): RequestMarshaler.Marshal as translated from command/marshal.go on
   this run decides like the hand model: want_compress (thresholds) then choose (smaller or forced); a failing
   pb.Marshal / gzCompress gives (nil, false, err).  gen_marshal = the generated function on a request given as
   (statements, encoding); zs = bytes as Z. *)
From RQ Require Import Lib.GoLib.
From RQ Require Import Gen.Marshal.
From RQ Require Import Proofs.C29_Gen.
Theorem C29_source_derived_eq : forall (E : Type) (err : E) (gzip : bytes -> option bytes),
  (forall c ss raw gz, gzip raw = Some gz ->
     gen_marshal E err gzip c (ss, Some raw) =
       (zs (fst (choose c (want_compress c ss) raw gz)), snd (choose c (want_compress c ss) raw gz), None)) /\
  (forall c ss raw, gzip raw = None ->
     gen_marshal E err gzip c (ss, Some raw) =
       if want_compress c ss then ([], false, Some err) else (zs raw, false, None)) /\
  (forall c ss, gen_marshal E err gzip c (ss, None) = ([], false, Some err)).
Proof. exact gen_marshal_eq. Qed.
Print Assumptions C29_source_derived_eq.
