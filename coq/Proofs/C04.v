From Coq Require Import List NArith Bool Lia.
From RQ Require Import Model.C04.
Import ListNotations.
Open Scope N_scope.

(* ---- specification, from the property text: the state a node has applied ----
   a write overrides the cells it names; a load, a boot and a snapshot install replace the database;
   snapshots (whatever their persist outcome), reaps, restarts and rejected loads change nothing. *)
Definition cells_eq (a b : cells) : Prop := forall k, get a k = get b k.

Definition spec_step (d : cells) (o : op) : cells :=
  match o with
  | OWrite ks v => apply_frames d (map (fun k => (k, v)) ks)
  | OLoad c | OBoot c => cells_of_vec c
  | OInstall c segs => apply_segs (cells_of_vec c) (map (fun '(ks, v) => map (fun k => (k, v)) ks) segs)
  | _ => d
  end.
Definition spec_state (ops : list op) : cells := fold_left spec_step ops [].

(* the two halves of the chain invariant *)
Definition chain_ok (s : st) : Prop :=
  exists r, restored s = Some r
    /\ (full_due s = false -> cells_eq (apply_segs r (staging s ++ [wal s])) (live s))
    /\ cells_eq (replay (suffix s) r) (live s).

(* ---- cells ---- *)
Lemma cells_eq_refl a : cells_eq a a.
Proof. intros k; reflexivity. Qed.
Lemma cells_eq_sym a b : cells_eq a b -> cells_eq b a.
Proof. intros H k; symmetry; apply H. Qed.
Lemma cells_eq_trans a b c : cells_eq a b -> cells_eq b c -> cells_eq a c.
Proof. intros H1 H2 k; rewrite H1; apply H2. Qed.

Lemma app_congr x a b : cells_eq a b -> cells_eq (x ++ a) (x ++ b).
Proof.
  intros H k. induction x as [|[k' v] x IH]; cbn [app get]; [apply H|].
  destruct (k' =? k); [reflexivity | exact IH].
Qed.

Lemma apply_frames_congr a b w : cells_eq a b -> cells_eq (apply_frames a w) (apply_frames b w).
Proof. unfold apply_frames. apply app_congr. Qed.

Lemma apply_frames_nil d : apply_frames d [] = d.
Proof. reflexivity. Qed.

Lemma apply_frames_app d w1 w2 : apply_frames d (w1 ++ w2) = apply_frames (apply_frames d w1) w2.
Proof. unfold apply_frames. rewrite rev_app_distr, app_assoc. reflexivity. Qed.

Lemma apply_segs_app d a b : apply_segs d (a ++ b) = apply_segs (apply_segs d a) b.
Proof. unfold apply_segs. apply fold_left_app. Qed.

Lemma apply_segs_congr ws : forall a b, cells_eq a b -> cells_eq (apply_segs a ws) (apply_segs b ws).
Proof.
  induction ws as [|w ws IH]; intros a b H; cbn [apply_segs fold_left]; [exact H|].
  apply IH. apply apply_frames_congr. exact H.
Qed.

Lemma replay_entry_congr e a b : cells_eq a b -> cells_eq (replay_entry a e) (replay_entry b e).
Proof. destruct e; cbn [replay_entry]; intros H; auto using apply_frames_congr, cells_eq_refl. Qed.

Lemma replay_congr l : forall a b, cells_eq a b -> cells_eq (replay l a) (replay l b).
Proof.
  induction l as [|e l IH]; intros a b H; cbn [replay fold_left]; [exact H|].
  apply IH. apply replay_entry_congr. exact H.
Qed.

Lemma replay_snoc l e d : replay (l ++ [e]) d = replay_entry (replay l d) e.
Proof. unfold replay. rewrite fold_left_app. reflexivity. Qed.

Lemma spec_step_congr o a b : cells_eq a b -> cells_eq (spec_step a o) (spec_step b o).
Proof. destruct o; cbn [spec_step]; intros H; auto using apply_frames_congr, cells_eq_refl. Qed.

(* ---- the inductive invariant ---- *)
Definition Inv (s : st) : Prop :=
  exists r, restored s = Some r
    /\ (full_due s = false -> cells_eq (apply_segs r (staging s)) (dbf s))
    /\ cells_eq (replay (suffix s) r) (live s)
    /\ (N.to_nat (newest_idx s) <= length (log s))%nat.

Ltac st := cbn [snap_idx dbf wal staging snaps full_needed log set_dbf set_staging set_snaps set_full add_log apply_phys fst snd].
Ltac split4 := split; [|split; [|split]].
Ltac split5 := split; [|split; [|split; [|split]]].

Lemma skipn_len {A} (l : list A) : skipn (length l) l = [].
Proof. apply skipn_all. Qed.

Lemma skipn_snoc {A} n (l : list A) e : (n <= length l)%nat -> skipn n (l ++ [e]) = skipn n l ++ [e].
Proof.
  intros H. rewrite skipn_app. replace (n - length l)%nat with 0%nat by lia. reflexivity.
Qed.

Lemma applied_nat s : N.to_nat (applied s) = length (log s).
Proof. unfold applied. apply Nnat.Nat2N.id. Qed.

(* a snapshot that has just become the newest, with the database file as its content *)
Lemma inv_new_full s d ws l :
  Inv {| dbf := apply_segs d ws; wal := []; staging := []; snaps := SFull (N.of_nat (length l)) d ws :: snaps s; full_needed := false; log := l |}.
Proof.
  exists (apply_segs d ws). split4.
  - reflexivity.
  - intros _. apply cells_eq_refl.
  - unfold suffix, newest_idx; cbn. rewrite Nnat.Nat2N.id, skipn_len. cbn. apply cells_eq_refl.
  - unfold newest_idx; cbn. rewrite Nnat.Nat2N.id. lia.
Qed.

Lemma snap_full_ok s :
  full_due s = true ->
  let s' := fst (snapshot_step true s POk) in
  Inv s' /\ live s' = live s.
Proof.
  intros Hd. unfold snapshot_step. rewrite Hd. cbn [fst].
  split.
  - unfold set_full, set_snaps, set_staging, set_dbf, applied; cbn.
    exact (inv_new_full s _ [] _).
  - reflexivity.
Qed.

Lemma restored_nonempty s : snaps s <> [] -> forall r, restored s = Some r ->
  exists db ws, resolve (snaps s) = Some (db, ws) /\ r = apply_segs db ws.
Proof.
  intros E r H. unfold restored in H. destruct (snaps s) as [|x l] eqn:Es; [congruence|].
  destruct (resolve (x :: l)) as [[db ws]|]; [|discriminate].
  exists db, ws. split; [reflexivity|]. congruence.
Qed.

Lemma full_due_false s : full_due s = false -> full_needed s = false /\ snaps s <> [].
Proof.
  unfold full_due. intros H. apply orb_false_iff in H as [H1 H2].
  split; [exact H1|]. destruct (snaps s); [discriminate|discriminate].
Qed.

Lemma full_needed_sticky l : forall s, full_needed s = true -> full_needed (fold_left apply_phys l s) = true.
Proof.
  induction l as [|e l IH]; intros s H; cbn [fold_left]; [exact H|].
  apply IH. destruct e; cbn; auto.
Qed.

(* replay of the log suffix at start-up *)
Lemma phys_fold l : forall s,
  let s' := fold_left apply_phys l s in
  snaps s' = snaps s /\ log s' = log s /\ staging s' = staging s
  /\ live s' = replay l (live s)
  /\ (full_needed s' = false -> dbf s' = dbf s).
Proof.
  induction l as [|e l IH]; intros s; cbn [fold_left replay].
  - split5; reflexivity.
  - specialize (IH (apply_phys s e)). cbv zeta in IH.
    destruct IH as (H1 & H2 & H3 & H4 & H5).
    rewrite H1, H2, H3, H4.
    destruct e; cbn [apply_phys set_dbf set_full snaps log staging replay_entry] in *.
    + split5; try reflexivity.
      * unfold live; st. rewrite apply_frames_app. reflexivity.
      * exact H5.
    + split5; try reflexivity.
      intros Hf. exfalso.
      (* a load in the suffix leaves FULL_NEEDED set: it is never cleared by later entries *)
      rewrite full_needed_sticky in Hf; [discriminate | reflexivity].
    + split5; try reflexivity.
      intros Hf. exfalso.
      rewrite full_needed_sticky in Hf; [discriminate | reflexivity].
    + split5; try reflexivity. exact H5.
Qed.

(* an entry of arbitrary frames written through the log (a write batch, or the statements of a SQL dump) *)
Lemma write_frames_preserves s w :
  Inv s ->
  let s' := apply_phys (add_log s (EWrite w)) (EWrite w) in
  Inv s' /\ live s' = apply_frames (live s) w.
Proof.
  intros (r & Hr & H2 & H3 & H4). cbn [apply_phys]. split.
  - exists r. unfold set_dbf, add_log; st. split4.
    + exact Hr.
    + exact H2.
    + unfold suffix, newest_idx in * ; st. rewrite skipn_snoc by exact H4.
      rewrite replay_snoc. cbn [replay_entry]. unfold live; st.
      rewrite apply_frames_app. apply apply_frames_congr. exact H3.
    + unfold newest_idx in * ; st. rewrite app_length. cbn. lia.
  - unfold live, set_dbf, add_log ; st. rewrite apply_frames_app. reflexivity.
Qed.

Lemma step_preserves s o :
  Inv s ->
  let s' := fst (step s o) in
  Inv s' /\ cells_eq (live s') (spec_step (live s) o).
Proof.
  intros (r & Hr & H2 & H3 & H4).
  destruct o as [ks v|out|c| |c|c segs| |]; unfold step, step_gen.
  - (* write *)
    cbn [fst apply_phys]. set (w := map (fun k => (k, v)) ks). split.
    + exists r. unfold set_dbf, add_log ; st. split4.
      * exact Hr.
      * exact H2.
      * unfold suffix, newest_idx in * ; st. rewrite skipn_snoc by exact H4.
        rewrite replay_snoc. cbn [replay_entry]. unfold live; st.
        rewrite apply_frames_app. apply apply_frames_congr. exact H3.
      * unfold newest_idx in * ; st. rewrite app_length. cbn. lia.
    + unfold live, set_dbf, add_log ; st. rewrite apply_frames_app. apply cells_eq_refl.
  - (* snapshot *)
    cbn [spec_step]. unfold snapshot_step.
    destruct (full_due s) eqn:Hd.
    + (* full path *)
      destruct out; cbn [fst].
      * pose proof (snap_full_ok s Hd) as [Hi Hl]. unfold snapshot_step in Hi, Hl. rewrite Hd in Hi, Hl.
        cbn [fst] in Hi, Hl. split; [exact Hi | rewrite Hl; apply cells_eq_refl].
      * split; [|apply cells_eq_refl].
        exists r. unfold set_staging, set_dbf ; st. split4; try assumption.
        intros Hf. unfold full_due in *; cbn in *. congruence.
      * split; [|apply cells_eq_refl].
        exists r. unfold set_full, set_staging, set_dbf ; st. split4; try assumption.
        intros Hf. unfold full_due in Hf; cbn in Hf. discriminate.
      * split; [|apply cells_eq_refl].
        exists r. unfold set_full, set_staging, set_dbf ; st. split4; try assumption.
        intros Hf. unfold full_due in Hf; cbn in Hf. discriminate.
      * split; [|apply cells_eq_refl]. exists r. split4; try assumption. intros Hf. congruence.
    + (* incremental path *)
      destruct (full_due_false s Hd) as [Hfn Hne].
      assert (H2' : cells_eq (apply_segs r (staging s)) (dbf s)) by (apply H2; reflexivity).
      destruct (wal s) as [|f w0] eqn:Ew.
      * cbn [fst]. split; [|apply cells_eq_refl]. exists r. split4; try assumption. intros _; exact H2'.
      * rewrite <- Ew in *.
        assert (Hst : cells_eq (apply_segs r (staging s ++ [wal s])) (apply_frames (dbf s) (wal s))).
        { rewrite apply_segs_app. cbn [apply_segs fold_left]. apply apply_frames_congr. apply H2. reflexivity. }
        destruct out; cbn [fst].
        -- (* ok: the staged WALs become the newest snapshot *)
           destruct (restored_nonempty s Hne r Hr) as (db & ws & Hres & ->).
           split; [|apply cells_eq_refl].
           exists (apply_segs db (ws ++ (staging s ++ [wal s]))).
           unfold set_full, set_staging, set_snaps, set_dbf, applied ; st. split4.
           ++ unfold restored ; st. cbn [resolve]. rewrite Hres. reflexivity.
           ++ intros _. rewrite apply_segs_app. exact Hst.
           ++ unfold suffix, newest_idx ; st. rewrite Nnat.Nat2N.id, skipn_len. cbn.
              unfold live ; st. rewrite apply_segs_app. exact Hst.
           ++ unfold newest_idx ; st. rewrite Nnat.Nat2N.id. lia.
        -- split; [|apply cells_eq_refl].
           exists r. unfold set_staging, set_dbf ; st. split4; try assumption.
           intros _. exact Hst.
        -- split; [|apply cells_eq_refl].
           exists r. unfold set_staging, set_dbf ; st. split4; try assumption.
           intros _. exact Hst.
        -- split; [|apply cells_eq_refl].
           exists r. unfold set_full, set_staging, set_dbf ; st. split4; try assumption.
           intros Hf. unfold full_due in Hf; cbn in Hf. discriminate.
        -- split; [|apply cells_eq_refl]. exists r. split4; try assumption. intros _; exact H2'.
  - (* load *)
    cbn [fst apply_phys spec_step]. split; [|apply cells_eq_refl].
    exists r. unfold set_full, set_dbf, add_log ; st. split4.
    + exact Hr.
    + intros Hf. unfold full_due in Hf; cbn in Hf. discriminate.
    + unfold suffix, newest_idx in * ; st. rewrite skipn_snoc by exact H4.
      rewrite replay_snoc. cbn [replay_entry]. apply cells_eq_refl.
    + unfold newest_idx in * ; st. rewrite app_length. cbn. lia.
  - (* rejected load *)
    cbn [fst apply_phys spec_step]. split; [|apply cells_eq_refl].
    exists r. unfold set_full, add_log ; st. split4.
    + exact Hr.
    + intros Hf. unfold full_due in Hf; cbn in Hf. discriminate.
    + unfold suffix, newest_idx in * ; st. rewrite skipn_snoc by exact H4.
      rewrite replay_snoc. cbn [replay_entry]. exact H3.
    + unfold newest_idx in * ; st. rewrite app_length. cbn. lia.
  - (* boot *)
    cbn [spec_step].
    set (s1 := set_full (set_dbf (add_log s ENoop) (cells_of_vec c) []) true).
    assert (Hd1 : full_due s1 = true) by reflexivity.
    destruct (snap_full_ok s1 Hd1) as [Hi Hl]. split; [exact Hi|].
    rewrite Hl. apply cells_eq_refl.
  - (* install *)
    cbn [fst spec_step]. split; [|apply cells_eq_refl].
    unfold set_staging, set_dbf, set_full, set_snaps, applied; st.
    exact (inv_new_full s _ _ _).
  - (* reap *)
    cbn [spec_step].
    destruct (snaps s) as [|x [|y l]] eqn:Es; cbn [fst].
    + split; [|apply cells_eq_refl]. exists r. split4; assumption.
    + split; [|apply cells_eq_refl]. exists r. split4; assumption.
    + assert (Hne : snaps s <> []) by (rewrite Es; discriminate).
      destruct (restored_nonempty s Hne r Hr) as (db & ws & Hres & ->).
      rewrite Es in Hres. rewrite Hres. cbn [fst]. split; [|apply cells_eq_refl].
      exists (apply_segs db ws). unfold set_snaps ; st. split4.
      * reflexivity.
      * intros Hf. apply H2. unfold full_due in *. rewrite Es. exact Hf.
      * exact H3.
      * exact H4.
  - (* restart *)
    cbn [spec_step]. rewrite Hr. cbn [fst].
    set (s0 := set_staging (set_dbf s r []) []).
    pose proof (phys_fold (suffix s) s0) as P. cbv zeta in P.
    destruct P as (P1 & P2 & P3 & P4 & P5).
    set (s' := fold_left apply_phys (suffix s) s0) in *.
    assert (Hsuf : suffix s' = suffix s).
    { unfold suffix, newest_idx. rewrite P1, P2. reflexivity. }
    assert (Hlive : live s' = replay (suffix s) r).
    { rewrite P4. unfold live, s0 ; st. reflexivity. }
    split.
    + exists r. split4.
      * unfold restored. rewrite P1. exact Hr.
      * intros Hf. rewrite P3. cbn [staging set_staging apply_segs fold_left].
        rewrite P5; [apply cells_eq_refl|].
        unfold full_due in Hf. apply orb_false_iff in Hf. tauto.
      * rewrite Hsuf, Hlive. apply cells_eq_refl.
      * unfold newest_idx. rewrite P1, P2. exact H4.
    + rewrite Hlive. exact H3.
Qed.

(* a snapshot attempt whose checkpoint is busy changes nothing; in particular the staging directory keeps
   every segment it had (a failed attempt leaves nothing NEW behind and removes nothing OLD) *)
Theorem blocked_changes_nothing s : fst (step s (OSnap PBlocked)) = s.
Proof.
  unfold step, step_gen, snapshot_step. destruct (full_due s); [reflexivity|].
  destruct (wal s); reflexivity.
Qed.

Theorem blocked_keeps_staging s :
  fst (step s (OSnap PBlocked)) = s /\ staging (fst (step s (OSnap PBlocked))) = staging s.
Proof. rewrite blocked_changes_nothing. split; reflexivity. Qed.

Lemma inv_init : Inv init.
Proof.
  exists []. split4; [reflexivity | intros _; apply cells_eq_refl | apply cells_eq_refl | cbn; lia].
Qed.

Lemma run_inv ops : forall s d, Inv s -> cells_eq (live s) d ->
  Inv (fold_left (fun s o => fst (step s o)) ops s)
  /\ cells_eq (live (fold_left (fun s o => fst (step s o)) ops s)) (fold_left spec_step ops d).
Proof.
  induction ops as [|o ops IH]; intros s d Hi Hl; cbn [fold_left]; [tauto|].
  destruct (step_preserves s o Hi) as [Hi' Hl'].
  apply IH; [exact Hi'|].
  eapply cells_eq_trans; [exact Hl'|]. apply spec_step_congr. exact Hl.
Qed.

Lemma inv_chain_ok s : Inv s -> chain_ok s.
Proof.
  intros (r & Hr & H2 & H3 & _). exists r. split; [exact Hr|]. split; [|exact H3].
  intros Hf. rewrite apply_segs_app. cbn [apply_segs fold_left].
  apply apply_frames_congr. apply H2. exact Hf.
Qed.

Theorem chain_invariant ops : chain_ok (run ops).
Proof.
  apply inv_chain_ok. apply (run_inv ops init []); [apply inv_init | apply cells_eq_refl].
Qed.

Theorem rebuild ops :
  exists d, rebuilt (run ops) = Some d
    /\ cells_eq d (spec_state ops)
    /\ cells_eq (live (run ops)) (spec_state ops).
Proof.
  destruct (run_inv ops init [] inv_init (cells_eq_refl _)) as [(r & Hr & _ & H3 & _) Hl].
  exists (replay (suffix (run ops)) r). unfold rebuilt. unfold run, run_gen in *.
  fold step in *. rewrite Hr. split; [reflexivity|]. split.
  - eapply cells_eq_trans; [exact H3 | exact Hl].
  - exact Hl.
Qed.

(* what check_case compares: the dump vectors of the rebuilt and of the live database coincide *)
Lemma dump_congr a b : cells_eq a b -> dump a = dump b.
Proof. intros H. unfold dump. apply map_ext. intros k. apply H. Qed.

Theorem rebuild_dump ops : o_rebuilt (observe (run ops) 0) = o_live (observe (run ops) 0).
Proof.
  destruct (rebuild ops) as (d & Hd & H1 & H2). cbn [observe o_rebuilt o_live]. rewrite Hd. cbn [dump_opt].
  apply dump_congr. eapply cells_eq_trans; [exact H1 | apply cells_eq_sym; exact H2].
Qed.

(* the observations of check_case's trace are those of the states reached by run *)
Lemma trace_run ops : forall s,
  map o_live (trace s ops) =
  map (fun k => dump (live (fold_left (fun s o => fst (step s o)) (firstn (S k) ops) s))) (seq 0 (length ops)).
Proof.
  induction ops as [|o ops IH]; intros s; [reflexivity|].
  cbn [trace length seq map]. destruct (step s o) as [s' res] eqn:E.
  cbn [map]. f_equal.
  - cbn [firstn fold_left observe o_live]. rewrite E. reflexivity.
  - rewrite IH. rewrite <- seq_shift, map_map. apply map_ext. intros k.
    cbn [firstn fold_left]. rewrite E. reflexivity.
Qed.

(* ---- the unrepaired code (staging directory never emptied) violates the property ---- *)
Definition all24 (v : N) : list N := map (fun _ => v) universe.
Definition witness : list op :=
  [OWrite [1; 2] 1; OSnap POk; OWrite [1] 2; OSnap PNotInvoked; OLoad (all24 3); OSnap POk; OWrite [2] 4; OSnap POk].

Theorem unfixed_refuted :
  exists ops d, rebuilt (run_gen false ops) = Some d /\ get d 1 <> get (spec_state ops) 1.
Proof.
  exists witness. eexists. split; [vm_compute; reflexivity|]. vm_compute. discriminate.
Qed.

(* non-vacuity: the same history on the repaired model, with a stale staged WAL, a change of base and an
   incremental snapshot after it *)
Example ex_fixed :
  dump_opt (rebuilt (run witness)) = dump (spec_state witness)
  /\ map (fun x => fst x) (map cat_of (snaps (run witness))) = [(false, 4); (true, 3); (true, 1)]
  /\ get (spec_state witness) 1 = 3 /\ get (spec_state witness) 2 = 4.
Proof. vm_compute. auto. Qed.
