(* C24 — specification (from the property text) and proofs about Model.C24. *)
From Coq Require Import List NArith ZArith Bool Lia Sorted.
From Coq Require Import ZifyBool ZifyNat ZifyN.
From RQ Require Import Model.C24.
Import ListNotations.
Open Scope Z_scope.

(* ------------------------------------------------------------------ specification side *)

(* The Write calls of a schedule that were accepted: those before the first Close. *)
Fixpoint accepted (l : list action) : list (list N * option N) :=
  match l with
  | [] => []
  | AClose :: _ => []
  | AWrite o f :: r => (o, f) :: accepted r
  | _ :: r => accepted r
  end.

(* The k-th accepted write gets sequence number z + k. *)
Fixpoint number (z : Z) (ws : list (list N * option N)) : list qwrite :=
  match ws with
  | [] => []
  | (o, f) :: r => {| q_seq := z + 1; q_objs := o; q_fc := f |} :: number (z + 1) r
  end.

Definition spec_writes (c : cfg) (l : list action) : list qwrite := number (seq0 c) (accepted l).

Definition ol {A} (o : option A) : list A := match o with Some x => [x] | None => [] end.

(* the writes a list of batches is made of, in order *)
Definition members (bs : list batch) : list qwrite := flat_map b_ws bs.

Definition chan_writes (ch : list item) : list qwrite :=
  flat_map (fun i => match i with IW w => [w] | IFlush => [] end) ch.

(* every request the loop has produced so far: delivered, in sendCh, or blocked on sendCh *)
Definition batches (s : state) : list batch := out s ++ ol (slot s) ++ ol (pend s).

(* accepted writes that have not reached the consumer yet *)
Definition in_flight (s : state) : list qwrite :=
  members (ol (slot s) ++ ol (pend s)) ++ qobjs s ++ chan_writes (chan s).

(* a request is exactly the merge of whole writes: objects concatenated in order, all their flush
   channels, and between 1 and batchSize writes *)
Definition batch_ok (c : cfg) (b : batch) : Prop :=
  b_ws b <> [] /\ (length (b_ws b) <= batchSize c)%nat /\
  b_objs b = flat_map q_objs (b_ws b) /\
  b_fcs b = flat_map fc_list (b_ws b) /\
  (forall w, In w (b_ws b) -> q_seq w <= b_seq b) /\
  (exists w, In w (b_ws b) /\ q_seq w = b_seq b).

(* ------------------------------------------------------------------ invariant *)

Fixpoint zrange (z : Z) (n : nat) : list Z :=
  match n with O => [] | S k => (z + 1) :: zrange (z + 1) k end.

Definition batch_wf (c : cfg) (b : batch) : Prop :=
  merge (b_ws b) = Some b /\ (length (b_ws b) <= batchSize c)%nat.

Record Inv (c : cfg) (s : state) : Prop := {
  I_pipe : members (batches s) ++ qobjs s ++ chan_writes (chan s) = hist s;
  I_seq : map q_seq (hist s) = zrange (seq0 c) (length (hist s));
  I_seqn : seq s = seq0 c + Z.of_nat (length (hist s));
  I_wf : Forall (batch_wf c) (batches s);
  I_q : (length (qobjs s) < batchSize c)%nat;
  I_pend : pend s <> None -> slot s <> None;
  I_closed : closedch s = flat_map b_fcs (firstn (nclosed s) (out s));
  I_ncl : (nclosed s <= length (out s))%nat;
  I_arm1 : armed s = true -> qobjs s <> [] /\ timed c = true;
  I_arm2 : timed c = true -> qobjs s <> [] -> exited s = false -> armed s = true;
  I_rets : flat_map ol (rets s) = map q_seq (hist s)
}.

Lemma zrange_app : forall n z m, zrange z (n + m) = zrange z n ++ zrange (z + Z.of_nat n) m.
Proof.
  induction n as [|n IH]; intros z m; cbn [zrange Nat.add app].
  - f_equal. lia.
  - rewrite IH. do 3 f_equal. lia.
Qed.

Lemma members_app : forall a b, members (a ++ b) = members a ++ members b.
Proof. intros. unfold members. apply flat_map_app. Qed.

Lemma chan_writes_app : forall a b, chan_writes (a ++ b) = chan_writes a ++ chan_writes b.
Proof. intros. unfold chan_writes. apply flat_map_app. Qed.

Lemma merge_some : forall q, q <> [] -> exists b, merge q = Some b /\ b_ws b = q.
Proof.
  intros [|w q] H; [congruence|]. eexists. split; [reflexivity|]. reflexivity.
Qed.

Lemma inv_init : forall c, (0 < batchSize c)%nat -> Inv c (init c).
Proof.
  intros c Hb. constructor; cbn; try reflexivity; try lia; try congruence; auto.
Qed.

(* effect of writeFn on a state whose loop is not blocked *)
Lemma write_fn_spec : forall c s ch q ar,
  pend s = None -> Forall (batch_wf c) (batches s) -> (length q <= batchSize c)%nat ->
  let s1 := write_fn s ch q ar in
  members (batches s1) = members (batches s) ++ q /\
  Forall (batch_wf c) (batches s1) /\
  qobjs s1 = [] /\ chan s1 = ch /\ armed s1 = ar /\
  (pend s1 <> None -> slot s1 <> None) /\
  out s1 = out s /\ seq s1 = seq s /\ done s1 = done s /\ exited s1 = exited s /\
  nclosed s1 = nclosed s /\ closedch s1 = closedch s /\ hist s1 = hist s /\ rets s1 = rets s.
Proof.
  intros c s ch q ar Hp Hwf Hlen. unfold write_fn.
  destruct q as [|w q'].
  - cbn [merge]. cbn. unfold batches in *. cbn. rewrite app_nil_r.
    repeat split; auto.
  - destruct (merge_some (w :: q')) as (b & Hm & Hb); [congruence|]. rewrite Hm.
    assert (Hbwf : batch_wf c b) by (split; rewrite Hb; assumption).
    unfold batches in *. rewrite Hp in *. destruct (slot s) as [x|] eqn:Hs; cbn.
    + cbn in Hwf. repeat split; auto; try congruence.
      * rewrite !members_app. cbn. rewrite Hb, ?app_nil_r, <- ?app_assoc. reflexivity.
      * apply Forall_app in Hwf as [H1 H2]. apply Forall_app. split; [assumption|].
        inversion H2; subst. constructor; [assumption|]. constructor; [assumption|constructor].
    + cbn in Hwf. repeat split; auto; try congruence.
      * rewrite !members_app. cbn. rewrite Hb, ?app_nil_r, <- ?app_assoc. reflexivity.
      * rewrite app_nil_r in Hwf. apply Forall_app. split; [assumption|]. constructor; [assumption|constructor].
Qed.

Lemma firstn_S_nth : forall (A : Type) (l : list A) n x,
  nth_error l n = Some x -> firstn (S n) l = firstn n l ++ [x].
Proof.
  intros A l. induction l as [|a l IH]; intros [|n] x H; cbn in H; try discriminate.
  - inversion H; subst. reflexivity.
  - cbn [firstn app]. f_equal. apply IH. exact H.
Qed.

Lemma firstn_in : forall (A : Type) n (l : list A) x, In x (firstn n l) -> In x l.
Proof.
  intros A n. induction n as [|n IH]; intros [|a l] x H; cbn in H; try contradiction.
  destruct H as [->|H]; [left; reflexivity|right; apply IH; exact H].
Qed.

Lemma loop_free_true : forall s, loop_free s = true -> exited s = false /\ pend s = None.
Proof.
  intros s H. unfold loop_free in H. destruct (exited s); [discriminate|]. destruct (pend s); [discriminate|]. auto.
Qed.

Lemma step_inv : forall c s a s', (0 < batchSize c)%nat -> Inv c s -> step c s a = Some s' -> Inv c s'.
Proof.
  intros c s a s' Hb I Hs. destruct I as [Ipipe Iseq Iseqn Iwf Iq Ipend Icl Incl Ia1 Ia2 Irets].
  destruct a as [objs fc| | | | | | | ]; cbn [step] in Hs.
  - (* AWrite *)
    destruct (done s).
    { inversion Hs; subst; clear Hs. constructor; cbn; auto.
      rewrite flat_map_app. cbn. rewrite app_nil_r. exact Irets. }
    destruct (Nat.ltb (length (chan s)) (maxSize c)); [|discriminate].
    inversion Hs; subst; clear Hs. constructor; cbn; auto.
    + unfold batches in *. cbn. rewrite chan_writes_app. cbn. rewrite <- Ipipe.
      rewrite <- ?app_assoc. reflexivity.
    + rewrite map_app, app_length, zrange_app, Iseq. cbn. do 2 f_equal. lia.
    + rewrite app_length. cbn. lia.
    + rewrite flat_map_app, map_app, Irets. reflexivity.
  - (* AFlush *)
    destruct (Nat.ltb (length (chan s)) (maxSize c)); [|discriminate].
    inversion Hs; subst; clear Hs. constructor; cbn; auto.
    unfold batches in *. cbn. rewrite chan_writes_app. cbn. rewrite app_nil_r. exact Ipipe.
  - (* ATake *)
    destruct (loop_free s) eqn:Hlf; [|discriminate]. apply loop_free_true in Hlf as [Hex Hp].
    destruct (chan s) as [|[w|] r] eqn:Hch; [discriminate| |].
    + (* a write *)
      destruct (Nat.eqb (length (qobjs s ++ [w])) (batchSize c)) eqn:Hfull.
      * inversion Hs; subst; clear Hs.
        assert (Hlen : (length (qobjs s ++ [w]) <= batchSize c)%nat) by (apply Nat.eqb_eq in Hfull; lia).
        destruct (write_fn_spec c s r (qobjs s ++ [w]) false Hp Iwf Hlen)
          as (Hm & Hwf & Hq & Hc & Har & Hpd & Ho & Hsq & Hd & He & Hn & Hcc & Hh & Hr).
        constructor; try rewrite Hm; try rewrite Hq; try rewrite Hc; try rewrite Har; try rewrite Ho;
          try rewrite Hsq; try rewrite Hh; try rewrite Hn; try rewrite Hcc; auto; try congruence.
        all: try (cbn; lia).
        all: rewrite <- Ipipe; cbn; rewrite <- ?app_assoc; reflexivity.
      * inversion Hs; subst; clear Hs. apply Nat.eqb_neq in Hfull. rewrite app_length in *. cbn [length] in *.
        constructor; cbn; auto.
        -- unfold batches in *. cbn. rewrite <- Ipipe. cbn. rewrite <- !app_assoc. reflexivity.
        -- rewrite app_length. cbn. lia.
        -- intros H. split; [destruct (qobjs s); discriminate|].
           destruct (Nat.eqb (length (qobjs s) + 1) 1) eqn:E1.
           ++ destruct (timed c); [reflexivity|]. apply Ia1 in H. tauto.
           ++ apply Ia1 in H. tauto.
        -- intros Ht _ _. rewrite Ht. destruct (Nat.eqb (length (qobjs s) + 1) 1) eqn:E1; [reflexivity|].
           apply Ia2; auto. apply Nat.eqb_neq in E1. destruct (qobjs s); cbn in *; [lia|congruence].
    + (* flush marker *)
      inversion Hs; subst; clear Hs.
      assert (Hlen : (length (qobjs s) <= batchSize c)%nat) by lia.
      destruct (write_fn_spec c s r (qobjs s) false Hp Iwf Hlen)
        as (Hm & Hwf & Hq & Hc & Har & Hpd & Ho & Hsq & Hd & He & Hn & Hcc & Hh & Hr).
      constructor; try rewrite Hm; try rewrite Hq; try rewrite Hc; try rewrite Har; try rewrite Ho;
        try rewrite Hsq; try rewrite Hh; try rewrite Hn; try rewrite Hcc; auto; try congruence.
      all: try (cbn; lia).
      all: rewrite <- Ipipe; cbn; rewrite <- ?app_assoc; reflexivity.
  - (* ATimer *)
    destruct (loop_free s) eqn:Hlf; [|discriminate]. apply loop_free_true in Hlf as [Hex Hp].
    destruct (armed s) eqn:Harm; [|discriminate]. cbn in Hs.
    inversion Hs; subst; clear Hs.
    assert (Hlen : (length (qobjs s) <= batchSize c)%nat) by lia.
    destruct (write_fn_spec c s (chan s) (qobjs s) false Hp Iwf Hlen)
      as (Hm & Hwf & Hq & Hc & Har & Hpd & Ho & Hsq & Hd & He & Hn & Hcc & Hh & Hr).
    constructor; try rewrite Hm; try rewrite Hq; try rewrite Hc; try rewrite Har; try rewrite Ho;
      try rewrite Hsq; try rewrite Hh; try rewrite Hn; try rewrite Hcc; auto; try congruence.
    all: try (cbn; lia).
    all: rewrite <- Ipipe; cbn; rewrite <- ?app_assoc; reflexivity.
  - (* AConsume *)
    destruct (slot s) as [b|] eqn:Hsl; [|discriminate].
    inversion Hs; subst; clear Hs.
    assert (Hbs : forall o, batches {| chan := chan s; qobjs := qobjs s; armed := armed s; slot := pend s; pend := None;
              seq := seq s; done := done s; exited := exited s; out := out s ++ [b]; nclosed := nclosed s;
              closedch := closedch s; hist := hist s; rets := o |} = batches s).
    { intros o. unfold batches. cbn [out slot pend]. rewrite Hsl. cbn [ol]. rewrite app_nil_r, <- app_assoc. reflexivity. }
    constructor; try rewrite Hbs; cbn [chan qobjs armed slot pend seq done exited out nclosed closedch hist rets]; auto.
    + rewrite firstn_app. replace (nclosed s - length (out s))%nat with 0%nat by lia. cbn. rewrite app_nil_r. exact Icl.
    + rewrite app_length. cbn. lia.
  - (* AReqClose *)
    destruct (nth_error (out s) (nclosed s)) as [b|] eqn:Hn; [|discriminate].
    inversion Hs; subst; clear Hs.
    constructor; cbn [chan qobjs armed slot pend seq done exited out nclosed closedch hist rets]; auto.
    + rewrite (firstn_S_nth _ _ _ _ Hn), flat_map_app, Icl. cbn. rewrite app_nil_r. reflexivity.
    + assert ((nclosed s < length (out s))%nat) by (apply nth_error_Some; rewrite Hn; discriminate). lia.
  - (* AClose *)
    inversion Hs; subst; clear Hs. constructor; cbn; auto.
  - (* AExit *)
    destruct (done s); [|discriminate]. destruct (loop_free s) eqn:Hlf; [|discriminate]. cbn in Hs.
    inversion Hs; subst; clear Hs. constructor; cbn; auto; try congruence.
Qed.

Lemma run_from_inv : forall c l s s', (0 < batchSize c)%nat -> Inv c s -> run_from c s l = Some s' -> Inv c s'.
Proof.
  intros c l. induction l as [|a l IH]; intros s s' Hb I H; cbn in H.
  - inversion H; subst. exact I.
  - destruct (step c s a) as [s1|] eqn:Hs; [|discriminate].
    exact (IH s1 s' Hb (step_inv c s a s1 Hb I Hs) H).
Qed.

Lemma run_inv : forall c l s, (0 < batchSize c)%nat -> run c l = Some s -> Inv c s.
Proof. intros c l s Hb H. exact (run_from_inv c l (init c) s Hb (inv_init c Hb) H). Qed.

(* ---- the accepted writes are exactly the Write calls before Close, numbered consecutively ---- *)

Lemma write_fn_fields : forall s ch q ar,
  hist (write_fn s ch q ar) = hist s /\ seq (write_fn s ch q ar) = seq s /\ done (write_fn s ch q ar) = done s.
Proof. intros. unfold write_fn. destruct (merge q); [destruct (slot s)|]; auto. Qed.

Lemma step_hist : forall c s a s1, step c s a = Some s1 ->
  (done s = true -> hist s1 = hist s /\ done s1 = true) /\
  (done s = false ->
     match a with
     | AWrite o f => hist s1 = hist s ++ [{| q_seq := seq s + 1; q_objs := o; q_fc := f |}] /\ seq s1 = seq s + 1 /\ done s1 = false
     | AClose => hist s1 = hist s /\ done s1 = true
     | _ => hist s1 = hist s /\ seq s1 = seq s /\ done s1 = false
     end).
Proof.
  intros c s a s1 H. destruct a; cbn [step] in H.
  - destruct (done s) eqn:Hd.
    + inversion H; subst; cbn. split; auto. discriminate.
    + destruct (Nat.ltb _ _); [|discriminate]. inversion H; subst; cbn. split; auto. discriminate.
  - destruct (Nat.ltb _ _); [|discriminate]. inversion H; subst; cbn. split; intros Hd; auto.
  - destruct (loop_free s); [|discriminate]. destruct (chan s) as [|[w|] r]; [discriminate| |].
    + destruct (Nat.eqb _ _).
      * inversion H; subst. destruct (write_fn_fields s r (qobjs s ++ [w]) false) as (H1 & H2 & H3).
        rewrite H1, H2, H3. split; intros Hd; auto.
      * inversion H; subst; cbn. split; intros Hd; auto.
    + inversion H; subst. destruct (write_fn_fields s r (qobjs s) false) as (H1 & H2 & H3).
      rewrite H1, H2, H3. split; intros Hd; auto.
  - destruct (loop_free s && armed s); [|discriminate]. inversion H; subst.
    destruct (write_fn_fields s (chan s) (qobjs s) false) as (H1 & H2 & H3).
    rewrite H1, H2, H3. split; intros Hd; auto.
  - destruct (slot s); [|discriminate]. inversion H; subst; cbn. split; intros Hd; auto.
  - destruct (nth_error _ _); [|discriminate]. inversion H; subst; cbn. split; intros Hd; auto.
  - inversion H; subst; cbn. split; intros Hd; auto.
  - destruct (done s && loop_free s) eqn:E; [|discriminate]. inversion H; subst; cbn.
    split; intros Hd; auto.
Qed.

Lemma run_from_hist : forall c l s s', run_from c s l = Some s' ->
  hist s' = hist s ++ (if done s then [] else number (seq s) (accepted l)).
Proof.
  intros c l. induction l as [|a l IH]; intros s s' H; cbn in H.
  - inversion H; subst. destruct (done s'); cbn; rewrite app_nil_r; reflexivity.
  - destruct (step c s a) as [s1|] eqn:Hs; [|discriminate].
    apply IH in H. apply step_hist in Hs as [Ht Hf].
    destruct (done s) eqn:Hd.
    + destruct (Ht eq_refl) as [Hh Hd1]. rewrite H, Hd1, Hh. reflexivity.
    + specialize (Hf eq_refl). destruct a; cbn [accepted].
      * destruct Hf as (Hh & Hsq & Hd1). rewrite H, Hd1, Hh, Hsq. cbn [number]. rewrite <- app_assoc. reflexivity.
      * destruct Hf as (Hh & Hsq & Hd1). rewrite H, Hd1, Hh, Hsq. reflexivity.
      * destruct Hf as (Hh & Hsq & Hd1). rewrite H, Hd1, Hh, Hsq. reflexivity.
      * destruct Hf as (Hh & Hsq & Hd1). rewrite H, Hd1, Hh, Hsq. reflexivity.
      * destruct Hf as (Hh & Hsq & Hd1). rewrite H, Hd1, Hh, Hsq. reflexivity.
      * destruct Hf as (Hh & Hsq & Hd1). rewrite H, Hd1, Hh, Hsq. reflexivity.
      * destruct Hf as (Hh & Hd1). rewrite H, Hd1, Hh. reflexivity.
      * destruct Hf as (Hh & Hsq & Hd1). rewrite H, Hd1, Hh, Hsq. reflexivity.
Qed.

Lemma run_hist : forall c l s, run c l = Some s -> hist s = spec_writes c l.
Proof. intros c l s H. apply run_from_hist in H. exact H. Qed.

(* ---- what a merged request looks like ---- *)

Lemma fold_max_ge : forall qs m, m <= fold_left (fun m q => if m <? q_seq q then q_seq q else m) qs m
  /\ (forall w, In w qs -> q_seq w <= fold_left (fun m q => if m <? q_seq q then q_seq q else m) qs m).
Proof.
  induction qs as [|q qs IH]; intros m; cbn [fold_left].
  - split; [lia|]. intros w [].
  - destruct (IH (if m <? q_seq q then q_seq q else m)) as [H1 H2]. split.
    + destruct (m <? q_seq q) eqn:E; lia.
    + intros w [->|Hin]; [|auto]. destruct (m <? q_seq w) eqn:E; lia.
Qed.

Lemma fold_max_in : forall qs m,
  fold_left (fun m q => if m <? q_seq q then q_seq q else m) qs m = m \/
  exists w, In w qs /\ q_seq w = fold_left (fun m q => if m <? q_seq q then q_seq q else m) qs m.
Proof.
  induction qs as [|q qs IH]; intros m; cbn [fold_left]; [left; reflexivity|].
  destruct (IH (if m <? q_seq q then q_seq q else m)) as [H|(w & Hin & Hw)].
  - destruct (m <? q_seq q) eqn:E.
    + right. exists q. split; [left; reflexivity|]. symmetry. exact H.
    + left. exact H.
  - right. exists w. split; [right; exact Hin|exact Hw].
Qed.

Lemma wf_ok : forall c b, batch_wf c b -> batch_ok c b.
Proof.
  intros c b [Hm Hlen]. unfold batch_ok. destruct (b_ws b) as [|q0 qs] eqn:Hws; cbn [merge] in Hm; [discriminate|].
  injection Hm as Hb. subst b. cbn [b_ws b_objs b_fcs b_seq] in *.
  repeat split; try congruence.
  - intros w Hin. apply (proj2 (fold_max_ge (q0 :: qs) (q_seq q0))). exact Hin.
  - destruct (fold_max_in (q0 :: qs) (q_seq q0)) as [H|(w & Hin & Hw)].
    + exists q0. split; [left; reflexivity|]. symmetry. exact H.
    + exists w. split; assumption.
Qed.

Lemma objs_of_members : forall c bs, Forall (batch_wf c) bs -> flat_map b_objs bs = flat_map q_objs (members bs).
Proof.
  intros c bs. induction bs as [|b bs IHb]; intros Hwf; [reflexivity|]. inversion Hwf as [|? ? H2 H3]; subst.
  unfold members. cbn [flat_map]. rewrite flat_map_app. f_equal; [|apply IHb; assumption].
  apply wf_ok in H2. destruct H2 as (_ & _ & Ho & _). exact Ho.
Qed.

(* ---- sequence numbers ---- *)

Lemma zrange_gt : forall n z x, In x (zrange z n) -> z < x.
Proof.
  induction n as [|n IH]; intros z x H; cbn in H; [contradiction|].
  destruct H as [<-|H]; [lia|]. apply IH in H. lia.
Qed.

Lemma zrange_sorted : forall n z, StronglySorted Z.lt (zrange z n).
Proof.
  induction n as [|n IH]; intros z; cbn [zrange]; constructor; [apply IH|].
  apply Forall_forall. intros x H. apply zrange_gt in H. lia.
Qed.

Lemma sorted_app_inv : forall (l1 l2 : list Z), StronglySorted Z.lt (l1 ++ l2) ->
  StronglySorted Z.lt l1 /\ StronglySorted Z.lt l2 /\ (forall x y, In x l1 -> In y l2 -> x < y).
Proof.
  induction l1 as [|a l1 IH]; intros l2 H; cbn in *.
  - repeat split; [constructor|exact H|intros x y []].
  - inversion H as [|? ? Hs Hf]; subst. destruct (IH _ Hs) as (H1 & H2 & H3).
    rewrite Forall_forall in Hf. repeat split; auto.
    + constructor; [exact H1|]. apply Forall_forall. intros x Hx. apply Hf. apply in_or_app. left. exact Hx.
    + intros x y [<-|Hx] Hy; [|auto]. apply Hf. apply in_or_app. right. exact Hy.
Qed.

(* If the writes of consecutive batches carry increasing numbers and every batch carries the largest
   number it contains, then batch numbers increase and every write of a later batch is beyond every
   earlier batch's number. *)
Lemma batches_sorted : forall c bs, Forall (batch_ok c) bs ->
  StronglySorted Z.lt (map q_seq (members bs)) ->
  StronglySorted Z.lt (map b_seq bs) /\
  (forall p b r w, bs = p ++ b :: r -> In w (members r) -> b_seq b < q_seq w).
Proof.
  intros c bs. induction bs as [|b bs IH]; intros Hok Hs.
  - split; [constructor|]. intros [|] ? ? ? H; discriminate.
  - inversion Hok as [|? ? Hb Hr]; subst. unfold members in Hs. cbn [flat_map] in Hs. rewrite map_app in Hs.
    apply sorted_app_inv in Hs as (Hs1 & Hs2 & Hx). destruct (IH Hr Hs2) as [IH1 IH2].
    destruct Hb as (_ & _ & _ & _ & _ & (wm & Hwm & Hmax)).
    assert (Hcross : forall w, In w (members bs) -> b_seq b < q_seq w).
    { intros w Hw. rewrite <- Hmax. apply Hx; apply in_map; assumption. }
    split.
    + cbn [map]. constructor; [exact IH1|]. apply Forall_forall. intros x Hxin.
      apply in_map_iff in Hxin as (b' & <- & Hb'). rewrite Forall_forall in Hr.
      destruct (Hr b' Hb') as (_ & _ & _ & _ & _ & (w' & Hw' & Hmax')). rewrite <- Hmax'.
      apply Hcross. unfold members. apply in_flat_map. exists b'. split; assumption.
    + intros [|b0 p] b1 r w Heq Hw; cbn in Heq; inversion Heq; subst.
      * apply Hcross. exact Hw.
      * eapply IH2; eauto.
Qed.

(* ------------------------------------------------------------------ the property, statement by statement *)

Section Property.
Variable c : cfg.
Hypothesis Hbs : (0 < batchSize c)%nat.

(* FIFO, lossless, unsplit: the writes of the delivered requests followed by the writes still inside the
   queue are exactly the accepted writes, whole, in acceptance order, each once. *)
Lemma fifo_lossless_unsplit : forall l s, run c l = Some s ->
  members (out s) ++ in_flight s = spec_writes c l /\
  flat_map b_objs (out s) ++ flat_map q_objs (in_flight s) = flat_map fst (accepted l).
Proof.
  intros l s H. pose proof (run_inv c l s Hbs H) as I. pose proof (run_hist c l s H) as Hh.
  assert (E : members (out s) ++ in_flight s = spec_writes c l).
  { rewrite <- Hh, <- (I_pipe c s I). unfold in_flight, batches. rewrite !members_app, <- !app_assoc. reflexivity. }
  split; [exact E|].
  assert (Hobj : flat_map b_objs (out s) = flat_map q_objs (members (out s))).
  { pose proof (I_wf c s I) as Hwf. unfold batches in Hwf. apply Forall_app in Hwf as [Hwf _].
    apply (objs_of_members c). exact Hwf. }
  rewrite Hobj, <- flat_map_app, E. unfold spec_writes. generalize (seq0 c).
  induction (accepted l) as [|[o f] r IHr]; intros z; [reflexivity|]. cbn. f_equal. apply IHr.
Qed.

(* once nothing is in flight every accepted write has been delivered *)
Lemma quiescent_all_delivered : forall l s, run c l = Some s -> in_flight s = [] ->
  members (out s) = spec_writes c l.
Proof. intros l s H Hq. destruct (fifo_lossless_unsplit l s H) as [E _]. rewrite Hq, app_nil_r in E. exact E. Qed.

(* batch bound, merge shape, and "carries the largest sequence number it contains" *)
Lemma every_batch_ok : forall l s, run c l = Some s -> Forall (batch_ok c) (batches s).
Proof.
  intros l s H. pose proof (I_wf c s (run_inv c l s Hbs H)) as Hwf.
  eapply Forall_impl; [|exact Hwf]. intros b. apply wf_ok.
Qed.

Lemma seq_increasing : forall l s, run c l = Some s ->
  StronglySorted Z.lt (map b_seq (batches s)) /\
  (forall p b r w, batches s = p ++ b :: r -> In w (members r) -> b_seq b < q_seq w) /\
  flat_map ol (rets s) = zrange (seq0 c) (length (spec_writes c l)).
Proof.
  intros l s H. pose proof (run_inv c l s Hbs H) as I. pose proof (run_hist c l s H) as Hh.
  assert (Hs : StronglySorted Z.lt (map q_seq (members (batches s)))).
  { pose proof (zrange_sorted (length (hist s)) (seq0 c)) as Hz. rewrite <- (I_seq c s I), <- (I_pipe c s I) in Hz.
    rewrite map_app in Hz. apply sorted_app_inv in Hz. tauto. }
  destruct (batches_sorted c _ (every_batch_ok l s H) Hs) as [H1 H2].
  repeat split; auto. rewrite (I_rets c s I), (I_seq c s I), Hh. reflexivity.
Qed.

(* flush channels: closed exactly by Close of the delivered request that contains the write *)
Lemma flush_only_with_batch : forall l s cid, run c l = Some s ->
  (In cid (closedch s) <->
   exists b w, In b (firstn (nclosed s) (out s)) /\ In w (b_ws b) /\ q_fc w = Some cid).
Proof.
  intros l s cid H. pose proof (run_inv c l s Hbs H) as I. rewrite (I_closed c s I).
  assert (Hok : Forall (batch_ok c) (firstn (nclosed s) (out s))).
  { pose proof (every_batch_ok l s H) as Hall. unfold batches in Hall. apply Forall_app in Hall as [Hall _].
    rewrite Forall_forall in *. intros b Hb. apply Hall. apply (firstn_in _ _ _ _ Hb). }
  rewrite Forall_forall in Hok. rewrite in_flat_map. split.
  - intros (b & Hb & Hc). destruct (Hok b Hb) as (_ & _ & _ & Hf & _). rewrite Hf in Hc.
    apply in_flat_map in Hc as (w & Hw & Hc). exists b, w. repeat split; auto.
    unfold fc_list in Hc. destruct (q_fc w); [|contradiction]. destruct Hc as [->|[]]. reflexivity.
  - intros (b & w & Hb & Hw & Hc). exists b. split; [exact Hb|].
    destruct (Hok b Hb) as (_ & _ & _ & Hf & _). rewrite Hf. apply in_flat_map. exists w. split; [exact Hw|].
    unfold fc_list. rewrite Hc. left. reflexivity.
Qed.

(* with a non-zero timeout the loop never holds writes without a running timer *)
Lemma timer_covers_pending : forall l s, run c l = Some s ->
  timed c = true -> qobjs s <> [] -> exited s = false -> armed s = true.
Proof. intros l s H. apply (I_arm2 c s (run_inv c l s Hbs H)). Qed.

End Property.

(* ------------------------------------------------------------------ concrete instances *)

Definition ex_cfg := {| maxSize := 4; batchSize := 2; timed := true; seq0 := 100 |}.
Definition ex_l :=
  [AWrite [1; 2]%N (Some 7%N); ATake; AWrite [3]%N None; ATake;           (* size batch *)
   AWrite [4; 5; 6]%N (Some 8%N); AConsume; ATake; ATimer; AReqClose;     (* timer batch *)
   AWrite []%N (Some 9%N); AFlush; ATake; ATake; AConsume; AConsume;      (* flush batch of an empty write *)
   AReqClose; AWrite [10]%N None; AClose; AWrite [11]%N None; ATake; AExit].

Example ex_run : exists s, run ex_cfg ex_l = Some s /\
  map proj_batch (out s) = [(102, [1; 2; 3]%N, [7%N]); (103, [4; 5; 6]%N, [8%N]); (104, []%N, [9%N])] /\
  closedch s = [7; 8]%N /\ map q_seq (qobjs s) = [105] /\ rets s = [Some 101; Some 102; Some 103; Some 104; Some 105; None].
Proof. eexists. split; [vm_compute; reflexivity|]. vm_compute. repeat split. Qed.

Example ex_fifo : exists s, run ex_cfg ex_l = Some s /\
  members (out s) ++ in_flight s = spec_writes ex_cfg ex_l /\ in_flight s <> [].
Proof.
  destruct ex_run as (s & H & _). exists s. split; [exact H|]. split.
  - apply (fifo_lossless_unsplit ex_cfg (ltac:(cbn; lia)) ex_l s H).
  - vm_compute in H. inversion H; subst. cbn. discriminate.
Qed.

(* batchSize bounds the number of Write calls merged into a request, not the number of objects *)
Example batch_size_counts_writes_not_objects : exists s b, run ex_cfg ex_l = Some s /\ In b (out s) /\
  (length (b_objs b) > batchSize ex_cfg)%nat /\ (length (b_ws b) <= batchSize ex_cfg)%nat.
Proof.
  destruct ex_run as (s & H & _). vm_compute in H. inversion H; subst. clear H.
  eexists. eexists. split; [vm_compute; reflexivity|]. split; [left; reflexivity|]. cbn. lia.
Qed.

Example ex_quiet : exists s, run ex_cfg [AWrite [1]%N None; ATake; ATimer; AConsume] = Some s /\ in_flight s = [] /\
  members (out s) = spec_writes ex_cfg [AWrite [1]%N None; ATake; ATimer; AConsume].
Proof. eexists. split; [vm_compute; reflexivity|]. split; reflexivity. Qed.

Example ex_timer : exists s, run ex_cfg [AWrite [1]%N None; ATake] = Some s /\ qobjs s <> [] /\ armed s = true.
Proof. eexists. split; [vm_compute; reflexivity|]. split; [discriminate|reflexivity]. Qed.

(* ------------------------------------------------------------------ schedule independence without a timeout *)

(* The partition of a stream of channel items into requests that the property describes when no timer
   exists: cut when batchSize writes are together, or at a flush marker if something is waiting. *)
Fixpoint part (bsz : nat) (items : list item) (cur : list qwrite) : list (list qwrite) * list qwrite :=
  match items with
  | [] => ([], cur)
  | IW w :: r =>
      let cur' := cur ++ [w] in
      if Nat.eqb (length cur') bsz then let (g, c) := part bsz r [] in (cur' :: g, c) else part bsz r cur'
  | IFlush :: r =>
      match cur with
      | [] => part bsz r []
      | _ => let (g, c) := part bsz r [] in (cur :: g, c)
      end
  end.

(* the items a schedule puts on the channel: numbered accepted writes, and flush markers *)
Fixpoint items_of (z : Z) (closed : bool) (l : list action) : list item :=
  match l with
  | [] => []
  | AWrite o f :: r => if closed then items_of z closed r
                       else IW {| q_seq := z + 1; q_objs := o; q_fc := f |} :: items_of (z + 1) closed r
  | AFlush :: r => IFlush :: items_of z closed r
  | AClose :: r => items_of z true r
  | _ :: r => items_of z closed r
  end.

Lemma part_app : forall bsz l1 l2 cur,
  part bsz (l1 ++ l2) cur =
  let (g1, c1) := part bsz l1 cur in let (g2, c2) := part bsz l2 c1 in (g1 ++ g2, c2).
Proof.
  intros bsz l1. induction l1 as [|i l1 IH]; intros l2 cur; cbn [app part].
  - destruct (part bsz l2 cur). reflexivity.
  - destruct i as [w|].
    + destruct (Nat.eqb (length (cur ++ [w])) bsz).
      * rewrite IH. destruct (part bsz l1 []) as [g1 c1]. destruct (part bsz l2 c1). reflexivity.
      * apply IH.
    + destruct cur as [|x cur]; [apply IH|].
      rewrite IH. destruct (part bsz l1 []) as [g1 c1]. destruct (part bsz l2 c1). reflexivity.
Qed.

(* everything the loop has produced, followed by what it will produce from the items still in the channel *)
Definition virt (c : cfg) (s : state) : list (list qwrite) * list qwrite :=
  let (g, cur) := part (batchSize c) (chan s) (qobjs s) in (map b_ws (batches s) ++ g, cur).

Lemma write_fn_virt : forall s ch q ar, pend s = None ->
  let s1 := write_fn s ch q ar in
  map b_ws (batches s1) = map b_ws (batches s) ++ (match q with [] => [] | _ => [q] end) /\
  qobjs s1 = [] /\ chan s1 = ch.
Proof.
  intros s ch q ar Hp. unfold write_fn. destruct q as [|w q'].
  - cbn [merge]. cbn. unfold batches. cbn. rewrite app_nil_r. auto.
  - destruct (merge_some (w :: q')) as (b & Hm & Hb); [congruence|]. rewrite Hm.
    unfold batches. rewrite Hp. destruct (slot s); cbn; rewrite !map_app; cbn; rewrite Hb, ?app_nil_r, <- ?app_assoc; auto.
Qed.

Lemma step_virt : forall c s a s', (0 < batchSize c)%nat -> timed c = false -> Inv c s ->
  step c s a = Some s' ->
  virt c s' =
  match a with
  | AWrite o f =>
      if done s then virt c s
      else let (g, cur) := virt c s in
           let (g', cur') := part (batchSize c) [IW {| q_seq := seq s + 1; q_objs := o; q_fc := f |}] cur in (g ++ g', cur')
  | AFlush => let (g, cur) := virt c s in let (g', cur') := part (batchSize c) [IFlush] cur in (g ++ g', cur')
  | _ => virt c s
  end.
Proof.
  intros c s a s' Hb Ht I H. destruct a as [o f| | | | | | | ]; cbn [step] in H.
  - destruct (done s); [inversion H; subst; reflexivity|]. destruct (Nat.ltb _ _); [|discriminate].
    inversion H; subst. unfold virt, batches. cbn [chan qobjs out slot pend]. rewrite part_app.
    destruct (part (batchSize c) (chan s) (qobjs s)) as [g cur].
    destruct (part (batchSize c) [IW _] cur) as [g' cur']. rewrite app_assoc. reflexivity.
  - destruct (Nat.ltb _ _); [|discriminate].
    inversion H; subst. unfold virt, batches. cbn [chan qobjs out slot pend]. rewrite part_app.
    destruct (part (batchSize c) (chan s) (qobjs s)) as [g cur].
    destruct (part (batchSize c) [IFlush] cur) as [g' cur']. rewrite app_assoc. reflexivity.
  - destruct (loop_free s) eqn:Hlf; [|discriminate]. apply loop_free_true in Hlf as [_ Hp].
    destruct (chan s) as [|[w|] r] eqn:Hch; [discriminate| |].
    + destruct (Nat.eqb (length (qobjs s ++ [w])) (batchSize c)) eqn:Hfull.
      * inversion H; subst. destruct (write_fn_virt s r (qobjs s ++ [w]) false Hp) as (Hm & Hq & Hc).
        unfold virt. rewrite Hm, Hq, Hc, Hch. cbn [part]. rewrite Hfull.
        destruct (part (batchSize c) r []) as [g cur]. destruct (qobjs s ++ [w]) eqn:E; [destruct (qobjs s); discriminate|].
        rewrite <- app_assoc. reflexivity.
      * inversion H; subst. unfold virt, batches. cbn [chan qobjs out slot pend]. rewrite Hch. cbn [part]. rewrite Hfull. reflexivity.
    + inversion H; subst. destruct (write_fn_virt s r (qobjs s) false Hp) as (Hm & Hq & Hc).
      unfold virt. rewrite Hm, Hq, Hc, Hch. cbn [part]. destruct (qobjs s) as [|x q'].
      * rewrite app_nil_r. reflexivity.
      * destruct (part (batchSize c) r []) as [g cur]. rewrite <- app_assoc. reflexivity.
  - (* no timer without a timeout *)
    destruct (loop_free s); [|discriminate]. destruct (armed s) eqn:Ha; [|discriminate].
    destruct (I_arm1 c s I Ha) as [_ Htm]. congruence.
  - destruct (slot s) as [b|] eqn:Hsl; [|discriminate]. inversion H; subst.
    unfold virt, batches. cbn [chan qobjs out slot pend]. rewrite Hsl. cbn [ol]. rewrite app_nil_r, <- app_assoc. reflexivity.
  - destruct (nth_error _ _); [|discriminate]. inversion H; subst. reflexivity.
  - inversion H; subst. reflexivity.
  - destruct (done s && loop_free s); [|discriminate]. inversion H; subst. reflexivity.
Qed.

Lemma run_from_virt : forall c l s s', (0 < batchSize c)%nat -> timed c = false -> Inv c s ->
  run_from c s l = Some s' ->
  virt c s' = let (g, cur) := virt c s in
              let (g', cur') := part (batchSize c) (items_of (seq s) (done s) l) cur in (g ++ g', cur').
Proof.
  intros c l. induction l as [|a l IH]; intros s s' Hb Ht I H; cbn [run_from] in H.
  - inversion H; subst. cbn. destruct (virt c s'). rewrite app_nil_r. reflexivity.
  - destruct (step c s a) as [s1|] eqn:E; [|discriminate].
    pose proof (step_inv c s a s1 Hb I E) as I1. rewrite (IH s1 s' Hb Ht I1 H).
    rewrite (step_virt c s a s1 Hb Ht I E). pose proof (step_hist c s a s1 E) as [Hd1 Hd2].
    destruct a as [o f| | | | | | | ]; cbn [items_of].
    + destruct (done s) eqn:Hd.
      * destruct (Hd1 eq_refl) as [_ Hd']. rewrite Hd'.
        assert (Hs : seq s1 = seq s). { cbn [step] in E. rewrite Hd in E. inversion E; subst. reflexivity. }
        rewrite Hs. reflexivity.
      * destruct (Hd2 eq_refl) as (_ & Hs & Hd'). rewrite Hs, Hd'.
        set (w0 := {| q_seq := seq s + 1; q_objs := o; q_fc := f |}).
        remember (items_of (seq s + 1) false l) as its eqn:Hits.
        destruct (virt c s) as [g cur]. change (IW w0 :: its) with ([IW w0] ++ its).
        rewrite (part_app (batchSize c) [IW w0] its cur).
        destruct (part (batchSize c) [IW w0] cur) as [g1 c1].
        destruct (part (batchSize c) its c1) as [g2 c2].
        rewrite app_assoc. reflexivity.
    + assert (Hs : seq s1 = seq s /\ done s1 = done s).
      { cbn [step] in E. destruct (Nat.ltb _ _); inversion E; subst. auto. }
      destruct Hs as [Hs Hd']. rewrite Hs, Hd'.
      remember (items_of (seq s) (done s) l) as its eqn:Hits.
      destruct (virt c s) as [g cur]. change (IFlush :: its) with ([IFlush] ++ its).
      rewrite (part_app (batchSize c) [IFlush] its cur).
      destruct (part (batchSize c) [IFlush] cur) as [g1 c1].
      destruct (part (batchSize c) its c1) as [g2 c2].
      rewrite app_assoc. reflexivity.
    + destruct (done s) eqn:Hd; [destruct (Hd1 eq_refl) as [_ Hd']|destruct (Hd2 eq_refl) as (_ & Hs & Hd')].
      * assert (Hs : seq s1 = seq s).
        { cbn [step] in E. destruct (loop_free s); [|discriminate]. destruct (chan s) as [|[w|] r]; [discriminate| |].
          - destruct (Nat.eqb _ _); inversion E; subst; [apply write_fn_fields|reflexivity].
          - inversion E; subst. apply write_fn_fields. }
        rewrite Hs, Hd'. reflexivity.
      * rewrite Hs, Hd'. reflexivity.
    + destruct (done s) eqn:Hd; [destruct (Hd1 eq_refl) as [_ Hd']|destruct (Hd2 eq_refl) as (_ & Hs & Hd')].
      * assert (Hs : seq s1 = seq s).
        { cbn [step] in E. destruct (loop_free s && armed s); inversion E; subst. apply write_fn_fields. }
        rewrite Hs, Hd'. reflexivity.
      * rewrite Hs, Hd'. reflexivity.
    + destruct (done s) eqn:Hd; [destruct (Hd1 eq_refl) as [_ Hd']|destruct (Hd2 eq_refl) as (_ & Hs & Hd')].
      * assert (Hs : seq s1 = seq s). { cbn [step] in E. destruct (slot s); inversion E; subst. reflexivity. }
        rewrite Hs, Hd'. reflexivity.
      * rewrite Hs, Hd'. reflexivity.
    + destruct (done s) eqn:Hd; [destruct (Hd1 eq_refl) as [_ Hd']|destruct (Hd2 eq_refl) as (_ & Hs & Hd')].
      * assert (Hs : seq s1 = seq s). { cbn [step] in E. destruct (nth_error _ _); inversion E; subst. reflexivity. }
        rewrite Hs, Hd'. reflexivity.
      * rewrite Hs, Hd'. reflexivity.
    + assert (Hs : seq s1 = seq s /\ done s1 = true). { cbn [step] in E. inversion E; subst. auto. }
      destruct Hs as [Hs Hd']. rewrite Hs, Hd'.
      assert (Hcl : forall z l0, items_of z (done s) l0 = items_of z (done s) l0) by reflexivity.
      destruct (done s) eqn:Hd; [reflexivity|]. reflexivity.
    + destruct (done s) eqn:Hd; [destruct (Hd1 eq_refl) as [_ Hd']|destruct (Hd2 eq_refl) as (_ & Hs & Hd')].
      * assert (Hs : seq s1 = seq s). { cbn [step] in E. destruct (done s && loop_free s); inversion E; subst. reflexivity. }
        rewrite Hs, Hd'. reflexivity.
      * rewrite Hs, Hd'. reflexivity.
Qed.

(* Without a timeout, the requests that are or will be produced depend only on the order in which writes and
   flush markers entered the channel — not on how the loop, the consumer and the producers were interleaved.
   In particular two schedules with the same items that have drained the channel delivered/produced the same
   requests and hold the same leftover. *)
Lemma untimed_deterministic : forall c, (0 < batchSize c)%nat -> timed c = false -> forall l s, run c l = Some s ->
  virt c s = part (batchSize c) (items_of (seq0 c) false l) [].
Proof.
  intros c Hb Ht l s H. rewrite (run_from_virt c l (init c) s Hb Ht (inv_init c Hb) H). cbn.
  destruct (part (batchSize c) (items_of (seq0 c) false l) []). reflexivity.
Qed.

Lemma untimed_drained : forall c, (0 < batchSize c)%nat -> timed c = false -> forall l s, run c l = Some s -> chan s = [] ->
  (map b_ws (batches s), qobjs s) = part (batchSize c) (items_of (seq0 c) false l) [].
Proof.
  intros c Hb Ht l s H Hc. rewrite <- (untimed_deterministic c Hb Ht l s H). unfold virt. rewrite Hc. cbn. rewrite app_nil_r. reflexivity.
Qed.

Example ex_part : part 2 (items_of 0 false [AFlush; AWrite [1]%N None; ATake; AWrite [2]%N None; AWrite [3]%N None; AFlush; AClose; AWrite [4]%N None]) []
  = ([[{| q_seq := 1; q_objs := [1%N]; q_fc := None |}; {| q_seq := 2; q_objs := [2%N]; q_fc := None |}];
      [{| q_seq := 3; q_objs := [3%N]; q_fc := None |}]], []).
Proof. reflexivity. Qed.
