(* C09 — the source-derived Snapshot.Less, SnapshotSet.NewestFull and SnapshotSet.PartitionAtFull
   (Gen/SnapshotSet.v, regenerated from snapshot/snapshot.go on every run) are the hand model's
   Model.C09.dlt and split_at_full (the newest full snapshot of an oldest-first list and what is
   newer than it).
   Adapter.  gsnap gives the *Snapshot of a model directory: the model's d_seq "stands for the
   millisecond timestamp in the directory name", so the id is enc (d_seq d) for an encoding enc
   whose byte-wise order is the numeric order (premise); the type is Full iff data.db is present;
   term and index are the raft meta; paths and file lists play no role in these functions. *)
From Coq Require Import List String Bool NArith ZArith Lia ZifyBool ZifyN ZifyNat.
From RQ Require Import Lib.GoLib.
From RQ Require Import Lib.GenTac.
From RQ Require Import Model.C09.
From RQ Require Import Gen.SnapshotSet.
Import ListNotations.
Local Open Scope N_scope.

(* The Section variables of the generated file are instantiated by position below; these lines pin
   their names, so a change of callee cannot go unnoticed. *)
Arguments Snapshot_Less sidecar_Sidecar _ _ : assert.
Arguments SnapshotSet_NewestFull sidecar_Sidecar _ : assert.
Arguments SnapshotSet_PartitionAtFull sidecar_Sidecar _ : assert.

Lemma slice_one : forall (A : Type) (a b : list A) (x : A),
  slice_from (slice_to (a ++ x :: b) (Z.of_nat (List.length a) + 1)) (Z.of_nat (List.length a)) = [x].
Proof.
  intros A a b x. unfold slice_from, slice_to.
  replace (Z.to_nat (Z.of_nat (List.length a) + 1)) with (List.length a + 1)%nat by lia. rewrite Nat2Z.id.
  replace (a ++ x :: b) with ((a ++ [x]) ++ b) by (rewrite <- app_assoc; reflexivity).
  rewrite firstn_app, app_length. cbn [List.length].
  replace (List.length a + 1 - (List.length a + 1))%nat with 0%nat by lia.
  rewrite firstn_O, app_nil_r, firstn_all2 by (rewrite app_length; cbn; lia).
  rewrite skipn_app, skipn_all, Nat.sub_diag. reflexivity.
Qed.

Lemma slice_rest : forall (A : Type) (a b : list A) (x : A),
  slice_from (a ++ x :: b) (Z.of_nat (List.length a) + 1) = b.
Proof.
  intros A a b x. unfold slice_from.
  replace (Z.to_nat (Z.of_nat (List.length a) + 1)) with (List.length a + 1)%nat by lia.
  replace (a ++ x :: b) with ((a ++ [x]) ++ b) by (rewrite <- app_assoc; reflexivity).
  rewrite skipn_app, skipn_all2 by (rewrite app_length; cbn; lia).
  rewrite app_length. cbn [List.length]. rewrite Nat.sub_diag. reflexivity.
Qed.

Section Catalog.
  Variable enc : N -> string.
  Hypothesis enc_lt : forall a b, String.ltb (enc a) (enc b) = (a <? b).

  Definition gsnap (d : dirc) : Snapshot unit :=
    mk_Snapshot unit (enc (d_seq d)) EmptyString (if is_full d then 0%Z else 1%Z)
      (mk_raft_SnapshotMeta (Z.of_N (d_index d)) (Z.of_N (d_term d))) (zero_ChecksummedFile unit) [].
  Definition gset (dir : string) (l : list dirc) : SnapshotSet unit := mk_SnapshotSet unit dir (map gsnap l).

  Lemma gen_Less_eq : forall a b, Snapshot_Less unit (gsnap a) (gsnap b) = dlt a b.
  Proof.
    intros a b. unfold Snapshot_Less, dlt, gsnap. aux.
    cbn [Snapshot_raftMeta Snapshot_id raft_SnapshotMeta_Term raft_SnapshotMeta_Index]. rewrite enc_lt.
    destruct (N.eqb_spec (d_term a) (d_term b)), (Z.eqb_spec (Z.of_N (d_term a)) (Z.of_N (d_term b))); try lia; cbn [negb];
    [destruct (N.eqb_spec (d_index a) (d_index b)), (Z.eqb_spec (Z.of_N (d_index a)) (Z.of_N (d_index b))); try lia; cbn [negb]|];
    try reflexivity.
    - destruct (N.ltb_spec (d_index a) (d_index b)), (Z.ltb_spec (Z.of_N (d_index a)) (Z.of_N (d_index b))); try reflexivity; lia.
    - destruct (N.ltb_spec (d_term a) (d_term b)), (Z.ltb_spec (Z.of_N (d_term a)) (Z.of_N (d_term b))); try reflexivity; lia.
  Qed.

  (* split_at_full, characterised without its accumulators: the last full directory of the list *)
  Fixpoint last_full (l : list dirc) : option (list dirc * dirc * list dirc) :=
    match l with
    | [] => None
    | d :: r => match last_full r with
                | Some (pre, x, post) => Some (d :: pre, x, post)
                | None => if is_full d then Some ([], d, r) else None
                end
    end.

  Lemma split_go_spec : forall l older best,
    split_go l older best =
      match last_full l with Some (pre, x, post) => Some (older ++ pre, x, post) | None => best end.
  Proof.
    induction l as [|d r IH]; intros older best; cbn [split_go last_full]; [reflexivity|].
    rewrite IH. destruct (last_full r) as [[[pre x] post]|].
    - rewrite <- app_assoc. reflexivity.
    - destruct (is_full d); [rewrite app_nil_r|]; reflexivity.
  Qed.

  Lemma split_at_full_spec : forall l, split_at_full l = last_full l.
  Proof. intros l. unfold split_at_full. rewrite split_go_spec. destruct (last_full l) as [[[pre x] post]|]; reflexivity. Qed.

  Lemma last_full_snoc : forall l x,
    last_full (l ++ [x]) =
      if is_full x then Some (l, x, [])
      else match last_full l with Some (pre, d, post) => Some (pre, d, post ++ [x]) | None => None end.
  Proof.
    induction l as [|d r IH]; intros x; cbn [app last_full].
    - destruct (is_full x); reflexivity.
    - rewrite IH. destruct (is_full x); [reflexivity|].
      destruct (last_full r) as [[[pre y] post]|]; [reflexivity|]. destruct (is_full d); reflexivity.
  Qed.

  Lemma typ_full : forall d, Z.eqb (Snapshot_typ unit (gsnap d)) Full = is_full d.
  Proof. intros d. unfold gsnap, Full. cbn [Snapshot_typ]. destruct (is_full d); reflexivity. Qed.

  Lemma gen_NewestFull_eq : forall dir l,
    SnapshotSet_NewestFull unit (gset dir l) =
      match split_at_full l with Some (_, d, _) => (Some (gsnap d), true) | None => (None, false) end.
  Proof.
    intros dir l. rewrite split_at_full_spec. unfold SnapshotSet_NewestFull, gset. cbn [SnapshotSet_items].
    induction l as [|x l IH] using rev_ind; [reflexivity|].
    rewrite map_app, rev_app_distr, last_full_snoc. cbn [map rev app]. rewrite typ_full.
    destruct (is_full x); [reflexivity|]. rewrite IH.
    destruct (last_full l) as [[[pre d] post]|]; reflexivity.
  Qed.

  Definition gempty (dir : string) : SnapshotSet unit := mk_SnapshotSet unit dir [].

  Lemma gen_PartitionAtFull_eq : forall dir l,
    SnapshotSet_PartitionAtFull unit (gset dir l) =
      match split_at_full l with
      | Some (_, d, newer) => (gset dir [d], gset dir newer)
      | None => (gempty dir, gempty dir)
      end.
  Proof.
    intros dir l. rewrite split_at_full_spec. unfold SnapshotSet_PartitionAtFull, gset, gempty, zlen.
    cbn [SnapshotSet_items SnapshotSet_dir]. rewrite map_length.
    lazymatch goal with |- ?lhs = _ => lazymatch lhs with ?F ?a0 ?b0 ?c0 => pose (LOOP := F) end end.
    (* pre: not yet scanned; post: scanned from the end, without a full one *)
    enough (H : forall pre post, l = pre ++ post -> forallb (fun d => negb (is_full d)) post = true ->
      LOOP (rev (map gsnap pre)) (Z.of_nat (List.length pre) - 1)%Z (- 1)%Z =
        match last_full pre with
        | Some (_, d, newer) => (mk_SnapshotSet unit dir (map gsnap [d]), mk_SnapshotSet unit dir (map gsnap (newer ++ post)))
        | None => (mk_SnapshotSet unit dir [], mk_SnapshotSet unit dir [])
        end).
    { specialize (H l [] (eq_sym (app_nil_r l)) eq_refl).
      destruct (last_full l) as [[[pre d] post]|]; [rewrite app_nil_r in H|]; exact H. }
    induction pre as [|x pre IH] using rev_ind; intros post Hl Hpost.
    - reflexivity.
    - rewrite map_app, rev_app_distr, last_full_snoc. unfold LOOP; cbn [map rev app]; fold LOOP. rewrite typ_full.
      rewrite app_length, Nat2Z.inj_add. cbn [List.length Z.of_nat]. change (Z.pos (Pos.of_succ_nat 0)) with 1%Z.
      rewrite Z.add_simpl_r.
      destruct (is_full x) eqn:Fx.
      + replace (Z.ltb (Z.of_nat (List.length pre)) 0) with false by (symmetry; apply Z.ltb_ge; lia).
        subst l. rewrite <- app_assoc, map_app. cbn [app map].
        rewrite <- (map_length gsnap pre). rewrite slice_one, slice_rest. reflexivity.
      + rewrite (IH (x :: post)).
        * destruct (last_full pre) as [[[p d] q]|]; [rewrite <- app_assoc|]; reflexivity.
        * rewrite Hl, <- app_assoc. reflexivity.
        * cbn [forallb]. rewrite Fx, Hpost. reflexivity.
  Qed.
End Catalog.

Lemma gen_catalog_eq : forall (enc : N -> string), (forall a b, String.ltb (enc a) (enc b) = (a <? b)) ->
  (forall a b, Snapshot_Less unit (gsnap enc a) (gsnap enc b) = dlt a b) /\
  (forall dir l, SnapshotSet_NewestFull unit (gset enc dir l) =
     match split_at_full l with Some (_, d, _) => (Some (gsnap enc d), true) | None => (None, false) end) /\
  (forall dir l, SnapshotSet_PartitionAtFull unit (gset enc dir l) =
     match split_at_full l with
     | Some (_, d, newer) => (gset enc dir [d], gset enc dir newer)
     | None => (gempty dir, gempty dir)
     end).
Proof.
  intros enc H. split; [exact (gen_Less_eq enc H)|split; [exact (gen_NewestFull_eq enc)|exact (gen_PartitionAtFull_eq enc)]].
Qed.
