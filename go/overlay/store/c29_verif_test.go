package store

// C29 driver: requests of every command type are sent through a live single-node Store (Execute, Query at level
// strong, Request, Load, Noop; load chunks through command.MarshalLoadChunkRequest), the raft log entry that the
// store wrote is read back from the log store and decoded with the real Unmarshal functions.
//   oracle  : the decoded request is proto.Equal to the one sent; the command type matches the API; an entry flagged
//             compressed is smaller than the uncompressed encoding unless compression is forced, and inflates to it
//   model   : Model.C29 gets the request as a record, the thresholds, the real gzip of the real encoding and the
//             observed bytes: its wire encoder must produce the same bytes, its marshal pipeline the same entry,
//             type, Compressed flag and sub-command, and its decoder must read the real entry back to the request.

import (
	"bytes"
	"compress/gzip"
	"context"
	"encoding/hex"
	"encoding/json"
	"fmt"
	"io"
	"math"
	"math/bits"
	"math/rand"
	"os"
	"path/filepath"
	"strings"
	"testing"
	"time"

	"github.com/hashicorp/raft"
	"github.com/rqlite/rqlite/v10/command"
	"github.com/rqlite/rqlite/v10/command/proto"
	sql "github.com/rqlite/rqlite/v10/db"
	pb "google.golang.org/protobuf/proto"
)

type c29Input struct {
	Kind  string `json:"kind"` // execute | query | request | load | noop | loadchunk | held | concurrent
	Batch int    `json:"batch"`
	Size  int    `json:"size"`
	Force bool   `json:"force,omitempty"`
	Msg   []byte `json:"msg,omitempty"`  // proto encoding of the message handed to the store
	Note  string `json:"note,omitempty"` // human-readable summary
	// kind held: all items are marshalled first, the results are kept, and only then wrapped and decoded
	Items []c29Item `json:"items,omitempty"`
	// kind concurrent: G goroutines send N large compressible requests each (contents derived from Seed)
	// kind sized: a request of about Target encoded bytes, generated from these parameters
	API          string `json:"api,omitempty"`   // execute | query | request
	Shape        string `json:"shape,omitempty"` // batch (many statements) | literal (one huge SQL text) | blob (one huge parameter)
	Target       int    `json:"target,omitempty"`
	Compressible bool   `json:"compressible,omitempty"`
	G            int    `json:"g,omitempty"`
	N            int    `json:"n,omitempty"`
	Seed         int64  `json:"seed,omitempty"`
}

type c29Item struct {
	Kind string `json:"kind"` // execute | query | request | load
	Msg  []byte `json:"msg"`
}

// ---------------------------------------------------------------- Gallina printers

func c29B(b []byte) string {
	// long literals are split: Coq's parser needs stack proportional to the length of a string literal
	if len(b) > 1200 {
		var parts []string
		for i := 0; i < len(b); i += 1200 {
			j := i + 1200
			if j > len(b) {
				j = len(b)
			}
			parts = append(parts, c29B(b[i:j]))
		}
		return "(" + strings.Join(parts, " ++ ") + ")"
	}
	printable := true
	for _, x := range b {
		if x < 32 || x > 126 || x == '"' {
			printable = false
			break
		}
	}
	if printable {
		return "(bs " + coqStr(string(b)) + ")"
	}
	return "(hx \"" + hex.EncodeToString(b) + "\")"
}

func c29Param(p *proto.Parameter) string {
	v := "PNone"
	switch x := p.GetValue().(type) {
	case *proto.Parameter_I:
		v = "(PI " + coqZ(x.I) + ")"
	case *proto.Parameter_D:
		v = "(PD " + coqN(math.Float64bits(x.D)) + ")"
	case *proto.Parameter_B:
		v = "(PB " + coqBool(x.B) + ")"
	case *proto.Parameter_Y:
		v = "(PY " + c29B(x.Y) + ")"
	case *proto.Parameter_S:
		v = "(PS " + c29B([]byte(x.S)) + ")"
	}
	return fmt.Sprintf("(Build_param %s %s)", v, c29B([]byte(p.GetName())))
}

func c29Stmt(s *proto.Statement) string {
	ps := make([]string, len(s.GetParameters()))
	for i, p := range s.GetParameters() {
		ps[i] = c29Param(p)
	}
	return fmt.Sprintf("(Build_stmt %s %s %s %s %s)",
		c29B([]byte(s.GetSql())), coqList(ps), coqBool(s.GetForceQuery()), coqBool(s.GetForceStall()), coqBool(s.GetSqlExplain()))
}

func c29Request(r *proto.Request) string {
	if r == nil {
		return "None"
	}
	// runs of identical statements are written (repeat s n) to keep big batches small
	var parts []string
	sts := r.GetStatements()
	for i := 0; i < len(sts); {
		j := i
		for j < len(sts) && pb.Equal(sts[j], sts[i]) {
			j++
		}
		if j-i >= 4 {
			parts = append(parts, fmt.Sprintf("repeat %s %d%%nat", c29Stmt(sts[i]), j-i))
		} else {
			var one []string
			for _, s := range sts[i:j] {
				one = append(one, c29Stmt(s))
			}
			parts = append(parts, coqList(one))
		}
		i = j
	}
	ssAll := "[]"
	if len(parts) > 0 {
		ssAll = "(" + strings.Join(parts, " ++ ") + ")"
	}
	return fmt.Sprintf("(Some (Build_request %s %s %s %s %s))",
		coqBool(r.GetTransaction()), ssAll, coqZ(r.GetDbTimeout()), coqBool(r.GetRollbackOnError()), coqBool(r.GetQualifyColumns()))
}

func c29Qreq(r *proto.Request, timings bool, level proto.ConsistencyLevel, fresh int64, strict bool, lin int64) string {
	return fmt.Sprintf("(Build_qreq %s %s %s %s %s %s)",
		c29Request(r), coqBool(timings), coqN(uint64(level)), coqZ(fresh), coqBool(strict), coqZ(lin))
}

func c29Body(kind string, m pb.Message) string {
	switch x := m.(type) {
	case *proto.QueryRequest:
		return "(BQuery " + c29Qreq(x.Request, x.Timings, x.Level, x.Freshness, x.FreshnessStrict, x.LinearizableTimeout) + ")"
	case *proto.ExecuteQueryRequest:
		return "(BExecQuery " + c29Qreq(x.Request, x.Timings, x.Level, x.Freshness, x.FreshnessStrict, x.LinearizableTimeout) + ")"
	case *proto.ExecuteRequest:
		return fmt.Sprintf("(BExecute (Build_ereq %s %s))", c29Request(x.Request), coqBool(x.Timings))
	case *proto.LoadRequest:
		return "(BLoad " + c29B(x.Data) + ")"
	case *proto.LoadChunkRequest:
		return fmt.Sprintf("(BLoadChunk (Build_lchunk %s %s %s %s %s))",
			c29B([]byte(x.StreamId)), coqZ(x.SequenceNum), coqBool(x.IsLast), c29B(x.Data), coqBool(x.Abort))
	case *proto.Noop:
		return "(BNoop " + c29B([]byte(x.Id)) + ")"
	}
	panic("c29Body: " + kind)
}

func c29NewMsg(kind string) pb.Message {
	switch kind {
	case "execute":
		return &proto.ExecuteRequest{}
	case "query":
		return &proto.QueryRequest{}
	case "request":
		return &proto.ExecuteQueryRequest{}
	case "load":
		return &proto.LoadRequest{}
	case "loadchunk":
		return &proto.LoadChunkRequest{}
	case "noop":
		return &proto.Noop{}
	}
	panic("bad kind " + kind)
}

var c29Types = map[string]proto.Command_Type{
	"execute": proto.Command_COMMAND_TYPE_EXECUTE, "query": proto.Command_COMMAND_TYPE_QUERY,
	"request": proto.Command_COMMAND_TYPE_EXECUTE_QUERY, "load": proto.Command_COMMAND_TYPE_LOAD,
	"loadchunk": proto.Command_COMMAND_TYPE_LOAD_CHUNK, "noop": proto.Command_COMMAND_TYPE_NOOP,
}

// gzip exactly as command.gzCompress does (which is not exported)
func c29Gzip(b []byte) []byte {
	var buf bytes.Buffer
	w, _ := gzip.NewWriterLevel(&buf, gzip.DefaultCompression)
	w.Write(b)
	w.Close()
	return buf.Bytes()
}

func c29Gunzip(b []byte) ([]byte, error) {
	r, err := gzip.NewReader(bytes.NewReader(b))
	if err != nil {
		return nil, err
	}
	return io.ReadAll(r)
}

// ---------------------------------------------------------------- one case

type c29Env struct {
	s           *Store
	total, lost int // cases run / cases whose request never reached the log
}

// send the message through the store and return the log entry it wrote
func (e *c29Env) send(in c29Input, m pb.Message) ([]byte, error) {
	s := e.s
	s.SetRequestCompression(in.Batch, in.Size)
	s.reqMarshaller.ForceCompression = in.Force
	before := s.raft.LastIndex()
	ctx := context.Background()
	var err error
	switch x := m.(type) {
	case *proto.ExecuteRequest:
		_, _, err = s.Execute(ctx, x)
	case *proto.QueryRequest:
		_, _, _, err = s.Query(ctx, x)
	case *proto.ExecuteQueryRequest:
		_, _, _, err = s.Request(ctx, x)
	case *proto.LoadRequest:
		err = s.Load(ctx, x)
	case *proto.Noop:
		var f raft.ApplyFuture
		f, err = s.Noop(x.Id)
		if err == nil {
			err = f.Error()
		}
	case *proto.LoadChunkRequest:
		// no store API writes load chunks any more: encode as the marshal package prescribes
		sub, err := command.MarshalLoadChunkRequest(x)
		if err != nil {
			return nil, err
		}
		return command.Marshal(&proto.Command{Type: proto.Command_COMMAND_TYPE_LOAD_CHUNK, SubCommand: sub})
	}
	// a statement-level failure (e.g. an expired DbTimeout) is reported by the API although the entry was written
	apiErr := err
	var entry []byte
	n := 0
	for i := before + 1; i <= s.raft.LastIndex(); i++ {
		var l raft.Log
		if err := s.raftLog.GetLog(i, &l); err != nil {
			return nil, err
		}
		if l.Type == raft.LogCommand {
			entry = l.Data
			n++
		}
	}
	if n != 1 {
		return nil, fmt.Errorf("%d command entries written for one request (API error: %v)", n, apiErr)
	}
	return entry, nil
}

func c29Run(w *vWriter, e *c29Env, in c29Input) {
	switch in.Kind {
	case "held":
		c29RunHeld(w, e, in)
		return
	case "concurrent":
		c29RunConcurrent(w, e, in)
		return
	}
	kind, oracleOnly := in.Kind, false
	var orig pb.Message
	key := ""
	if in.Kind == "sized" {
		// size sweep: the request is generated from the parameters; too big for the model's byte lists, so the
		// verdict is the round-trip oracle's alone (the theorems are over all sizes)
		kind, oracleOnly = in.API, true
		orig = c29GenSized(in)
		key = fmt.Sprintf("sized/%s/%s/%d/%v/%d/%d/%d/%v", in.API, in.Shape, in.Target, in.Compressible, in.Seed, in.Batch, in.Size, in.Force)
	} else {
		orig = c29NewMsg(kind)
		if err := pb.Unmarshal(in.Msg, orig); err != nil {
			panic(err)
		}
		key = fmt.Sprintf("%s/%d/%d/%v/%x", kind, in.Batch, in.Size, in.Force, in.Msg)
	}
	sent := pb.Clone(orig)
	c := VCase{Input: in, Key: key}
	fail := func(msg, sig string) {
		if c.OracleFail == "" {
			c.OracleFail, c.Sig = msg, sig
		}
	}
	e.total++
	// An entry that the receiving side cannot decode (or decodes as another type) panics in the FSM goroutine and kills
	// the whole test process.  So that the failing input is still reported, a provisional verdict is written and flushed
	// before the request is sent, and taken back when the store survived it.
	w.mu.Lock()
	w.w.Flush()
	off, _ := w.f.Seek(0, io.SeekCurrent)
	w.mu.Unlock()
	w.Emit(VCase{Input: in, Key: c.Key, OracleFail: "the process died while this " + kind + " request was written to the log and applied (the entry could not be decoded as what was sent)",
		Sig: "C29:entry-kills-receiver:" + kind})
	w.mu.Lock()
	w.w.Flush()
	w.mu.Unlock()
	retract := func() {
		w.mu.Lock()
		w.w.Flush()
		w.f.Truncate(off)
		w.f.Seek(off, io.SeekStart)
		w.next--
		w.mu.Unlock()
	}
	entry, err := e.send(in, sent)
	retract()
	for try := 0; err != nil && try < 3; try++ {
		// no entry was written (lost leadership on a starved machine, apply timeout...): not a statement about encoding
		e.s.WaitForLeader(10 * time.Second)
		sent = pb.Clone(orig)
		entry, err = e.send(in, sent)
	}
	if err != nil {
		e.lost++
		c.Inconcl = "the request was not written to the log: " + err.Error()
		w.Emit(c)
		return
	}
	raw, err := pb.Marshal(orig)
	if err != nil {
		panic(err)
	}

	// ---- decode as another node does
	var cmd proto.Command
	if err := command.Unmarshal(entry, &cmd); err != nil {
		fail("log entry does not decode: "+err.Error(), "C29:entry-undecodable")
		w.Emit(c)
		return
	}
	if cmd.Type != c29Types[kind] {
		fail(fmt.Sprintf("%s request logged with command type %v", kind, cmd.Type), "C29:wrong-command-type:"+kind)
	}
	got := c29NewMsg(kind)
	switch kind {
	case "execute", "query", "request":
		err = command.UnmarshalSubCommand(&cmd, got)
	case "load":
		err = command.UnmarshalLoadRequest(cmd.SubCommand, got.(*proto.LoadRequest))
	case "loadchunk":
		err = command.UnmarshalLoadChunkRequest(cmd.SubCommand, got.(*proto.LoadChunkRequest))
	case "noop":
		err = command.UnmarshalNoop(cmd.SubCommand, got.(*proto.Noop))
	}
	if err != nil {
		fail("sub-command does not decode: "+err.Error(), "C29:subcommand-undecodable:"+kind)
	} else if !pb.Equal(got, orig) {
		fail(fmt.Sprintf("decoded %s request differs from the request sent (%s)", kind, in.Note), "C29:decoded-request-differs:"+kind)
	}
	if cmd.Compressed {
		if !(len(cmd.SubCommand) < len(raw)) && !in.Force {
			fail(fmt.Sprintf("entry flagged compressed holds %d bytes, the uncompressed encoding has %d, compression not forced", len(cmd.SubCommand), len(raw)), "C29:compressed-but-not-smaller")
		}
		if u, err := c29Gunzip(cmd.SubCommand); err != nil || !bytes.Equal(u, raw) {
			fail("compressed sub-command does not inflate to the request's encoding", "C29:compressed-bytes-wrong")
		}
		if kind != "execute" && kind != "query" && kind != "request" {
			fail(kind+" entry flagged compressed", "C29:unexpected-compressed-flag")
		}
	}

	// ---- the model
	// (the Gallina term shares the long literals: raw, gz, and the entry written as prefix ++ sub-command ++ suffix)
	attempted := false
	if r, ok := orig.(command.Requester); ok {
		ss := r.GetRequest().GetStatements()
		attempted = len(ss) >= in.Batch
		for _, s := range ss {
			attempted = attempted || len(s.Sql) >= in.Size
		}
	}
	if !oracleOnly {
		gzTerm, subVar := "[]", "raw"
		switch {
		case cmd.Compressed || kind == "load":
			gzTerm, subVar = c29B(cmd.SubCommand), "gz" // what the real marshaler produced
		case attempted:
			// compression was tried and dropped: ask the real marshaler (forced) what its gzip made of these bytes
			fm := *e.s.reqMarshaller
			fm.ForceCompression = true
			if g, z, err := fm.Marshal(orig.(command.Requester)); err == nil && z {
				gzTerm = c29B(g)
				if len(g) < len(raw) {
					fail(fmt.Sprintf("compression dropped although it makes the entry smaller (%d < %d bytes)", len(g), len(raw)), "C29:smaller-but-not-compressed")
				}
			} else {
				gzTerm = c29B(c29Gzip(raw))
			}
		}
		sub := raw
		if subVar == "gz" {
			sub = cmd.SubCommand
		}
		subTerm, entryTerm := subVar, c29B(entry)
		if !bytes.Equal(sub, cmd.SubCommand) {
			subTerm = c29B(cmd.SubCommand) // not what the model will predict: say so literally
		} else if i := bytes.Index(entry, sub); i >= 0 && len(sub) > 0 {
			entryTerm = "(" + c29B(entry[:i]) + " ++ " + subVar + " ++ " + c29B(entry[i+len(sub):]) + ")"
		}
		c.Coq = fmt.Sprintf("(let raw := %s in let gz := %s in Build_case (Build_mcfg %s %s %s) %s gz raw %s %s %s %s)",
			c29B(raw), gzTerm, coqZ(int64(in.Batch)), coqZ(int64(in.Size)), coqBool(in.Force), c29Body(kind, orig), entryTerm,
			coqN(uint64(cmd.Type)), coqBool(cmd.Compressed), subTerm)
	}

	// ---- evidence bookkeeping
	c.Tags = []string{"type=" + kind, fmt.Sprintf("compressed=%v", cmd.Compressed)}
	near, kinds := false, map[string]bool{}
	if r, ok := orig.(command.Requester); ok {
		ss := r.GetRequest().GetStatements()
		if d := len(ss) - in.Batch; d >= -2 && d <= 2 {
			near = true
			c.Tags = append(c.Tags, "near-batch-threshold")
		}
		for _, s := range ss {
			if d := len(s.Sql) - in.Size; d >= -2 && d <= 2 {
				near = true
			}
			for _, p := range s.Parameters {
				kinds[fmt.Sprintf("%T", p.Value)] = true
			}
		}
		if near {
			c.Tags = append(c.Tags, "near-a-threshold")
		}
		if attempted && !cmd.Compressed {
			c.Tags = append(c.Tags, "compression-tried-and-dropped")
		}
	}
	allKinds := len(kinds) >= 6
	if allKinds {
		c.Tags = append(c.Tags, "every-parameter-kind")
	}
	if in.Force {
		c.Tags = append(c.Tags, "forced")
	}
	if oracleOnly {
		c.Tags = append(c.Tags, "size-sweep", "shape="+in.Shape, fmt.Sprintf("encoded>=2^%d", bits.Len(uint(len(raw)))-1))
		near = true // the encoded size is next to a power of two by construction
	}
	if strings.HasPrefix(in.Note, "gzip length - raw length") {
		c.Tags = append(c.Tags, "gzip-length-boundary")
	}
	c.Nontrivial = near || allKinds
	w.Emit(c)
	// an entry that the receiving side cannot decode panics in the FSM and kills the test process:
	// keep what has been observed so far
	w.mu.Lock()
	w.w.Flush()
	w.mu.Unlock()
}

// ---------------------------------------------------------------- results of Marshal must stay valid

// the Gallina case for one message whose marshalled sub-command / entry were observed as given; gzReal is what the
// real compressor makes of raw (nil: compression not attempted)
func c29CoqCase(in c29Input, kind string, orig pb.Message, raw, entry []byte, cmd *proto.Command, gzReal []byte) string {
	gzTerm := "[]"
	if gzReal != nil {
		gzTerm = c29B(gzReal)
	}
	subTerm, subVar, sub := c29B(cmd.SubCommand), "", []byte(nil)
	switch {
	case bytes.Equal(cmd.SubCommand, raw):
		subTerm, subVar, sub = "raw", "raw", raw
	case gzReal != nil && bytes.Equal(cmd.SubCommand, gzReal):
		subTerm, subVar, sub = "gz", "gz", gzReal
	}
	entryTerm := c29B(entry)
	if subVar != "" && len(sub) > 0 {
		if i := bytes.Index(entry, sub); i >= 0 {
			entryTerm = "(" + c29B(entry[:i]) + " ++ " + subVar + " ++ " + c29B(entry[i+len(sub):]) + ")"
		}
	}
	return fmt.Sprintf("(let raw := %s in let gz := %s in Build_case (Build_mcfg %s %s %s) %s gz raw %s %s %s %s)",
		c29B(raw), gzTerm, coqZ(int64(in.Batch)), coqZ(int64(in.Size)), coqBool(in.Force), c29Body(kind, orig), entryTerm,
		coqN(uint64(cmd.Type)), coqBool(cmd.Compressed), subTerm)
}

// Marshal k requests FIRST, keep every result, and only then wrap each into its Command and decode it (a caller
// that prepares several log entries before appending them; two writers interleaving between Marshal and the copy made
// by command.Marshal).  Each must still be its own request: marshalling is a function of the request alone.
func c29RunHeld(w *vWriter, e *c29Env, in c29Input) {
	s := e.s
	s.SetRequestCompression(in.Batch, in.Size)
	s.reqMarshaller.ForceCompression = in.Force
	type held struct {
		orig pb.Message
		sub  []byte
		z    bool
		err  error
	}
	hs := make([]held, len(in.Items))
	for i, it := range in.Items {
		m := c29NewMsg(it.Kind)
		if err := pb.Unmarshal(it.Msg, m); err != nil {
			panic(err)
		}
		hs[i].orig = m
		switch x := pb.Clone(m).(type) {
		case *proto.LoadRequest:
			hs[i].sub, hs[i].err = command.MarshalLoadRequest(x)
		case command.Requester:
			hs[i].sub, hs[i].z, hs[i].err = s.tryCompress(x) // the store's own call of RequestMarshaler.Marshal
		}
	}
	// ... and only now use the results
	for i, it := range in.Items {
		h := hs[i]
		c := VCase{Input: in, Key: fmt.Sprintf("held/%d/%d/%v/%d/%x", in.Batch, in.Size, in.Force, i, it.Msg), Nontrivial: true,
			Tags: []string{"held-results", "type=" + it.Kind}}
		fail := func(msg, sig string) {
			if c.OracleFail == "" {
				c.OracleFail, c.Sig = msg, sig
			}
		}
		if h.err != nil {
			c.Inconcl = "marshal: " + h.err.Error()
			w.Emit(c)
			continue
		}
		cmd := &proto.Command{Type: c29Types[it.Kind], SubCommand: h.sub, Compressed: h.z}
		entry, err := command.Marshal(cmd)
		if err != nil {
			panic(err)
		}
		var back proto.Command
		got := c29NewMsg(it.Kind)
		if err := command.Unmarshal(entry, &back); err != nil {
			fail("entry does not decode: "+err.Error(), "C29:entry-undecodable")
		} else {
			if it.Kind == "load" {
				err = command.UnmarshalLoadRequest(back.SubCommand, got.(*proto.LoadRequest))
			} else {
				err = command.UnmarshalSubCommand(&back, got)
			}
			if err != nil {
				fail(fmt.Sprintf("item %d of %d marshalled before being used: its bytes no longer decode (%v) - the result of Marshal was overwritten by a later call", i, len(in.Items), err),
					"C29:marshal-result-overwritten:undecodable")
			} else if !pb.Equal(got, h.orig) {
				fail(fmt.Sprintf("item %d of %d marshalled before being used decodes to a different request - the result of Marshal was overwritten by a later call", i, len(in.Items)),
					"C29:marshal-result-overwritten:other-request")
			}
		}
		// model: what the compressor really makes of this request, asked for (and copied) on its own
		raw, _ := pb.Marshal(h.orig)
		var gzReal []byte
		if it.Kind == "load" {
			g, _ := command.MarshalLoadRequest(h.orig.(*proto.LoadRequest))
			gzReal = bytes.Clone(g)
		} else {
			fm := *s.reqMarshaller
			fm.ForceCompression = true
			ss := h.orig.(command.Requester).GetRequest().GetStatements()
			attempted := len(ss) >= in.Batch
			for _, st := range ss {
				attempted = attempted || len(st.Sql) >= in.Size
			}
			if attempted {
				if g, z, err := fm.Marshal(h.orig.(command.Requester)); err == nil && z {
					gzReal = bytes.Clone(g)
				}
			}
		}
		c.Coq = c29CoqCase(in, it.Kind, h.orig, raw, entry, cmd, gzReal)
		c.Tags = append(c.Tags, fmt.Sprintf("compressed=%v", h.z))
		w.Emit(c)
	}
}

// G goroutines send N large, really compressed requests each through the live store; afterwards every entry is read
// back from the log: the entries must be exactly the requests sent (each once).
func c29RunConcurrent(w *vWriter, e *c29Env, in c29Input) {
	s := e.s
	s.SetRequestCompression(in.Batch, in.Size)
	s.reqMarshaller.ForceCompression = in.Force
	rng := rand.New(rand.NewSource(in.Seed))
	total := in.G * in.N
	sent := make([]pb.Message, total)
	kinds := make([]string, total)
	for i := range sent {
		kind := []string{"execute", "query", "request"}[i%3]
		sqlText := fmt.Sprintf("INSERT INTO c29c(id, v) VALUES(%d, '%s')", i, c29Text(rng, in.Size+rng.Intn(3*in.Size+1), true))
		r := &proto.Request{Statements: []*proto.Statement{{Sql: sqlText, Parameters: []*proto.Parameter{{Value: &proto.Parameter_I{I: int64(i)}, Name: "id"}}}}}
		sent[i], kinds[i] = c29Wrap(kind, r), kind
	}
	c := VCase{Input: in, Key: fmt.Sprintf("concurrent/%d/%d/%d/%d/%d", in.G, in.N, in.Batch, in.Size, in.Seed), Nontrivial: true,
		Tags: []string{"concurrent-writers"}}
	// provisional verdict (see c29Run): an undecodable entry kills the process in the FSM
	w.mu.Lock()
	w.w.Flush()
	off, _ := w.f.Seek(0, io.SeekCurrent)
	w.mu.Unlock()
	w.Emit(VCase{Input: in, Key: c.Key, OracleFail: "the process died while concurrent compressed requests were written to the log and applied (an entry could not be decoded as what was sent)",
		Sig: "C29:entry-kills-receiver:concurrent"})
	w.mu.Lock()
	w.w.Flush()
	w.mu.Unlock()
	before := s.raft.LastIndex()
	done := make(chan error, in.G)
	for g := 0; g < in.G; g++ {
		go func(g int) {
			ctx := context.Background()
			var first error
			for j := 0; j < in.N; j++ {
				var err error
				switch x := pb.Clone(sent[g*in.N+j]).(type) {
				case *proto.ExecuteRequest:
					_, _, err = s.Execute(ctx, x)
				case *proto.QueryRequest:
					_, _, _, err = s.Query(ctx, x)
				case *proto.ExecuteQueryRequest:
					_, _, _, err = s.Request(ctx, x)
				}
				if err != nil && first == nil {
					first = err
				}
			}
			done <- first
		}(g)
	}
	var apiErr error
	for g := 0; g < in.G; g++ {
		if err := <-done; err != nil && apiErr == nil {
			apiErr = err
		}
	}
	w.mu.Lock()
	w.w.Flush()
	w.f.Truncate(off)
	w.f.Seek(off, io.SeekStart)
	w.next--
	w.mu.Unlock()

	seen := make([]int, total)
	fail := func(msg, sig string) {
		if c.OracleFail == "" {
			c.OracleFail, c.Sig = msg, sig
		}
	}
	entries := 0
	for i := before + 1; i <= s.raft.LastIndex(); i++ {
		var l raft.Log
		if err := s.raftLog.GetLog(i, &l); err != nil || l.Type != raft.LogCommand {
			continue
		}
		entries++
		var cmd proto.Command
		if err := command.Unmarshal(l.Data, &cmd); err != nil {
			fail("log entry does not decode: "+err.Error(), "C29:concurrent:entry-undecodable")
			continue
		}
		var got pb.Message
		switch cmd.Type {
		case proto.Command_COMMAND_TYPE_EXECUTE:
			got = &proto.ExecuteRequest{}
		case proto.Command_COMMAND_TYPE_QUERY:
			got = &proto.QueryRequest{}
		case proto.Command_COMMAND_TYPE_EXECUTE_QUERY:
			got = &proto.ExecuteQueryRequest{}
		default:
			fail(fmt.Sprintf("entry of type %v among request entries", cmd.Type), "C29:concurrent:wrong-command-type")
			continue
		}
		if err := command.UnmarshalSubCommand(&cmd, got); err != nil {
			fail(fmt.Sprintf("log index %d: sub-command does not decode: %v", i, err), "C29:concurrent:subcommand-undecodable")
			continue
		}
		id := -1
		if ss := got.(command.Requester).GetRequest().GetStatements(); len(ss) == 1 && len(ss[0].Parameters) == 1 {
			id = int(ss[0].Parameters[0].GetI())
		}
		if id < 0 || id >= total || !pb.Equal(got, sent[id]) {
			fail(fmt.Sprintf("log index %d decodes to a request that was never sent", i), "C29:concurrent:entry-is-no-sent-request")
			continue
		}
		seen[id]++
	}
	if c.OracleFail == "" {
		if apiErr != nil && entries < total {
			c.Inconcl = fmt.Sprintf("only %d of %d requests reached the log: %v", entries, total, apiErr)
		} else {
			for id, n := range seen {
				if n != 1 {
					fail(fmt.Sprintf("request %d (%s) appears %d times in the log (%d entries for %d requests)", id, kinds[id], n, entries, total), "C29:concurrent:entries-not-the-requests-sent")
					break
				}
			}
		}
	}
	w.Emit(c)
	w.mu.Lock()
	w.w.Flush()
	w.mu.Unlock()
}

// distinct large compressible requests (and a few small ones) for a held batch
func c29GenHeld(rng *rand.Rand, size int, loadData []byte) []c29Item {
	var items []c29Item
	k := 2 + rng.Intn(6)
	for i := 0; i < k; i++ {
		kind := []string{"execute", "query", "request"}[rng.Intn(3)]
		l := size + rng.Intn(4*size)
		if rng.Intn(5) == 0 {
			l = rng.Intn(size) // not compressed: must be unaffected
		}
		r := &proto.Request{Statements: []*proto.Statement{{Sql: fmt.Sprintf("/* %d */ ", rng.Intn(1000)) + c29Text(rng, l, true),
			Parameters: []*proto.Parameter{{Value: &proto.Parameter_I{I: int64(i)}}}}}}
		b, _ := pb.Marshal(c29Wrap(kind, r))
		items = append(items, c29Item{Kind: kind, Msg: b})
	}
	if loadData != nil {
		for i := 0; i < 2; i++ {
			d := append(bytes.Clone(loadData), byte(i), byte(i), byte(i))
			b, _ := pb.Marshal(&proto.LoadRequest{Data: d[:len(d)-i*100]})
			p := rng.Intn(len(items) + 1)
			items = append(items[:p:p], append([]c29Item{{Kind: "load", Msg: b}}, items[p:]...)...)
		}
	}
	return items
}

// ---------------------------------------------------------------- generators

func c29Text(rng *rand.Rand, n int, compressible bool) string {
	var sb strings.Builder
	if compressible {
		unit := []string{"INSERT INTO foo(name) VALUES('fiona') ", "a", "-- x ", "SELECT * FROM foo; "}[rng.Intn(4)]
		for sb.Len() < n {
			sb.WriteString(unit)
		}
	} else {
		const al = "abcdefghijklmnopqrstuvwxyzABCDEFGHIJKLMNOPQRSTUVWXYZ0123456789 ,.()=*<>_-+/"
		for sb.Len() < n {
			sb.WriteByte(al[rng.Intn(len(al))])
		}
	}
	s := sb.String()[:n]
	if n >= 4 && rng.Intn(6) == 0 {
		s = s[:n-2] + "é" // a two-byte rune: thresholds count bytes
	}
	return s
}

func c29Params(rng *rand.Rand, all bool) []*proto.Parameter {
	ints := []int64{0, 1, -1, 63, 64, -64, -65, 300, math.MaxInt64, math.MinInt64, rng.Int63(), -rng.Int63()}
	dbls := []float64{0, math.Copysign(0, -1), 1.5, -2.25, math.Inf(1), math.NaN(), math.MaxFloat64, math.SmallestNonzeroFloat64, rng.NormFloat64()}
	mk := func(k int) *proto.Parameter {
		p := &proto.Parameter{}
		switch k {
		case 0:
			p.Value = &proto.Parameter_I{I: ints[rng.Intn(len(ints))]}
		case 1:
			p.Value = &proto.Parameter_D{D: dbls[rng.Intn(len(dbls))]}
		case 2:
			p.Value = &proto.Parameter_B{B: rng.Intn(2) == 0}
		case 3:
			y := make([]byte, rng.Intn(6))
			rng.Read(y)
			p.Value = &proto.Parameter_Y{Y: y}
		case 4:
			p.Value = &proto.Parameter_S{S: []string{"", "fiona", "O'Neil", "café 世界", "x\x00y"}[rng.Intn(5)]}
		}
		if rng.Intn(3) == 0 {
			p.Name = []string{"name", "id", "ü"}[rng.Intn(3)]
		}
		return p
	}
	var ps []*proto.Parameter
	if all {
		for k := 0; k <= 5; k++ {
			ps = append(ps, mk(k))
		}
		return ps
	}
	for n := rng.Intn(4); n > 0; n-- {
		ps = append(ps, mk(rng.Intn(6)))
	}
	return ps
}

func c29GenRequest(rng *rand.Rand, batch, size int) (*proto.Request, string) {
	r := &proto.Request{Transaction: rng.Intn(2) == 0, RollbackOnError: rng.Intn(3) == 0, QualifyColumns: rng.Intn(4) == 0}
	switch rng.Intn(5) {
	case 0:
		r.DbTimeout = []int64{1, -1, math.MaxInt64, math.MinInt64, 5000000000}[rng.Intn(5)]
	}
	n := rng.Intn(4)
	note := ""
	switch rng.Intn(5) {
	case 0:
		n = batch + rng.Intn(3) - 1 // just below / at / above the batch threshold
		note = fmt.Sprintf("statements=%d batch=%d; ", n, batch)
	case 1:
		n = 0
	}
	if n < 0 {
		n = 0
	}
	allKinds := rng.Intn(6) == 0
	for i := 0; i < n; i++ {
		l := rng.Intn(30)
		if n <= 6 {
			switch rng.Intn(4) {
			case 0:
				l = size + rng.Intn(3) - 1 // just below / at / above the size threshold
				note += fmt.Sprintf("sql=%d size=%d; ", l, size)
			case 1:
				l = size * (2 + rng.Intn(3))
			}
		}
		if l < 0 {
			l = 0
		}
		st := &proto.Statement{Sql: c29Text(rng, l, rng.Intn(2) == 0), ForceQuery: rng.Intn(5) == 0, ForceStall: rng.Intn(7) == 0, SqlExplain: rng.Intn(7) == 0}
		if n <= 8 {
			st.Parameters = c29Params(rng, allKinds && i == 0)
		}
		r.Statements = append(r.Statements, st)
	}
	return r, note
}

func c29Gen(rng *rand.Rand, kind string, batch, size int) (pb.Message, string) {
	switch kind {
	case "execute":
		r, note := c29GenRequest(rng, batch, size)
		return &proto.ExecuteRequest{Request: r, Timings: rng.Intn(2) == 0}, note
	case "query":
		r, note := c29GenRequest(rng, batch, size)
		return &proto.QueryRequest{Request: r, Timings: rng.Intn(2) == 0, Level: proto.ConsistencyLevel_STRONG,
			Freshness: []int64{0, 1, -5, 1 << 40}[rng.Intn(4)], FreshnessStrict: rng.Intn(3) == 0, LinearizableTimeout: []int64{0, 7, -1}[rng.Intn(3)]}, note
	case "request":
		r, note := c29GenRequest(rng, batch, size)
		lv := proto.ConsistencyLevel_STRONG // always through the log
		return &proto.ExecuteQueryRequest{Request: r, Timings: rng.Intn(2) == 0, Level: lv,
			Freshness: []int64{0, 3, math.MaxInt64}[rng.Intn(3)], FreshnessStrict: rng.Intn(3) == 0, LinearizableTimeout: []int64{0, 9}[rng.Intn(2)]}, note
	case "noop":
		return &proto.Noop{Id: []string{"", "n1", "node-é"}[rng.Intn(3)]}, ""
	case "loadchunk":
		d := make([]byte, rng.Intn(40))
		rng.Read(d)
		return &proto.LoadChunkRequest{StreamId: []string{"", "b7c1-4e", "s"}[rng.Intn(3)], SequenceNum: []int64{0, 1, 2, 300, -1, math.MaxInt64}[rng.Intn(6)],
			IsLast: rng.Intn(2) == 0, Data: d, Abort: rng.Intn(4) == 0}, ""
	}
	panic(kind)
}

// a request whose protobuf encoding has about in.Target bytes
func c29GenSized(in c29Input) pb.Message {
	rng := rand.New(rand.NewSource(in.Seed))
	text := func(n int) string {
		if in.Compressible {
			return c29Text(rng, n, true)
		}
		return c29Text(rng, n, false)
	}
	blob := func(n int) []byte {
		b := make([]byte, n)
		if in.Compressible {
			for i := range b {
				b[i] = byte(i % 7 * 31)
			}
		} else {
			rng.Read(b)
		}
		return b
	}
	r := &proto.Request{Transaction: true}
	switch in.Shape {
	case "batch":
		if !in.Compressible {
			// fewer statements than the batch threshold, short SQL, random blobs: stored uncompressed
			for i := 0; i < 100; i++ {
				r.Statements = append(r.Statements, &proto.Statement{Sql: fmt.Sprintf("INSERT INTO sweep(id, v) VALUES(%d, ?)", i),
					Parameters: []*proto.Parameter{{Value: &proto.Parameter_Y{Y: blob(in.Target / 100)}}}})
			}
			break
		}
		for total := 0; total < in.Target; {
			st := &proto.Statement{Sql: fmt.Sprintf("INSERT INTO sweep(id, v) VALUES(%d, '%s')", len(r.Statements), text(40+rng.Intn(80)))}
			r.Statements = append(r.Statements, st)
			sz := pb.Size(st)
			total += sz + 2
			if sz >= 128 {
				total++
			}
		}
	case "literal":
		r.Statements = []*proto.Statement{{Sql: "SELECT '" + text(in.Target) + "'"}}
	case "blob":
		// (compressible: the SQL text is long enough for compression to be attempted; otherwise stored uncompressed)
		sqlText := "INSERT INTO sweep(v) VALUES(?)"
		if in.Compressible {
			sqlText += " /* " + c29Text(rng, 5000, true) + " */"
		}
		r.Statements = []*proto.Statement{{Sql: sqlText,
			Parameters: []*proto.Parameter{{Value: &proto.Parameter_Y{Y: blob(in.Target)}, Name: "v"}}}}
	default:
		panic("bad shape " + in.Shape)
	}
	return c29Wrap(in.API, r)
}

// a small valid SQLite database file
func c29SQLiteFile(t *testing.T, rows int) []byte {
	p := filepath.Join(t.TempDir(), fmt.Sprintf("c29-%d.db", rows))
	db, err := sql.Open(p, false, false)
	if err != nil {
		t.Fatal(err)
	}
	if _, err := db.ExecuteStringStmt("CREATE TABLE c29 (id INTEGER PRIMARY KEY, v TEXT)"); err != nil {
		t.Fatal(err)
	}
	for i := 0; i < rows; i++ {
		if _, err := db.ExecuteStringStmt(fmt.Sprintf("INSERT INTO c29(v) VALUES('row %d')", i)); err != nil {
			t.Fatal(err)
		}
	}
	db.Close()
	b, err := os.ReadFile(p)
	if err != nil {
		t.Fatal(err)
	}
	return b
}

func TestVerif_C29(t *testing.T) {
	w := vOpen()
	defer w.Close()
	rng := vRand()

	s, ln := mustNewStore(t)
	defer ln.Close()
	if err := s.Open(); err != nil {
		t.Fatal(err)
	}
	defer s.Close(true)
	if err := s.Bootstrap(NewServer(s.ID(), s.Addr(), true)); err != nil {
		t.Fatal(err)
	}
	if _, err := s.WaitForLeader(10 * time.Second); err != nil {
		t.Fatal(err)
	}
	e := &c29Env{s: s}

	if raw := vReplayInput(); raw != nil {
		var in c29Input
		if err := json.Unmarshal(raw, &in); err != nil {
			t.Fatal(err)
		}
		c29Run(w, e, in)
		return
	}

	emit := func(kind string, batch, size int, force bool, m pb.Message, note string) {
		b, err := pb.Marshal(m)
		if err != nil {
			t.Fatal(err)
		}
		c29Run(w, e, c29Input{Kind: kind, Batch: batch, Size: size, Force: force, Msg: b, Note: note})
	}

	// hand-picked: the default thresholds (512 statements / 4096 bytes), each side of each.  These cases are big;
	// they are spread over the run (one every 20 generated cases) so that they land in different model shards.
	var bigs []func()
	for ki, kind := range []string{"execute", "query", "request"} {
		// the realistic sizes (default thresholds) for one API in the quick tier, for all three in the thorough tier
		big := vTier() == "thorough" || int(vSeed())%3 == ki
		for _, n := range []int{511, 512, 513} {
			if !big {
				break
			}
			r := &proto.Request{}
			for i := 0; i < n; i++ {
				r.Statements = append(r.Statements, &proto.Statement{Sql: fmt.Sprintf("INSERT INTO foo(id) VALUES(%d)", i/200)})
			}
			kind, r, n := kind, r, n
			bigs = append(bigs, func() {
				emit(kind, 512, 4096, false, c29Wrap(kind, r), fmt.Sprintf("statements=%d default thresholds", n))
			})
		}
		for _, l := range []int{4095, 4096, 4097} {
			if !big {
				break
			}
			for _, compressible := range []bool{true, false} {
				r := &proto.Request{Statements: []*proto.Statement{{Sql: c29Text(rng, l, compressible)}}}
				kind, r, l, compressible := kind, r, l, compressible
				bigs = append(bigs, func() {
					emit(kind, 512, 4096, false, c29Wrap(kind, r), fmt.Sprintf("sql=%d default thresholds compressible=%v", l, compressible))
				})
			}
		}
		// every parameter kind, no threshold reached
		emit(kind, 512, 4096, false, c29Wrap(kind, &proto.Request{Statements: []*proto.Statement{{Sql: "INSERT INTO foo VALUES(?,?,?,?,?,?)", Parameters: c29Params(rng, true)}}}), "every parameter kind")
		// forced compression of an incompressible statement; thresholds of zero
		emit(kind, 512, 16, true, c29Wrap(kind, &proto.Request{Statements: []*proto.Statement{{Sql: c29Text(rng, 16, false)}}}), "forced")
		emit(kind, 0, 0, false, c29Wrap(kind, &proto.Request{}), "zero thresholds, no statements")
	}
	emit("load", 512, 4096, false, &proto.LoadRequest{Data: c29SQLiteFile(t, 3)}, "small database")

	// results of Marshal kept while further requests are marshalled (sequential, deterministic)
	{
		pseudo := []byte(strings.Repeat("SQLite format 3 - not really; page filler. ", 14))
		nb := vN(8, 200)
		for i := 0; i < nb; i++ {
			size := []int{40, 64, 120}[rng.Intn(3)]
			var ld []byte
			if i == 1 || (i > 8 && i%10 == 0) {
				ld = pseudo
			}
			c29Run(w, e, c29Input{Kind: "held", Batch: 512, Size: size, Force: i%7 == 3, Items: c29GenHeld(rng, size, ld)})
		}
		// a pair is enough: the second result reuses what the first one pointed to
		r1 := &proto.Request{Statements: []*proto.Statement{{Sql: strings.Repeat("INSERT INTO foo(name) VALUES('fiona'); ", 6)}}}
		r2 := &proto.Request{Statements: []*proto.Statement{{Sql: strings.Repeat("DELETE FROM foo WHERE name='declan'; ", 9)}}}
		b1, _ := pb.Marshal(c29Wrap("execute", r1))
		b2, _ := pb.Marshal(c29Wrap("execute", r2))
		c29Run(w, e, c29Input{Kind: "held", Batch: 512, Size: 64, Items: []c29Item{{Kind: "execute", Msg: b1}, {Kind: "execute", Msg: b2}}})
	}
	// concurrent writers on the live store
	for i, nc := 0, vN(1, 6); i < nc; i++ {
		c29Run(w, e, c29Input{Kind: "concurrent", Batch: 512, Size: 64, G: 8, N: vN(40, 150), Seed: rng.Int63()})
	}

	// size sweep: compressed and uncompressed requests whose encoding lies just below / above each power of two from
	// 64 KiB to 16 MiB; many-statement batches, one huge SQL literal, one huge blob parameter; oracle only
	{
		shapes := []string{"batch", "literal", "blob"}
		apis := []string{"execute", "query", "request"}
		i := 0
		for k := 16; k <= 24; k++ {
			for _, above := range []bool{true, false} {
				for si, shape := range shapes {
					for _, compressible := range []bool{true, false} {
						i++
						if vTier() != "thorough" {
							// quick: above every power of two one compressed case (shape and API rotating), and for every third
							// an uncompressed one (random blobs: compression is tried and dropped)
							pick := above && compressible && si == (k+int(vSeed()))%3
							pick = pick || (above && !compressible && k%3 == 0 && shape == []string{"blob", "batch"}[(k/3+int(vSeed()))%2])
							if !pick {
								continue
							}
						}
						d := 2048 + rng.Intn(4096)
						if !above {
							d = -d - 6000
						}
						c29Run(w, e, c29Input{Kind: "sized", API: apis[i%3], Shape: shape, Target: 1<<k + d, Compressible: compressible,
							Seed: rng.Int63(), Batch: 512, Size: 4096})
					}
				}
			}
		}
	}

	// the exact boundary of "smaller": requests whose gzip output is one byte shorter than, as long as, and one byte
	// longer than the uncompressed encoding (found by search; compression attempted because of the size threshold)
	{
		found := map[int]int{}
		for try := 0; try < 20000 && (found[-1] < 3 || found[0] < 3 || found[1] < 3); try++ {
			l := 30 + rng.Intn(400)
			al := 2 + rng.Intn(60)
			sb := make([]byte, l)
			for i := range sb {
				sb[i] = byte(48 + rng.Intn(al))
			}
			m := &proto.ExecuteRequest{Request: &proto.Request{Statements: []*proto.Statement{{Sql: string(sb)}}}}
			raw, _ := pb.Marshal(m)
			d := len(c29Gzip(raw)) - len(raw)
			if d >= -1 && d <= 1 && found[d] < 3 {
				found[d]++
				emit("execute", 512, 20, false, m, fmt.Sprintf("gzip length - raw length = %d", d))
			}
		}
	}

	// generated requests with small thresholds, so that both are crossed often and entries stay small
	n := vN(200, 3000)
	kinds := []string{"execute", "query", "request", "execute", "query", "request", "noop", "loadchunk"}
	for i := 0; i < n; i++ {
		kind := kinds[i%len(kinds)]
		batch := []int{3, 5, 8}[rng.Intn(3)]
		size := []int{24, 40, 64, 200}[rng.Intn(4)]
		m, note := c29Gen(rng, kind, batch, size)
		emit(kind, batch, size, rng.Intn(8) == 0, m, note)
		if i%20 == 0 && len(bigs) > 0 {
			bigs[0]()
			bigs = bigs[1:]
		}
	}
	for _, f := range bigs {
		f()
	}
	if e.lost*10 > e.total {
		t.Fatalf("%d of %d requests never reached the log: the check did not run", e.lost, e.total)
	}
	if vTier() == "thorough" {
		for _, rows := range []int{0, 40, 400} {
			emit("load", 512, 4096, false, &proto.LoadRequest{Data: c29SQLiteFile(t, rows)}, fmt.Sprintf("database with %d rows", rows))
		}
	}
}

func c29Wrap(kind string, r *proto.Request) pb.Message {
	switch kind {
	case "execute":
		return &proto.ExecuteRequest{Request: r}
	case "query":
		return &proto.QueryRequest{Request: r, Level: proto.ConsistencyLevel_STRONG}
	}
	return &proto.ExecuteQueryRequest{Request: r, Level: proto.ConsistencyLevel_STRONG}
}
