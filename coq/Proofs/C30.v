(* C30 — specification (from the property text) and proofs about Model/C30.v *)
From Coq Require Import List String Ascii NArith ZArith Bool Lia.
From Coq Require Import ZifyBool ZifyNat ZifyN.
From RQ Require Import Lib.AList Model.C30.
Import ListNotations.
Open Scope string_scope.
Open Scope list_scope.
Open Scope N_scope.

(* ================================================================== decimal notation *)

(* value of a digit string, least significant digit first *)
Fixpoint lsd_value (l : list N) : N :=
  match l with [] => 0 | d :: r => d + 10 * lsd_value r end.

(* [lit] is the decimal notation of z: optional minus sign, then a non-empty string of digits
   (most significant first) *)
Definition decimal_of (lit : string) (z : Z) : Prop :=
  exists (neg : bool) (ds : list N),
    ds <> [] /\ Forall (fun d => d < 10) ds /\
    list_ascii_of_string lit = (if neg then ["-"%char] else []) ++ map ascii_of_digit ds /\
    z = (if neg then - Z.of_N (lsd_value (rev ds)) else Z.of_N (lsd_value (rev ds)))%Z.

Definition int64 (z : Z) : Prop := (- 9223372036854775808 <= z < 9223372036854775808)%Z.

Lemma dec_value_lsd ds : dec_value ds = lsd_value (rev ds).
Proof.
  unfold dec_value. rewrite <- fold_left_rev_right.
  induction (rev ds) as [|d r IH]; cbn [fold_right lsd_value]; [reflexivity|]. rewrite IH. lia.
Qed.

Lemma digit_roundtrip d : d < 10 -> digit_of_ascii (ascii_of_digit d) = Some d.
Proof.
  intros H. unfold digit_of_ascii, ascii_of_digit.
  rewrite N_ascii_embedding by lia.
  replace ((48 <=? 48 + d) && (48 + d <=? 57)) with true by lia.
  f_equal. lia.
Qed.

Lemma digit_sound a d : digit_of_ascii a = Some d -> d < 10 /\ a = ascii_of_digit d.
Proof.
  unfold digit_of_ascii, ascii_of_digit. intros H.
  destruct ((48 <=? N_of_ascii a) && (N_of_ascii a <=? 57)) eqn:E; [|discriminate].
  inversion H; subst. split; [lia|].
  replace (48 + (N_of_ascii a - 48)) with (N_of_ascii a) by lia.
  symmetry. apply ascii_N_embedding.
Qed.

Lemma digits_roundtrip ds : Forall (fun d => d < 10) ds -> digits_of (map ascii_of_digit ds) = Some ds.
Proof.
  induction 1 as [|d ds Hd _ IH]; cbn [map digits_of]; [reflexivity|].
  rewrite digit_roundtrip by assumption. rewrite IH. reflexivity.
Qed.

Lemma digits_sound l ds : digits_of l = Some ds -> Forall (fun d => d < 10) ds /\ l = map ascii_of_digit ds.
Proof.
  revert ds. induction l as [|a l IH]; intros ds H; cbn [digits_of] in H.
  - inversion H. split; constructor.
  - destruct (digit_of_ascii a) as [d|] eqn:Ed; [|discriminate].
    destruct (digits_of l) as [ds'|]; [|discriminate]. inversion H; subst.
    destruct (digit_sound _ _ Ed) as [Hd ->]. destruct (IH _ eq_refl) as [Hf ->].
    split; [constructor; assumption | reflexivity].
Qed.

Lemma digit_not_minus d : ascii_of_digit d <> "-"%char \/ 10 <= d.
Proof.
  destruct (N.ltb_spec d 10); [left | right; assumption].
  intros E. assert (X : digit_of_ascii (ascii_of_digit d) = Some d) by (apply digit_roundtrip; assumption).
  rewrite E in X. vm_compute in X. discriminate.
Qed.

Lemma parse_nat_lit_digits ds :
  ds <> [] -> Forall (fun d => d < 10) ds -> parse_nat_lit (map ascii_of_digit ds) = Some (lsd_value (rev ds)).
Proof.
  intros Hne Hf. unfold parse_nat_lit. destruct ds as [|d ds]; [congruence|].
  cbn [map]. change (ascii_of_digit d :: map ascii_of_digit ds) with (map ascii_of_digit (d :: ds)).
  rewrite digits_roundtrip by assumption. cbn [option_map]. rewrite dec_value_lsd. reflexivity.
Qed.

Lemma parse_nat_lit_sound l n :
  parse_nat_lit l = Some n ->
  exists ds, ds <> [] /\ Forall (fun d => d < 10) ds /\ l = map ascii_of_digit ds /\ n = lsd_value (rev ds).
Proof.
  unfold parse_nat_lit. destruct l as [|a l]; [discriminate|].
  destruct (digits_of (a :: l)) as [ds|] eqn:E; [|discriminate]. cbn [option_map]. intros H; inversion H; subst.
  destruct (digits_sound _ _ E) as [Hf Hl]. exists ds. repeat split; try assumption.
  - intros ->. discriminate.
  - apply dec_value_lsd.
Qed.

(* parse_int64 accepts exactly the decimal notations of 64-bit integers *)
Lemma parse_int64_complete lit z : decimal_of lit z -> int64 z -> parse_int64 lit = Some z.
Proof.
  intros (neg & ds & Hne & Hf & Hl & Hz) Hr. unfold parse_int64, int64, two63 in *. rewrite Hl.
  destruct neg; cbn [app].
  - rewrite parse_nat_lit_digits by assumption.
    replace (lsd_value (rev ds) <=? 9223372036854775808) with true by lia. subst z. reflexivity.
  - destruct ds as [|d ds]; [congruence|]. cbn [map].
    destruct (ascii_dec (ascii_of_digit d) "-"%char) as [E|E].
    + exfalso. destruct (digit_not_minus d) as [X|X]; [congruence|]. inversion Hf; subst. lia.
    + change (ascii_of_digit d :: map ascii_of_digit ds) with (map ascii_of_digit (d :: ds)).
      assert (P : parse_nat_lit (map ascii_of_digit (d :: ds)) = Some (lsd_value (rev (d :: ds))))
        by (apply parse_nat_lit_digits; assumption).
      cbn [map] in *.
      destruct (ascii_of_digit d) as [b0 b1 b2 b3 b4 b5 b6 b7] eqn:Ea.
      assert (Q : forall r : list ascii, match (Ascii b0 b1 b2 b3 b4 b5 b6 b7 :: r) with
                  | "-"%char :: r' =>
                      match parse_nat_lit r' with
                      | Some n => if n <=? 9223372036854775808 then Some (- Z.of_N n)%Z else None
                      | None => None
                      end
                  | l => match parse_nat_lit l with
                         | Some n => if n <? 9223372036854775808 then Some (Z.of_N n) else None
                         | None => None
                         end
                  end = match parse_nat_lit (Ascii b0 b1 b2 b3 b4 b5 b6 b7 :: r) with
                         | Some n => if n <? 9223372036854775808 then Some (Z.of_N n) else None
                         | None => None
                         end).
      { intros r. destruct b0, b1, b2, b3, b4, b5, b6, b7; try reflexivity. exfalso. apply E. reflexivity. }
      rewrite Q, P.
      replace (lsd_value (rev (d :: ds)) <? 9223372036854775808) with true by lia.
      subst z. reflexivity.
Qed.

Lemma parse_int64_sound lit z : parse_int64 lit = Some z -> decimal_of lit z /\ int64 z.
Proof.
  unfold parse_int64, two63. intros H.
  assert (Hneg : forall r, list_ascii_of_string lit = "-"%char :: r ->
            match parse_nat_lit r with
            | Some n => if n <=? 9223372036854775808 then Some (- Z.of_N n)%Z else None
            | None => None end = Some z -> decimal_of lit z /\ int64 z).
  { intros r Hl Hp. destruct (parse_nat_lit r) as [n|] eqn:E; [|discriminate].
    destruct (N.leb_spec n 9223372036854775808); [|discriminate]. inversion Hp; subst.
    destruct (parse_nat_lit_sound _ _ E) as (ds & Hne & Hf & -> & ->).
    split; [exists true, ds; repeat split; assumption | unfold int64; lia]. }
  assert (Hpos : match parse_nat_lit (list_ascii_of_string lit) with
            | Some n => if n <? 9223372036854775808 then Some (Z.of_N n) else None
            | None => None end = Some z -> decimal_of lit z /\ int64 z).
  { intros Hp. destruct (parse_nat_lit (list_ascii_of_string lit)) as [n|] eqn:E; [|discriminate].
    destruct (N.ltb_spec n 9223372036854775808); [|discriminate]. inversion Hp; subst.
    destruct (parse_nat_lit_sound _ _ E) as (ds & Hne & Hf & Hl & ->).
    split; [exists false, ds; repeat split; assumption | unfold int64; lia]. }
  destruct (list_ascii_of_string lit) as [|a r] eqn:El; [apply Hpos; exact H|].
  destruct (ascii_dec a "-"%char) as [->|Ea].
  - apply (Hneg r eq_refl). exact H.
  - apply Hpos. destruct a as [b0 b1 b2 b3 b4 b5 b6 b7].
    destruct b0, b1, b2, b3, b4, b5, b6, b7; try exact H. exfalso. apply Ea. reflexivity.
Qed.

(* the decimal notation of a number is unique up to leading zeros: a literal denotes one number *)
Lemma map_digit_inj ds1 ds2 :
  Forall (fun d => d < 10) ds1 -> Forall (fun d => d < 10) ds2 ->
  map ascii_of_digit ds1 = map ascii_of_digit ds2 -> ds1 = ds2.
Proof.
  intros H1 H2 E. apply digits_roundtrip in H1, H2. rewrite E in H1. congruence.
Qed.

Lemma decimal_of_functional lit z1 z2 : decimal_of lit z1 -> decimal_of lit z2 -> z1 = z2.
Proof.
  intros (n1 & d1 & Hne1 & Hf1 & Hl1 & ->) (n2 & d2 & Hne2 & Hf2 & Hl2 & ->). rewrite Hl1 in Hl2.
  assert (Hd : forall d ds, Forall (fun d => d < 10) (d :: ds) -> ascii_of_digit d <> "-"%char).
  { intros d ds Hf. destruct (digit_not_minus d) as [X|X]; [exact X|]. inversion Hf; subst. lia. }
  destruct n1, n2; cbn [app] in Hl2.
  - inversion Hl2 as [E]. apply map_digit_inj in E; try assumption. subst. reflexivity.
  - destruct d2 as [|d ds]; [congruence|]. cbn [map] in Hl2. inversion Hl2 as [[E1 E2]].
    exfalso. apply (Hd d ds Hf2). congruence.
  - destruct d1 as [|d ds]; [congruence|]. cbn [map] in Hl2. inversion Hl2 as [[E1 E2]].
    exfalso. apply (Hd d ds Hf1). congruence.
  - apply map_digit_inj in Hl2; try assumption. subst. reflexivity.
Qed.

(* ---- printing: print_Z writes a decimal notation of z *)
Lemma rdigits_spec fuel n :
  n < 10 ^ N.of_nat fuel -> fuel <> O ->
  lsd_value (rdigits fuel n) = n /\ Forall (fun d => d < 10) (rdigits fuel n) /\ rdigits fuel n <> [].
Proof.
  revert n. induction fuel as [|f IH]; intros n Hn Hf; [congruence|].
  cbn [rdigits]. destruct (N.eqb_spec (n / 10) 0) as [E|E].
  - cbn [lsd_value]. repeat split.
    + pose proof (N.div_mod n 10 ltac:(lia)). lia.
    + constructor; [apply N.mod_lt; lia | constructor].
    + discriminate.
  - assert (Hf' : f <> O).
    { intros ->. cbn in Hn. assert (n / 10 = 0) by (apply N.div_small; lia). contradiction. }
    assert (Hn' : n / 10 < 10 ^ N.of_nat f).
    { apply N.div_lt_upper_bound; [lia|]. rewrite Nat2N.inj_succ, N.pow_succ_r' in Hn. exact Hn. }
    destruct (IH _ Hn' Hf') as (Hv & Hd & _). cbn [lsd_value]. rewrite Hv. repeat split.
    + pose proof (N.div_mod n 10 ltac:(lia)). lia.
    + constructor; [apply N.mod_lt; lia | assumption].
    + discriminate.
Qed.

Lemma print_N_decimal n : n < 18446744073709551616 -> decimal_of (print_N n) (Z.of_N n).
Proof.
  intros Hn. assert (Hp : n < 10 ^ N.of_nat 20).
  { replace (10 ^ N.of_nat 20) with 100000000000000000000 by (vm_compute; reflexivity). lia. }
  destruct (rdigits_spec 20 n Hp) as (Hv & Hd & Hne); [discriminate|].
  exists false, (rev (rdigits 20 n)). repeat split.
  - intros E. apply Hne. apply (f_equal (@rev N)) in E. rewrite rev_involutive in E. exact E.
  - apply Forall_rev. exact Hd.
  - unfold print_N. rewrite list_ascii_of_string_of_list_ascii. reflexivity.
  - rewrite rev_involutive, Hv. reflexivity.
Qed.

Lemma print_Z_decimal z : int64 z -> decimal_of (print_Z z) z.
Proof.
  unfold int64. intros Hr. destruct z as [|p|p].
  - apply (print_N_decimal 0). lia.
  - change (print_Z (Z.pos p)) with (print_N (N.pos p)). apply (print_N_decimal (N.pos p)). lia.
  - cbn [print_Z]. destruct (print_N_decimal (N.pos p)) as (neg & ds & Hne & Hf & Hl & Hz); [lia|].
    destruct neg.
    + exfalso. lia.
    + exists true, ds. repeat split; try assumption.
      * cbn [list_ascii_of_string]. rewrite Hl. reflexivity.
      * cbn [app] in *. lia.
Qed.

(* every 64-bit integer, written in decimal, is read back as itself *)
Theorem parse_print_Z z : int64 z -> parse_int64 (print_Z z) = Some z.
Proof. intros H. apply parse_int64_complete; [apply print_Z_decimal|]; assumption. Qed.

(* ================================================================== hex blob literals *)

Definition space (c : N) : Prop := is_space c = true.

Definition hex_digit (c v : N) : Prop :=
  (48 <= c <= 57 /\ v = c - 48) \/ (97 <= c <= 102 /\ v = c - 87) \/ (65 <= c <= 70 /\ v = c - 55).

Inductive hex_pairs : list N -> list N -> Prop :=
| hp_nil : hex_pairs [] []
| hp_cons a b x y r t : hex_digit a x -> hex_digit b y -> hex_pairs r t -> hex_pairs (a :: b :: r) (x * 16 + y :: t).

(* x'<pairs of hex digits>' (x or X), optionally surrounded by white space *)
Definition is_hex_literal (s bs : list N) : Prop :=
  exists pre x body post,
    s = pre ++ x :: 39 :: body ++ 39 :: post /\ Forall space pre /\ Forall space post /\
    (x = 120 \/ x = 88) /\ hex_pairs body bs.

Lemma hexval_spec c v : hexval c = Some v <-> hex_digit c v.
Proof.
  unfold hexval, hex_digit.
  destruct ((48 <=? c) && (c <=? 57)) eqn:E1; [|destruct ((97 <=? c) && (c <=? 102)) eqn:E2; [|destruct ((65 <=? c) && (c <=? 70)) eqn:E3]].
  - split; [intros H; inversion H; lia | intros H; f_equal; lia].
  - split; [intros H; inversion H; lia | intros H; f_equal; lia].
  - split; [intros H; inversion H; lia | intros H; f_equal; lia].
  - split; [discriminate | lia].
Qed.

Lemma hex_decode_complete body bs : hex_pairs body bs -> hex_decode body = Some bs.
Proof.
  induction 1 as [|a b x y r t Ha Hb _ IH]; [reflexivity|]. cbn [hex_decode].
  apply hexval_spec in Ha, Hb. rewrite Ha, Hb, IH. reflexivity.
Qed.

Lemma hex_decode_sound body :
  (forall bs, hex_decode body = Some bs -> hex_pairs body bs)
  /\ (forall a bs, hex_decode (a :: body) = Some bs -> hex_pairs (a :: body) bs).
Proof.
  induction body as [|b r [IH1 IH2]].
  - split; [intros bs H; inversion H; constructor | intros a bs H; discriminate].
  - split; [intros bs; apply IH2|]. intros a bs H. cbn [hex_decode] in H.
    destruct (hexval a) as [x|] eqn:Ea; [|discriminate]. destruct (hexval b) as [y|] eqn:Eb; [|discriminate].
    destruct (hex_decode r) as [t|] eqn:Er; [|discriminate]. inversion H; subst.
    constructor; [apply hexval_spec; assumption .. | apply IH1; reflexivity].
Qed.

Lemma trim_left_split l : exists pre, l = pre ++ trim_left l /\ Forall space pre.
Proof.
  induction l as [|c r (pre & E & Hp)]; [exists []; split; [reflexivity | constructor]|].
  cbn [trim_left]. destruct (is_space c) eqn:Ec.
  - exists (c :: pre). split; [cbn [app]; f_equal; exact E | constructor; assumption].
  - exists []. split; [reflexivity | constructor].
Qed.

Lemma trim_left_spaces pre l : Forall space pre -> trim_left (pre ++ l) = trim_left l.
Proof. induction 1 as [|c pre Hc _ IH]; [reflexivity|]. cbn [app trim_left]. rewrite Hc. exact IH. Qed.

Lemma trim_split s : exists pre post, s = pre ++ trim s ++ post /\ Forall space pre /\ Forall space post.
Proof.
  destruct (trim_left_split s) as (pre & E1 & H1).
  destruct (trim_left_split (rev (trim_left s))) as (q & E2 & H2).
  exists pre, (rev q). repeat split; [|assumption | apply Forall_rev; assumption].
  unfold trim. rewrite <- rev_app_distr, <- E2, rev_involutive. exact E1.
Qed.

Lemma trim_core pre core post c0 cl mid :
  Forall space pre -> Forall space post -> core = c0 :: mid ++ [cl] -> is_space c0 = false -> is_space cl = false ->
  trim (pre ++ core ++ post) = core.
Proof.
  intros Hp Hq -> H0 Hl. set (core := c0 :: mid ++ [cl]).
  assert (E1 : trim_left (pre ++ core ++ post) = core ++ post).
  { rewrite trim_left_spaces by assumption. unfold core. cbn [app trim_left]. rewrite H0. reflexivity. }
  assert (E2 : rev (core ++ post) = rev post ++ cl :: rev (c0 :: mid)).
  { rewrite rev_app_distr. f_equal. unfold core. change (c0 :: mid ++ [cl]) with ((c0 :: mid) ++ [cl]).
    rewrite rev_app_distr. reflexivity. }
  unfold trim. rewrite E1, E2, trim_left_spaces by (apply Forall_rev; assumption).
  cbn [trim_left]. rewrite Hl.
  change (rev (cl :: rev (c0 :: mid))) with (rev (rev (c0 :: mid)) ++ [cl]). rewrite rev_involutive. reflexivity.
Qed.

Theorem parse_hex_spec s bs : parse_hex s = Some bs <-> is_hex_literal s bs.
Proof.
  split.
  - unfold parse_hex. intros H. destruct (trim_split s) as (pre & post & E & Hp & Hq).
    destruct (trim s) as [|x [|q rest]]; try discriminate.
    destruct (((x =? 120) || (x =? 88)) && (q =? 39)) eqn:Ex; [|discriminate].
    destruct (rev rest) as [|c inner] eqn:Er; [discriminate|].
    destruct (N.eqb_spec c 39) as [->|]; [|discriminate].
    assert (rest = rev inner ++ [39]).
    { apply (f_equal (@rev N)) in Er. rewrite rev_involutive in Er. exact Er. }
    subst rest. exists pre, x, (rev inner), post. repeat split; try assumption.
    + rewrite E. cbn [app]. rewrite <- app_assoc. replace q with 39 by lia. reflexivity.
    + lia.
    + apply hex_decode_sound. exact H.
  - intros (pre & x & body & post & -> & Hp & Hq & Hx & Hb). unfold parse_hex.
    replace (pre ++ x :: 39 :: body ++ 39 :: post) with (pre ++ (x :: (39 :: body) ++ [39]) ++ post)
      by (cbn [app]; rewrite <- app_assoc; reflexivity).
    rewrite (trim_core pre _ post x 39 (39 :: body)); try assumption; try reflexivity.
    + cbn [app]. replace (((x =? 120) || (x =? 88)) && (39 =? 39)) with true by lia.
      rewrite rev_app_distr. cbn [rev app]. cbn [N.eqb Pos.eqb]. rewrite rev_involutive.
      apply hex_decode_complete. exact Hb.
    + destruct Hx as [-> | ->]; reflexivity.
Qed.

(* ================================================================== binding: the property's rule *)

Definition byte_lit (j : jv) (b : N) : Prop :=
  exists lit fb, j = JNum lit fb /\ decimal_of lit (Z.of_N b) /\ b < 256.

(* what a JSON parameter value denotes in SQLite, from the property text: 64-bit integers, other
   numbers as floats (the float64 the literal parses to), booleans as 1/0, null, hex literals and
   byte arrays as blobs, every other string as that text; anything else has no counterpart *)
Inductive denotes : jv -> sval -> Prop :=
| D_null : denotes JNull SNull
| D_bool b : denotes (JBool b) (SInt (if b then 1 else 0)%Z)
| D_int lit fb z : decimal_of lit z -> int64 z -> denotes (JNum lit fb) (SInt z)
| D_real lit b : (forall z, decimal_of lit z -> ~ int64 z) -> denotes (JNum lit (Some b)) (SReal b)
| D_hex s bs : is_hex_literal s bs -> denotes (JStr s) (SBlob bs)
| D_text s : (forall bs, ~ is_hex_literal s bs) -> denotes (JStr s) (SText s)
| D_bytes l bs : Forall2 byte_lit l bs -> denotes (JArr l) (SBlob bs).

Lemma byte_of_spec j b : byte_of j = Some b <-> byte_lit j b.
Proof.
  split.
  - destruct j; try discriminate. cbn [byte_of]. destruct (parse_int64 lit) as [z|] eqn:E; [|discriminate].
    destruct ((0 <=? z)%Z && (z <=? 255)%Z) eqn:Er; [|discriminate]. intros H; inversion H; subst.
    apply parse_int64_sound in E as [Hd _]. exists lit, fbits. repeat split; [|lia].
    rewrite Z2N.id by lia. exact Hd.
  - intros (lit & fb & -> & Hd & Hb). cbn [byte_of].
    rewrite (parse_int64_complete _ _ Hd) by (unfold int64; lia).
    replace ((0 <=? Z.of_N b)%Z && (Z.of_N b <=? 255)%Z) with true by lia. rewrite N2Z.id. reflexivity.
Qed.

Lemma bytes_of_spec l bs : bytes_of l = Some bs <-> Forall2 byte_lit l bs.
Proof.
  revert bs. induction l as [|e r IH]; intros bs; cbn [bytes_of].
  - split; [intros H; inversion H; constructor | intros H; inversion H; reflexivity].
  - split.
    + destruct (byte_of e) as [b|] eqn:Eb; [|discriminate]. destruct (bytes_of r) as [t|]; [|discriminate].
      intros H; inversion H; subst. constructor; [apply byte_of_spec; assumption | apply IH; reflexivity].
    + intros H. inversion H as [|? b ? t Hb Ht]; subst. apply byte_of_spec in Hb. apply IH in Ht.
      rewrite Hb, Ht. reflexivity.
Qed.

(* whatever makeParameter accepts is bound as the value the JSON denotes ... *)
Theorem bind_sound j p : make_parameter j = POk p -> denotes j (bind p).
Proof.
  destruct j; cbn [make_parameter]; intros H.
  - inversion H; constructor.
  - inversion H; constructor.
  - destruct (parse_int64 lit) as [z|] eqn:E.
    + inversion H; subst. apply parse_int64_sound in E as [Hd Hr]. constructor; assumption.
    + destruct fbits as [b|]; [|discriminate]. inversion H; subst. constructor.
      intros z Hd Hr. rewrite (parse_int64_complete _ _ Hd Hr) in E. discriminate.
  - destruct (parse_hex s) as [b|] eqn:E; inversion H; subst; cbn [bind].
    + constructor. apply parse_hex_spec. exact E.
    + constructor. intros bs Hb. apply parse_hex_spec in Hb. congruence.
  - destruct (bytes_of l) as [b|] eqn:E; [|discriminate]. inversion H; subst. constructor.
    apply bytes_of_spec. exact E.
  - discriminate.
Qed.

(* ... and every value with a SQLite counterpart is accepted and bound as exactly that value *)
Theorem bind_complete j v : denotes j v -> exists p, make_parameter j = POk p /\ bind p = v.
Proof.
  intros H. destruct H; cbn [make_parameter].
  - exists PNil. split; reflexivity.
  - exists (PB b). split; reflexivity.
  - rewrite (parse_int64_complete _ _ H H0). exists (PI z). split; reflexivity.
  - destruct (parse_int64 lit) as [z|] eqn:E.
    + exfalso. apply parse_int64_sound in E as [Hd Hr]. exact (H z Hd Hr).
    + exists (PD b). split; reflexivity.
  - apply parse_hex_spec in H. rewrite H. exists (PY bs). split; reflexivity.
  - destruct (parse_hex s) as [b|] eqn:E.
    + exfalso. apply parse_hex_spec in E. exact (H b E).
    + exists (PS s). split; reflexivity.
  - apply bytes_of_spec in H. rewrite H. exists (PY bs). split; reflexivity.
Qed.

(* ---- which parameter a slot of the statement receives *)
Definition item_ok (it : string * jv) (pp : string * pval) : Prop :=
  fst it = fst pp /\ make_parameter (snd it) = POk (snd pp).

Lemma make_parameters_ok items ps : make_parameters items = (ps, []) -> Forall2 item_ok items ps.
Proof.
  revert ps. induction items as [|[n j] r IH]; intros ps H; cbn [make_parameters] in H.
  - inversion H. constructor.
  - destruct (make_parameters r) as [ps' es'] eqn:E. destruct (make_parameter j) as [p|e] eqn:Ej.
    + inversion H; subst. constructor; [split; [reflexivity | exact Ej] | apply IH; reflexivity].
    + inversion H.
Qed.

Theorem positional_slot items ps k j :
  make_parameters items = (ps, []) -> nth_error items k = Some ("", j) ->
  denotes j (slot_value ps (SlotPos (S k))).
Proof.
  intros H Hn. apply make_parameters_ok in H. cbn [slot_value pred].
  revert k Hn. induction H as [|it pp items ps [Hf Hm] _ IH]; intros k Hn.
  - destruct k; discriminate.
  - destruct k as [|k]; cbn [nth_error] in *.
    + inversion Hn; subst. destruct pp as [n p]. cbn [fst snd] in *. subst n. cbn [String.eqb].
      apply bind_sound. exact Hm.
    + apply IH. exact Hn.
Qed.

Lemma last_named_app ps1 ps2 nm :
  last_named (ps1 ++ ps2) nm = match last_named ps2 nm with Some q => Some q | None => last_named ps1 nm end.
Proof.
  induction ps1 as [|[n p] r IH]; cbn [app last_named].
  - destruct (last_named ps2 nm); reflexivity.
  - rewrite IH. destruct (last_named ps2 nm); reflexivity.
Qed.

Lemma last_named_none ps nm : Forall (fun pp => fst pp <> nm) ps -> last_named ps nm = None.
Proof.
  induction 1 as [|[n p] r Hn _ IH]; [reflexivity|]. cbn [last_named]. rewrite IH.
  destruct (String.eqb_spec n nm); [contradiction | reflexivity].
Qed.

(* a named slot receives the last item carrying that name *)
Theorem named_slot pre post ps nm j :
  make_parameters (pre ++ (nm, j) :: post) = (ps, []) -> Forall (fun it => fst it <> nm) post ->
  denotes j (slot_value ps (SlotName nm)).
Proof.
  intros H Hpost. apply make_parameters_ok in H.
  apply Forall2_app_inv_l in H as (ps1 & ps2 & _ & H2 & ->).
  inversion H2 as [|? [n p] ? ps3 [Hf Hm] H3]; subst. cbn [fst snd] in *. subst n.
  cbn [slot_value]. rewrite last_named_app. cbn [last_named].
  rewrite last_named_none.
  - rewrite String.eqb_refl. apply bind_sound. exact Hm.
  - clear -H3 Hpost. induction H3 as [|it pp l l' [Hf _] _ IH]; [constructor|].
    inversion Hpost; subst. constructor; [congruence | apply IH; assumption].
Qed.

(* ================================================================== read-back *)

Inductive class := KNull | KInt | KReal | KText | KBlob.
Definition class_of (v : sval) : class :=
  match v with SNull => KNull | SInt _ => KInt | SReal _ => KReal | SText _ => KText | SBlob _ => KBlob end.

Definition wf_sval (v : sval) : Prop :=
  match v with
  | SInt z => int64 z
  | SBlob b => Forall (fun x => x < 256) b
  | _ => True
  end.

(* what a client reads in a JSON cell (property text: exact integer, the float64 the literal
   parses to, exact text, blob as base64 text or as an array of byte values) *)
Inductive reads_as (blob_array : bool) : jv -> sval -> Prop :=
| R_null : reads_as blob_array JNull SNull
| R_int lit fb z : decimal_of lit z -> reads_as blob_array (JNum lit fb) (SInt z)
| R_real lit b : reads_as blob_array (JNum lit (Some b)) (SReal b)
| R_text s : reads_as blob_array (JStr s) (SText s)
| R_b64 bs : blob_array = false -> reads_as blob_array (JStr (b64 bs)) (SBlob bs)
| R_arr l bs : blob_array = true -> Forall2 byte_lit l bs -> reads_as blob_array (JArr l) (SBlob bs).

Lemma list_eqb_N a b : list_eqb N.eqb a b = true -> a = b.
Proof.
  revert b. induction a as [|x a IH]; intros [|y b] H; cbn [list_eqb] in H; try discriminate; [reflexivity|].
  apply andb_true_iff in H as [H1 H2]. apply N.eqb_eq in H1. f_equal; [assumption | apply IH; assumption].
Qed.

Lemma list_eqb_byte_lit bs l :
  Forall (fun x => x < 256) bs -> list_eqb is_byte_lit bs l = true -> Forall2 byte_lit l bs.
Proof.
  intros Hf. revert l. induction Hf as [|b bs Hb _ IH]; intros [|j l] H; cbn [list_eqb] in H; try discriminate; [constructor|].
  apply andb_true_iff in H as [H1 H2]. constructor; [|apply IH; assumption].
  destruct j; try discriminate. cbn [is_byte_lit] in H1. apply String.eqb_eq in H1. subst lit.
  exists (print_N b), fbits. repeat split; [apply print_N_decimal; lia | assumption].
Qed.

(* every cell other than a BLOB under a text-like column type comes back as the stored value *)
Theorem cell_lossless ty v blob_array o :
  wf_sval v -> (class_of v <> KBlob \/ is_text_type ty = false) ->
  cell_matches (encode_cell blob_array (normalize_cell ty v)) o = true -> reads_as blob_array o v.
Proof.
  intros Hwf Hc H. destruct v as [|z|b|s|bs]; cbn [normalize_cell encode_cell] in H.
  - destruct o; try discriminate. constructor.
  - destruct o; try discriminate. cbn [cell_matches] in H. apply String.eqb_eq in H. subst lit.
    constructor. apply print_Z_decimal. exact Hwf.
  - destruct o as [| |lit [b'|]| | |]; try discriminate. cbn [cell_matches] in H. apply N.eqb_eq in H. subst b'. constructor.
  - destruct o; try discriminate. cbn [cell_matches] in H. apply list_eqb_N in H. subst. constructor.
  - destruct Hc as [Hc|Hc]; [cbn in Hc; congruence|]. rewrite Hc in H.
    destruct blob_array; cbn [encode_cell cell_matches] in H.
    + destruct o; try discriminate. apply R_arr; [reflexivity | apply list_eqb_byte_lit; assumption].
    + destruct o; try discriminate. apply list_eqb_N in H. subst. apply R_b64. reflexivity.
Qed.

(* ---- a JSON cell determines the value: base64 and the byte-array form are injective *)
Lemma list_ind3 (P : list N -> Prop) :
  P [] -> (forall a, P [a]) -> (forall a b, P [a; b]) -> (forall a b c r, P r -> P (a :: b :: c :: r)) ->
  forall l, P l.
Proof.
  intros H0 H1 H2 H3.
  assert (X : forall l, P l /\ (forall a, P (a :: l)) /\ (forall a b, P (a :: b :: l))).
  { induction l as [|x l (I0 & I1 & I2)]; [auto|]. repeat split; auto. }
  intros l. apply X.
Qed.

Definition bytes (l : list N) : Prop := Forall (fun x => x < 256) l.

Lemma sextets_bound l : bytes l -> Forall (fun s => s <= 64) (b64_sextets l).
Proof.
  unfold bytes. induction l as [|a|a b|a b c r IH] using list_ind3; intros H; cbn [b64_sextets].
  - constructor.
  - inversion H; subst. repeat constructor; lia.
  - inversion H as [|? ? ? H']; inversion H'; subst. repeat constructor; lia.
  - inversion H as [|? ? ? H']; inversion H' as [|? ? ? H'']; inversion H''; subst.
    repeat (constructor; [lia|]). apply IH. assumption.
Qed.

Lemma sextets_inj a : forall b, bytes a -> bytes b -> b64_sextets a = b64_sextets b -> a = b.
Proof.
  unfold bytes. induction a as [|a1|a1 a2|a1 a2 a3 a IH] using list_ind3; intros b Ha Hb E;
    destruct b as [|b1 [|b2 [|b3 b]]]; cbn [b64_sextets] in E; try discriminate; try reflexivity.
  - inversion Ha; inversion Hb; subst. inversion E. f_equal. lia.
  - inversion Hb as [|? ? ? H']; inversion H'; subst. inversion E. lia.
  - inversion Hb as [|? ? ? H']; inversion H' as [|? ? ? H'']; inversion H''; subst. inversion E. lia.
  - inversion Ha as [|? ? ? H']; inversion H'; subst. inversion E. lia.
  - inversion Ha as [|? ? ? H']; inversion H'; inversion Hb as [|? ? ? G']; inversion G'; subst.
    inversion E. f_equal; [lia | f_equal; lia].
  - inversion Hb as [|? ? ? H']; inversion H' as [|? ? ? H'']; inversion H''; subst. inversion E. lia.
  - inversion Ha as [|? ? ? H']; inversion H' as [|? ? ? H'']; inversion H''; subst. inversion E. lia.
  - inversion Ha as [|? ? ? H']; inversion H' as [|? ? ? H'']; inversion H''; subst. inversion E. lia.
  - inversion Ha as [|? ? ? H']; inversion H' as [|? ? ? H'']; inversion H'';
    inversion Hb as [|? ? ? G']; inversion G' as [|? ? ? G'']; inversion G''; subst.
    inversion E as [[E1 E2 E3 E4 E5]].
    assert (a1 = b1) by lia. assert (a2 = b2) by lia. assert (a3 = b3) by lia. subst.
    f_equal. f_equal. f_equal. apply IH; assumption.
Qed.

Lemma b64_char_inj s t : s <= 64 -> t <= 64 -> b64_char s = b64_char t -> s = t.
Proof.
  unfold b64_char. intros Hs Ht.
  destruct (s <? 26) eqn:S1; destruct (t <? 26) eqn:T1; try lia;
  destruct (s <? 52) eqn:S2; destruct (t <? 52) eqn:T2; try lia;
  destruct (s <? 62) eqn:S3; destruct (t <? 62) eqn:T3; try lia;
  destruct (s =? 62) eqn:S4; destruct (t =? 62) eqn:T4; try lia;
  destruct (s =? 63) eqn:S5; destruct (t =? 63) eqn:T5; try lia.
Qed.

Lemma map_b64_char_inj a : forall b,
  Forall (fun s => s <= 64) a -> Forall (fun s => s <= 64) b -> map b64_char a = map b64_char b -> a = b.
Proof.
  induction a as [|x a IH]; intros [|y b] Ha Hb E; cbn [map] in E; try discriminate; [reflexivity|].
  inversion Ha; inversion Hb; subst. inversion E. f_equal; [apply b64_char_inj; assumption | apply IH; assumption].
Qed.

Theorem b64_injective a b : bytes a -> bytes b -> b64 a = b64 b -> a = b.
Proof.
  intros Ha Hb E. apply sextets_inj; try assumption.
  apply map_b64_char_inj; [apply sextets_bound .. | exact E]; assumption.
Qed.

Lemma byte_lits_functional l : forall b1 b2, Forall2 byte_lit l b1 -> Forall2 byte_lit l b2 -> b1 = b2.
Proof.
  induction l as [|j l IH]; intros b1 b2 H1 H2; inversion H1; inversion H2; subst; [reflexivity|].
  f_equal; [|apply IH; assumption].
  match goal with A : byte_lit j ?x, B : byte_lit j ?y |- ?x = ?y =>
    destruct A as (l1 & f1 & E1 & D1 & _); destruct B as (l2 & f2 & E2 & D2 & _) end.
  rewrite E1 in E2. inversion E2; subst. pose proof (decimal_of_functional _ _ _ D1 D2). lia.
Qed.

(* no two values of one storage class share a JSON form *)
Theorem reads_as_determines f o v1 v2 :
  reads_as f o v1 -> reads_as f o v2 -> class_of v1 = class_of v2 -> wf_sval v1 -> wf_sval v2 -> v1 = v2.
Proof.
  intros H1 H2 Hc W1 W2. inversion H1; subst; inversion H2; subst; cbn in Hc; try discriminate; try reflexivity;
    try congruence;
    try (f_equal; eapply decimal_of_functional; eassumption);
    try (f_equal; eapply byte_lits_functional; eassumption).
  f_equal. match goal with E : b64 _ = b64 _ |- _ => apply b64_injective in E; [congruence | assumption ..] end.
Qed.

(* ---- whole responses *)
Lemma list_eqb_nth {A B} (f : A -> B -> bool) a : forall b i x,
  list_eqb f a b = true -> nth_error a i = Some x -> exists y, nth_error b i = Some y /\ f x y = true.
Proof.
  induction a as [|x0 a IH]; intros [|y0 b] i x H Hn; cbn [list_eqb] in H; try discriminate.
  - destruct i; discriminate.
  - apply andb_true_iff in H as [H1 H2]. destruct i as [|i]; cbn [nth_error] in *.
    + inversion Hn; subst. exists y0. split; [reflexivity | assumption].
    + eapply IH; eassumption.
Qed.

Lemma normalize_row_nth tys : forall row j t v,
  nth_error tys j = Some t -> nth_error row j = Some v ->
  nth_error (normalize_row tys row) j = Some (normalize_cell t v).
Proof.
  induction tys as [|t0 tys IH]; intros [|v0 row] j t v Ht Hv; try (destruct j; discriminate).
  destruct j as [|j]; cbn [nth_error normalize_row] in *.
  - inversion Ht; inversion Hv; subst. reflexivity.
  - apply IH; assumption.
Qed.

Lemma populate_nth decls : forall ps j d,
  nth_error decls j = Some d ->
  exists t, nth_error (populate_empty decls ps) j = Some t /\ (d <> "" -> t = d).
Proof.
  induction decls as [|d0 decls IH]; intros ps j d Hd; [destruct j; discriminate|].
  destruct ps as [|p ps]; cbn [populate_empty].
  - exists d. split; [assumption | reflexivity].
  - destruct j as [|j]; cbn [nth_error] in *.
    + inversion Hd; subst. eexists. split; [reflexivity|]. intros Hne.
      destruct (String.eqb_spec d ""); [contradiction | reflexivity].
    + apply IH. assumption.
Qed.

Lemma query_rows_nth decls rows tys prs i row :
  query_rows decls rows = (tys, prs) -> nth_error rows i = Some row ->
  exists tys_i, nth_error prs i = Some (normalize_row tys_i row)
    /\ forall j d, nth_error decls j = Some d -> exists t, nth_error tys_i j = Some t /\ (d <> "" -> t = d).
Proof.
  unfold query_rows. destruct rows as [|r1 rest]; [destruct i; discriminate|].
  intros H Hn. inversion H; subst. destruct i as [|i]; cbn [nth_error] in *.
  - inversion Hn; subst. exists decls. split; [reflexivity|]. intros j d Hd. exists d. split; [assumption | reflexivity].
  - exists (populate_empty decls (normalize_row decls r1)). split.
    + rewrite nth_error_map, Hn. reflexivity.
    + intros j d Hd. apply populate_nth. assumption.
Qed.

Definition std_cell (ovals : jv) (i j : nat) : option jv :=
  match ovals with
  | JArr rs => match nth_error rs i with Some (JArr r) => nth_error r j | _ => None end
  | _ => None
  end.

Definition assoc_cell (orows : jv) (i : nat) (c : string) : option jv :=
  match orows with
  | JArr rs => match nth_error rs i with Some (JObj kv) => lookup kv c | _ => None end
  | _ => None
  end.

(* the condition under which the pinned code returns the stored value: not a BLOB, or the column
   has a declared type that is not text-like (INTEGER, REAL, BLOB, ...) *)
Definition returned_exactly (v : sval) (d : string) : Prop :=
  class_of v <> KBlob \/ (d <> "" /\ is_text_type d = false).

Lemma cell_of_table decls rows tys prs i row j v d :
  query_rows decls rows = (tys, prs) -> nth_error rows i = Some row -> nth_error row j = Some v ->
  nth_error decls j = Some d -> returned_exactly v d ->
  exists ps t, nth_error prs i = Some ps /\ nth_error ps j = Some (normalize_cell t v)
               /\ (class_of v <> KBlob \/ is_text_type t = false).
Proof.
  intros Hq Hi Hj Hd Hr. destruct (query_rows_nth _ _ _ _ _ _ Hq Hi) as (tys_i & Hp & Ht).
  destruct (Ht j d Hd) as (t & Htj & Hkeep). exists (normalize_row tys_i row), t.
  split; [assumption|]. split; [apply normalize_row_nth; assumption|].
  destruct Hr as [Hr | [Hne Hty]]; [left; assumption | right]. rewrite (Hkeep Hne). assumption.
Qed.

Theorem table_lossless_std remote ba cols decls rows oc ot ov i row j v d :
  resp_matches remote false ba cols decls rows (RStd oc ot ov) = true ->
  nth_error rows i = Some row -> nth_error row j = Some v -> nth_error decls j = Some d ->
  wf_sval v -> returned_exactly v d ->
  exists o, std_cell ov i j = Some o /\ reads_as ba o v.
Proof.
  unfold resp_matches. destruct (query_rows decls rows) as [tys prs] eqn:Hq.
  intros H Hi Hj Hd Hwf Hr.
  destruct (remote && negb (marshal_ok prs)); [discriminate|].
  apply andb_true_iff in H as [H Hv]. destruct ov as [| | | |l|]; try discriminate.
  destruct (cell_of_table _ _ _ _ _ _ _ _ _ Hq Hi Hj Hd Hr) as (ps & t & Hps & Hc & Hcond).
  destruct (list_eqb_nth _ _ _ _ _ Hv Hps) as (orow & Ho & Hm).
  unfold row_matches in Hm. destruct orow as [| | | |cells|]; try discriminate.
  destruct (list_eqb_nth _ _ _ _ _ Hm Hc) as (o & Hoc & Hcm).
  exists o. split; [cbn [std_cell]; rewrite Ho; assumption|].
  eapply cell_lossless; eassumption.
Qed.

Lemma assoc_of_skip {V} cols : forall (vs : list V) acc c,
  ~ In c cols -> lookup (assoc_of cols vs acc) c = lookup acc c.
Proof.
  induction cols as [|c0 cols IH]; intros vs acc c Hn; [reflexivity|]. destruct vs as [|v vs]; [reflexivity|].
  cbn [assoc_of]. rewrite IH by (intros X; apply Hn; right; assumption).
  apply lookup_update_neq. intros ->. apply Hn. left. reflexivity.
Qed.

Lemma assoc_of_lookup {V} cols : forall (vs : list V) acc j c v,
  NoDup cols -> nth_error cols j = Some c -> nth_error vs j = Some v ->
  lookup (assoc_of cols vs acc) c = Some v.
Proof.
  induction cols as [|c0 cols IH]; intros vs acc j c v Hnd Hc Hv; [destruct j; discriminate|].
  destruct vs as [|v0 vs]; [destruct j; discriminate|]. inversion Hnd; subst.
  destruct j as [|j]; cbn [nth_error assoc_of] in *.
  - inversion Hc; inversion Hv; subst. rewrite assoc_of_skip by assumption. apply lookup_update_eq.
  - eapply IH; eassumption.
Qed.

Theorem table_lossless_assoc remote ba cols decls rows ot orows i row j v d c :
  resp_matches remote true ba cols decls rows (RAssoc ot orows) = true ->
  NoDup cols -> nth_error cols j = Some c ->
  nth_error rows i = Some row -> nth_error row j = Some v -> nth_error decls j = Some d ->
  wf_sval v -> returned_exactly v d ->
  exists o, assoc_cell orows i c = Some o /\ reads_as ba o v.
Proof.
  unfold resp_matches. destruct (query_rows decls rows) as [tys prs] eqn:Hq.
  intros H Hnd Hcj Hi Hj Hd Hwf Hr.
  destruct (remote && negb (marshal_ok prs)); [discriminate|].
  apply andb_true_iff in H as [_ Hv]. destruct orows as [| | | |l|]; try discriminate.
  destruct (cell_of_table _ _ _ _ _ _ _ _ _ Hq Hi Hj Hd Hr) as (ps & t & Hps & Hc & Hcond).
  destruct (list_eqb_nth _ _ _ _ _ Hv Hps) as (orow & Ho & Hm).
  unfold obj_matches in Hm. destruct orow as [| | | | |kv]; try discriminate.
  apply andb_true_iff in Hm as [_ Hall]. rewrite forallb_forall in Hall.
  specialize (Hall c (nth_error_In _ _ Hcj)).
  rewrite (assoc_of_lookup cols ps [] j c _ Hnd Hcj Hc) in Hall.
  destruct (lookup kv c) as [o|] eqn:Hl; [|discriminate].
  exists o. split; [cbn [assoc_cell]; rewrite Ho; assumption|].
  eapply cell_lossless; eassumption.
Qed.

(* ================================================================== what does NOT hold in the pinned tree *)

(* a BLOB read from an untyped / TEXT column or from an expression is converted with string(val):
   two different blobs give the same JSON, and the JSON is not the blob's base64 form *)
Theorem readback_refuted :
  exists ty v1 v2, is_text_type ty = true /\ v1 <> v2 /\ class_of v1 = KBlob /\ class_of v2 = KBlob
    /\ wf_sval v1 /\ wf_sval v2
    /\ encode_cell false (normalize_cell ty v1) = encode_cell false (normalize_cell ty v2)
    /\ (forall o, cell_matches (encode_cell false (normalize_cell ty v1)) o = true -> ~ reads_as false o v1).
Proof.
  exists "", (SBlob [255]), (SBlob [254]). repeat split; try (cbn; repeat constructor; lia).
  - discriminate.
  - intros o H.
    assert (E : encode_cell false (normalize_cell "" (SBlob [255])) = CStr [65533]) by (vm_compute; reflexivity).
    rewrite E in H. destruct o; try discriminate. cbn [cell_matches] in H. apply list_eqb_N in H. subst s.
    intros R. assert (X : b64 [255] <> [65533]) by (vm_compute; discriminate).
    inversion R; subst; try discriminate; congruence.
Qed.

(* ... and through a forwarded query the same value makes the whole response fail *)
Theorem forwarded_query_refuted :
  exists cols decls rows, resp_matches true false false cols decls rows RFail = true
                          /\ forall oc ot ov, resp_matches true false false cols decls rows (RStd oc ot ov) = false.
Proof.
  exists ["n"], [""], [[SBlob [255]]]. split; [vm_compute; reflexivity|]. intros. vm_compute. reflexivity.
Qed.

(* ================================================================== examples (non-vacuity) *)
Example ex_bind :
  make_parameter (JNum "-9223372036854775808" (Some 14114281232179134464)) = POk (PI (-9223372036854775808))
  /\ make_parameter (JNum "9223372036854775808" (Some 4890909195324358656)) = POk (PD 4890909195324358656)
  /\ make_parameter (JStr [32; 88; 39; 48; 48; 102; 70; 39; 10]) = POk (PY [0; 255])
  /\ make_parameter (JStr [120; 39; 52; 39]) = POk (PS [120; 39; 52; 39])
  /\ make_parameter (JArr [JNum "0" None; JNum "255" None]) = POk (PY [0; 255])
  /\ make_parameter (JArr [JNum "256" None]) = PErr EUnsupported.
Proof. vm_compute. repeat split. Qed.

Example ex_table :
  let rows := [[SInt 7; SBlob [255; 65]]; [SBlob [1]; SBlob [2]]] in
  resp_matches false false false ["e"; "b"] [""; "blob"] rows
    (RStd (JArr [JStr [101]; JStr [98]]) (JArr [JStr [105; 110; 116; 101; 103; 101; 114]; JStr [98; 108; 111; 98]])
          (JArr [JArr [JNum "7" None; JStr [47; 48; 69; 61]]; JArr [JStr [65; 81; 61; 61]; JStr [65; 103; 61; 61]]])) = true.
Proof. vm_compute. reflexivity. Qed.
