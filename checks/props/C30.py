# C30 — configuration read by bin/check (see checks/registry.py)
SPEC = dict(
    title="Values round-trip through the HTTP API without loss",
    pkg="./http", files=["http/c30_verif_test.go"],
    rule="corpus of 30 number literals, 43 strings, null/bool/array/object values in all 4 parameter forms, every ordered pair of storage classes (first-row effect on "
         "expression columns), then 220 (quick) / 6000 (thorough) random parameter lists of 1-4 values, each stored in an untyped, INTEGER, REAL, TEXT, BLOB column and read "
         "back (plus an expression) in 4 result forms (standard/associative x base64/byte-array), locally or as a forwarded (protobuf) result; a list is non-trivial when it "
         "has an integer beyond 2^53 or at the int64 limits, a float at the range limits or around 2^63, a blob that is empty or not valid UTF-8, or a string containing "
         "x/X and a quote (hex-looking); distinct by request body + form; every rendering made by the real encoder is kept uncopied and re-read after all later (and 8-way concurrent) renderings",
    exhaustive=False,
    case_preamble="Open Scope string_scope.\n",
    shard=60, coq_jobs=8,
    trusted=["encoding/json (request decoding to json.Number/strings, response rendering incl. base64 of []byte and shortest float formatting), strconv.ParseFloat, "
             "UTF-8 transcoding of Go/SQLite: strings reach the model as code point lists, floats as bit patterns with the literal's ParseFloat result supplied by the driver",
             "go-sqlite3: binds int64/float64/bool/[]byte/string/nil as INTEGER/REAL/INTEGER 1|0/BLOB/TEXT/NULL and returns INTEGER/REAL/TEXT/BLOB/NULL as int64/float64/string/[]byte/nil "
             "for declared types other than date/time/boolean (checked per case through an independent database/sql connection)",
             "protobuf: a string field that is not valid UTF-8 cannot be marshalled (forwarded results)",
             "the store is replaced by the http package's MockStore wired to a real db.DB; writes and forwarded results are passed through protobuf as the Raft log / cluster service do"],
    assumptions=["column affinity conversions are SQLite's: the model is given the stored cells as read through an independent connection",
                 "REAL values are finite (JSON has no Inf/NaN; a stored Inf makes the whole response fail with 500)",
                 "a string whose white-space-trimmed form is x'<hex pairs>' is a blob literal (cannot be stored as text) — taken as documented behaviour",
                 "associative form: distinct column names"],
    level_text="C30_bind_preserves/_bind_accepts/_int64_exact/_positional_slot/_named_slot hold for every JSON value, literal and parameter list; "
               "C30_readback_lossless_partial_std/_assoc hold for every table, row, column, declared type and result form for every value that is not a BLOB under an untyped/text-like "
               "column type; C30_json_form_injective (incl. base64) for all byte strings; C30_readback_lossless_refuted / C30_forwarded_query_refuted: explicit witnesses on the faithful model.",
    level_note="Model = makeParameter/ParseHex, parametersToValues, normalizeRowParameters/populateEmptyTypes/isTextType and the JSON encoders transcribed; tie = real HTTP service + real db.DB, "
               "independent SQLite connection as oracle.",
    technique="Coq proofs (decimal/hex-literal parsing vs declarative notation, base64 injectivity, table-level read-back) + differential run of the model against the live HTTP path + SQLite-side oracle",
    design_ref="6/C30",
    timeout_quick=300, timeout_thorough=3600,
)
