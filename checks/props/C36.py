# C36 — configuration read by bin/check (see checks/registry.py)
SPEC = dict(
    title="Write throttling stays within its configured bounds",
    pkg="./store/throttler", files=["store/throttler/c36_verif_test.go"],
    case_preamble="Open Scope Z_scope.\n",
    rule="random Signal/Release/Reset/Delay sequences (1..50 operations quick, 1..80 thorough) over random delay tables of 0..8 entries, release rates "
         "-3..MaxInt and idle timeout off/long, plus sequences with a 30-60 ms idle timeout, sleeps and timed Delay calls; plus concurrent scenarios (a request asleep in Delay, then a Signal/Release/Reset, then a second Delay with or without a 60 ms context; oracle only); a sequence is non-trivial when "
         "a Signal arrives at the top level AND a Release is floored at zero (0 < level < rate); distinct by the JSON of configuration + operations",
    exhaustive=False,
    trusted=["Go timers and contexts: time.After/AfterFunc/Timer.Reset/Stop never fire early and context errors are as documented; the model's clock is the nominal duration of each sleep/Delay",
             "a Delay whose timer and context become ready at the same instant may return either result in Go; the model returns nil there and the driver never generates that tie"],
    assumptions=["delay table entries and caller-supplied durations are non-negative (premises wf_cfg / wf_op of the timing theorems; the range and step theorems need no premise)",
                 "measured blocking times are accepted within [predicted, 5*predicted+100ms]; timing-dependent failures must repeat three times in a row"],
    level_text="All nine theorems hold for every delay table, release rate, idle timeout and every operation sequence of any length (induction over the sequence); "
               "the same step/run_obs functions are evaluated on every driver case and compared with the real Throttler's level (white-box field), GetDelay and Delay result.",
    level_note="Model = New/touch/Signal/Release/Reset/timer/Delay/GetDelay transcribed with an explicit clock; tie = differential run on generated sequences; Go runtime timers trusted.",
    technique="Coq invariant proofs over all operation sequences + model/implementation differential run with timing tolerances >= 5x",
    design_ref="6/C36",
    timeout_quick=300, timeout_thorough=3600,
)
