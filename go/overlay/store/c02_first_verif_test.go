package store

// C02 driver, part A2: the first linearizable reads of a term.
//
// In every situation in which strongReadTerm is not the current term (a new leader after a
// stepdown or after the old leader was cut off, strongReadTerm 0, strongReadTerm of an older term)
// k = 1, 2, 3 linearizable reads are sent to the leader while the strong read the first of them
// was turned into is still in flight, held up either by an FSM that is busy applying a big
// committed insert, or by a commit index that lags because the link to the quorum peer is slow
// (severable, delaying network layer below).  Observed: strongReadTerm sampled mid-flight, for each
// read what it read when it began and whether it was upgraded, strongReadTerm afterwards
// (Model.C02.check_first: strongReadTerm moves only when a strong read has been APPLIED, so every
// read of the group is upgraded), and the rows each read returned.
// Oracle: a read that is served locally although the commit index it started from is below an
// acknowledged write, or that returns fewer rows than had been acknowledged when it began.

import (
	"context"
	"errors"
	"fmt"
	"net"
	"strings"
	"sync"
	"sync/atomic"
	"testing"
	"time"

	"github.com/hashicorp/raft"
	"github.com/rqlite/rqlite/v10/command/proto"
)

// ---------------------------------------------------------------- severable, delaying layer

type vcGate struct {
	isolated atomic.Bool  // nothing gets in or out
	deaf     atomic.Bool  // what this node sends is delivered, what is sent to it is lost
	delay    atomic.Int64 // every write of this node is held this long (ns)
}

type vcGateReg struct {
	mu     sync.Mutex
	byAddr map[string]*vcGate
}

func (r *vcGateReg) get(addr string) *vcGate {
	r.mu.Lock()
	defer r.mu.Unlock()
	return r.byAddr[addr]
}

var errSevered = errors.New("verif: link severed")

type gatedConn struct {
	net.Conn
	local, remote *vcGate
}

func (c *gatedConn) cut() bool {
	return c.local.isolated.Load() || (c.remote != nil && c.remote.isolated.Load())
}

func (c *gatedConn) Read(b []byte) (int, error) {
	n, err := c.Conn.Read(b)
	if c.cut() || c.local.deaf.Load() {
		c.Conn.Close()
		return 0, errSevered
	}
	return n, err
}

func (c *gatedConn) Write(b []byte) (int, error) {
	if c.cut() {
		c.Conn.Close()
		return 0, errSevered
	}
	if d := c.local.delay.Load(); d > 0 {
		time.Sleep(time.Duration(d))
		if c.cut() {
			c.Conn.Close()
			return 0, errSevered
		}
	}
	return c.Conn.Write(b)
}

type gatedLayer struct {
	ln  net.Listener
	g   *vcGate
	reg *vcGateReg
}

func (l *gatedLayer) Dial(addr string, timeout time.Duration) (net.Conn, error) {
	rg := l.reg.get(addr)
	if l.g.isolated.Load() || (rg != nil && rg.isolated.Load()) {
		return nil, errSevered
	}
	c, err := net.DialTimeout("tcp", addr, timeout)
	if err != nil {
		return nil, err
	}
	return &gatedConn{Conn: c, local: l.g, remote: rg}, nil
}

func (l *gatedLayer) Accept() (net.Conn, error) {
	c, err := l.ln.Accept()
	if err != nil {
		return nil, err
	}
	return &gatedConn{Conn: c, local: l.g}, nil
}

func (l *gatedLayer) Close() error   { return l.ln.Close() }
func (l *gatedLayer) Addr() net.Addr { return l.ln.Addr() }

type c02Gated struct {
	c     *vCluster
	gates map[*vcNode]*vcGate
}

func c02NewGated(t *testing.T) *c02Gated { return c02NewGatedLease(t, false) }

// longLease0: the last node (joined, not the bootstrap node, so that start-up is not slowed down) is given an 8 s heartbeat/election/leader-lease timeout (rqlited's
// -raft-timeout, -raft-election-timeout, -raft-leader-lease-timeout), so that as a leader that has lost
// contact it is deposed by its successor's first message, not by its own lease running out.
func c02NewGatedLease(t *testing.T, longLease0 bool) *c02Gated {
	for attempt := 0; attempt < 3; attempt++ {
		reg := &vcGateReg{byAddr: map[string]*vcGate{}}
		g := &c02Gated{c: &vCluster{t: t}, gates: map[*vcNode]*vcGate{}}
		ok := true
		for i := 0; i < 3 && ok; i++ {
			ln, err := net.Listen("tcp", "localhost:0")
			if err != nil {
				ok = false
				break
			}
			gate := &vcGate{}
			reg.mu.Lock()
			reg.byAddr[ln.Addr().String()] = gate
			reg.mu.Unlock()
			s := New(&Config{DBConf: NewDBConfig(), Dir: t.TempDir(), ID: fmt.Sprintf("g%d", i)}, &gatedLayer{ln: ln, g: gate, reg: reg})
			if s != nil && i == 2 && longLease0 {
				s.HeartbeatTimeout, s.ElectionTimeout, s.LeaderLeaseTimeout = 8*time.Second, 8*time.Second, 8*time.Second
			}
			if s == nil || s.Open() != nil {
				ok = false
				break
			}
			n := &vcNode{s: s, voter: true, name: fmt.Sprintf("g%d", i)}
			g.c.nodes = append(g.c.nodes, n)
			g.gates[n] = gate
			if i == 0 {
				if err := s.Bootstrap(NewServer(s.ID(), s.Addr(), true)); err != nil {
					ok = false
					break
				}
				if _, err := s.WaitForLeader(10 * time.Second); err != nil {
					ok = false
				}
			} else {
				if err := g.c.nodes[0].s.Join(joinRequest(s.ID(), s.Addr(), true)); err != nil {
					ok = false
					break
				}
				if _, err := s.WaitForLeader(10 * time.Second); err != nil {
					ok = false
				}
			}
		}
		if ok {
			if ld := g.c.leader(10 * time.Second); ld != nil {
				if vcExec(ld.s, "CREATE TABLE big (x INTEGER)", "INSERT INTO big(x) VALUES(0)", "CREATE TABLE seq (tag INTEGER)", "CREATE TABLE reg (k INTEGER PRIMARY KEY, v INTEGER)") == nil {
					return g
				}
			}
		}
		g.c.close()
	}
	return nil
}

func (g *c02Gated) heal() {
	for _, gt := range g.gates {
		gt.isolated.Store(false)
		gt.deaf.Store(false)
		gt.delay.Store(0)
	}
}

// ---------------------------------------------------------------- the scenarios

type c02FirstIn struct {
	Kind      string `json:"kind"`      // "first"
	Situation string `json:"situation"` // after-stepdown | srt-zero | srt-previous | after-cut-off
	K         int    `json:"k"`         // concurrent linearizable reads
	Hold      string `json:"hold"`      // fsm-busy | idle | commit-lag
	Round     int    `json:"round"`
}

type c02Read struct {
	pre      vcLinPre
	started  time.Time
	upgraded bool
	rows     int64
	err      error
	done     chan struct{}
}

const c02BigRows = 700000

func c02BigInsert(s *Store) error {
	return vcExec(s, fmt.Sprintf("INSERT INTO big(x) WITH RECURSIVE c(i) AS (SELECT 1 UNION ALL SELECT i+1 FROM c WHERE i < %d) SELECT i FROM c", c02BigRows))
}

func c02Count(s *Store) int64 {
	q := queryRequestFromString("SELECT COUNT(*) FROM big", false, false, false)
	q.Level = proto.ConsistencyLevel_NONE
	rows, _, _, err := s.Query(context.Background(), q)
	if err != nil || len(rows) == 0 || len(rows[0].Values) == 0 {
		return -1
	}
	return rows[0].Values[0].Parameters[0].GetI()
}

// launch one linearizable read (Query for odd, Request for even positions)
func c02Launch(s *Store, pos int) *c02Read {
	r := &c02Read{pre: vcLinBefore(s), started: time.Now(), done: make(chan struct{})}
	go func() {
		defer close(r.done)
		ctx := context.Background()
		if pos%2 == 1 {
			qr := queryRequestFromString("SELECT COUNT(*) FROM big", false, false, false)
			qr.Level = proto.ConsistencyLevel_LINEARIZABLE
			qr.LinearizableTimeout = int64(60 * time.Second)
			rows, lvl, idx, err := s.Query(ctx, qr)
			r.err = err
			if err == nil {
				r.upgraded = lvl == proto.ConsistencyLevel_STRONG && idx != 0
				if len(rows) == 1 && len(rows[0].Values) == 1 {
					r.rows = rows[0].Values[0].Parameters[0].GetI()
				}
			}
		} else {
			eqr := executeQueryRequestFromStrings([]string{"SELECT COUNT(*) FROM big"}, proto.ConsistencyLevel_LINEARIZABLE, false, false, false)
			eqr.LinearizableTimeout = int64(60 * time.Second)
			rs, _, idx, err := s.Request(ctx, eqr)
			r.err = err
			if err == nil {
				r.upgraded = idx != 0
				if len(rs) == 1 && rs[0].GetQ() != nil && len(rs[0].GetQ().Values) == 1 {
					r.rows = rs[0].GetQ().Values[0].Parameters[0].GetI()
				}
			}
		}
	}()
	return r
}

func c02ObsCoq(p vcLinPre) string {
	return fmt.Sprintf("{| lo_term := %s; lo_srt := 0%%N; lo_leader := %s; lo_ready := %s; lo_commit := %s; lo_verify := VOk; lo_term_after := %s; lo_fsm_idx := %s; lo_kinds := %s; lo_reached := %s |}",
		coqN(p.Term), coqBool(p.Leader), coqBool(p.Ready), coqN(p.Commit), coqN(p.Term), coqN(p.FsmIdx), coqList(p.Kinds), coqN(p.Commit))
}

// first runs one scenario on leader node ld of cluster c.  ackedRows/ackedIdx: what had been
// acknowledged (rows of table big, highest log index) before the reads begin, when known.
func c02First(w *vWriter, in c02FirstIn, c *vCluster, g *c02Gated) {
	key := vJSON(in)
	tags := []string{"first-reads", "hold=" + in.Hold, "situation=" + in.Situation, fmt.Sprintf("k=%d", in.K)}
	inconcl := func(why string) {
		w.Emit(VCase{Input: in, Key: key, Inconcl: why, Tags: tags})
	}
	ld := c.leader(20 * time.Second)
	if ld == nil || !c.settle(ld, 15*time.Second) {
		inconcl("no settled leader")
		return
	}
	var bigDone chan error
	ackedIdx := ld.s.raft.LastIndex() // everything so far was acknowledged or is set-up
	ackedRows := c02Count(ld.s)

	// ---- get into the situation
	switch in.Situation {
	case "after-stepdown":
		if err := ld.s.Stepdown(true, ""); err != nil {
			inconcl("stepdown failed: " + err.Error())
			return
		}
		nl := c.leader(20 * time.Second)
		if nl == nil || !c.settle(nl, 15*time.Second) {
			inconcl("no settled leader after the stepdown")
			return
		}
		ld = nl
	case "srt-zero":
		ld.s.strongReadTerm.Store(0)
	case "srt-previous":
		ld.s.strongReadTerm.Store(ld.s.raft.CurrentTerm() - 1)
	case "after-cut-off":
		if g == nil {
			inconcl("needs the gated cluster")
			return
		}
		// the followers answer slowly, so that the next leader's first entry takes a while to commit
		for n, gt := range g.gates {
			if n != ld {
				gt.delay.Store(int64(100 * time.Millisecond))
			}
		}
		old := ld
		idxW := old.s.raft.LastIndex() + 1
		bigDone = make(chan error, 1)
		go func() { bigDone <- c02BigInsert(old.s) }()
		// cut the leader off as soon as the write is committed: the followers hold it, unapplied
		cut := false
		for i := 0; i < 100000; i++ {
			if old.s.raft.CommitIndex() >= idxW {
				g.gates[old].isolated.Store(true)
				cut = true
				break
			}
			time.Sleep(50 * time.Microsecond)
		}
		if !cut {
			g.heal()
			<-bigDone
			inconcl("the write did not commit")
			return
		}
		defer g.heal()
		for _, n := range c.nodes {
			if n != old && n.s.raft.CommitIndex() >= idxW {
				<-bigDone
				inconcl("a follower had already learnt that the write is committed")
				return
			}
		}
		if err := <-bigDone; err != nil { // the acknowledgement
			inconcl("the write was not acknowledged: " + err.Error())
			return
		}
		bigDone = nil
		ackedIdx, ackedRows = idxW, ackedRows+c02BigRows
		// the next leader
		var nl *vcNode
		for i := 0; i < 400000 && nl == nil; i++ {
			for _, n := range c.nodes {
				if n != old && n.s.raft.State() == raft.Leader {
					nl = n
				}
			}
			if nl == nil {
				time.Sleep(50 * time.Microsecond)
			}
		}
		if nl == nil {
			inconcl("no new leader after the cut")
			return
		}
		ld = nl
	}
	s := ld.s
	term := s.raft.CurrentTerm()
	srt0 := s.strongReadTerm.Load()
	if srt0 == term {
		inconcl("strongReadTerm is already the current term")
		return
	}

	// ---- hold the strong read up
	idxBusy := uint64(0)
	if in.Hold == "fsm-busy" {
		idxBusy = s.raft.LastIndex() + 1
		bigDone = make(chan error, 1)
		go func() { bigDone <- c02BigInsert(s) }()
		lagging := false
		for i := 0; i < 40000 && !lagging; i++ {
			lagging = s.raft.CommitIndex() >= idxBusy && s.fsmIdx.Load() < idxBusy
			if !lagging {
				time.Sleep(100 * time.Microsecond)
			}
		}
		if !lagging {
			<-bigDone
			inconcl("could not catch the FSM busy")
			return
		}
	}
	// nothing of this term's strong reads can have been applied as long as this holds
	held := func() bool {
		switch in.Hold {
		case "fsm-busy":
			return s.fsmIdx.Load() < idxBusy
		case "commit-lag":
			return s.raft.CommitIndex() < ackedIdx+1 // not even the new leader's own first entry is committed
		}
		return false
	}

	// ---- the reads
	up0 := s.numLRUpgraded.Load()
	var reads []*c02Read
	sampled, sampledOK := srt0, false
	inWindow := 0
	for j := 1; j <= in.K; j++ {
		if in.Hold != "idle" && j > 1 && !held() {
			break // the window is over: later reads would not be "concurrent with the pending strong read"
		}
		r := c02Launch(s, j)
		reads = append(reads, r)
		if in.Hold == "idle" {
			continue
		}
		// give the read time to get past its strongReadTerm check / to queue its strong read
		for i := 0; i < 400; i++ {
			if s.numLRUpgraded.Load() >= up0+uint64(j) {
				break
			}
			time.Sleep(250 * time.Microsecond)
		}
		time.Sleep(2 * time.Millisecond)
		v := s.strongReadTerm.Load()
		if held() {
			sampled, sampledOK = v, true
			inWindow = j
		}
	}
	for _, r := range reads {
		select {
		case <-r.done:
		case <-time.After(90 * time.Second):
			inconcl("a read did not return")
			return
		}
	}
	if bigDone != nil {
		<-bigDone
	}
	srtAfter := s.strongReadTerm.Load()
	if s.raft.CurrentTerm() != term || !s.IsLeader() {
		inconcl("leadership changed during the scenario")
		return
	}
	for _, r := range reads {
		if r.err != nil {
			inconcl("a read failed: " + r.err.Error())
			return
		}
	}

	// ---- model case: the reads that began inside the window (idle: only the first)
	nModel := inWindow
	if in.Hold == "idle" {
		nModel, sampledOK = 1, false
	}
	if nModel == 0 {
		inconcl("the window closed before the first read was in flight")
		return
	}
	var mids []string
	nUp := 0
	for _, r := range reads {
		if r.upgraded {
			nUp++
		}
	}
	for _, r := range reads[:nModel] {
		mids = append(mids, fmt.Sprintf("{| m_obs := %s; m_upgraded := %s |}", c02ObsCoq(r.pre), coqBool(r.upgraded)))
	}
	events := "[]"
	if sampledOK {
		events = "[SQueued " + coqN(term) + "]"
	} else {
		sampled = srt0
	}
	var dn []string
	for i := 0; i < nUp; i++ {
		dn = append(dn, "SApplied "+coqN(term))
	}
	cs := VCase{Input: in, Key: key, Tags: append(tags, fmt.Sprintf("upgraded=%d/%d", nUp, len(reads))), Nontrivial: len(reads) >= 2 && in.Hold != "idle",
		Coq: fmt.Sprintf("CFirst {| f_term := %s; f_srt0 := %s; f_events := %s; f_sampled := %s; f_reads := %s; f_done := %s; f_srt_after := %s |}",
			coqN(term), coqN(srt0), events, coqN(sampled), coqList(mids), coqList(dn), coqN(srtAfter))}

	// ---- the property
	for i, r := range reads {
		if !r.upgraded && r.pre.Commit < ackedIdx {
			cs.Sig = "C02:first-read-in-term-served-below-acked-write"
			cs.OracleFail = fmt.Sprintf("linearizable read #%d of %d on the new leader (term %d, strongReadTerm before %d, sampled mid-flight %d) was served locally from read index <= %d although entry %d was acknowledged before it began; it returned %d rows, %d were acknowledged",
				i+1, len(reads), term, srt0, sampled, r.pre.Commit, ackedIdx, r.rows, ackedRows)
			break
		}
		if r.rows < ackedRows {
			cs.Sig = "C02:linearizable-read-missed-acked-write:first-read-in-term"
			cs.OracleFail = fmt.Sprintf("linearizable read #%d of %d (upgraded=%v) returned %d rows, %d had been acknowledged before it began", i+1, len(reads), r.upgraded, r.rows, ackedRows)
			break
		}
	}
	if strings.HasPrefix(cs.Sig, "C02:") && in.Hold == "commit-lag" {
		cs.Tags = append(cs.Tags, "stale-read-on-new-leader")
	}
	w.Emit(cs)
}

func c02FirstInputs(round int, thorough bool) []c02FirstIn {
	var out []c02FirstIn
	sits := []string{"after-stepdown", "srt-zero"}
	if thorough {
		sits = append(sits, "srt-previous")
	}
	for _, sit := range sits {
		for _, hold := range []string{"fsm-busy", "idle"} {
			for k := 1; k <= 3; k++ {
				out = append(out, c02FirstIn{Kind: "first", Situation: sit, K: k, Hold: hold, Round: round})
			}
		}
	}
	return out
}
