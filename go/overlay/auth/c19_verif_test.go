package auth

// C19 driver: real JSON loading and real AA against (a) the Coq model (through the emitted
// Gallina cases) and (b) the property's rule written independently below.

import (
	"encoding/json"
	"fmt"
	"math/rand"
	"strings"
	"testing"
)

type c19Entry struct {
	User     string   `json:"u"`
	Pass     string   `json:"p"`
	Perms    []string `json:"perms"`
	OmitPass bool     `json:"omit_pass,omitempty"` // empty value expressed by omitting the JSON field
	OmitPerm bool     `json:"omit_perms,omitempty"`
}

type c19Input struct {
	File []c19Entry `json:"file"`
	// Probe: further passwords to present (near misses of the stored ones; arbitrary bytes).  Cases
	// with probes are judged by the property's rule only: their strings are outside the model's
	// fixed query universe and may hold bytes a Gallina string literal cannot carry.
	Probe []string `json:"probe,omitempty"`
}

var c19Users = []string{"a", "*", ""}
var c19Pass = []string{"", "x", "y"}
var c19PermSets = [][]string{{}, {"p"}, {"all"}, {"p", "all"}}

// query universe; the same list, in the same order, is Model.C19's `queries`
var c19QUsers = []string{"a", "*", "", "b"}
var c19QPass = []string{"x", "y", ""}
var c19QPerms = []string{"p", "q", "all"}

func c19JSON(in c19Input, rng *rand.Rand) string {
	var sb strings.Builder
	sb.WriteString("[")
	for i, e := range in.File {
		if i > 0 {
			sb.WriteString(",")
		}
		parts := []string{}
		u, _ := json.Marshal(e.User)
		parts = append(parts, `"username":`+string(u))
		if !(e.Pass == "" && e.OmitPass) {
			p, _ := json.Marshal(e.Pass)
			parts = append(parts, `"password":`+string(p))
		}
		if !(len(e.Perms) == 0 && e.OmitPerm) {
			p, _ := json.Marshal(e.Perms)
			if e.Perms == nil {
				p = []byte("[]")
			}
			parts = append(parts, `"perms":`+string(p))
		}
		sb.WriteString("{" + strings.Join(parts, ",") + "}")
	}
	sb.WriteString("]")
	return sb.String()
}

// the rule of the property text, computed from the file directly
func c19Spec(in c19Input, u, p, perm string) bool {
	last := func(name string) *c19Entry {
		var r *c19Entry
		for i := range in.File {
			if in.File[i].User == name {
				r = &in.File[i]
			}
		}
		return r
	}
	granted := func(name, pm string) bool {
		e := last(name)
		if e == nil {
			return false
		}
		for _, x := range e.Perms {
			if x == pm {
				return true
			}
		}
		return false
	}
	if granted("*", perm) || granted("*", "all") {
		return true
	}
	if u == "" {
		return false
	}
	e := last(u)
	if e == nil || e.Pass != p {
		return false
	}
	return granted(u, perm) || granted(u, "all")
}

func c19Coq(in c19Input, impl []bool) string {
	ents := make([]string, len(in.File))
	for i, e := range in.File {
		ents[i] = fmt.Sprintf("{| username := %s; password := %s; perms := %s |}", coqStr(e.User), coqStr(e.Pass), coqStrList(e.Perms))
	}
	bs := make([]string, len(impl))
	for i, b := range impl {
		bs[i] = coqBool(b)
	}
	return fmt.Sprintf("{| c_file := %s; c_impl := %s |}", coqList(ents), coqList(bs))
}

func c19Run(w *vWriter, in c19Input, rng *rand.Rand) {
	js := c19JSON(in, rng)
	cs := NewCredentialsStore()
	if err := cs.Load(strings.NewReader(js)); err != nil {
		w.Emit(VCase{Input: in, Key: js, OracleFail: "Load failed on a well-formed file: " + err.Error(), Sig: "C19:load-error"})
		return
	}
	var impl []bool
	fail := ""
	for _, u := range c19QUsers {
		for _, p := range c19QPass {
			for _, perm := range c19QPerms {
				got := cs.AA(u, p, perm)
				impl = append(impl, got)
				if want := c19Spec(in, u, p, perm); got != want && fail == "" {
					fail = fmt.Sprintf("file %s: AA(%q,%q,%q)=%v, documented rule says %v", js, u, p, perm, got, want)
				}
			}
		}
	}
	if len(in.Probe) > 0 {
		for _, e := range in.File {
			for _, p := range in.Probe {
				for _, perm := range c19QPerms {
					got := cs.AA(e.User, p, perm)
					if want := c19Spec(in, e.User, p, perm); got != want && fail == "" {
						fail = fmt.Sprintf("file %s: AA(%q,%q,%q)=%v, documented rule says %v", js, e.User, p, perm, got, want)
					}
				}
			}
		}
		c := VCase{Input: in, Nontrivial: true, Key: js + "|" + vJSON(in.Probe), Tags: []string{"near-miss-passwords"}}
		if fail != "" {
			c.OracleFail = fail
			c.Sig = "C19:decision-differs-from-rule"
		}
		w.Emit(c)
		return
	}
	dup, omit := false, false
	seen := map[string]bool{}
	for _, e := range in.File {
		if seen[e.User] {
			dup = true
		}
		seen[e.User] = true
		if (e.Pass == "" && e.OmitPass) || (len(e.Perms) == 0 && e.OmitPerm) {
			omit = true
		}
	}
	c := VCase{Input: in, Coq: c19Coq(in, impl), Nontrivial: dup || omit, Key: js, Tags: []string{fmt.Sprintf("len=%d", len(in.File))}}
	if dup {
		c.Tags = append(c.Tags, "duplicate-user")
	}
	if omit {
		c.Tags = append(c.Tags, "omitted-field")
	}
	if fail != "" {
		c.OracleFail = fail
		c.Sig = "C19:decision-differs-from-rule"
		if omit {
			c.Sig = "C19:decision-differs-from-rule:omitted-field"
		}
	}
	w.Emit(c)
}

func c19RandPass(rng *rand.Rand) string {
	n := []int{0, 1, 2, 6, 12, 31, 32, 33, 63, 64, 65, 127, 128, 129, 200}[rng.Intn(15)]
	b := make([]byte, n)
	for i := range b {
		switch rng.Intn(8) {
		case 0:
			b[i] = 0
		case 1:
			b[i] = byte(rng.Intn(256))
		case 2:
			b[i] = ' '
		default:
			b[i] = byte('A' + rng.Intn(58))
		}
	}
	s := string(b)
	if rng.Intn(4) == 0 {
		s += "\x00\x00"[:1+rng.Intn(2)]
	}
	return strings.ToValidUTF8(s, "é") // the file is JSON: invalid UTF-8 would not survive encoding
}

func c19NearMisses(pw string, rng *rand.Rand) []string {
	out := []string{pw, pw + "\x00", "\x00" + pw, pw + " ", " " + pw, pw + pw, strings.ToUpper(pw), strings.ToLower(pw), strings.TrimRight(pw, "\x00"), strings.TrimSpace(pw), ""}
	if len(pw) > 0 {
		out = append(out, pw[:len(pw)-1], pw[1:])
		i := rng.Intn(len(pw))
		b := []byte(pw)
		b[i] ^= 1 << uint(rng.Intn(8))
		out = append(out, string(b))
		b = []byte(pw)
		b[len(b)-1] = 0
		out = append(out, string(b))
	}
	return out
}

func c19AllEntries() []c19Entry {
	var es []c19Entry
	for _, u := range c19Users {
		for _, p := range c19Pass {
			for _, ps := range c19PermSets {
				es = append(es, c19Entry{User: u, Pass: p, Perms: append([]string{}, ps...)})
			}
		}
	}
	return es
}

func TestVerif_C19(t *testing.T) {
	w := vOpen()
	defer w.Close()
	rng := vRand()
	if raw := vReplayInput(); raw != nil {
		var in c19Input
		if err := json.Unmarshal(raw, &in); err != nil {
			t.Fatal(err)
		}
		c19Run(w, in, rng)
		return
	}
	all := c19AllEntries()
	omitFlip := func(e c19Entry) c19Entry {
		e.OmitPass = rng.Intn(2) == 0
		e.OmitPerm = rng.Intn(2) == 0
		return e
	}
	// exhaustive: every file of length 0, 1, 2 over the entry universe (omission of empty fields chosen by the PRNG)
	c19Run(w, c19Input{}, rng)
	for _, a := range all {
		c19Run(w, c19Input{File: []c19Entry{omitFlip(a)}}, rng)
	}
	for _, a := range all {
		for _, b := range all {
			c19Run(w, c19Input{File: []c19Entry{omitFlip(a), omitFlip(b)}}, rng)
		}
	}
	// thorough: every file of length 3 as well
	if vTier() == "thorough" {
		for _, a := range all {
			for _, b := range all {
				for _, c := range all {
					c19Run(w, c19Input{File: []c19Entry{omitFlip(a), omitFlip(b), omitFlip(c)}}, rng)
				}
			}
		}
	}
	// near-miss passwords (rule oracle only): stored passwords of arbitrary bytes and lengths, presented
	// exactly and with one small edit each (trailing/leading NUL or space, one byte dropped or changed,
	// case flipped, doubled), so that a comparison that is not exact equality has an input to fail on
	for i, m := 0, vN(150, 3000); i < m; i++ {
		in := c19Input{}
		var probes []string
		for j, l := 0, 1+rng.Intn(3); j < l; j++ {
			pw := c19RandPass(rng)
			in.File = append(in.File, c19Entry{User: fmt.Sprintf("u%d", j), Pass: pw, Perms: []string{[]string{"p", "all", "q"}[rng.Intn(3)]}})
			probes = append(probes, c19NearMisses(pw, rng)...)
		}
		in.Probe = probes
		c19Run(w, in, rng)
	}
	// random longer files
	n := vN(300, 5000)
	for i := 0; i < n; i++ {
		l := 3 + rng.Intn(4)
		var f []c19Entry
		for j := 0; j < l; j++ {
			f = append(f, omitFlip(all[rng.Intn(len(all))]))
		}
		c19Run(w, c19Input{File: f}, rng)
	}
}
