# C38 — configuration read by bin/check (see checks/registry.py)
SPEC = dict(
    title="Linearizable reads complete on a healthy leader without further writes",
    pkg="./store", files=["store/c38_verif_test.go", "store/c02_cluster_verif_test.go"],
    model="Model.C38",
    case_preamble="Open Scope string_scope.\n",
    rule="histories of 6-10 operations drawn from {write, strong read, linearizable read, noop, barrier, join non-voter, join voter, remove, snapshot, snapshot leaving 1 trailing log, stepdown} "
         "on a live in-process cluster growing from 1 to at most 3 nodes (4 hand-picked + random; 12 quick / 300 thorough); after the set-up and after every operation one linearizable read "
         "(Query and Request alternately) goes to the leader with nothing in between; a probe is non-trivial when the entry at the commit index read by it is not a Command entry; distinct by operation prefix; "
         "race family on a single node: a linearizable read started concurrently with the last write (read first / 0-1000 us after the write / at commit / at apply; 320 quick, 6000 thorough) or with its log scan held until the busy FSM has finished the write "
         "(4 / 40), then silence - the read must return within 3 s; non-trivial when the read began with the FSM behind the commit index; at every probe the value fsmTarget has recorded is compared with fsmIdx",
    trusted=["hashicorp/raft: every committed entry is handed to the FSM goroutine in log order, FSM.Apply is called for Command entries only, an entry missing from the log store is covered by a snapshot the FSM produced",
             "the FSM goroutine keeps running (fairness): C38_completes is stated for the state after it has applied the commands already committed",
             "VerifyLeader succeeding and the term staying unchanged are the 'leader that can reach a quorum' premise"],
    assumptions=["the probes give the read a 2 s (histories) / 3 s (races) LinearizableTimeout; the correct code answers in a few ms, the defective one never"],
    level_text="Theorems C38_completes / C38_completes_at_once / C38_completes_after_any_history hold for every log (entries of any kind in any order, compacted or not), every commit index and "
               "FSM position, with no further entry appended; C38_wait_on_commit_index_blocks exhibits the blocking of the wait as it was before the fix. "
               "The model's wait_lin, fed with the FSM position the model itself derives (drained), is the function evaluated on the driver's probes.",
    level_note="Model = leader log zipper (done/todo/rest), fsm_step (fsmApply on Command entries only), waitForLinearizableRead + lastCommandIndex transcribed; tie = live probes after every operation.",
    technique="Coq proof of completion over all logs/histories + live-cluster probes with latency oracle",
    design_ref="6/C38",
    timeout_quick=600, timeout_thorough=7200,
)
