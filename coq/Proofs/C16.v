(* C16 — read consistency levels behave as documented.  The right-hand sides below are
   written from the property text, not from the code. *)
From Coq Require Import List NArith ZArith Bool Lia ZifyBool ZifyNat ZifyN.
From RQ Require Import Model.C02_ReadIndex Model.C16 Proofs.C02_ReadIndex.
Import ListNotations.
Open Scope Z_scope.

(* ---- the documented staleness rule ---- *)

(* "behind": the node was told about appended entries and its FSM is not at the last
   command entry it received *)
Definition behind (o : stale_obs) : Prop := so_appended_zero o = false /\ so_fsm_idx o <> so_cmd_commit o.

Definition stale_rule (leader : bool) (o : stale_obs) (fresh : Z) (strict : bool) : Prop :=
  leader = false /\ fresh <> 0 /\
  (so_since o > fresh \/ (strict = true /\ behind o /\ so_delta o > fresh)).

Theorem is_stale_spec leader o fresh strict :
  store_is_stale leader o fresh strict = true <-> stale_rule leader o fresh strict.
Proof.
  unfold store_is_stale, is_stale, stale_rule, behind.
  destruct leader; [split; [discriminate | intros (H & _); discriminate]|].
  destruct (fresh =? 0) eqn:Ef; [split; [discriminate | intros (_ & H & _); lia]|].
  destruct (so_since o >? fresh) eqn:Es; [split; [intros _; repeat split; lia | reflexivity]|].
  destruct strict; cbn [negb].
  2:{ split; [discriminate | intros (_ & _ & [H | (H & _)]); [lia | discriminate]]. }
  destruct (so_appended_zero o) eqn:Ea.
  { split; [discriminate | intros (_ & _ & [H | (_ & (H & _) & _)]); [lia | discriminate]]. }
  destruct (so_fsm_idx o =? so_cmd_commit o)%N eqn:Ei.
  { split; [discriminate | intros (_ & _ & [H | (_ & (_ & H) & _)]); lia]. }
  split.
  - intros H. repeat split; lia.
  - intros (_ & _ & [H | (_ & _ & H)]); lia.
Qed.

Example ex_stale : store_is_stale false
  {| so_since := 5; so_delta := 11; so_appended_zero := false; so_fsm_idx := 3%N; so_cmd_commit := 4%N |} 10 true = true
  /\ store_is_stale false
  {| so_since := 5; so_delta := 10; so_appended_zero := false; so_fsm_idx := 3%N; so_cmd_commit := 4%N |} 10 true = false.
Proof. vm_compute. auto. Qed.

(* ---- dispatch ---- *)

Definition served (o : outcome) : Prop :=
  match o with Local _ | ViaLog _ _ => True | _ => False end.

Definition set_level (r : req) (l : level) : req :=
  {| r_entry := r_entry r; r_level := l; r_fresh := r_fresh r; r_strict := r_strict r;
     r_nrw := r_nrw r; r_nro := r_nro r |}.

(* the level the documentation gives an `auto` request on this node *)
Definition documented_auto (n : node_obs) : level := if n_voter n then LWeak else LNone.

(* the level the request is documented to run at *)
Definition effective_level (n : node_obs) (r : req) : level :=
  match r_level r with LAuto => documented_auto n | l => l end.

(* "A weak read is served only by a node that believes it is leader" — weak explicitly or
   through auto; either entry point; whatever else is in the request. *)
Theorem weak_only_on_leader n r :
  effective_level n r = LWeak -> served (dispatch n r) -> n_leader n = true.
Proof.
  unfold effective_level, documented_auto, dispatch, query_dispatch, request_dispatch.
  intros Hl Hs.
  assert (E : resolve_auto n (r_level r) = LWeak).
  { unfold resolve_auto. destruct (r_level r); try assumption; try discriminate. }
  clear Hl. destruct (n_leader n); [reflexivity|]. exfalso.
  destruct (r_entry r); rewrite E in Hs; cbn in Hs.
  - exact Hs.
  - destruct (r_nrw r =? 0)%N; cbn in Hs; exact Hs.
Qed.

Example ex_weak :
  let n := {| n_leader := false; n_voter := true; n_ready := true;
              n_stale := {| so_since := 0; so_delta := 0; so_appended_zero := true; so_fsm_idx := 0%N; so_cmd_commit := 0%N |};
              n_lin := ex_obs |} in
  dispatch n {| r_entry := ERequest; r_level := LAuto; r_fresh := 0; r_strict := false; r_nrw := 0%N; r_nro := 1%N |} = ErrNotLeader
  /\ dispatch n {| r_entry := EQuery; r_level := LNone; r_fresh := 0; r_strict := false; r_nrw := 0%N; r_nro := 1%N |} = Local LNone.
Proof. vm_compute. auto. Qed.

(* "auto means weak on voters and none on non-voters": same outcome (including the level
   reported and the strongReadTerm update) as the explicit level, for both entry points *)
Theorem auto_is_documented n r :
  r_level r = LAuto ->
  dispatch n r = dispatch n (set_level r (documented_auto n))
  /\ srt_after n r = srt_after n (set_level r (documented_auto n)).
Proof.
  intros Hl.
  assert (E : dispatch n r = dispatch n (set_level r (documented_auto n))).
  { unfold dispatch, query_dispatch, request_dispatch, set_level, documented_auto, resolve_auto.
    cbn [r_entry r_level r_fresh r_strict r_nrw r_nro]. rewrite Hl.
    destruct (r_entry r), (n_voter n); reflexivity. }
  split; [exact E|]. unfold srt_after. rewrite E. reflexivity.
Qed.

Corollary auto_query n r : r_entry r = EQuery -> r_level r = LAuto ->
  query_dispatch n r = query_dispatch n (set_level r (if n_voter n then LWeak else LNone)).
Proof.
  intros He Hl. destruct (auto_is_documented n r Hl) as [E _].
  unfold dispatch in E. cbn [set_level r_entry] in E. rewrite He in E. exact E.
Qed.

Corollary auto_request n r : r_entry r = ERequest -> r_level r = LAuto ->
  request_dispatch n r = request_dispatch n (set_level r (if n_voter n then LWeak else LNone)).
Proof.
  intros He Hl. destruct (auto_is_documented n r Hl) as [E _].
  unfold dispatch in E. cbn [set_level r_entry] in E. rewrite He in E. exact E.
Qed.

(* "A none read with a freshness bound is refused when ..." : a read at (effective) level none that
   touches no consensus is refused exactly when the documented rule says stale *)
Theorem none_refused_iff_stale n r :
  effective_level n r = LNone -> (r_entry r = ERequest -> r_nrw r = 0%N) ->
  (dispatch n r = ErrStale <-> stale_rule (n_leader n) (n_stale n) (r_fresh r) (r_strict r))
  /\ (dispatch n r <> ErrStale -> dispatch n r = Local LNone).
Proof.
  unfold effective_level, documented_auto. intros Hl Hrw.
  assert (E : resolve_auto n (r_level r) = LNone).
  { unfold resolve_auto. destruct (r_level r); try assumption; try discriminate. }
  rewrite <- is_stale_spec.
  unfold dispatch, query_dispatch, request_dispatch. rewrite E. cbn [lin_step level_eqb andb negb].
  destruct (r_entry r).
  - destruct (store_is_stale _ _ _ _); split; try (split; congruence); congruence.
  - rewrite Hrw by reflexivity. cbn [N.eqb andb].
    destruct (store_is_stale _ _ _ _); split; try (split; congruence); congruence.
Qed.

(* "A linearizable read returns only after the node confirmed leadership with a quorum in an
   unchanged term and applied everything committed when the read started": when a request at level
   linearizable is answered from the local database, the node was leader, VerifyLeader succeeded,
   the term after it is the term read before it, and every Command entry up to the commit index read
   before the verification is applied (<= fsmIdx at the time, or signalled before the wait ended). *)
Definition confirmed_and_caught_up (o : lin_obs) : Prop :=
  lo_leader o = true /\ lo_verify o = VOk /\ lo_term_after o = lo_term o /\ lo_srt o = lo_term o
  /\ forall idx, (lo_fsm_idx o < idx <= lo_commit o)%N ->
       entry_of (lo_fsm_idx o) (lo_kinds o) idx = Some (Some KCommand) ->
       (forall idx', (idx <= idx' <= lo_commit o)%N -> entry_of (lo_fsm_idx o) (lo_kinds o) idx' <> Some None) ->
       (idx <= lo_reached o)%N.

Theorem lin_ok_implies n r l :
  r_level r = LLin -> obs_wf (n_lin n) -> dispatch n r = Local l ->
  l = LLin /\ confirmed_and_caught_up (n_lin n).
Proof.
  intros Hl Hwf Hd.
  assert (W : wait_lin (n_lin n) = LinOk /\ l = LLin).
  { unfold dispatch, query_dispatch, request_dispatch, resolve_auto in Hd. rewrite Hl in Hd.
    cbn [lin_step] in Hd.
    destruct (wait_lin (n_lin n)); cbn [level_eqb andb negb] in Hd;
      destruct (r_entry r); cbn [level_eqb andb negb] in Hd; try discriminate.
    - split; [reflexivity|]. congruence.
    - destruct (r_nrw r =? 0)%N; cbn [andb] in Hd.
      + split; [reflexivity|]. congruence.
      + destruct (n_leader n); cbn [negb] in Hd; [|discriminate].
        destruct (n_ready n); cbn [negb] in Hd; discriminate.
    - destruct (n_leader n); cbn [negb] in Hd; [|discriminate].
      destruct (n_ready n); cbn [negb] in Hd; discriminate.
    - destruct (r_nrw r =? 0)%N; cbn [andb] in Hd;
      destruct (n_leader n); cbn [negb] in Hd; try discriminate;
      destruct (n_ready n); cbn [negb] in Hd; discriminate. }
  destruct W as [W ->]. split; [reflexivity|].
  destruct (wait_lin_ok _ W) as (H1 & H2 & H3 & H4 & H5 & H6).
  unfold confirmed_and_caught_up. repeat split; try assumption; try congruence.
  intros idx Hi He Hv. exact (lin_wait_applied _ idx Hwf H6 Hi He Hv).
Qed.

Example ex_lin :
  let n := {| n_leader := true; n_voter := true; n_ready := true;
              n_stale := {| so_since := 0; so_delta := 0; so_appended_zero := true; so_fsm_idx := 0%N; so_cmd_commit := 0%N |};
              n_lin := ex_obs |} in
  dispatch n {| r_entry := EQuery; r_level := LLin; r_fresh := 0; r_strict := false; r_nrw := 0%N; r_nro := 1%N |} = Local LLin
  /\ obs_wf (n_lin n).
Proof. vm_compute. auto. Qed.
