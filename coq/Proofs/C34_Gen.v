(* C34 — the source-derived methods of CheckAndSet (Gen/Cas.v, from internal/rsync/cas.go), the
   non-blocking methods of MultiRSW (Gen/Mrsw.v, from internal/rsync/multir_singlew.go) and the
   methods of ReadyTarget (Gen/ReadyTarget.v, from internal/rsync/ready_target.go), all regenerated
   on every run, are the corresponding cases of the hand model's cas_step_obs / mrsw_step_obs /
   rt_step.
   Adapters.  The hand model has ghost fields (which thread holds what) the code does not have,
   and no start time; the Go structs have no wait-sets (they live in sync.Cond).  So the lemmas
   compare the fields both sides have — state/owner, resp. owner/numReaders — the returned
   observation (nil = Ok, an error = Conflict, panic = Panic), and the wait-sets after applying
   the cond.Broadcast() calls the translated method reports.
   Premises (Section variables of the generated files): the error constructors of the package
   never return nil; fmt.Sprintf and the clock are arbitrary. *)
From Coq Require Import List String Bool ZArith Lia ZifyBool.
From Coq Require Import NArith ZifyNat ZifyN.
From RQ Require Import Lib.GoLib.
From RQ Require Import Lib.GenTac.
From RQ Require Import Gen.Cas.
From RQ Require Import Gen.Mrsw.
From RQ Require Import Gen.ReadyTarget.
From RQ Require Import Model.C34.
Import ListNotations.
Local Open Scope string_scope.

(* The Section variables of the generated file (the calls that are not translated) are instantiated
   by position below; these lines pin their names, so a change of callee cannot go unnoticed. *)
Arguments CheckAndSet_Begin error_T fmt_Errorf time_Now _ _ : assert.
Arguments MultiRSW_BeginRead error_T NewErrMRSWConflict _ : assert.
Arguments MultiRSW_BeginWrite error_T NewErrMRSWConflict fmt_Sprintf _ _ : assert.
Arguments MultiRSW_UpgradeToWriter error_T NewErrMRSWConflict fmt_Sprintf _ _ : assert.
Arguments ReadyTarget_Subscribe T chan_T T_leb make_chan_T _ _ : assert.
Arguments ReadyTarget_Unsubscribe T chan_T chan_T_eqb _ _ : assert.
Arguments ReadyTarget_Signal T chan_T T_leb _ _ : assert.
Arguments ReadyTarget_Reset T chan_T zero_T _ : assert.

Definition obs_of_err {A : Type} (e : option A) : obs := match e with None => Ok | Some _ => Conflict end.
Definition obs_of_res {A : Type} (r : res (option A)) : obs :=
  match r with Ret e => obs_of_err e | GoLib.Panic _ => C34.Panic end.
Definition obs_of_unit (r : res unit) : obs := match r with Ret _ => Ok | GoLib.Panic _ => C34.Panic end.

(* ------------------------------------------------------------------ CheckAndSet *)
Definition rep_cas (s : cas) (start : Z) : CheckAndSet := mk_CheckAndSet (c_state s) (c_owner s) start.
Definition cas_core (s : cas) : bool * string := (c_state s, c_owner s).
Definition gen_core (g : CheckAndSet) : bool * string := (CheckAndSet_state g, CheckAndSet_owner g).

Ltac unf_cas := aux; cbv beta iota zeta delta [rep_cas cas_core gen_core CheckAndSet_Begin CheckAndSet_End CheckAndSet_Owner
  cas_step_obs obs_of_err set_CheckAndSet_owner set_CheckAndSet_state set_CheckAndSet_startT
  CheckAndSet_state CheckAndSet_owner CheckAndSet_startT c_state c_owner c_holders fst snd] in *.

Section Cas.
  Variable E : Type.
  Variable now : Z.
  Variable errorf : string -> E.

  Lemma gen_cas_Begin_eq : forall s start t o,
    gen_core (fst (CheckAndSet_Begin E errorf now (rep_cas s start) o)) = cas_core (fst (cas_step_obs s (CBegin t o))) /\
    obs_of_err (snd (CheckAndSet_Begin E errorf now (rep_cas s start) o)) = snd (cas_step_obs s (CBegin t o)).
  Proof. intros [st ow hs] start t o; unf_cas; split; gen_cases. Qed.

  Lemma gen_cas_End_eq : forall s start t,
    gen_core (CheckAndSet_End (rep_cas s start)) = cas_core (fst (cas_step_obs s (CEnd t))) /\
    Ok = snd (cas_step_obs s (CEnd t)).
  Proof. intros [st ow hs] start t; unf_cas; split; gen_cases. Qed.

  Lemma gen_cas_Owner_eq : forall s start, CheckAndSet_Owner (rep_cas s start) = c_owner s.
  Proof. intros [st ow hs] start; unf_cas; gen_cases. Qed.
End Cas.

(* ------------------------------------------------------------------ MultiRSW *)
Definition rep_m (s : mrsw) : MultiRSW := mk_MultiRSW (m_owner s) (m_nr s).
Definition m_core (s : mrsw) : string * Z * list (nat * wkind) * list (nat * wkind) :=
  (m_owner s, m_nr s, m_wait s, m_woken s).
(* the model state with the code's fields replaced by g and the reported Broadcasts applied *)
Definition absorb_m (s : mrsw) (g : MultiRSW) (effs : list Mrsw.effect) : mrsw :=
  fold_left (fun s e => match e with E_cond_Broadcast => broadcast s end) effs
    {| m_owner := MultiRSW_owner g; m_nr := MultiRSW_numReaders g; m_wait := m_wait s; m_woken := m_woken s;
       m_rd := m_rd s; m_wr := m_wr s |}.

Ltac unf_m := aux; cbv beta iota zeta delta [rep_m m_core absorb_m obs_of_err obs_of_res obs_of_unit
  MultiRSW_BeginRead MultiRSW_EndRead MultiRSW_BeginWrite MultiRSW_EndWrite MultiRSW_UpgradeToWriter
  set_MultiRSW_owner set_MultiRSW_numReaders MultiRSW_owner MultiRSW_numReaders
  mrsw_step_obs acquire broadcast is_empty m_owner m_nr m_wait m_woken m_rd m_wr fst snd fold_left app] in *.

Section Mrsw.
  Variable E : Type.
  Variable mkerr : string -> option E.
  Variable sprintf : string -> Z -> string.
  Hypothesis mkerr_not_nil : forall m, mkerr m <> None.

  Ltac fin := gen_cases; try (exfalso; eapply mkerr_not_nil; eassumption).

  Lemma gen_BeginRead_eq : forall s t,
    m_core (absorb_m s (fst (MultiRSW_BeginRead E mkerr (rep_m s))) []) = m_core (fst (mrsw_step_obs s (MBeginRead t))) /\
    obs_of_err (snd (MultiRSW_BeginRead E mkerr (rep_m s))) = snd (mrsw_step_obs s (MBeginRead t)).
  Proof. intros [ow nr wt wk rd wr] t; unf_m; split; fin. Qed.

  Lemma gen_EndRead_eq : forall s t,
    let r := MultiRSW_EndRead (rep_m s) in
    m_core (absorb_m s (fst (fst r)) (snd r)) = m_core (fst (mrsw_step_obs s (MEndRead t))) /\
    obs_of_unit (snd (fst r)) = snd (mrsw_step_obs s (MEndRead t)).
  Proof. intros [ow nr wt wk rd wr] t; unf_m; split; fin. Qed.

  Lemma gen_BeginWrite_eq : forall s t o,
    let r := MultiRSW_BeginWrite E mkerr sprintf (rep_m s) o in
    m_core (absorb_m s (fst r) []) = m_core (fst (mrsw_step_obs s (MBeginWrite t o))) /\
    obs_of_res (snd r) = snd (mrsw_step_obs s (MBeginWrite t o)).
  Proof. intros [ow nr wt wk rd wr] t o; unf_m; split; fin. Qed.

  Lemma gen_EndWrite_eq : forall s t,
    let r := MultiRSW_EndWrite (rep_m s) in
    m_core (absorb_m s (fst (fst r)) (snd r)) = m_core (fst (mrsw_step_obs s (MEndWrite t))) /\
    obs_of_unit (snd (fst r)) = snd (mrsw_step_obs s (MEndWrite t)).
  Proof. intros [ow nr wt wk rd wr] t; unf_m; split; fin. Qed.

  Lemma gen_Upgrade_eq : forall s t o,
    let r := MultiRSW_UpgradeToWriter E mkerr sprintf (rep_m s) o in
    m_core (absorb_m s (fst r) []) = m_core (fst (mrsw_step_obs s (MUpgrade t o))) /\
    obs_of_res (snd r) = snd (mrsw_step_obs s (MUpgrade t o)).
  Proof. intros [ow nr wt wk rd wr] t o; unf_m; split; fin. Qed.
End Mrsw.


(* ------------------------------------------------------------------ ReadyTarget *)
(* Adapter.  The model numbers channels in order of creation and keeps a subscription as
   (channel, target); the Go struct keeps *Subscriber{target, ch}.  The type parameter T is N,
   a channel is its number, make(chan) returns the model's next number, and the close() calls a
   translated method reports are the channels the model adds to r_closed. *)
Local Close Scope string_scope.
Definition sub_of (p : nat * N) : Subscriber N nat := mk_Subscriber N nat (snd p) (fst p).
Definition rep_rt (s : rt) : ReadyTarget N nat := mk_ReadyTarget N nat (r_cur s) (map sub_of (r_subs s)).
Definition closes (effs : list (ReadyTarget.effect nat)) : list nat :=
  map (fun e => match e with E_close _ c => c end) effs.

Ltac unf_rt := aux; cbv beta iota zeta delta [rep_rt closes ReadyTarget_Subscribe ReadyTarget_Unsubscribe
  ReadyTarget_Signal ReadyTarget_Reset rt_step set_ReadyTarget_currentTarget set_ReadyTarget_subscribers
  r_cur r_subs r_closed r_next] in *;
  cbn [ReadyTarget_currentTarget ReadyTarget_subscribers] in *.

(* The loops are not restated here: the `fix` of the generated definition is taken from the goal
   (LOOP) and its specification is proved by induction on the slice. *)
Ltac loop_step LOOP := unfold LOOP;
  cbn [map filter remove_sub sub_of fst snd Subscriber_target Subscriber_ch ReadyTarget_currentTarget
       ReadyTarget_subscribers set_ReadyTarget_currentTarget set_ReadyTarget_subscribers];
  fold LOOP.

Lemma gen_rt_Subscribe_eq : forall s tg,
  let r := ReadyTarget_Subscribe N nat N.leb (r_next s) (rep_rt s) tg in
  fst (fst r) = rep_rt (rt_step s (RSub tg)) /\ snd (fst r) = r_next s /\
  (closes (snd r) ++ r_closed s)%list = r_closed (rt_step s (RSub tg)).
Proof.
  intros [cur subs closed next] tg; unf_rt.
  destruct (N.leb tg cur); cbn; rewrite ?map_app; repeat split; reflexivity.
Qed.

(* Unsubscribe: pre = the subscribers already passed, i = their number *)
Lemma gen_rt_Unsubscribe_eq : forall s ch,
  ReadyTarget_Unsubscribe N nat Nat.eqb (rep_rt s) ch = rep_rt (rt_step s (RUnsub ch)).
Proof.
  intros [cur subs closed next] ch; unf_rt.
  lazymatch goal with |- ?lhs = _ => lazymatch lhs with ?F ?a0 ?b0 ?c0 => pose (LOOP := F) end end.
  enough (H : forall l pre,
      LOOP (map sub_of l) (Z.of_nat (List.length pre)) (mk_ReadyTarget N nat cur (map sub_of (pre ++ l)))
      = mk_ReadyTarget N nat cur (map sub_of (pre ++ remove_sub ch l))); [exact (H subs [])|].
  induction l as [|[c tg] l IH]; intros pre; [reflexivity|].
  loop_step LOOP.
  destruct (Nat.eqb c ch); cbn [negb].
  - f_equal. unfold slice_to, slice_from. rewrite !map_app.
    replace (Z.to_nat (Z.of_nat (List.length pre) + 1)) with (S (List.length (map sub_of pre)))
      by (rewrite map_length; lia).
    rewrite Nat2Z.id. rewrite <- (map_length sub_of pre) at 1.
    rewrite firstn_app, firstn_all, Nat.sub_diag, firstn_O, app_nil_r.
    rewrite skipn_app, skipn_all2 by lia.
    replace (S (List.length (map sub_of pre)) - List.length (map sub_of pre))%nat with 1%nat by lia.
    reflexivity.
  - specialize (IH (pre ++ [(c, tg)])). rewrite app_length, Nat2Z.inj_add in IH. cbn [List.length] in IH.
    rewrite <- !app_assoc in IH. exact IH.
Qed.

Lemma gen_rt_Signal_eq : forall s i,
  let r := ReadyTarget_Signal N nat N.leb (rep_rt s) i in
  fst r = rep_rt (rt_step s (RSignal i)) /\
  (closes (snd r) ++ r_closed s)%list = r_closed (rt_step s (RSignal i)).
Proof.
  intros [cur subs closed next] i; unf_rt.
  destruct (N.leb i cur) eqn:E; cbn [fst snd map app]; [split; reflexivity|].
  lazymatch goal with |- context [fst (?F ?l0 ?a0 ?b0)] => pose (LOOP := F); fold LOOP end.
  assert (H : forall l rem effs,
      LOOP (map sub_of l) rem effs
      = (mk_ReadyTarget N nat i (rem ++ map sub_of (filter (fun p => negb (N.leb (snd p) i)) l)),
         effs ++ map (E_close nat) (map fst (filter (fun p => N.leb (snd p) i) l)))).
  { induction l as [|[c tg] l IH]; intros rem effs.
    - cbn. rewrite !app_nil_r. reflexivity.
    - loop_step LOOP.
      destruct (N.leb tg i); cbn [negb]; rewrite IH; cbn [map]; rewrite <- app_assoc; reflexivity. }
  rewrite H. cbn [fst snd app]. split; [reflexivity|].
  unfold closes. rewrite map_map. cbn. rewrite map_id. reflexivity.
Qed.

Lemma gen_rt_Reset_eq : forall s, ReadyTarget_Reset N nat 0%N (rep_rt s) = rep_rt (rt_step s RReset).
Proof. intros [cur subs closed next]; unf_rt; reflexivity. Qed.

(* everything above in one statement (what Props/C34.v states) *)
Lemma gen_rsync_eq : forall (E : Type) (now : Z) (errorf : string -> E)
    (mkerr : string -> option E) (sprintf : string -> Z -> string),
  (forall m, mkerr m <> None) ->
  (forall s start t o,
     gen_core (fst (CheckAndSet_Begin E errorf now (rep_cas s start) o)) = cas_core (fst (cas_step_obs s (CBegin t o))) /\
     obs_of_err (snd (CheckAndSet_Begin E errorf now (rep_cas s start) o)) = snd (cas_step_obs s (CBegin t o))) /\
  (forall s start t,
     gen_core (CheckAndSet_End (rep_cas s start)) = cas_core (fst (cas_step_obs s (CEnd t))) /\
     Ok = snd (cas_step_obs s (CEnd t))) /\
  (forall s start, CheckAndSet_Owner (rep_cas s start) = c_owner s) /\
  (forall s t,
     m_core (absorb_m s (fst (MultiRSW_BeginRead E mkerr (rep_m s))) []) = m_core (fst (mrsw_step_obs s (MBeginRead t))) /\
     obs_of_err (snd (MultiRSW_BeginRead E mkerr (rep_m s))) = snd (mrsw_step_obs s (MBeginRead t))) /\
  (forall s t,
     let r := MultiRSW_EndRead (rep_m s) in
     m_core (absorb_m s (fst (fst r)) (snd r)) = m_core (fst (mrsw_step_obs s (MEndRead t))) /\
     obs_of_unit (snd (fst r)) = snd (mrsw_step_obs s (MEndRead t))) /\
  (forall s t o,
     let r := MultiRSW_BeginWrite E mkerr sprintf (rep_m s) o in
     m_core (absorb_m s (fst r) []) = m_core (fst (mrsw_step_obs s (MBeginWrite t o))) /\
     obs_of_res (snd r) = snd (mrsw_step_obs s (MBeginWrite t o))) /\
  (forall s t,
     let r := MultiRSW_EndWrite (rep_m s) in
     m_core (absorb_m s (fst (fst r)) (snd r)) = m_core (fst (mrsw_step_obs s (MEndWrite t))) /\
     obs_of_unit (snd (fst r)) = snd (mrsw_step_obs s (MEndWrite t))) /\
  (forall s t o,
     let r := MultiRSW_UpgradeToWriter E mkerr sprintf (rep_m s) o in
     m_core (absorb_m s (fst r) []) = m_core (fst (mrsw_step_obs s (MUpgrade t o))) /\
     obs_of_res (snd r) = snd (mrsw_step_obs s (MUpgrade t o))) /\
  (forall s tg,
     let r := ReadyTarget_Subscribe N nat N.leb (r_next s) (rep_rt s) tg in
     fst (fst r) = rep_rt (rt_step s (RSub tg)) /\ snd (fst r) = r_next s /\
     (closes (snd r) ++ r_closed s)%list = r_closed (rt_step s (RSub tg))) /\
  (forall s ch, ReadyTarget_Unsubscribe N nat Nat.eqb (rep_rt s) ch = rep_rt (rt_step s (RUnsub ch))) /\
  (forall s i,
     let r := ReadyTarget_Signal N nat N.leb (rep_rt s) i in
     fst r = rep_rt (rt_step s (RSignal i)) /\
     (closes (snd r) ++ r_closed s)%list = r_closed (rt_step s (RSignal i))) /\
  (forall s, ReadyTarget_Reset N nat 0%N (rep_rt s) = rep_rt (rt_step s RReset)).
Proof.
  intros E now errorf mkerr sprintf H.
  exact (conj (gen_cas_Begin_eq E now errorf) (conj gen_cas_End_eq (conj gen_cas_Owner_eq
        (conj (gen_BeginRead_eq E mkerr H) (conj gen_EndRead_eq (conj (gen_BeginWrite_eq E mkerr sprintf H)
        (conj gen_EndWrite_eq (conj (gen_Upgrade_eq E mkerr sprintf H)
        (conj gen_rt_Subscribe_eq (conj gen_rt_Unsubscribe_eq (conj gen_rt_Signal_eq gen_rt_Reset_eq))))))))))).
Qed.
