package store

// Helpers shared by the C33 and C01 drivers: a small parent/child database whose statements SQLite accepts or
// rejects depending on foreign-key enforcement, stores with short raft timeouts, logical dumps, and reading a
// closed node's raft log and snapshot store.

import (
	"context"
	"encoding/json"
	"fmt"
	"io"
	"net"
	"os"
	"path/filepath"
	"sort"
	"strings"
	"time"

	"github.com/hashicorp/raft"
	"github.com/rqlite/rqlite/v10/command"
	"github.com/rqlite/rqlite/v10/command/proto"
	sql "github.com/rqlite/rqlite/v10/db"
	rlog "github.com/rqlite/rqlite/v10/store/log"
	"github.com/rqlite/rqlite/v10/snapshot"
)

type vfStmt struct {
	K   string `json:"k"` // insp insc delp delc updc
	ID  int64  `json:"id"`
	PID int64  `json:"pid,omitempty"`
}

type vfDB struct {
	P []int64    `json:"p"`
	C [][2]int64 `json:"c"`
}

// one step of a history: a command that goes through the log, or a snapshot
type vfStep struct {
	Kind  string   `json:"kind"` // schema req load badload snap
	Bad   string   `json:"bad,omitempty"` // badload: truncated | header-garbage | page-garbage | not-sqlite
	Tx    bool     `json:"tx,omitempty"`
	Stmts []vfStmt `json:"stmts,omitempty"`
	Load  *vfDB    `json:"load,omitempty"`
	Trail uint64   `json:"trail,omitempty"` // snap: trailing logs to keep (0 = default, nothing truncated)
}

var vfSchema = []string{
	`CREATE TABLE p (id INTEGER PRIMARY KEY, v TEXT)`,
	`CREATE TABLE c (id INTEGER PRIMARY KEY, pid INTEGER REFERENCES p(id), v TEXT)`,
}

func (s vfStmt) SQL() string {
	switch s.K {
	case "insp":
		return fmt.Sprintf("INSERT INTO p(id, v) VALUES (%d, 'p%d')", s.ID, s.ID)
	case "insc":
		return fmt.Sprintf("INSERT INTO c(id, pid, v) VALUES (%d, %d, 'c%d')", s.ID, s.PID, s.ID)
	case "delp":
		return fmt.Sprintf("DELETE FROM p WHERE id = %d", s.ID)
	case "delc":
		return fmt.Sprintf("DELETE FROM c WHERE id = %d", s.ID)
	case "updc":
		return fmt.Sprintf("UPDATE c SET pid = %d WHERE id = %d", s.PID, s.ID)
	}
	panic("bad stmt " + s.K)
}

func (s vfStmt) coq() string {
	switch s.K {
	case "insp":
		return fmt.Sprintf("SInsP %d", s.ID)
	case "insc":
		return fmt.Sprintf("SInsC %d %d", s.ID, s.PID)
	case "delp":
		return fmt.Sprintf("SDelP %d", s.ID)
	case "delc":
		return fmt.Sprintf("SDelC %d", s.ID)
	case "updc":
		return fmt.Sprintf("SUpdC %d %d", s.ID, s.PID)
	}
	panic("bad stmt " + s.K)
}

func (d vfDB) coq() string {
	ps := make([]string, len(d.P))
	for i, x := range d.P {
		ps[i] = fmt.Sprint(x)
	}
	cs := make([]string, len(d.C))
	for i, x := range d.C {
		cs[i] = fmt.Sprintf("(%d, %d)", x[0], x[1])
	}
	return fmt.Sprintf("{| parents := %s; children := %s |}", coqList(ps), coqList(cs))
}

func (d vfDB) String() string { return fmt.Sprintf("p=%v c=%v", d.P, d.C) }
func (d vfDB) equal(o vfDB) bool {
	return fmt.Sprint(d.P) == fmt.Sprint(o.P) && fmt.Sprint(d.C) == fmt.Sprint(o.C)
}

func (st vfStep) coqCmd() string {
	switch st.Kind {
	case "schema":
		return "CSchema"
	case "req":
		it := make([]string, len(st.Stmts))
		for i, s := range st.Stmts {
			it[i] = s.coq()
		}
		return fmt.Sprintf("CReq %s %s", coqBool(st.Tx), coqList(it))
	case "load":
		return "CLoad " + st.Load.coq()
	case "badload":
		return "CLoadRejected"
	}
	panic("not a command: " + st.Kind)
}

func (st vfStep) sqls() []string {
	if st.Kind == "schema" {
		return vfSchema
	}
	out := make([]string, len(st.Stmts))
	for i, s := range st.Stmts {
		out[i] = s.SQL()
	}
	return out
}

// vfEntries renders the history as the model's entry list: index 1..last, ECmd where a command of ours sits
func vfEntries(cmds map[uint64]vfStep, from, last uint64) string {
	var it []string
	for i := from; i <= last; i++ {
		if c, ok := cmds[i]; ok {
			it = append(it, "ECmd ("+c.coqCmd()+")")
		} else {
			it = append(it, "EOther")
		}
	}
	return coqList(it)
}

// ---- stores

// vfNewClusterStore: raft's default timeouts (a leader must not lose its lease on a loaded machine)
func vfNewClusterStore(id, dir string, fk bool, ln net.Listener) *Store {
	s := vfNewStore(id, dir, fk, ln)
	s.HeartbeatTimeout, s.ElectionTimeout, s.LeaderLeaseTimeout = 0, 0, 0
	return s
}

func vfNewStore(id, dir string, fk bool, ln net.Listener) *Store {
	cfg := NewDBConfig()
	cfg.FKConstraints = fk
	var ly Layer
	if ln != nil {
		ly = &mockLayer{ln}
	} else {
		ly = mustMockLayer("localhost:0")
	}
	s := New(&Config{DBConf: cfg, Dir: dir, ID: id}, ly)
	if s == nil {
		panic("store.New failed")
	}
	s.HeartbeatTimeout = 150 * time.Millisecond
	s.ElectionTimeout = 150 * time.Millisecond
	s.LeaderLeaseTimeout = 100 * time.Millisecond
	s.CommitTimeout = 5 * time.Millisecond
	s.RaftLogLevel = "ERROR"
	return s
}

func vfExec(s *Store, st vfStep) (uint64, error) {
	switch st.Kind {
	case "schema", "req":
		_, idx, err := s.Execute(context.Background(), executeRequestFromStrings(st.sqls(), false, st.Tx))
		return idx, err
	case "badload":
		// data that is committed to the log and refused by every node when it is applied
		b, err := vfBadLoadBytes(st.Bad)
		if err != nil {
			return 0, err
		}
		if err := s.Load(context.Background(), &proto.LoadRequest{Data: b}); err == nil {
			return 0, fmt.Errorf("load of %s data was accepted", st.Bad)
		} else if !strings.Contains(err.Error(), "invalid SQLite data") {
			return 0, fmt.Errorf("load of %s data: %w", st.Bad, err)
		}
		return s.raft.LastIndex(), nil
	case "load":
		b, err := vfSQLiteBytes(*st.Load)
		if err != nil {
			return 0, err
		}
		if err := s.Load(context.Background(), &proto.LoadRequest{Data: b}); err != nil {
			return 0, err
		}
		return s.raft.LastIndex(), nil
	}
	return 0, fmt.Errorf("not a command: %s", st.Kind)
}

func vfQuery(s *Store, q string) ([]*proto.QueryRows, error) {
	qr := queryRequestFromString(q, false, false, false)
	qr.Level = proto.ConsistencyLevel_NONE
	r, _, _, err := s.Query(context.Background(), qr)
	return r, err
}

// vfDump is the logical dump: both tables in primary-key order; a missing table dumps as empty
func vfDump(s *Store) (vfDB, error) {
	var d vfDB
	r, err := vfQuery(s, "SELECT id FROM p ORDER BY id")
	if err != nil {
		return d, err
	}
	if r[0].Error == "" {
		for _, v := range r[0].Values {
			d.P = append(d.P, v.Parameters[0].GetI())
		}
	} else if !strings.Contains(r[0].Error, "no such table") {
		return d, fmt.Errorf("dump p: %s", r[0].Error)
	}
	r, err = vfQuery(s, "SELECT id, pid FROM c ORDER BY id")
	if err != nil {
		return d, err
	}
	if r[0].Error == "" {
		for _, v := range r[0].Values {
			d.C = append(d.C, [2]int64{v.Parameters[0].GetI(), v.Parameters[1].GetI()})
		}
	} else if !strings.Contains(r[0].Error, "no such table") {
		return d, fmt.Errorf("dump c: %s", r[0].Error)
	}
	return d, nil
}

func vfDumpFile(path string) (vfDB, error) {
	var d vfDB
	h, err := sql.Open(path, false, false)
	if err != nil {
		return d, err
	}
	defer h.Close()
	r, err := h.QueryStringStmt("SELECT id FROM p ORDER BY id")
	if err != nil {
		return d, err
	}
	if r[0].Error == "" {
		for _, v := range r[0].Values {
			d.P = append(d.P, v.Parameters[0].GetI())
		}
	}
	r, err = h.QueryStringStmt("SELECT id, pid FROM c ORDER BY id")
	if err != nil {
		return d, err
	}
	if r[0].Error == "" {
		for _, v := range r[0].Values {
			d.C = append(d.C, [2]int64{v.Parameters[0].GetI(), v.Parameters[1].GetI()})
		}
	}
	return d, nil
}

// vfSQLiteBytes builds a SQLite file holding d (for Load)
func vfSQLiteBytes(d vfDB) ([]byte, error) {
	dir, err := os.MkdirTemp("", "vf-load-")
	if err != nil {
		return nil, err
	}
	defer os.RemoveAll(dir)
	path := filepath.Join(dir, "load.db")
	h, err := sql.Open(path, false, false)
	if err != nil {
		return nil, err
	}
	stmts := append([]string{}, vfSchema...)
	for _, p := range d.P {
		stmts = append(stmts, vfStmt{K: "insp", ID: p}.SQL())
	}
	for _, c := range d.C {
		stmts = append(stmts, vfStmt{K: "insc", ID: c[0], PID: c[1]}.SQL())
	}
	for _, q := range stmts {
		r, err := h.ExecuteStringStmt(q)
		if err != nil || r[0].GetError() != "" {
			h.Close()
			return nil, fmt.Errorf("build load file: %s: %v %v", q, err, r)
		}
	}
	if err := h.Close(); err != nil {
		return nil, err
	}
	return os.ReadFile(path)
}

var vfBadKinds = []string{"truncated", "header-garbage", "page-garbage", "not-sqlite"}

// vfBadLoadBytes: data Store.Load commits to the log but no node accepts
func vfBadLoadBytes(kind string) ([]byte, error) {
	good, err := vfSQLiteBytes(vfDB{P: []int64{1, 2, 3}, C: [][2]int64{{1, 1}, {2, 2}}})
	if err != nil {
		return nil, err
	}
	b := append([]byte{}, good...)
	switch kind {
	case "truncated":
		return b[:len(b)/2], nil
	case "header-garbage":
		for i := 100; i < len(b); i++ {
			b[i] = byte(i*7 + 3)
		}
	case "page-garbage":
		for i := 4096; i < len(b); i++ {
			b[i] = byte(i*13 + 5)
		}
	case "not-sqlite":
		return []byte("this is not a database at all, just some text that was uploaded by mistake"), nil
	default:
		return nil, fmt.Errorf("bad load kind %q", kind)
	}
	return b, nil
}

type vfServer struct {
	ID       string `json:"id"`
	Address  string `json:"address"`
	NonVoter bool   `json:"non_voter"`
}

func vfConfig(s *Store) ([]vfServer, error) {
	f := s.raft.GetConfiguration()
	if err := f.Error(); err != nil {
		return nil, err
	}
	var out []vfServer
	for _, sv := range f.Configuration().Servers {
		out = append(out, vfServer{ID: string(sv.ID), Address: string(sv.Address), NonVoter: sv.Suffrage != raft.Voter})
	}
	return out, nil
}

func vfServersCoq(l []vfServer) string {
	it := make([]string, len(l))
	for i, s := range l {
		it[i] = fmt.Sprintf("{| sv_id := %s; sv_addr := %s; sv_voter := %s |}", coqStr(s.ID), coqStr(s.Address), coqBool(!s.NonVoter))
	}
	return coqList(it)
}

// ---- a closed node's directory

type vfDiskEntry struct {
	Index uint64
	Cmd   bool     // raft.LogCommand
	Type  string   // command type
	SQL   []string // statements of an execute request
	Load  []byte
}

type vfDisk struct {
	First, Last uint64 // 0,0: empty log
	Entries     []vfDiskEntry
	SnapIndex   uint64 // 0: no snapshot
	SnapDB      vfDB
	NSnaps      int
}

func vfReadDisk(dir string) (d vfDisk, err error) {
	lg, err := rlog.New(filepath.Join(dir, "raft.db"), false)
	if err != nil {
		return d, fmt.Errorf("open raft log: %w", err)
	}
	defer lg.Close()
	if d.First, err = lg.FirstIndex(); err != nil {
		return d, err
	}
	if d.Last, err = lg.LastIndex(); err != nil {
		return d, err
	}
	for i := d.First; i <= d.Last && d.First != 0; i++ {
		var l raft.Log
		if err := lg.GetLog(i, &l); err != nil {
			return d, fmt.Errorf("GetLog %d: %w", i, err)
		}
		e := vfDiskEntry{Index: l.Index, Cmd: l.Type == raft.LogCommand}
		if e.Cmd {
			var c proto.Command
			if err := command.Unmarshal(l.Data, &c); err != nil {
				return d, err
			}
			e.Type = c.Type.String()
			switch c.Type {
			case proto.Command_COMMAND_TYPE_EXECUTE:
				var er proto.ExecuteRequest
				if err := command.UnmarshalSubCommand(&c, &er); err != nil {
					return d, err
				}
				for _, st := range er.Request.Statements {
					e.SQL = append(e.SQL, st.Sql)
				}
			case proto.Command_COMMAND_TYPE_LOAD:
				var lr proto.LoadRequest
				if err := command.UnmarshalLoadRequest(c.SubCommand, &lr); err != nil {
					return d, err
				}
				e.Load = lr.Data
			}
		}
		d.Entries = append(d.Entries, e)
	}
	ss, err := snapshot.NewStore(filepath.Join(dir, snapshotsDirName))
	if err != nil {
		return d, fmt.Errorf("open snapshot store: %w", err)
	}
	defer ss.Close()
	metas, err := ss.List()
	if err != nil {
		return d, err
	}
	d.NSnaps = len(metas)
	if len(metas) > 0 {
		d.SnapIndex = metas[0].Index
		_, rc, err := ss.Open(metas[0].ID)
		if err != nil {
			return d, err
		}
		tmp, err := os.MkdirTemp("", "vf-snap-")
		if err != nil {
			rc.Close()
			return d, err
		}
		defer os.RemoveAll(tmp)
		p := filepath.Join(tmp, "snap.db")
		_, err = snapshot.Restore(rc, p)
		rc.Close()
		if err != nil {
			return d, fmt.Errorf("restore newest snapshot: %w", err)
		}
		if d.SnapDB, err = vfDumpFile(p); err != nil {
			return d, err
		}
	}
	return d, nil
}

// the node as the model sees it
func (d vfDisk) coqNode(fk bool, cmds map[uint64]vfStep, conf []vfServer) string {
	snap := "None"
	if d.SnapIndex > 0 {
		snap = fmt.Sprintf("(Some (%d%%nat, %s))", d.SnapIndex, d.SnapDB.coq())
	}
	first, log := d.First, "[]"
	if d.First == 0 { // empty log
		first = d.SnapIndex + 1
	} else {
		log = vfEntries(cmds, d.First, d.Last)
	}
	return fmt.Sprintf("{| n_fk := %s; n_snap := %s; n_first := %d%%nat; n_log := %s; n_conf := %s |}", coqBool(fk), snap, first, log, vfServersCoq(conf))
}

// vfCheckLog: what is in the log is what the driver recorded at those indexes
func (d vfDisk) checkLog(cmds map[uint64]vfStep) error {
	for _, e := range d.Entries {
		c, ok := cmds[e.Index]
		if ok != e.Cmd {
			if e.Cmd && e.Type == "COMMAND_TYPE_NOOP" && !ok {
				continue
			}
			return fmt.Errorf("index %d: command in log %v (%s), recorded %v", e.Index, e.Cmd, e.Type, ok)
		}
		if !ok {
			continue
		}
		if c.Kind == "load" || c.Kind == "badload" {
			if len(e.Load) == 0 {
				return fmt.Errorf("index %d: expected a load", e.Index)
			}
			continue
		}
		if fmt.Sprint(e.SQL) != fmt.Sprint(c.sqls()) {
			return fmt.Errorf("index %d: log has %v, recorded %v", e.Index, e.SQL, c.sqls())
		}
	}
	return nil
}

func vfPeersJSON(l []vfServer) string {
	b, _ := json.Marshal(l)
	return string(b)
}

func vfSortedCopy(l []vfServer) []vfServer {
	o := append([]vfServer{}, l...)
	sort.Slice(o, func(i, j int) bool { return o[i].ID < o[j].ID })
	return o
}

var _ = io.EOF
