(* C01 — the apply paths of a node as functions of a committed log and a snapshot point, and the
   evaluation environment (clock, random generator) as an explicit input of applying a statement.
   The log entries are the statements Model.C14's `processed` replicates.
   Executable definitions only; proofs are in Proofs/C01.v.

   SQLite is outside the model.  What is assumed about it (Section variable + the shape of `exec`):
   applying a statement to a database is a function of the database and of the statement in which every
   call that reads the clock or the random generator has been replaced by the value drawn for it
   (`inst`) — "those calls are the only constructors that read the environment". *)
From Coq Require Import List String Bool NArith.
From RQ Require Export Lib.C33_Log Model.C14.
Import ListNotations.
Open Scope string_scope.

(* ------------------------------------------------------------------ which calls read the environment *)

(* the arguments of a call that names the current time (SQLite, Date And Time Functions), see Proofs.C14.names_now *)
Definition tv_now (e : node) : bool :=
  match e with
  | Leaf KStr s => eq_ci s "now" || eq_ci s "subsec" || eq_ci s "subsecond"
  | Leaf KIdent s => eq_ci s "now"
  | _ => false
  end.

(* random(), randomblob(n), and the date/time functions at 'now' — wherever they stand (also inside ORDER BY) *)
Definition reads_env (name : string) (args : list node) : bool :=
  (eq_ci name "random" && match args with [] => true | _ => false end)
  || (eq_ci name "randomblob" && match args with [Leaf KNum s] => atoi_ok s | _ => false end)
  || (is_time5 name && match args with [] => true | a :: _ => tv_now a end)
  || (eq_ci name "strftime" && match args with [] => false | [_] => true | _ :: a :: _ => tv_now a end)
  || (eq_ci name "timediff" && match args with [a; b] => tv_now a || tv_now b | _ => false end).

(* the environment of one application of one log entry: what the clock and the generator return for the
   call at a given position (path from the root) of the statement *)
Definition env := list nat -> string -> string.

(* the statement as SQLite evaluates it under an environment: each environment-reading call is its value *)
Fixpoint inst (e : env) (path : list nat) (t : node) : node :=
  let kids := fix kids (i : nat) (l : list node) : list node :=
    match l with [] => [] | x :: r => inst e (path ++ [i])%list x :: kids (S i) r end in
  match t with
  | Leaf _ _ => t
  | Ord tag cs => Ord tag (kids O cs)
  | Ret cs => Ret (kids O cs)
  | Nd tag cs => Nd tag (kids O cs)
  | Call name fl args extra =>
    if reads_env name args then Leaf KTok (e path name)
    else Call name fl (kids O args) (kids (List.length args) extra)
  end.

Section Apply.
  Variable db : Type.
  Variable sem : db -> node -> db.          (* SQLite on an environment-free statement *)

  (* CommandProcessor.Process for one statement under an environment *)
  Definition exec (e : env) (d : db) (t : node) : db := sem d (inst e [] t).

  (* a node applies entry number i of the log (1-based) under the environment envs i *)
  Fixpoint apply_from (envs : nat -> env) (i : nat) (l : list node) (d : db) : db :=
    match l with [] => d | t :: r => apply_from envs (S i) r (exec (envs i) d t) end.

  Variable init : db.
  (* snapshots: C04/C10 — what is restored is what was snapshotted *)
  Variable image : Type.
  Variable snapshot : db -> image.
  Variable restore : image -> db.

  (* live: every entry applied as it commits *)
  Definition live (envs : nat -> env) (l : list node) : db := apply_from envs 1 l init.
  (* restart, database file reused (clean snapshot at k): entries after k are applied again, later *)
  Definition restart_fast (k : nat) (envs envs' : nat -> env) (l : list node) : db :=
    apply_from envs' (S k) (skipn k l) (apply_from envs 1 (firstn k l) init).
  (* restart, database restored from the snapshot at k, then the later entries *)
  Definition restart_slow (k : nat) (envs envs' : nat -> env) (l : list node) : db :=
    apply_from envs' (S k) (skipn k l) (restore (snapshot (apply_from envs 1 (firstn k l) init))).
  (* peers.json recovery: snapshot at k restored into a scratch database, later entries replayed there,
     the result snapshotted at the last index; the node then restores that *)
  Definition recovered (k : nat) (envs envs' : nat -> env) (l : list node) : db :=
    restore (snapshot (apply_from envs' (S k) (skipn k l) (restore (snapshot (apply_from envs 1 (firstn k l) init))))).
  (* a node joining late: it is sent the leader's snapshot at k, then the later entries *)
  Definition installed (k : nat) (envs envs' : nat -> env) (l : list node) : db :=
    apply_from envs' (S k) (skipn k l) (restore (snapshot (apply_from envs 1 (firstn k l) init))).
End Apply.

(* ------------------------------------------------------------------ the committed log of a program *)

(* a program: the statements as sent, with the parser's trees *)
Definition program := list (string * node).
Definition full_cfg := {| rwrand := true; rwtime := true |}.
Definition committed (p : program) : list node :=
  map (fun st => replicated (processed full_cfg (fst st) (Some (snd st))) (snd st)) p.

(* no call that reads the environment is left (ORDER BY included) *)
Fixpoint env_free (t : node) : bool :=
  match t with
  | Leaf _ _ => true
  | Ord _ cs | Ret cs | Nd _ cs => forallb env_free cs
  | Call name _ args extra => negb (reads_env name args) && forallb env_free args && forallb env_free extra
  end.

(* excluded by design: random()/randomblob() inside ORDER BY *)
Fixpoint has_rand (t : node) : bool :=
  match t with
  | Leaf _ _ => false
  | Ord _ cs | Ret cs | Nd _ cs => existsb has_rand cs
  | Call name _ args extra => is_random name || is_randomblob name || existsb has_rand args || existsb has_rand extra
  end.
Fixpoint ord_clean (t : node) : bool :=
  match t with
  | Leaf _ _ => true
  | Ord _ cs => negb (existsb has_rand cs) && forallb ord_clean cs
  | Ret cs | Nd _ cs => forallb ord_clean cs
  | Call _ _ args extra => forallb ord_clean args && forallb ord_clean extra
  end.

(* ------------------------------------------------------------------ correspondence *)

Record stmt_case := {
  s_text : string;                (* as sent to the leader *)
  s_tree : option node;           (* real parser on s_text *)
  s_logged : option node;         (* real parser on the statement found in the leader's raft log *)
  s_same : bool                   (* the logged text is byte-identical to the sent text *)
}.

(* the statement in the log is the one the model replicates; the premises of C01_converge hold for it *)
Definition stmt_ok (s : stmt_case) : bool :=
  match s_tree s, s_logged s with
  | Some t, Some o =>
    scan_sound (s_text s) t && ord_clean t
    && env_free (replicated (processed full_cfg (s_text s) (Some t)) t)
    && match match_node (replicated (processed full_cfg (s_text s) (Some t)) t) o with
       | Some jds => all_same jds
       | None => false
       end
  (* a statement the parser does not accept (CREATE TEMP TABLE ...) is replicated as it stands; the driver only sends
     such statements without environment-reading calls *)
  | None, None => s_same s
  | _, _ => false
  end.

Fixpoint all_same_str (l : list string) : bool :=
  match l with a :: ((b :: _) as r) => String.eqb a b && all_same_str r | _ => true end.

Record case := {
  c_prog : list stmt_case;
  c_dumps : list string           (* digest of the logical dump of every node / apply path *)
}.

(* the model predicts: if every statement is within the property's quantifier, all paths hold the same data *)
Definition check_case (c : case) : bool :=
  if forallb stmt_ok (c_prog c) then all_same_str (c_dumps c) else false.
