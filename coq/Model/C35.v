(* C35 — model of what one connection to the inter-node port does with the bytes it receives:
   tcp/mux.go handleConn (first byte selects the listener) and cluster/service.go handleConn
   (8-byte little-endian length, payload read through a growing buffer, protobuf Unmarshal,
   dispatch to the handler of the command type).  The handlers are Model.C18's terms.
   Executable definitions only; proofs are in Proofs/C35.v.

   protobuf's Unmarshal is third-party code: it enters as the parameter [decode]; for a driver
   case it is the finite table of what the real Unmarshal returned on the payloads of the case. *)
From Coq Require Import List String Bool NArith ZArith Arith.
From RQ Require Import Lib.AList Model.C19 Model.C18.
Import ListNotations.
Open Scope N_scope.

(* what the service reads out of a decoded proto.Command *)
Record command := {
  cm_type : Z;         (* Command.Type as decoded: ANY int32 the peer chose (the varint is truncated), negative included *)
  cm_nil : bool;       (* the oneof does not hold the request kind this type reads (Get...Request() == nil) *)
  cm_voter : bool;     (* JoinRequest.Voter *)
  cm_user : string; cm_pass : string  (* Credentials.GetUsername/GetPassword: "" when absent *)
}.

(* The switch on c.Type in handleConn: the 14 values of the proto enum have a case (and a term of
   Model.C18); every other integer — negative, past the enum, huge — falls through the switch:
   nothing is called, nothing is written, the loop goes on.  A TOTAL function of the integer. *)
Definition type_name (t : Z) : string :=
  match t with
  | 0 => "COMMAND_TYPE_UNKNOWN" | 1 => "COMMAND_TYPE_GET_NODE_META" | 2 => "COMMAND_TYPE_EXECUTE"
  | 3 => "COMMAND_TYPE_QUERY" | 4 => "COMMAND_TYPE_BACKUP" | 5 => "COMMAND_TYPE_LOAD"
  | 6 => "COMMAND_TYPE_REMOVE_NODE" | 7 => "COMMAND_TYPE_NOTIFY" | 8 => "COMMAND_TYPE_JOIN"
  | 9 => "COMMAND_TYPE_REQUEST" | 10 => "COMMAND_TYPE_LOAD_CHUNK" | 11 => "COMMAND_TYPE_BACKUP_STREAM"
  | 12 => "COMMAND_TYPE_STEPDOWN" | 13 => "COMMAND_TYPE_HIGHWATER_MARK_UPDATE"
  | _ => "unknown-type"
  end%Z.

Definition mux_cluster_header : N := 2.           (* cluster.MuxClusterHeader *)
Definition max_command_size : N := 2147483647.     (* maxCommandSize = math.MaxInt32 *)
Definition header_size : nat := 8.                 (* protoBufferLengthSize *)

(* binary.LittleEndian.Uint64 *)
Fixpoint le64 (b : list N) : N :=
  match b with [] => 0 | x :: r => x + 256 * le64 r end.

(* bytes.Buffer filled by io.CopyN: its capacity never exceeds twice the bytes received plus one
   minimal read (bytes.MinRead = 512) — an upper bound of what the real buffer holds *)
Definition buf_cap (received : N) : N := 2 * received + 512.

Inductive ending :=
| EClosed      (* the handler returned and closed the connection (EOF, bad length, bad protobuf) *)
| ECrash       (* the process would have died: nil dereference *)
| ENoTerm      (* model artefact: no term for the type's name — proved unreachable *)
| EFuel.       (* model artefact: recursion budget exhausted — proved unreachable *)

Record result := {
  r_calls : list (string * command);  (* every call into store / manager, with the command that caused it *)
  r_out : list out;                   (* everything written to the connection, in order *)
  r_alloc : N;                        (* largest read buffer held at any time (header + payload buffer) *)
  r_end : ending
}.

Definition res0 := {| r_calls := []; r_out := []; r_alloc := 0; r_end := EClosed |}.
Definition bump (r : result) (n : N) : result :=
  {| r_calls := r_calls r; r_out := r_out r; r_alloc := N.max (r_alloc r) n; r_end := r_end r |}.
Definition finish (r : result) (e : ending) : result :=
  {| r_calls := r_calls r; r_out := r_out r; r_alloc := r_alloc r; r_end := e |}.
Definition absorb (r : result) (c : command) (h : hstate) : result :=
  {| r_calls := r_calls r ++ map (fun n => (n, c)) (s_calls h);
     r_out := r_out r ++ s_out h; r_alloc := r_alloc r; r_end := r_end r |}.

Section Serve.
  Variable decode : list N -> option command.   (* pb.Unmarshal + the getters *)
  Variable st : option cstore.                   (* the configured credential store, if any *)

  Definition handle (c : command) : option hstate :=
    match term_of (type_name (cm_type c)) with
    | None => None
    | Some h => Some (run (holds (authz st (cm_user c) (cm_pass c)) (cm_voter c)) (cm_nil c) true h)
    end.

  (* the for-loop of cluster.Service.handleConn over the bytes still to come *)
  Fixpoint serve (fuel : nat) (input : list N) (r : result) : result :=
    match fuel with
    | O => finish r EFuel
    | S fuel' =>
      if Nat.ltb (List.length input) header_size then finish r EClosed        (* io.ReadFull(conn, b) fails *)
      else
        let r := bump r 8 in
        let sz := le64 (firstn header_size input) in
        let rest := skipn header_size input in
        if max_command_size <? sz then finish r EClosed                   (* length no Command can have *)
        else if N.of_nat (List.length rest) <? sz
        then finish (bump r (8 + buf_cap (N.of_nat (List.length rest)))) EClosed  (* io.CopyN hits EOF *)
        else
          let r := bump r (8 + buf_cap sz) in
          let n := N.to_nat sz in
          match decode (firstn n rest) with
          | None => finish r EClosed                                      (* Unmarshal error: conn.Close *)
          | Some c =>
            match handle c with
            | None => finish r ENoTerm
            | Some h =>
              if s_crash h then finish (absorb r c h) ECrash
              else serve fuel' (skipn n rest) (absorb r c h)
            end
          end
    end.

  (* tcp.Mux.handleConn, with only the cluster listener registered *)
  Definition mux_serve (input : list N) : result :=
    match input with
    | [] => res0                                   (* no header byte: closed *)
    | hd :: rest =>
      if hd =? mux_cluster_header then serve (S (List.length rest)) rest res0
      else res0                                    (* no handler for this byte: closed *)
    end.
End Serve.

(* ---- correspondence ---- *)

Definition bytes_eqb (a b : list N) : bool := list_eqb N.eqb a b.

Fixpoint table_decode (t : list (list N * option command)) (p : list N) : option command :=
  match t with
  | [] => None
  | (q, c) :: r => if bytes_eqb q p then c else table_decode r p
  end.

(* One connection: the credentials file of the service, every byte the client sent (mux header
   included), what the real protobuf decoder said about each complete payload, and what the real
   service was observed to do: calls (name only), wire items, and whether the process was still
   alive and answering a fresh request afterwards. *)
Record case := {
  c_file : option (list cred);
  c_input : list N;
  c_decode : list (list N * option command);
  c_calls : list string;
  c_out : list out;
  c_alive : bool
}.

Definition model_result (c : case) : result :=
  mux_serve (table_decode (c_decode c)) (option_map load (c_file c)) (c_input c).

(* The high-water-mark update is observed on the channel the service sends it to, after the
   connection is over: its position among the other calls is not observable, its count is. *)
Definition is_hwm (c : string) : bool := String.eqb c "HWM".
Definition calls_agree (m o : list string) : bool :=
  list_eqb String.eqb (filter (fun c => negb (is_hwm c)) m) (filter (fun c => negb (is_hwm c)) o)
  && Nat.eqb (List.length (filter is_hwm m)) (List.length (filter is_hwm o)).

Definition check_case (c : case) : bool :=
  let r := model_result c in
  match r_end r with
  | EClosed => c_alive c && calls_agree (map fst (r_calls r)) (c_calls c)
               && list_eqb out_eqb (r_out r) (c_out c)
  | _ => false
  end.
