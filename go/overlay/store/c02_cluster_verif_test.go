package store

// Helpers shared by the C02, C16 and C38 drivers: in-process clusters and white-box
// observation of what waitForLinearizableRead reads.

import (
	"context"
	"errors"
	"expvar"
	"fmt"
	"os"
	"strings"
	"testing"
	"time"

	"github.com/hashicorp/raft"
	"github.com/rqlite/rqlite/v10/command/proto"
)

type vcNode struct {
	s     *Store
	voter bool
	name  string
}

type vCluster struct {
	t     *testing.T
	nodes []*vcNode
}

func vcQuietLogs() {
	// the stores log through the standard logger to stderr; keep the driver's output small
	if os.Getenv("VERIF_VERBOSE") == "" {
		devnull, err := os.OpenFile(os.DevNull, os.O_WRONLY, 0)
		if err == nil {
			os.Stderr = devnull
		}
	}
}

// vcNew starts nVoters voters (node 0 bootstraps) and nNon non-voters.
func vcNew(t *testing.T, nVoters, nNon int) (*vCluster, error) {
	c := &vCluster{t: t}
	for i := 0; i < nVoters+nNon; i++ {
		s, _ := mustNewStoreAtPathsLn(fmt.Sprintf("n%d", i), t.TempDir(), false)
		if err := s.Open(); err != nil {
			c.close()
			return nil, err
		}
		c.nodes = append(c.nodes, &vcNode{s: s, voter: i < nVoters, name: fmt.Sprintf("n%d", i)})
		if i == 0 {
			if err := s.Bootstrap(NewServer(s.ID(), s.Addr(), true)); err != nil {
				c.close()
				return nil, err
			}
			if _, err := s.WaitForLeader(10 * time.Second); err != nil {
				c.close()
				return nil, err
			}
		} else {
			if err := c.nodes[0].s.Join(joinRequest(s.ID(), s.Addr(), i < nVoters)); err != nil {
				c.close()
				return nil, err
			}
			if _, err := s.WaitForLeader(10 * time.Second); err != nil {
				c.close()
				return nil, err
			}
		}
	}
	return c, nil
}

// vcCloseStore closes a store but does not wait for it for ever: hashicorp/raft's shutdown can
// block in a replication pipeline whose peer has already gone (seen under heavy machine load).
// The check is over by then; an abandoned store dies with the test process.
func vcCloseStore(s *Store, patience time.Duration) bool {
	done := make(chan struct{})
	go func() {
		s.Close(true)
		close(done)
	}()
	select {
	case <-done:
		return true
	case <-time.After(patience):
		return false
	}
}

// close shuts the nodes down leader first (while its peers still answer, so that its replication
// pipelines drain), then the others, which by then get no more heartbeats: raft's heartbeat fast
// path runs outside its main loop and panics ("failed to save current term: database not open")
// when it meets a store whose log database Store.Close has already closed.
func (c *vCluster) close() {
	var first, rest []*Store
	for _, n := range c.nodes {
		if n.s == nil {
			continue
		}
		if n.s.open.Is() && n.s.raft != nil && n.s.raft.State() == raft.Leader {
			first = append(first, n.s)
		} else {
			rest = append(rest, n.s)
		}
	}
	for _, s := range first {
		vcCloseStore(s, 20*time.Second)
	}
	done := make(chan struct{}, len(rest))
	for _, s := range rest {
		go func(s *Store) {
			vcCloseStore(s, 20*time.Second)
			done <- struct{}{}
		}(s)
	}
	for range rest {
		<-done
	}
}

// leader returns the node that is leader and known as such by a majority, or nil.
func (c *vCluster) leader(timeout time.Duration) *vcNode {
	dl := time.Now().Add(timeout)
	for time.Now().Before(dl) {
		for _, n := range c.nodes {
			if n.s != nil && n.s.open.Is() && n.s.raft.State() == raft.Leader {
				if err := n.s.raft.VerifyLeader().Error(); err == nil {
					return n
				}
			}
		}
		time.Sleep(20 * time.Millisecond)
	}
	return nil
}

// settle waits until every open node has applied what the leader has committed and
// knows the leader.
func (c *vCluster) settle(ld *vcNode, timeout time.Duration) bool {
	dl := time.Now().Add(timeout)
	for time.Now().Before(dl) {
		ok := true
		li := ld.s.raft.LastIndex()
		if ld.s.raft.CommitIndex() != li || ld.s.raft.AppliedIndex() != li {
			ok = false
		}
		for _, n := range c.nodes {
			if n.s == nil || !n.s.open.Is() {
				continue
			}
			if n.s.raft.AppliedIndex() != li || n.s.fsmIdx.Load() != ld.s.fsmIdx.Load() {
				ok = false
			}
			if a, _ := n.s.LeaderAddr(); a != ld.s.Addr() {
				ok = false
			}
		}
		if ok {
			return true
		}
		time.Sleep(5 * time.Millisecond)
	}
	return false
}

func vcExec(s *Store, sqls ...string) error {
	rs, _, err := s.Execute(context.Background(), executeRequestFromStrings(sqls, false, false))
	if err != nil {
		return err
	}
	for _, r := range rs {
		if e := r.GetError(); e != "" {
			return errors.New(e)
		}
	}
	return nil
}

func vcCounter(name string) int64 {
	v := stats.Get(name)
	if v == nil {
		return 0
	}
	return v.(*expvar.Int).Value()
}

func vcKind(t raft.LogType) string {
	switch t {
	case raft.LogCommand:
		return "KCommand"
	case raft.LogNoop:
		return "KNoop"
	case raft.LogBarrier:
		return "KBarrier"
	default:
		return "KConfig" // LogConfiguration and the deprecated peer entries
	}
}

// vcLinPre is what waitForLinearizableRead would read if called now.
type vcLinPre struct {
	Term, Srt     uint64
	Leader, Ready bool
	Commit        uint64
	FsmIdx        uint64
	Kinds         []string // entries FsmIdx+1..Commit: "Some KCommand" ... or "None" when not in the log
	verOK, verBad int64
}

func vcLinBefore(s *Store) vcLinPre {
	p := vcLinPre{
		Term:   s.raft.CurrentTerm(),
		Srt:    s.strongReadTerm.Load(),
		Leader: s.raft.State() == raft.Leader,
		Ready:  s.Ready(),
		Commit: s.raft.CommitIndex(),
		FsmIdx: s.fsmIdx.Load(),
		verOK:  vcCounter(numVerifyLeader),
		verBad: vcCounter(numVerifyLeaderFailed),
	}
	for i := p.FsmIdx + 1; i <= p.Commit; i++ {
		var l raft.Log
		if err := s.raftLog.GetLog(i, &l); err != nil {
			p.Kinds = append(p.Kinds, "None")
		} else {
			p.Kinds = append(p.Kinds, "(Some "+vcKind(l.Type)+")")
		}
	}
	return p
}

// vcLinAfter completes the observation after the call: Gallina lin_obs, and whether a
// VerifyLeader was counted (and succeeded).
func vcLinAfter(s *Store, p vcLinPre, err error) (coq string, verified, verifiedOK bool) {
	ok := vcCounter(numVerifyLeader) - p.verOK
	bad := vcCounter(numVerifyLeaderFailed) - p.verBad
	verified = ok+bad > 0
	verifiedOK = ok > 0 && bad == 0
	ver := "VOk"
	if bad > 0 {
		if errors.Is(err, ErrNotLeader) {
			ver = "VNotLeader"
		} else {
			ver = "VFail"
		}
	}
	coq = fmt.Sprintf("{| lo_term := %s; lo_srt := %s; lo_leader := %s; lo_ready := %s; lo_commit := %s; lo_verify := %s; lo_term_after := %s; lo_fsm_idx := %s; lo_kinds := %s; lo_reached := %s |}",
		coqN(p.Term), coqN(p.Srt), coqBool(p.Leader), coqBool(p.Ready), coqN(p.Commit), ver,
		coqN(s.raft.CurrentTerm()), coqN(p.FsmIdx), coqList(p.Kinds), coqN(s.fsmIdx.Load()))
	return
}

func vcErrClass(err error) string {
	switch {
	case err == nil:
		return "ENone"
	case errors.Is(err, ErrNotLeader):
		return "ENotLeader"
	case errors.Is(err, ErrNotReady):
		return "ENotReady"
	case errors.Is(err, ErrStaleRead):
		return "EStale"
	case errors.Is(err, ErrWaitForFSMTimeout):
		return "EFsmTimeout"
	case strings.Contains(err.Error(), "failed to verify leader"):
		return "EVerify"
	default:
		return "EOther"
	}
}

func vcLevel(l proto.ConsistencyLevel) string {
	switch l {
	case proto.ConsistencyLevel_NONE:
		return "LNone"
	case proto.ConsistencyLevel_WEAK:
		return "LWeak"
	case proto.ConsistencyLevel_STRONG:
		return "LStrong"
	case proto.ConsistencyLevel_AUTO:
		return "LAuto"
	default:
		return "LLin"
	}
}
