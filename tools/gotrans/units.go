package main

// The functions that are translated.  One unit = one output file coq/Gen/<name>.v.
// funcs are keys "Func" or "ReceiverType.Method" looked up in the non-test files of dir;
// file is only used in messages.
type unit struct {
	name, dir, file string
	funcs           []string
}

var units = []unit{
	{"Auth", "auth", "credential_store.go", []string{
		"CredentialsStore.Check", "CredentialsStore.HasPerm", "CredentialsStore.HasAnyPerm", "CredentialsStore.AA"}},
	{"StoreState", "store", "state.go", []string{"IsStaleRead"}},
	{"Throttler", "store/throttler", "throttler.go", []string{
		"Throttler.touch", "Throttler.Signal", "Throttler.Release", "Throttler.Reset"}},
	{"Cas", "internal/rsync", "cas.go", []string{"CheckAndSet.Begin", "CheckAndSet.End", "CheckAndSet.Owner"}},
	{"Mrsw", "internal/rsync", "multir_singlew.go", []string{
		"MultiRSW.BeginRead", "MultiRSW.EndRead", "MultiRSW.BeginWrite", "MultiRSW.EndWrite", "MultiRSW.UpgradeToWriter"}},
	{"ReadyTarget", "internal/rsync", "ready_target.go", []string{
		"ReadyTarget.Subscribe", "ReadyTarget.Unsubscribe", "ReadyTarget.Signal", "ReadyTarget.Reset"}},
	{"WalResetWatch", "db", "wal_reset_watch.go", []string{
		"WALResetWatch.Arm", "WALResetWatch.Disarm", "WALResetWatch.Check"}},
}
