(* C05 — property theorems only.  run = NewCompactingFrameScanner(wal, k, full) + Writer.WriteTo;
   valid_frames w = frames of the prefix SQLite itself accepts (salts and checksum chain);
   checkpoint = SQLite's checkpoint of the committed frames into a database file. *)
From Coq Require Import List NArith.
From RQ Require Import Lib.C05_PageDB Model.C05 Proofs.C05.
Import ListNotations.
Open Scope N_scope.

(* Checkpointing the compacted WAL gives the same file as checkpointing the committed frames of
   the original from position k.  Any number of frames, pages, transactions; growth and shrink. *)
Theorem C05_equiv : forall full d w k out,
  mode_ok full k w -> tx_boundary (valid_frames w) k ->
  run full k w = Ok out ->
  db_eq (checkpoint d (map snd out)) (checkpoint d (skipn k (committed (valid_frames w)))).
Proof. exact equiv_proof. Qed.
Print Assumptions C05_equiv.

(* ... and, on a database that already received the first k frames, the same file as
   checkpointing the whole original (the form incremental snapshots rely on). *)
Theorem C05_resume_chain : forall full d w k out,
  mode_ok full k w -> tx_boundary (valid_frames w) k ->
  run full k w = Ok out ->
  let A := firstn k (valid_frames w) in
  let X := skipn k (valid_frames w) in
  (forall p, last_size A (size d) < p <= last_size X (last_size A (size d)) -> latest X p <> None) ->
  db_eq (checkpoint (checkpoint d A) (map snd out)) (checkpoint d (committed (valid_frames w))).
Proof. exact resume_chain_proof. Qed.
Print Assumptions C05_resume_chain.

(* Every emitted frame is a frame of the valid prefix, at its own position, at or after k. *)
Theorem C05_scan_subset : forall full k w out,
  mode_ok full k w -> tx_boundary (valid_frames w) k ->
  run full k w = Ok out ->
  forall i f, In (i, f) out ->
    (k <= i)%nat
    /\ exists r, nth_error (spec_valid w) i = Some r /\ nth_error w i = Some r
                 /\ rf r = f /\ sqlite_valid r = true.
Proof. exact scan_subset_proof. Qed.
Print Assumptions C05_scan_subset.

(* An unterminated trailing transaction is an error, and only that is this error. *)
Theorem C05_open_tx_is_error : forall full k w,
  mode_ok full k w -> tx_boundary (valid_frames w) k -> zero_free w ->
  (run full k w = ErrOpenTx
   <-> exists l f, skipn k (valid_frames w) = l ++ [f] /\ is_commit f = false).
Proof. exact open_tx_iff_proof. Qed.
Print Assumptions C05_open_tx_is_error.

(* Otherwise compaction succeeds (so C05_equiv is not vacuous). *)
Theorem C05_scan_succeeds : forall full k w,
  mode_ok full k w -> tx_boundary (valid_frames w) k -> zero_free w ->
  ends_committed (skipn k (valid_frames w)) ->
  exists out, run full k w = Ok out.
Proof. exact scan_succeeds_proof. Qed.
Print Assumptions C05_scan_succeeds.

(* The pure core: keeping only the last frame of every page does not change the checkpoint. *)
Theorem C05_compact_equiv : forall d w, ends_committed w ->
  db_eq (checkpoint d (keep_last w)) (checkpoint d w).
Proof. exact compact_equiv. Qed.
Print Assumptions C05_compact_equiv.
