(* C13 — model of db/db.go executeWithConn (execute path) and RequestWithContext
   (unified path), including the C13 fix (classification errors and RollbackOnError are
   handled by the unified path exactly like the execute path handles errors).
   Executable definitions only; proofs are in Proofs/C13.v.

   SQLite + database/sql enter as an abstract connection: a state type C with the
   operations of `ops`.  The model never looks inside C.  Proofs/C13.v states what is
   assumed of these operations (record `laws`); the concrete instance used by
   `check_case` (snapshot connection, bottom of this file) is proved to satisfy them. *)
From Coq Require Import List NArith Bool.
Import ListNotations.

Set Implicit Arguments.

(* ---- the abstract connection ---- *)
Record ops (C E : Type) := {
  o_begin    : C -> C;          (* BEGIN on a connection in autocommit mode *)
  o_commit   : C -> C * bool;   (* SQL COMMIT; false = it failed (deferred constraint) *)
  o_rollback : C -> C;          (* SQL ROLLBACK; an error when no transaction is open, and ignored *)
  o_apply    : E -> C -> C      (* the changes made by one successful statement *)
}.

(* ---- statements, classified by what SQLite does with them in the session state they meet ---- *)
Inductive sclass (E : Type) :=
| SEmpty                          (* Sql == "" *)
| SOk (e : E)                     (* not read-only, succeeds with effect e (INSERT/UPDATE/DELETE, with or without RETURNING) *)
| SFailPrepare                    (* does not prepare: syntax error, unknown table/column *)
| SFailExec (partial : option E)  (* prepares, fails while running.  A single SQL statement is atomic (None);
                                     a multi-statement text keeps what its earlier statements did (Some) *)
| SQuery                          (* read-only, succeeds *)
| SQueryFail                      (* read-only, fails while running *)
| SBegin | SCommit | SRollback.   (* successful transaction control statements typed by the client (read-only for SQLite) *)
Arguments SEmpty {E}. Arguments SFailPrepare {E}. Arguments SQuery {E}. Arguments SQueryFail {E}.
Arguments SBegin {E}. Arguments SCommit {E}. Arguments SRollback {E}.

Record stmt (E : Type) := {
  s_cls : sclass E;
  s_fq  : bool;      (* Statement.ForceQuery *)
  s_n   : N          (* rows affected (Exec) or rows returned (Query) when it succeeds *)
}.

Record request (E : Type) := {
  r_tx   : bool;               (* Request.Transaction *)
  r_roe  : bool;               (* Request.RollbackOnError *)
  r_stmts : list (stmt E)
}.

(* ExecuteQueryResponse kinds: E{rows_affected}, Q{rows}, Error, Q{error} *)
Inductive result := RE (n : N) | RQ (n : N) | RErr | RQErr.

Definition result_eqb (a b : result) : bool :=
  match a, b with
  | RE x, RE y => N.eqb x y
  | RQ x, RQ y => N.eqb x y
  | RErr, RErr => true
  | RQErr, RQErr => true
  | _, _ => false
  end.

Section Paths.
  Variables C E : Type.
  Variable o : ops C E.

  Definition is_empty (s : stmt E) : bool :=
    match s_cls s with SEmpty => true | _ => false end.

  (* what running the statement does to the connection, whichever call runs it *)
  Definition stmt_conn (s : stmt E) (c : C) : C :=
    match s_cls s with
    | SOk e => o_apply o e c
    | SFailExec (Some e) => o_apply o e c
    | SBegin => o_begin o c
    | SCommit => fst (o_commit o c)
    | SRollback => o_rollback o c
    | _ => c
    end.

  Definition stmt_fails (s : stmt E) : bool :=
    match s_cls s with
    | SFailPrepare | SFailExec _ | SQueryFail => true
    | _ => false
    end.

  (* rows affected as reported by Exec: meaningful for writes only (for a read-only statement
     the driver reports the connection's previous change count; projected to 0 by the driver) *)
  Definition exec_count (s : stmt E) : N :=
    match s_cls s with SOk _ => s_n s | _ => 0%N end.

  (* executeStmtWithConn: ForceQuery -> queryStmtWithConn, else ExecContext.
     Every failure is reported as an Error result. *)
  Definition exec_result (s : stmt E) : result :=
    if stmt_fails s then RErr
    else if s_fq s then RQ (s_n s) else RE (exec_count s).

  Definition exec_stmt (s : stmt E) (c : C) : C * result * bool :=
    (stmt_conn s c, exec_result s, stmt_fails s).

  (* queryStmtWithConn + createEQQueryResponse: a failure is a Q result carrying the error *)
  Definition query_result (s : stmt E) : result :=
    if stmt_fails s then RQErr else RQ (s_n s).

  Definition query_stmt (s : stmt E) (c : C) : C * result * bool :=
    (stmt_conn s c, query_result s, stmt_fails s).

  (* StmtReadOnlyWithConn: None = the text does not prepare *)
  Definition classify (s : stmt E) : option bool :=
    match s_cls s with
    | SFailPrepare => None
    | SQuery | SQueryFail | SBegin | SCommit | SRollback => Some true
    | _ => Some false
    end.

  (* handleError (execute path) / abortOnError (unified path, fixed): what happens to the
     connection on an error and whether the loop stops.  tx = the request's own sql.Tx is open. *)
  Definition on_error (tx roe : bool) (c : C) : C * bool (* stop *) :=
    if tx then (o_rollback o c, true)           (* tx.Rollback(); tx = nil; break *)
    else if roe then (o_rollback o c, true)     (* "ROLLBACK" statement; break *)
    else (c, false).                            (* continue with the next statement *)

  (* the statement loop of executeWithConn.  Returns the connection, whether the request's
     sql.Tx is still open, and the results in order. *)
  Fixpoint exec_loop (tx roe : bool) (ss : list (stmt E)) (c : C) : C * bool * list result :=
    match ss with
    | [] => (c, tx, [])
    | s :: rest =>
      if is_empty s then exec_loop tx roe rest c
      else
        let '(c1, r, failed) := exec_stmt s c in
        if failed then
          let '(c2, stop) := on_error tx roe c1 in
          if stop then (c2, false, [r])
          else let '(c3, t, rs) := exec_loop tx roe rest c2 in (c3, t, r :: rs)
        else
          let '(c3, t, rs) := exec_loop tx roe rest c1 in (c3, t, r :: rs)
    end.

  (* the statement loop of RequestWithContext *)
  Definition uni_stmt (s : stmt E) (c : C) : C * result * bool :=
    match classify s with
    | None => (c, RErr, true)                   (* classification error: Error result *)
    | Some true => query_stmt s c
    | Some false => exec_stmt s c
    end.

  Fixpoint uni_loop (tx roe : bool) (ss : list (stmt E)) (c : C) : C * bool * list result :=
    match ss with
    | [] => (c, tx, [])
    | s :: rest =>
      if is_empty s then uni_loop tx roe rest c
      else
        let '(c1, r, failed) := uni_stmt s c in
        if failed then
          let '(c2, stop) := on_error tx roe c1 in
          if stop then (c2, false, [r])
          else let '(c3, t, rs) := uni_loop tx roe rest c2 in (c3, t, r :: rs)
        else
          let '(c3, t, rs) := uni_loop tx roe rest c1 in (c3, t, r :: rs)
    end.

  (* sql.Tx.Commit of the vendored driver: COMMIT, and ROLLBACK when COMMIT fails *)
  Definition tx_commit (c : C) : C * bool :=
    let '(c1, ok) := o_commit o c in
    if ok then (c1, true) else (o_rollback o c1, false).

  Definition finish (r : C * bool * list result) : C * list result * bool (* request error *) :=
    let '(c1, txopen, rs) := r in
    if txopen then let '(c2, ok) := tx_commit c1 in (c2, rs, negb ok)
    else (c1, rs, false).

  Definition start (req : request E) (c0 : C) : C :=
    if r_tx req then o_begin o c0 else c0.

  Definition execute_path (req : request E) (c0 : C) : C * list result * bool :=
    finish (exec_loop (r_tx req) (r_roe req) (r_stmts req) (start req c0)).

  Definition unified_path (req : request E) (c0 : C) : C * list result * bool :=
    finish (uni_loop (r_tx req) (r_roe req) (r_stmts req) (start req c0)).
End Paths.

(* ---- the concrete connection used to run the model on driver cases ----
   content D, the content at BEGIN while a transaction is open. *)
Record sconn (D : Type) := { cur : D; saved : option D }.

Section Snapshot.
  Variables D E : Type.
  Variable dapply : E -> D -> D.
  Variable commit_ok : D -> bool.     (* does COMMIT succeed on this content (deferred constraints) *)

  Definition sn_begin (c : sconn D) : sconn D :=
    match saved c with None => {| cur := cur c; saved := Some (cur c) |} | Some _ => c end.
  Definition sn_commit (c : sconn D) : sconn D * bool :=
    match saved c with
    | Some _ => if commit_ok (cur c) then ({| cur := cur c; saved := None |}, true) else (c, false)
    | None => (c, false)
    end.
  Definition sn_rollback (c : sconn D) : sconn D :=
    match saved c with Some d => {| cur := d; saved := None |} | None => c end.
  Definition sn_apply (e : E) (c : sconn D) : sconn D :=
    {| cur := dapply e (cur c); saved := saved c |}.

  Definition sn_ops : ops (sconn D) E :=
    {| o_begin := sn_begin; o_commit := sn_commit; o_rollback := sn_rollback; o_apply := sn_apply |}.
  Definition sn_view (c : sconn D) : D := cur c.
  Definition sn_in_tx (c : sconn D) : bool := match saved c with Some _ => true | None => false end.
End Snapshot.

(* ---- table contents: rows keyed by a number, kept sorted by key ---- *)
Definition table := list (N * N).
Definition rowop := (N * option N)%type.        (* (key, Some v) = row written, (key, None) = row deleted *)

Fixpoint t_put (k v : N) (t : table) : table :=
  match t with
  | [] => [(k, v)]
  | (k', v') :: r =>
    if N.ltb k k' then (k, v) :: t
    else if N.eqb k k' then (k, v) :: r
    else (k', v') :: t_put k v r
  end.
Fixpoint t_del (k : N) (t : table) : table :=
  match t with
  | [] => []
  | (k', v') :: r => if N.eqb k k' then r else (k', v') :: t_del k r
  end.
Definition t_op (t : table) (op : rowop) : table :=
  match op with (k, Some v) => t_put k v t | (k, None) => t_del k t end.
Definition t_apply (e : list rowop) (t : table) : table := fold_left t_op e t.

Definition row_eqb (a b : N * N) : bool := N.eqb (fst a) (fst b) && N.eqb (snd a) (snd b).
Fixpoint list_eqb {A} (eqb : A -> A -> bool) (x y : list A) : bool :=
  match x, y with
  | [], [] => true
  | a :: x', b :: y' => eqb a b && list_eqb eqb x' y'
  | _, _ => false
  end.
Definition table_eqb := list_eqb row_eqb.

(* ---- correspondence ---- *)
Record case := {
  k_unified   : bool;                       (* false: db.Execute, true: db.Request *)
  k_req       : request (list rowop);       (* classes/effects/counts from the interactive reference session *)
  k_init      : table;
  k_commit_ok : bool;                       (* outcome of COMMIT in the reference session (when it got there) *)
  (* observed on the real code *)
  k_results   : list result;
  k_err       : bool;                       (* the call returned a request-level error *)
  k_visible   : table;                      (* contents seen by the read-write connection afterwards *)
  k_in_tx     : bool;                       (* the connection was left inside a transaction *)
  k_committed : table                       (* contents after rolling back whatever was left open *)
}.

Definition case_ops (c : case) := sn_ops t_apply (fun _ : table => k_commit_ok c).

Definition model_run (c : case) : sconn table * list result * bool :=
  let c0 := {| cur := k_init c; saved := None |} in
  if k_unified c then unified_path (case_ops c) (k_req c) c0
  else execute_path (case_ops c) (k_req c) c0.

Definition check_case (c : case) : bool :=
  let '(c', rs, err) := model_run c in
  list_eqb result_eqb rs (k_results c)
  && Bool.eqb err (k_err c)
  && table_eqb (sn_view c') (k_visible c)
  && Bool.eqb (sn_in_tx c') (k_in_tx c)
  && table_eqb (sn_view (sn_rollback c')) (k_committed c).
