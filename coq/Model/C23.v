(* C23 — model of the queued-write path: http/service.go queuedExecute (the accepted part: stmtQueue.Write
   with a flush channel iff `wait`), the queue (Model.C24, unchanged) and runQueue, the single consumer:
   receive a request from stmtQueue.C; if it has statements call proxy.Execute until it returns no error
   (sleeping between attempts, giving up only when closeCh is closed); then req.Close().
   The store / leader is an environment input: each Execute call has an outcome chosen by the schedule.
   Executable definitions only; proofs are in Proofs/C23.v. *)
From Coq Require Import List NArith ZArith Bool.
From RQ Require Import Model.C24.
Import ListNotations.

Inductive outcome :=
| OOk            (* err == nil: applied *)
| ONoLeader      (* proxy.ErrLeaderNotFound: not applied *)
| OErr           (* any other error, not applied *)
| OErrApplied.   (* an error although the statements were applied (leadership lost while committing, timeout of a forwarded request, ...) *)

Definition applies (o : outcome) : bool := match o with OOk | OErrApplied => true | _ => false end.
Definition is_ok (o : outcome) : bool := match o with OOk => true | _ => false end.

Record st := {
  q : state;                               (* the queue *)
  cur : option batch;                      (* runQueue: the request taken from stmtQueue.C and not yet closed *)
  cur_n : nat;                             (* ghost: how many Execute calls for it reached the store *)
  cur_ok : bool;                           (* the last Execute call for it returned no error *)
  calls : list (list N * outcome);         (* every proxy.Execute call: statements, outcome *)
  rl_done : list (list N * nat);           (* ghost: closed requests that were executed: statements, times applied *)
  stopped : bool                           (* runQueue returned (closeCh) *)
}.

Definition init23 (c : cfg) : st :=
  {| q := init c; cur := None; cur_n := 0; cur_ok := false; calls := []; rl_done := []; stopped := false |}.

Inductive act :=
| HWrite (stmts : list N) (wait : option N)   (* queuedExecute: s.stmtQueue.Write(stmts, fc); fc <> nil iff wait *)
| QTake | QTimer | QExit                       (* the queue's run() loop *)
| SClose                                       (* Service.Close: s.stmtQueue.Close() *)
| RRecv                                        (* runQueue: req := <-s.stmtQueue.C *)
| RExec (o : outcome)                          (* runQueue: one proxy.Execute call for the current request *)
| RFinish                                      (* runQueue: req.Close() *)
| RStop.                                       (* runQueue sees closeCh closed and returns *)

Definition with_q (s : st) (q' : state) : st :=
  {| q := q'; cur := cur s; cur_n := cur_n s; cur_ok := cur_ok s; calls := calls s; rl_done := rl_done s; stopped := stopped s |}.

Definition lift (c : cfg) (s : st) (a : action) : option st :=
  match step c (q s) a with Some q' => Some (with_q s q') | None => None end.

Definition has_stmts (b : batch) : bool := match b_objs b with [] => false | _ => true end.

Definition step23 (c : cfg) (s : st) (a : act) : option st :=
  match a with
  | HWrite stmts wait => lift c s (AWrite stmts wait)
  | QTake => lift c s ATake
  | QTimer => lift c s ATimer
  | QExit => lift c s AExit
  | SClose => lift c s AClose
  | RRecv =>
      if stopped s then None else
      match cur s, slot (q s) with
      | None, Some b =>
          match step c (q s) AConsume with
          | Some q' => Some {| q := q'; cur := Some b; cur_n := 0; cur_ok := false; calls := calls s;
                               rl_done := rl_done s; stopped := false |}
          | None => None
          end
      | _, _ => None
      end
  | RExec o =>
      if stopped s then None else
      match cur s with
      | Some b =>
          if cur_ok s || negb (has_stmts b) then None else
          Some {| q := q s; cur := cur s; cur_n := if applies o then S (cur_n s) else cur_n s; cur_ok := is_ok o;
                  calls := calls s ++ [(b_objs b, o)]; rl_done := rl_done s; stopped := false |}
      | None => None
      end
  | RFinish =>
      if stopped s then None else
      match cur s with
      | Some b =>
          if cur_ok s || negb (has_stmts b) then
            match step c (q s) AReqClose with
            | Some q' => Some {| q := q'; cur := None; cur_n := 0; cur_ok := false; calls := calls s;
                                 rl_done := if has_stmts b then rl_done s ++ [(b_objs b, cur_n s)] else rl_done s;
                                 stopped := false |}
            | None => None
            end
          else None
      | None => None
      end
  | RStop =>
      (* closeCh is looked at in the outer select (no current request) and before every Execute attempt *)
      match cur s with
      | None => Some {| q := q s; cur := cur s; cur_n := cur_n s; cur_ok := cur_ok s; calls := calls s;
                        rl_done := rl_done s; stopped := true |}
      | Some b =>
          if cur_ok s || negb (has_stmts b) then None else
          Some {| q := q s; cur := cur s; cur_n := cur_n s; cur_ok := cur_ok s; calls := calls s;
                  rl_done := rl_done s; stopped := true |}
      end
  end.

Fixpoint run23_from (c : cfg) (s : st) (l : list act) : option st :=
  match l with
  | [] => Some s
  | a :: r => match step23 c s a with Some s' => run23_from c s' r | None => None end
  end.

Definition run23 (c : cfg) (l : list act) : option st := run23_from c (init23 c) l.

(* ---- correspondence ---- *)
Definition outcome_eqb (a b : outcome) : bool :=
  match a, b with OOk, OOk | ONoLeader, ONoLeader | OErr, OErr | OErrApplied, OErrApplied => true | _, _ => false end.

Definition call_eqb (x y : list N * outcome) : bool :=
  (if list_eq_dec N.eq_dec (fst x) (fst y) then true else false) && outcome_eqb (snd x) (snd y).

(* A case: queue configuration, the schedule reconstructed by the driver (requests in sequence-number order,
   the injected outcome of every Execute call), every Execute call the store stub saw (statement ids, what the
   stub answered), the ids of the `wait` requests that were answered 200, in sequence-number order, and the
   sequence numbers returned to the clients (in that order). *)
Record case := {
  c_cfg : cfg;
  c_acts : list act;
  c_calls : list (list N * outcome);
  c_released : list N;
  c_seqs : list (option Z)
}.

Definition check_case (c : case) : bool :=
  match run23 (c_cfg c) (c_acts c) with
  | None => false
  | Some s =>
      list_eqb call_eqb (calls s) (c_calls c)
      && (if list_eq_dec N.eq_dec (closedch (q s)) (c_released c) then true else false)
      && list_eqb optZ_eqb (rets (q s)) (c_seqs c)
      && match cur s, chan (q s), qobjs (q s), slot (q s), pend (q s) with
         | None, [], [], None, None => true
         | _, _, _, _, _ => false
         end
  end.
