(* C28 — model of command/chunking/chunker.go (Chunker.Next, Abort), dechunker.go
   (Dechunker.WriteChunk, DechunkerManager Get/Delete) and the LOAD_CHUNK branch of
   store/command_processor.go (Process).  Executable definitions only; proofs in Proofs/C28.v.

   gzip is not modelled: every function that compresses / decompresses takes the pair
   (gzip, gunzip) as a parameter.  The theorems assume  gunzip (gzip b) = Some b ;
   check_case instantiates the pair with the tagging codec tgzip / tgunzip below (the driver
   decompresses real chunk payloads with compress/gzip and reports the plaintext). *)
From Coq Require Import List String Bool NArith ZArith.
Import ListNotations.
Open Scope string_scope.
Open Scope list_scope.

Definition bytes := list N.

Fixpoint take (n : N) (l : bytes) : bytes :=
  match l with
  | [] => []
  | x :: t => if N.eqb n 0 then [] else x :: take (N.pred n) t
  end.
Fixpoint drop (n : N) (l : bytes) : bytes :=
  match l with
  | [] => []
  | x :: t => if N.eqb n 0 then l else drop (N.pred n) t
  end.
Definition lenN (l : bytes) : N := N.of_nat (List.length l).
Definition is_nil {A} (l : list A) : bool := match l with [] => true | _ => false end.

(* ---------------------------------------------------------------- the io.Reader under the Chunker *)
(* rd_data: bytes not yet delivered.  rd_caps: a schedule of short reads (the k-th Read returns at
   most max 1 (k-th cap) bytes; once the schedule is used up reads fill the buffer).  rd_eofwd: the
   reader returns io.EOF together with its final bytes (true) or only on the following call (false).
   After the data is exhausted every Read returns (0, EOF). *)
Record reader := { rd_data : bytes; rd_caps : list N; rd_eofwd : bool }.

(* Read(p) with len(p) = bufsz  ->  (bytes returned, err == io.EOF, reader afterwards) *)
Definition read (bufsz : N) (r : reader) : bytes * bool * reader :=
  match rd_data r with
  | [] => ([], true, r)
  | _ :: _ =>
      let want := match rd_caps r with [] => bufsz | c :: _ => N.min bufsz (N.max 1 c) end in
      let rest := drop want (rd_data r) in
      (take want (rd_data r), rd_eofwd r && is_nil rest,
       {| rd_data := rest; rd_caps := tl (rd_caps r); rd_eofwd := rd_eofwd r |})
  end.

(* ---------------------------------------------------------------- proto.LoadChunkRequest *)
(* ch_data = None is Go's nil Data (the final empty chunk; what an empty bytes field decodes to). *)
Record chunk := { ch_stream : string; ch_seq : Z; ch_last : bool; ch_abort : bool; ch_data : option bytes }.

(* ---------------------------------------------------------------- Chunker *)
Definition internalChunkSize : N := 1048576.

Record chunker := { ck_rd : reader; ck_seq : Z; ck_fin : bool }.

(* The read loop of Next:
     for totalRead < chunkSize { n, err := Read(buf); totalRead += n
                                 if n > 0 { _, err = gw.Write(buf[:n]) }      <- overwrites the reader's err
                                 if err != nil { if err == EOF { finished = true; break } ... } }
   Result: bytes written to the gzip writer, totalRead, finished, reader afterwards.  None = fuel exhausted. *)
Fixpoint fill (fuel : nat) (size bufsz : N) (r : reader) (total : N) : option (bytes * N * bool * reader) :=
  if N.leb size total then Some ([], total, false, r) else
  match fuel with
  | O => None
  | S f =>
      let '(b, eof, r') := read bufsz r in
      let n := lenN b in
      let err_eof := if N.ltb 0 n then false (* the nil error of gw.Write *) else eof in
      if err_eof then Some (b, N.add total n, true, r')
      else match fill f size bufsz r' (N.add total n) with
           | Some (p, t, fin, r'') => Some (b ++ p, t, fin, r'')
           | None => None
           end
  end.

Inductive nres := NEof | NFuel | NChunk (c : chunk) (k : chunker).

Section Codec.
  Variable gzip : bytes -> bytes.
  Variable gunzip : bytes -> option bytes.

  (* Chunker.Next for a chunker with stream id sid and chunk size `size` *)
  Definition next (sid : string) (size : N) (k : chunker) : nres :=
    if ck_fin k then NEof else
    match fill (S (List.length (rd_data (ck_rd k)))) size (N.min internalChunkSize size) (ck_rd k) 0 with
    | None => NFuel
    | Some (payload, total, fin, r') =>
        if N.eqb total 0 then
          if Z.eqb (ck_seq k) 0 then NEof
          else NChunk {| ch_stream := sid; ch_seq := Z.add (ck_seq k) 1; ch_last := true; ch_abort := false; ch_data := None |}
                      {| ck_rd := r'; ck_seq := ck_seq k; ck_fin := fin |}
        else
          NChunk {| ch_stream := sid; ch_seq := Z.add (ck_seq k) 1; ch_last := N.ltb total size; ch_abort := false;
                    ch_data := Some (gzip payload) |}
                 {| ck_rd := r'; ck_seq := Z.add (ck_seq k) 1; ck_fin := fin |}
    end.

  (* the caller's loop: Next until io.EOF *)
  Fixpoint chunk_loop (fuel : nat) (sid : string) (size : N) (k : chunker) : option (list chunk) :=
    match fuel with
    | O => None
    | S f => match next sid size k with
             | NEof => Some []
             | NFuel => None
             | NChunk c k' => match chunk_loop f sid size k' with Some cs => Some (c :: cs) | None => None end
             end
    end.

  Definition new_chunker (r : reader) : chunker := {| ck_rd := r; ck_seq := 0; ck_fin := false |}.

  (* None = out of fuel (never happens for size > 0: Proofs.C28.chunk_stream_total) *)
  Definition chunk_stream (sid : string) (size : N) (r : reader) : option (list chunk) :=
    chunk_loop (List.length (rd_data r) + 3) sid size (new_chunker r).

  (* Chunker.Abort *)
  Definition abort_chunk (sid : string) : chunk :=
    {| ch_stream := sid; ch_seq := 0; ch_last := false; ch_abort := true; ch_data := None |}.

  (* -------------------------------------------------------------- Dechunker *)
  (* dc_file = contents of the temp file; dc_stream = "" until the first chunk pins it *)
  Record dechunker := { dc_stream : string; dc_seq : Z; dc_file : bytes }.
  Definition new_dechunker : dechunker := {| dc_stream := ""; dc_seq := 0; dc_file := [] |}.

  Inductive werr := EStream | EOrder | EGzip.
  Inductive wres := WOk (last : bool) | WErr (e : werr).

  Definition write_chunk (d : dechunker) (c : chunk) : dechunker * wres :=
    if negb (String.eqb (dc_stream d) "") && negb (String.eqb (dc_stream d) (ch_stream c)) then (d, WErr EStream)
    else
      let d1 := if String.eqb (dc_stream d) ""
                then {| dc_stream := ch_stream c; dc_seq := dc_seq d; dc_file := dc_file d |} else d in
      if negb (Z.eqb (ch_seq c) (Z.add (dc_seq d1) 1)) then (d1, WErr EOrder)
      else
        let d2 := {| dc_stream := dc_stream d1; dc_seq := ch_seq c; dc_file := dc_file d1 |} in
        match ch_data c with
        | None => (d2, WOk (ch_last c))
        | Some z => match gunzip z with
                    | None => (d2, WErr EGzip)   (* gzip.NewReader failed: nothing written, seqNum already advanced *)
                    | Some p => ({| dc_stream := dc_stream d2; dc_seq := dc_seq d2; dc_file := dc_file d2 ++ p |}, WOk (ch_last c))
                    end
        end.

  (* feed every chunk, continuing after errors (as a receiver that reports each error does) *)
  Fixpoint run_dechunk (d : dechunker) (cs : list chunk) : list wres * dechunker :=
    match cs with
    | [] => ([], d)
    | c :: t => let (d', r) := write_chunk d c in
                let (rs, d'') := run_dechunk d' t in (r :: rs, d'')
    end.

  Definition is_ok (r : wres) : bool := match r with WOk _ => true | WErr _ => false end.
  Definition is_ok_last (r : wres) : bool := match r with WOk true => true | _ => false end.

  (* reassembly of a whole stream by a fresh Dechunker: file contents and whether a `last` chunk
     was seen, or DErr if any chunk was rejected *)
  Inductive dres := DOk (file : bytes) (completed : bool) | DErr.
  Definition dechunk (cs : list chunk) : dres :=
    let (rs, d) := run_dechunk new_dechunker cs in
    if forallb is_ok rs then DOk (dc_file d) (existsb is_ok_last rs) else DErr.

  (* -------------------------------------------------------------- DechunkerManager + CommandProcessor.Process (LOAD_CHUNK) *)
  (* one entry per live Dechunker, in creation order; each owns one temp file in the directory *)
  Definition mgr := list (string * dechunker).
  Fixpoint mget (m : mgr) (id : string) : option dechunker :=
    match m with [] => None | (k, v) :: t => if String.eqb k id then Some v else mget t id end.
  Fixpoint mset (m : mgr) (id : string) (d : dechunker) : mgr :=
    match m with
    | [] => [(id, d)]
    | (k, v) :: t => if String.eqb k id then (k, d) :: t else (k, v) :: mset t id d
    end.
  Fixpoint mdel (m : mgr) (id : string) : mgr :=
    match m with
    | [] => []
    | (k, v) :: t => if String.eqb k id then mdel t id else (k, v) :: mdel t id
    end.

  (* PDelivered f: the last chunk arrived; the reassembled file f was handed to the validity check / Swap
     and removed.  PErr: "failed to write chunk". *)
  Inductive pres := PAborted | PAccepted | PDelivered (file : bytes) | PErr (e : werr).

  Definition process (m : mgr) (c : chunk) : mgr * pres :=
    let id := ch_stream c in
    let d := match mget m id with Some d => d | None => new_dechunker end in   (* decMgmr.Get *)
    if ch_abort c then (mdel m id, PAborted)                                      (* Close; Delete; Remove(path) *)
    else
      let (d', r) := write_chunk d c in
      match r with
      | WErr e => (mset m id d', PErr e)
      | WOk false => (mset m id d', PAccepted)
      | WOk true => (mdel m id, PDelivered (dc_file d'))                          (* Close; Delete; Remove(path) *)
      end.

  (* the temp files in the directory: one per live dechunker *)
  Definition files (m : mgr) : list (string * bytes) := map (fun kv => (fst kv, dc_file (snd kv))) m.

  Fixpoint run_process (m : mgr) (cs : list chunk) : list (pres * list (string * bytes)) * mgr :=
    match cs with
    | [] => ([], m)
    | c :: t => let (m', r) := process m c in
                let (rs, m'') := run_process m' t in ((r, files m') :: rs, m'')
    end.
End Codec.

(* ---------------------------------------------------------------- correspondence *)
(* The codec used when the model is run on driver cases: "compressed" = 1 :: plaintext.  The driver reports
   a chunk payload that real gzip decodes to p as (1 :: p) and a payload that gzip.NewReader rejects as [0]. *)
Definition tgzip (b : bytes) : bytes := 1%N :: b.
Definition tgunzip (z : bytes) : option bytes :=
  match z with
  | x :: b => if N.eqb x 1 then Some b else None
  | [] => None
  end.

(* printable byte strings are written (bs "...") in driver cases *)
Fixpoint bs (s : string) : bytes :=
  match s with EmptyString => [] | String a t => Ascii.N_of_ascii a :: bs t end.

(* arbitrary byte strings are written (hx "0a1f..."), runs (rep x n), pseudo-random blocks (lcg seed n) - the same
   linear congruential generator the driver uses - and pieces of a let-bound stream (slice off len d) *)
Definition hexval (a : Ascii.ascii) : N :=
  let n := Ascii.N_of_ascii a in if N.ltb n 58 then N.sub n 48 else N.sub n 87.
Fixpoint hx (s : string) : bytes :=
  match s with
  | String a (String b t) => N.add (N.mul 16 (hexval a)) (hexval b) :: hx t
  | _ => []
  end.
Definition rep (x n : N) : bytes := repeat x (N.to_nat n).
Fixpoint lcg_aux (n : nat) (x : N) : bytes :=
  match n with
  | O => []
  | S k => let x' := N.modulo (N.add (N.mul x 1103515245) 12345) 2147483648 in
           N.modulo (N.div x' 65536) 256 :: lcg_aux k x'
  end.
Definition lcg (seed n : N) : bytes := lcg_aux (N.to_nat n) seed.
Definition slice (off len : N) (d : bytes) : bytes := take len (drop off d).

Definition bytes_eqb (a b : bytes) : bool := if list_eq_dec N.eq_dec a b then true else false.
Definition obytes_eqb (a b : option bytes) : bool :=
  match a, b with Some x, Some y => bytes_eqb x y | None, None => true | _, _ => false end.
Definition chunk_eqb (a b : chunk) : bool :=
  String.eqb (ch_stream a) (ch_stream b) && Z.eqb (ch_seq a) (ch_seq b) && Bool.eqb (ch_last a) (ch_last b)
  && Bool.eqb (ch_abort a) (ch_abort b) && obytes_eqb (ch_data a) (ch_data b).
Fixpoint list_eqb {A B} (eqb : A -> B -> bool) (a : list A) (b : list B) : bool :=
  match a, b with
  | [], [] => true
  | x :: a', y :: b' => eqb x y && list_eqb eqb a' b'
  | _, _ => false
  end.
Definition werr_eqb (a b : werr) : bool :=
  match a, b with EStream, EStream | EOrder, EOrder | EGzip, EGzip => true | _, _ => false end.
Definition wres_eqb (a b : wres) : bool :=
  match a, b with WOk x, WOk y => Bool.eqb x y | WErr x, WErr y => werr_eqb x y | _, _ => false end.
Definition files_eqb (a b : list (string * bytes)) : bool :=
  list_eqb (fun x y => String.eqb (fst x) (fst y) && bytes_eqb (snd x) (snd y)) a b.

(* what the driver saw Process do: the response class; for a delivery the reassembled bytes when the driver
   could still read them (it holds a hard link to every temp file that existed before the call) *)
Inductive pobs := OAborted | OAccepted | ODelivered (file : option bytes) | OErr (e : werr).
Definition pres_matches (m : pres) (o : pobs) : bool :=
  match m, o with
  | PAborted, OAborted | PAccepted, OAccepted => true
  | PDelivered f, ODelivered None => true
  | PDelivered f, ODelivered (Some g) => bytes_eqb f g
  | PErr a, OErr b => werr_eqb a b
  | _, _ => false
  end.

Inductive case :=
  (* Chunker on reader r with chunk size `size`, then a fresh Dechunker:
     observed chunks (stream id canonicalised to "S", payload as tgzip plaintext), per-chunk WriteChunk results, file *)
  | CRound (size : N) (r : reader) (o_chunks : list chunk) (o_res : list wres) (o_file : bytes) (o_abort : chunk)
  (* arbitrary chunk sequence into a fresh Dechunker: per-chunk results and the file afterwards *)
  | CFeed (cs : list chunk) (o_res : list wres) (o_file : bytes)
  (* arbitrary LOAD_CHUNK command sequence through CommandProcessor.Process with a fresh DechunkerManager:
     per command the response class and the temp files (owner stream, contents) in creation order *)
  | CProc (cs : list chunk) (o_steps : list (pobs * list (string * bytes))).

Definition check_case (c : case) : bool :=
  match c with
  | CRound size r o_chunks o_res o_file o_abort =>
      match chunk_stream tgzip "S" size r with
      | None => false
      | Some cs =>
          list_eqb chunk_eqb cs o_chunks && chunk_eqb (abort_chunk "S") o_abort &&
          (let (rs, d) := run_dechunk tgunzip new_dechunker cs in
           list_eqb wres_eqb rs o_res && bytes_eqb (dc_file d) o_file) &&
          (match dechunk tgunzip cs with DOk f _ => bytes_eqb f o_file | DErr => false end)
      end
  | CFeed cs o_res o_file =>
      let (rs, d) := run_dechunk tgunzip new_dechunker cs in
      list_eqb wres_eqb rs o_res && bytes_eqb (dc_file d) o_file
  | CProc cs o_steps =>
      let (steps, _) := run_process tgunzip [] cs in
      list_eqb (fun m o => pres_matches (fst m) (fst o) && files_eqb (snd m) (snd o)) steps o_steps
  end.
