(* C36 — the source-derived touch / Signal / Release / Reset (Gen/Throttler.v, regenerated from
   store/throttler/throttler.go on every run) are the hand model Model.C36.touch / signal /
   release / reset.
   Adapter.  The Go struct has no clock and its timer is an object: rep gives the Go-side
   struct of a model state (the timer object exists iff idleTimeout > 0, as New makes it);
   the translated methods return the new struct and the calls they made on the timer
   (E_timer_Reset d, E_timer_Stop), and absorb applies both to the model state:
   timer.Reset(d) arms the timer to fire d after now, timer.Stop() disarms it. *)
From Coq Require Import List ZArith Bool Lia ZifyBool.
From RQ Require Import Lib.GoLib.
From RQ Require Import Lib.GenTac.
From RQ Require Import Model.C36.
From RQ Require Import Gen.Throttler.
Import ListNotations.
Local Open Scope Z_scope.

(* The Section variables of the generated file (the calls that are not translated) are instantiated
   by position below; these lines pin their names, so a change of callee cannot go unnoticed. *)
Arguments Throttler_touch time_Timer _ : assert.
Arguments Throttler_Signal time_Timer _ : assert.
Arguments Throttler_Release time_Timer _ : assert.
Arguments Throttler_Reset time_Timer _ : assert.
Arguments E_timer_Reset a0 : assert.

Definition rep (s : state) : Throttler unit :=
  mk_Throttler unit (s_level s) (s_tbl s) (s_rate s) (s_idle s) (if 0 <? s_idle s then Some tt else None).

Definition apply_eff (s : state) (e : effect) : state :=
  match e with
  | E_timer_Reset d => set_timer s (Some (s_now s + d))
  | E_timer_Stop => set_timer s None
  end.

Definition absorb (s : state) (g : Throttler unit) (effs : list effect) : state :=
  fold_left apply_eff effs (set_level s (Throttler_delayFactor unit g)).

Ltac unf := aux; cbv beta iota zeta delta [absorb rep apply_eff Throttler_touch Throttler_Signal Throttler_Release
  Throttler_Reset touch signal release reset set_level set_timer max_level zlen set_Throttler_delayFactor
  fst snd fold_left app isSome
  Throttler_delayFactor Throttler_delays Throttler_releaseRate Throttler_idleTimeout Throttler_timer
  s_tbl s_rate s_idle s_level s_now s_timer] in *.

Lemma gen_touch_eq : forall s, absorb s (rep s) (Throttler_touch unit (rep s)) = touch s.
Proof. intros [tbl rate idle level now timer]; unf; gen_cases. Qed.

Lemma gen_Signal_eq : forall s,
  absorb s (fst (Throttler_Signal unit (rep s))) (snd (Throttler_Signal unit (rep s))) = signal s.
Proof. intros [tbl rate idle level now timer]; unf; gen_cases. Qed.

Lemma gen_Release_eq : forall s,
  absorb s (fst (Throttler_Release unit (rep s))) (snd (Throttler_Release unit (rep s))) = release s.
Proof. intros [tbl rate idle level now timer]; unf; gen_cases. Qed.

(* Reset stops the timer only if there is one; without one the model's timer is already None *)
Lemma gen_Reset_eq : forall s, (s_idle s <= 0 -> s_timer s = None) ->
  absorb s (fst (Throttler_Reset unit (rep s))) (snd (Throttler_Reset unit (rep s))) = reset s.
Proof. intros [tbl rate idle level now timer] H; unf; cbn in H; gen_cases; rewrite H by lia; reflexivity. Qed.

(* the translated methods leave everything but delayFactor alone *)
Lemma gen_frame : forall g,
  let same (g' : Throttler unit) :=
    Throttler_delays unit g' = Throttler_delays unit g /\ Throttler_releaseRate unit g' = Throttler_releaseRate unit g /\
    Throttler_idleTimeout unit g' = Throttler_idleTimeout unit g /\ Throttler_timer unit g' = Throttler_timer unit g in
  same (fst (Throttler_Signal unit g)) /\ same (fst (Throttler_Release unit g)) /\ same (fst (Throttler_Reset unit g)).
Proof. intros [df dl rr it tm]; unf; cbn; repeat split; gen_cases. Qed.

Lemma gen_throttler_eq :
  (forall s, absorb s (rep s) (Throttler_touch unit (rep s)) = touch s) /\
  (forall s, absorb s (fst (Throttler_Signal unit (rep s))) (snd (Throttler_Signal unit (rep s))) = signal s) /\
  (forall s, absorb s (fst (Throttler_Release unit (rep s))) (snd (Throttler_Release unit (rep s))) = release s) /\
  (forall s, (s_idle s <= 0 -> s_timer s = None) ->
     absorb s (fst (Throttler_Reset unit (rep s))) (snd (Throttler_Reset unit (rep s))) = reset s).
Proof. exact (conj gen_touch_eq (conj gen_Signal_eq (conj gen_Release_eq gen_Reset_eq))). Qed.
