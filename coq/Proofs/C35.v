(* C35 — specification and proofs about Model.C35 (one connection to the inter-node port). *)
From Coq Require Import List String Bool NArith ZArith Arith Lia ZifyBool ZifyNat ZifyN.
From RQ Require Import Lib.AList Model.C19 Model.C18 Model.C35 Proofs.C19 Proofs.C18.
Import ListNotations.
Open Scope N_scope.

(* dispatch is total: whatever integer arrives as the command type, there is a term for it *)
Lemma type_name_term (t : Z) : term_of (type_name t) <> None.
Proof.
  destruct t as [|p|p]; [discriminate | | discriminate].
  do 4 (destruct p as [p|p|]; try discriminate).
Qed.

Section Conn.
  Variable decode : list N -> option command.
  Variable st : option cstore.

  Lemma finish_end r e : r_end (finish r e) = e. Proof. reflexivity. Qed.

  (* ---- no crash, and the recursion budget is never the reason to stop ---- *)
  Lemma serve_closed fuel : forall input r,
    (List.length input < fuel)%nat -> r_end (serve decode st fuel input r) = EClosed.
  Proof.
    induction fuel as [|fuel IH]; intros input r Hf; [lia|].
    cbn [serve].
    destruct (Nat.ltb (List.length input) header_size) eqn:Hl; [reflexivity|].
    apply Nat.ltb_ge in Hl. unfold header_size in *.
    destruct (max_command_size <? _); [reflexivity|].
    destruct (N.of_nat _ <? _); [reflexivity|].
    destruct (decode _) as [c|] eqn:Hd; [|reflexivity].
    unfold handle. destruct (term_of (type_name (cm_type c))) as [h|] eqn:Ht.
    - rewrite (handlers_never_crash _ h _ _ _ Ht).
      apply IH. rewrite !skipn_length. lia.
    - exfalso. exact (type_name_term _ Ht).
  Qed.

  Theorem no_crash input : r_end (mux_serve decode st input) = EClosed.
  Proof.
    unfold mux_serve. destruct input as [|hd rest]; [reflexivity|].
    destruct (hd =? mux_cluster_header); [|reflexivity].
    apply serve_closed. lia.
  Qed.

  (* ---- memory: the read buffers never exceed twice the bytes received, plus a constant ---- *)
  Lemma serve_alloc fuel B : forall input r,
    r_alloc r <= B -> 2 * N.of_nat (List.length input) + 520 <= B ->
    r_alloc (serve decode st fuel input r) <= B.
  Proof.
    induction fuel as [|fuel IH]; intros input r Hr Hb; [exact Hr|].
    cbn [serve].
    destruct (Nat.ltb (List.length input) header_size) eqn:Hl; [exact Hr|].
    apply Nat.ltb_ge in Hl. unfold header_size in *.
    set (rest := skipn 8 input).
    assert (Hrest : (List.length rest = List.length input - 8)%nat) by (unfold rest; apply skipn_length).
    destruct (max_command_size <? _); [cbn [finish bump r_alloc]; lia|].
    destruct (N.of_nat (List.length rest) <? le64 (firstn 8 input)) eqn:Hsz.
    - cbn [finish bump r_alloc]. unfold buf_cap. lia.
    - apply N.ltb_ge in Hsz.
      destruct (decode _) as [c|]; [|cbn [finish bump r_alloc]; unfold buf_cap; lia].
      destruct (handle st c) as [h|]; [|cbn [finish bump r_alloc]; unfold buf_cap; lia].
      destruct (s_crash h); [cbn [finish absorb bump r_alloc]; unfold buf_cap; lia|].
      apply IH.
      + cbn [absorb bump r_alloc]. unfold buf_cap. lia.
      + rewrite skipn_length. lia.
  Qed.

  Theorem alloc_bounded input :
    r_alloc (mux_serve decode st input) <= 2 * N.of_nat (List.length input) + 520.
  Proof.
    unfold mux_serve. destruct input as [|hd rest]; [cbn; lia|].
    destruct (hd =? mux_cluster_header); [|cbn [res0 r_alloc]; lia].
    apply serve_alloc; cbn [res0 r_alloc List.length]; lia.
  Qed.

  (* ---- state changes only with permission ---- *)
  Definition permitted (x : string * command) : Prop :=
    let '(name, c) := x in
    meta_call name = false -> type_name (cm_type c) <> hwm ->
    exists g, required (type_name (cm_type c)) = Some g /\
              holds (authz st (cm_user c) (cm_pass c)) (cm_voter c) g = true.

  Lemma serve_permitted fuel : forall input r,
    (forall x, In x (r_calls r) -> permitted x) ->
    forall x, In x (r_calls (serve decode st fuel input r)) -> permitted x.
  Proof.
    induction fuel as [|fuel IH]; intros input r Hr; [exact Hr|].
    cbn [serve].
    destruct (Nat.ltb _ _); [exact Hr|].
    destruct (max_command_size <? _); [exact Hr|].
    destruct (N.of_nat _ <? _); [exact Hr|].
    destruct (decode _) as [c|]; [|exact Hr].
    unfold handle. destruct (term_of (type_name (cm_type c))) as [h|] eqn:Ht; [|exact Hr].
    set (hs := run _ _ _ h).
    assert (Hab : forall x, In x (r_calls (absorb (bump (bump r 8) (8 + buf_cap (le64 (firstn header_size input)))) c hs)) -> permitted x).
    { intros x Hin. cbn [absorb bump r_calls] in Hin. apply in_app_or in Hin as [Hin|Hin]; [now apply Hr|].
      apply in_map_iff in Hin as (name & <- & Hname).
      intros Hm Hn.
      assert (Hs : sensitive hs = true).
      { unfold sensitive. apply orb_true_iff. left. apply existsb_exists. exists name.
        split; [exact Hname | now rewrite Hm]. }
      pose proof (enforced_partial _ h _ _ _ _ Ht Hn Hs) as He.
      destruct (required (type_name (cm_type c))) as [g|]; [|contradiction]. now exists g. }
    destruct (s_crash hs); [exact Hab|]. now apply IH.
  Qed.

  Theorem no_state_change_without_perm_partial input name c :
    In (name, c) (r_calls (mux_serve decode st input)) ->
    meta_call name = false -> type_name (cm_type c) <> hwm ->
    exists g, required (type_name (cm_type c)) = Some g /\
              holds (authz st (cm_user c) (cm_pass c)) (cm_voter c) g = true.
  Proof.
    intros Hin. unfold mux_serve in Hin. destruct input as [|hd rest]; [contradiction|].
    destruct (hd =? mux_cluster_header); [|contradiction].
    refine (serve_permitted _ _ res0 _ _ Hin). intros x [].
  Qed.

  (* ---- malformed length: the connection is closed, nothing is called, nothing is written ---- *)
  Lemma serve_oversize fuel input r :
    (8 <= List.length input)%nat -> max_command_size < le64 (firstn header_size input) ->
    serve decode st (S fuel) input r = finish (bump r 8) EClosed.
  Proof.
    intros Hl Hsz. cbn [serve].
    destruct (Nat.ltb _ _) eqn:E; [apply Nat.ltb_lt in E; unfold header_size in E; lia|].
    apply N.ltb_lt in Hsz. rewrite Hsz. reflexivity.
  Qed.

  Theorem oversize_rejected hdr tail :
    List.length hdr = 8%nat -> max_command_size < le64 hdr ->
    let r := mux_serve decode st (mux_cluster_header :: hdr ++ tail) in
    r_calls r = [] /\ r_out r = [] /\ r_alloc r = 8 /\ r_end r = EClosed.
  Proof.
    intros Hl Hsz. cbn [mux_serve]. rewrite N.eqb_refl. rewrite serve_oversize.
    - cbn. auto.
    - rewrite app_length. lia.
    - unfold header_size. rewrite <- Hl. rewrite firstn_app, Nat.sub_diag, firstn_all.
      cbn [firstn]. now rewrite app_nil_r.
  Qed.
End Conn.

(* The statement at full strength fails: under a store that grants nothing to anybody, nine bytes
   make the node act on a high-water-mark update (given a decoder that reads them as one). *)
Definition hwm_cmd := {| cm_type := 13%Z; cm_nil := false; cm_voter := false; cm_user := ""; cm_pass := "" |}.
Theorem state_change_refuted :
  exists decode input,
    (forall u p perm, authz (Some (load [])) u p perm = false) /\
    In ("HWM"%string, hwm_cmd) (r_calls (mux_serve decode (Some (load [])) input)).
Proof.
  exists (fun _ => Some hwm_cmd), [2; 0; 0; 0; 0; 0; 0; 0; 0]. split.
  - destruct hwm_refuted as (_ & _ & H & _). exact H.
  - vm_compute. now left.
Qed.

(* ---- non-vacuity: two frames on one connection; the second is cut short ---- *)
Example ex_cmd := {| cm_type := 2%Z; cm_nil := false; cm_voter := false; cm_user := "u1"; cm_pass := "pw1" |}.
Example ex_dec (p : list N) : option command :=
  match p with [7] => Some ex_cmd | [9] => Some hwm_cmd | _ => None end.
Example ex_store := Some (load [ {| username := "u1"; password := "pw1"; perms := ["execute"%string] |} ]).
Example ex_run :
  let r := mux_serve ex_dec ex_store [2; 1;0;0;0;0;0;0;0; 7;  255;255;255;127;0;0;0;0; 1; 2] in
  map fst (r_calls r) = ["Execute"%string] /\ r_out r = [OFrame ""] /\ r_end r = EClosed /\ r_alloc r = 8 + 2 * 2 + 512.
Proof. vm_compute. auto. Qed.
(* a type outside the enum — negative — is a command nobody handles: nothing called, nothing written, the loop goes on *)
Example ex_negative_type :
  let neg := {| cm_type := (-1)%Z; cm_nil := true; cm_voter := false; cm_user := ""; cm_pass := "" |} in
  let dec (p : list N) := match p with [7] => Some ex_cmd | _ => Some neg end in
  let r := mux_serve dec ex_store [2; 6;0;0;0;0;0;0;0; 8;255;255;255;255;15;  1;0;0;0;0;0;0;0; 7] in
  map fst (r_calls r) = ["Execute"%string] /\ r_out r = [OFrame ""] /\ r_end r = EClosed.
Proof. vm_compute. auto. Qed.
