(* C34 — proofs.  Specification side written from the property text:
   - the gate admits at most one holder at a time;
   - the snapshot store lock admits either readers or one writer, never both, and a blocking
     acquirer proceeds once holders release;
   - index waiters are woken exactly when the applied index reaches their target, never before. *)
From Coq Require Import List String Bool ZArith NArith Arith Lia Permutation.
From Coq Require Import ZifyBool ZifyNat ZifyN.
From RQ Require Import Lib.C34_Sched Model.C34.
Import ListNotations.
Open Scope string_scope.

(* ------------------------------------------------------------------ helpers *)
Lemma memn_In : forall t l, memn t l = true <-> In t l.
Proof.
  intros t l. unfold memn. rewrite existsb_exists. split.
  - intros (x & Hin & He). apply Nat.eqb_eq in He. subst. exact Hin.
  - intros Hin. exists t. split; [exact Hin|apply Nat.eqb_refl].
Qed.

Lemma memn_false : forall t l, memn t l = false <-> ~ In t l.
Proof.
  intros t l. rewrite <- memn_In. destruct (memn t l); split; congruence.
Qed.

Lemma remove1_length : forall t l, In t l -> S (List.length (remove1 t l)) = List.length l.
Proof.
  induction l as [|x l IH]; intros Hin; [destruct Hin|].
  cbn [remove1]. destruct (Nat.eqb x t) eqn:E; [reflexivity|].
  cbn [List.length]. f_equal. apply IH. destruct Hin as [->|H]; [|exact H].
  rewrite Nat.eqb_refl in E. discriminate.
Qed.

Lemma remove1_single : forall t, remove1 t [t] = [].
Proof. intros t. cbn. now rewrite Nat.eqb_refl. Qed.

Lemma nodup_app_r : forall (l l' : list nat), NoDup (l ++ l') -> NoDup l'.
Proof.
  induction l as [|x l IH]; intros l' H; [exact H|].
  cbn [app] in H. inversion H; subst. apply IH. assumption.
Qed.

Lemma Add_snoc : forall (a : nat) l, Add a l (l ++ [a]).
Proof. induction l as [|x l IH]; cbn [app]; [apply Add_head|apply Add_cons; exact IH]. Qed.

Lemma is_empty_true : forall s, is_empty s = true <-> s = "".
Proof. intros s. unfold is_empty. apply String.eqb_eq. Qed.

(* ------------------------------------------------------------------ CheckAndSet *)
Definition cas_inv (s : cas) : Prop :=
  (c_state s = true /\ exists t, c_holders s = [t]) \/ (c_state s = false /\ c_holders s = []).

Lemma cas_inv_step : forall s a, cas_inv s -> cas_enabled s a = true -> cas_inv (cas_step s a).
Proof.
  intros s a Hinv Hen. destruct a as [t o|t]; unfold cas_step; cbn [cas_step_obs].
  - destruct Hinv as [[Hs Hh]|[Hs Hh]]; rewrite Hs; cbn [fst].
    + left. split; assumption.
    + left. cbn. rewrite Hh. split; [reflexivity|exists t; reflexivity].
  - cbn [fst]. right. cbn. split; [reflexivity|].
    cbn [cas_enabled] in Hen. apply memn_In in Hen.
    destruct Hinv as [[_ [u Hh]]|[_ Hh]]; rewrite Hh in *.
    + destruct Hen as [->|[]]. apply remove1_single.
    + destruct Hen.
Qed.

Lemma cas_reach_inv : forall l s, run cas_enabled cas_step cas_init l = Some s -> cas_inv s.
Proof.
  intros l s. apply (invariant_rule cas_enabled cas_step cas_inv).
  - right. split; reflexivity.
  - exact cas_inv_step.
Qed.

(* at most one holder, in every reachable state of every schedule of any number of threads *)
Lemma cas_mutex : forall l s, run cas_enabled cas_step cas_init l = Some s ->
  List.length (c_holders s) <= 1 /\ (c_state s = true <-> c_holders s <> []).
Proof.
  intros l s Hr. destruct (cas_reach_inv l s Hr) as [[Hs [t Hh]]|[Hs Hh]]; rewrite Hs, Hh; cbn.
  - split; [lia|]. split; [discriminate|reflexivity].
  - split; [lia|]. split; [discriminate|congruence].
Qed.

(* Begin succeeds exactly when nobody is inside; then the caller is the one holder and the
   reported owner is the caller's name *)
Lemma cas_begin_exact : forall l s t o, run cas_enabled cas_step cas_init l = Some s ->
  (snd (cas_step_obs s (CBegin t o)) = Ok <-> c_holders s = []) /\
  (snd (cas_step_obs s (CBegin t o)) = Ok ->
     c_holders (cas_step s (CBegin t o)) = [t] /\ c_owner (cas_step s (CBegin t o)) = o) /\
  (snd (cas_step_obs s (CBegin t o)) <> Ok ->
     snd (cas_step_obs s (CBegin t o)) = Conflict /\ cas_step s (CBegin t o) = s).
Proof.
  intros l s t o Hr. unfold cas_step. cbn [cas_step_obs].
  destruct (cas_reach_inv l s Hr) as [[Hs [u Hh]]|[Hs Hh]]; rewrite Hs; cbn [fst snd].
  - rewrite Hh. repeat split; try discriminate; try congruence.
  - cbn. rewrite Hh. repeat split; congruence.
Qed.

Example cas_example :
  exists s, run cas_enabled cas_step cas_init [CBegin 0 "a"; CBegin 1 "b"; CEnd 0; CBegin 1 "b"] = Some s
            /\ c_holders s = [1] /\ c_owner s = "b".
Proof. eexists. split; [vm_compute; reflexivity|]. split; reflexivity. Qed.

(* ------------------------------------------------------------------ MultiRSW *)
Notation held s := (negb (is_empty (m_owner s))).

Record linv (s : mrsw) : Prop := {
  i_nr : m_nr s = Z.of_nat (List.length (m_rd s));
  i_own : held s = true -> m_rd s = [] /\ exists t, m_wr s = [t];
  i_free : held s = false -> m_wr s = [];
  i_wait : forall t k, In (t, k) (m_wait s) -> guard_blocked s k = true;
  i_names : forall t o, In (t, WW o) (m_wait s ++ m_woken s) -> is_empty o = false;
  i_nodup : NoDup (map fst (m_wait s ++ m_woken s)) }.

Definition name_ok (k : wkind) : Prop := match k with WR => True | WW o => is_empty o = false end.

Lemma guard_WR : forall s, guard_blocked s WR = held s.
Proof. reflexivity. Qed.
Lemma guard_WW : forall s o, guard_blocked s (WW o) = held s || (0 <? m_nr s)%Z.
Proof. reflexivity. Qed.

(* a state in which somebody acquired: every parked goroutine's guard stays closed *)
Lemma acquire_linv : forall s t k,
  linv s -> guard_blocked s k = false -> name_ok k -> linv (acquire s t k).
Proof.
  intros s t k [Hnr Hown Hfree Hwait Hnames Hnd] Hg Hname.
  destruct k as [|o].
  - (* reader *)
    rewrite guard_WR in Hg.
    constructor; cbn [acquire m_owner m_nr m_wait m_woken m_rd m_wr] in *;
      fold (held s) in *.
    + rewrite Hnr. cbn [List.length]. lia.
    + intros H. congruence.
    + intros _. apply Hfree. exact Hg.
    + intros u k Hin. specialize (Hwait u k Hin). destruct k as [|o].
      * rewrite guard_WR in Hwait. congruence.
      * rewrite guard_WW in Hwait. unfold guard_blocked. cbn [m_owner m_nr].
        fold (held s). rewrite Hg in *. cbn [orb] in *. lia.
    + exact Hnames.
    + exact Hnd.
  - (* writer *)
    rewrite guard_WW in Hg. apply orb_false_iff in Hg as [Hh Hz]. cbn [name_ok] in Hname.
    assert (Hrd : m_rd s = []).
    { destruct (m_rd s) as [|x r] eqn:E; [reflexivity|]. cbn [List.length] in Hnr. lia. }
    constructor; cbn [acquire m_owner m_nr m_wait m_woken m_rd m_wr] in *.
    + exact Hnr.
    + intros _. split; [exact Hrd|]. exists t. rewrite (Hfree Hh). reflexivity.
    + rewrite Hname. discriminate.
    + intros u k Hin. destruct k as [|o']; unfold guard_blocked; cbn [m_owner m_nr]; rewrite Hname; reflexivity.
    + exact Hnames.
    + exact Hnd.
Qed.

Lemma park_linv : forall s t k,
  linv s -> guard_blocked s k = true -> name_ok k ->
  ~ In t (map fst (m_wait s ++ m_woken s)) -> linv (park s t k).
Proof.
  intros s t k [Hnr Hown Hfree Hwait Hnames Hnd] Hg Hname Hnin.
  constructor; cbn [park m_owner m_nr m_wait m_woken m_rd m_wr] in *; try assumption.
  - intros u k' Hin. apply in_app_or in Hin as [Hin|[Heq|[]]].
    + specialize (Hwait u k' Hin). destruct k'; exact Hwait.
    + injection Heq as <- <-. destruct k; exact Hg.
  - intros u o Hin. rewrite <- app_assoc in Hin. apply in_app_or in Hin as [Hin|Hin].
    + apply (Hnames u o). apply in_or_app. left. exact Hin.
    + cbn [app] in Hin. destruct Hin as [Heq|Hin].
      * injection Heq as Ht Hk. subst k. exact Hname.
      * apply (Hnames u o). apply in_or_app. right. exact Hin.
  - rewrite <- app_assoc. cbn [app]. rewrite map_app. cbn [map fst].
    apply NoDup_Add with (a := t) (l := (map fst (m_wait s) ++ map fst (m_woken s))%list).
    + apply Add_app.
    + rewrite <- map_app. split; assumption.
Qed.

Lemma broadcast_linv : forall s,
  linv s -> linv (broadcast s).
Proof.
  intros s [Hnr Hown Hfree Hwait Hnames Hnd].
  constructor; cbn [broadcast m_owner m_nr m_wait m_woken m_rd m_wr app] in *; try assumption.
  - intros t k [].
  - intros t o Hin. apply (Hnames t o). apply in_app_or in Hin. apply in_or_app. tauto.
  - eapply Permutation_NoDup; [|exact Hnd]. apply Permutation_map. apply Permutation_app_comm.
Qed.

(* find_w / remove_w on lists without duplicate thread ids *)
Lemma find_w_In : forall t l k, find_w t l = Some k -> In (t, k) l.
Proof.
  induction l as [|[u k'] l IH]; intros k H; cbn [find_w] in H; [discriminate|].
  destruct (Nat.eqb u t) eqn:E.
  - apply Nat.eqb_eq in E. injection H as <-. subst. left. reflexivity.
  - right. apply IH. exact H.
Qed.

Lemma find_w_some : forall t l, In t (map fst l) -> exists k, find_w t l = Some k.
Proof.
  induction l as [|[u k'] l IH]; intros H; cbn [map fst] in H; [destruct H|].
  cbn [find_w]. destruct (Nat.eqb u t) eqn:E; [eexists; reflexivity|].
  destruct H as [->|H]; [rewrite Nat.eqb_refl in E; discriminate|]. apply IH. exact H.
Qed.

Lemma find_w_unique : forall t l k, NoDup (map fst l) -> In (t, k) l -> find_w t l = Some k.
Proof.
  induction l as [|[u k'] l IH]; intros k Hnd Hin; [destruct Hin|].
  cbn [map fst] in Hnd. inversion Hnd as [|? ? Hnin Hnd']; subst.
  cbn [find_w]. destruct Hin as [Heq|Hin].
  - injection Heq as -> ->. now rewrite Nat.eqb_refl.
  - destruct (Nat.eqb u t) eqn:E.
    + apply Nat.eqb_eq in E. subst. exfalso. apply Hnin. apply (in_map fst) in Hin. exact Hin.
    + apply IH; assumption.
Qed.

Lemma remove_w_perm : forall t l k, find_w t l = Some k -> Permutation l ((t, k) :: remove_w t l).
Proof.
  induction l as [|[u k'] l IH]; intros k H; cbn [find_w] in H; [discriminate|].
  cbn [remove_w]. destruct (Nat.eqb u t) eqn:E.
  - apply Nat.eqb_eq in E. injection H as <-. subst. apply Permutation_refl.
  - eapply perm_trans; [apply perm_skip; apply IH; exact H|]. apply perm_swap.
Qed.

Definition unwoken (s : mrsw) (t : nat) : mrsw :=
  {| m_owner := m_owner s; m_nr := m_nr s; m_wait := m_wait s; m_woken := remove_w t (m_woken s);
     m_rd := m_rd s; m_wr := m_wr s |}.

Lemma unwoken_linv : forall s t k, linv s -> find_w t (m_woken s) = Some k ->
  linv (unwoken s t) /\ name_ok k /\ ~ In t (map fst (m_wait (unwoken s t) ++ m_woken (unwoken s t))).
Proof.
  intros s t k [Hnr Hown Hfree Hwait Hnames Hnd] Hf.
  pose proof (remove_w_perm _ _ _ Hf) as Hp.
  assert (Hp2 : Permutation (m_wait s ++ m_woken s) ((t, k) :: m_wait s ++ remove_w t (m_woken s))).
  { eapply perm_trans; [apply Permutation_app_head; exact Hp|]. apply Permutation_sym, Permutation_middle. }
  assert (Hnd2 : NoDup (t :: map fst (m_wait s ++ remove_w t (m_woken s)))).
  { eapply Permutation_NoDup; [|exact Hnd]. apply (Permutation_map fst) in Hp2. exact Hp2. }
  split; [|split].
  - constructor; cbn [unwoken m_owner m_nr m_wait m_woken m_rd m_wr]; try assumption.
    + intros u o Hin. apply (Hnames u o). eapply Permutation_in; [apply Permutation_sym; exact Hp2|].
      right. exact Hin.
    + inversion Hnd2; assumption.
  - destruct k as [|o]; [exact I|]. apply (Hnames t o). apply in_or_app. right. apply find_w_In. exact Hf.
  - cbn [unwoken m_wait m_woken]. inversion Hnd2; assumption.
Qed.

Lemma try_blocking_linv : forall s t k, linv s -> name_ok k ->
  ~ In t (map fst (m_wait s ++ m_woken s)) -> linv (fst (try_blocking s t k)).
Proof.
  intros s t k Hinv Hname Hnin. unfold try_blocking.
  destruct (guard_blocked s k) eqn:Hg; cbn [fst].
  - apply park_linv; assumption.
  - apply acquire_linv; assumption.
Qed.

Lemma not_blocked_nin : forall s t, is_blocked s t = false -> ~ In t (map fst (m_wait s ++ m_woken s)).
Proof.
  intros s t H. unfold is_blocked in H. apply orb_false_iff in H as [H1 H2].
  apply memn_false in H1. apply memn_false in H2. rewrite map_app. intros Hin.
  apply in_app_or in Hin. tauto.
Qed.

Lemma held_false_rd : forall s, linv s -> m_rd s <> [] -> held s = false.
Proof.
  intros s Hinv Hne. destruct (held s) eqn:E; [|reflexivity].
  destruct (i_own s Hinv E) as [H _]. contradiction.
Qed.

Lemma mrsw_linv_step : forall s a, linv s -> mrsw_enabled s a = true -> linv (mrsw_step s a).
Proof.
  intros s a Hinv Hen. unfold mrsw_step.
  destruct a as [t|t|t|t o|t o|t|t o|t]; cbn [mrsw_step_obs mrsw_enabled] in *.
  - (* BeginRead *)
    apply negb_true_iff in Hen. fold (held s).
    destruct (held s) eqn:Hh; cbn [fst]; [exact Hinv|].
    apply acquire_linv; [exact Hinv|rewrite guard_WR; exact Hh|exact I].
  - (* BeginReadBlocking *)
    apply negb_true_iff in Hen. apply try_blocking_linv; [exact Hinv|exact I|].
    apply not_blocked_nin. exact Hen.
  - (* EndRead *)
    apply andb_true_iff in Hen as [Hnb Hin]. apply memn_In in Hin.
    pose proof (remove1_length t (m_rd s) Hin) as Hlen.
    assert (Hh : held s = false).
    { apply held_false_rd; [exact Hinv|]. intros E. rewrite E in Hin. destruct Hin. }
    destruct Hinv as [Hnr Hown Hfree Hwait Hnames Hnd].
    set (s1 := {| m_owner := m_owner s; m_nr := (m_nr s - 1)%Z; m_wait := m_wait s; m_woken := m_woken s;
                  m_rd := remove1 t (m_rd s); m_wr := m_wr s |}).
    assert (Hinv1 : (0 < m_nr s1)%Z -> linv s1).
    { intros Hpos. constructor; subst s1; cbn [m_owner m_nr m_wait m_woken m_rd m_wr] in *; try assumption.
      - lia.
      - fold (held s). congruence.
      - intros u k Hi. specialize (Hwait u k Hi). destruct k as [|o].
        + rewrite guard_WR in Hwait. congruence.
        + unfold guard_blocked. cbn [m_owner m_nr]. fold (held s). rewrite Hh. cbn [orb]. lia. }
    assert (Hinv0 : m_nr s1 = 0%Z -> linv (broadcast s1)).
    { intros Hz. assert (Hl : linv {| m_owner := m_owner s; m_nr := m_nr s1; m_wait := []; m_woken := m_woken s ++ m_wait s;
                                    m_rd := m_rd s1; m_wr := m_wr s |}).
      { constructor; subst s1; cbn [m_owner m_nr m_wait m_woken m_rd m_wr app] in *; try assumption.
        - lia.
        - fold (held s). congruence.
        - intros u k [].
        - intros u o Hi. apply (Hnames u o). apply in_app_or in Hi. apply in_or_app. tauto.
        - eapply Permutation_NoDup; [|exact Hnd]. apply Permutation_map. apply Permutation_app_comm. }
      exact Hl. }
    assert (Hge : (0 <= m_nr s1)%Z) by (subst s1; cbn [m_nr]; lia).
    destruct (m_nr s1 <? 0)%Z eqn:E1; [lia|].
    destruct (m_nr s1 =? 0)%Z eqn:E2; cbn [fst].
    + apply Hinv0. lia.
    + apply Hinv1. lia.
  - (* BeginWrite *)
    apply andb_true_iff in Hen as [Hnb Hname]. apply negb_true_iff in Hnb, Hname.
    rewrite Hname. fold (held s).
    destruct (held s) eqn:Hh; cbn [fst]; [exact Hinv|].
    destruct (0 <? m_nr s)%Z eqn:Hz; cbn [fst]; [exact Hinv|].
    apply acquire_linv; [exact Hinv| rewrite guard_WW, Hh, Hz; reflexivity|exact Hname].
  - (* BeginWriteBlocking *)
    apply andb_true_iff in Hen as [Hnb Hname]. apply negb_true_iff in Hnb, Hname.
    rewrite Hname. apply try_blocking_linv; [exact Hinv|exact Hname|apply not_blocked_nin; exact Hnb].
  - (* EndWrite *)
    apply andb_true_iff in Hen as [Hnb Hin]. apply memn_In in Hin.
    assert (Hh : held s = true).
    { destruct (held s) eqn:E; [reflexivity|]. rewrite (i_free s Hinv E) in Hin. destruct Hin. }
    assert (He : is_empty (m_owner s) = false) by (apply negb_true_iff in Hh; exact Hh).
    rewrite He. cbn [fst].
    destruct Hinv as [Hnr Hown Hfree Hwait Hnames Hnd].
    destruct (Hown Hh) as [Hrd [u Hwr]].
    constructor; cbn [broadcast m_owner m_nr m_wait m_woken m_rd m_wr held app is_empty] in *; try assumption.
    + discriminate.
    + intros _. rewrite Hwr in *. destruct Hin as [->|[]]. apply remove1_single.
    + intros ? ? [].
    + intros v o Hi. apply (Hnames v o). apply in_app_or in Hi. apply in_or_app. tauto.
    + eapply Permutation_NoDup; [|exact Hnd]. apply Permutation_map. apply Permutation_app_comm.
  - (* UpgradeToWriter *)
    apply andb_true_iff in Hen as [Hen Hname]. apply andb_true_iff in Hen as [Hnb Hin].
    apply negb_true_iff in Hname. apply memn_In in Hin.
    assert (Hh : held s = false).
    { apply held_false_rd; [exact Hinv|]. intros E. rewrite E in Hin. destruct Hin. }
    fold (held s). rewrite Hh.
    destruct (1 <? m_nr s)%Z eqn:E1; cbn [fst]; [exact Hinv|].
    pose proof (remove1_length t (m_rd s) Hin) as Hlen.
    destruct Hinv as [Hnr Hown Hfree Hwait Hnames Hnd].
    destruct (m_nr s =? 0)%Z eqn:E0; [lia|]. cbn [fst].
    constructor; cbn [m_owner m_nr m_wait m_woken m_rd m_wr] in *; try assumption.
    + assert (List.length (remove1 t (m_rd s)) = 0%nat) by lia.
      destruct (remove1 t (m_rd s)); [reflexivity|discriminate].
    + intros _. split.
      * assert (List.length (remove1 t (m_rd s)) = 0%nat) by lia.
        destruct (remove1 t (m_rd s)); [reflexivity|discriminate].
      * exists t. rewrite (Hfree Hh). reflexivity.
    + rewrite Hname. discriminate.
    + intros u k Hi. destruct k; unfold guard_blocked; cbn [m_owner m_nr]; rewrite Hname; reflexivity.
  - (* Resume *)
    apply memn_In in Hen. destruct (find_w_some _ _ Hen) as [k Hf]. rewrite Hf.
    destruct (unwoken_linv s t k Hinv Hf) as (Hinv' & Hname & Hnin).
    apply (try_blocking_linv (unwoken s t) t k Hinv' Hname Hnin).
Qed.

Lemma mrsw_init_linv : linv mrsw_init.
Proof.
  constructor; cbn; try reflexivity; try discriminate.
  - intros ? ? [].
  - intros ? ? [].
  - constructor.
Qed.

Lemma mrsw_reach_linv : forall l s, run mrsw_enabled mrsw_step mrsw_init l = Some s -> linv s.
Proof.
  intros l s. apply (invariant_rule mrsw_enabled mrsw_step linv).
  - exact mrsw_init_linv.
  - exact mrsw_linv_step.
Qed.

(* readers or one writer, never both; the reader count is the number of read holds (never negative) *)
Lemma mrsw_exclusion : forall l s, run mrsw_enabled mrsw_step mrsw_init l = Some s ->
  m_nr s = Z.of_nat (List.length (m_rd s)) /\ (0 <= m_nr s)%Z /\
  (m_owner s <> "" -> m_nr s = 0%Z /\ m_rd s = [] /\ exists t, m_wr s = [t]) /\
  (m_owner s = "" -> m_wr s = []) /\
  (m_rd s <> [] -> m_wr s = [] /\ m_owner s = "").
Proof.
  intros l s Hr. destruct (mrsw_reach_linv l s Hr) as [Hnr Hown Hfree Hwait Hnames Hnd].
  pose proof (is_empty_true (m_owner s)) as Hiff.
  split; [exact Hnr|]. split; [lia|].
  destruct (is_empty (m_owner s)) eqn:E; cbn [negb] in *.
  - assert (He : m_owner s = "") by (apply Hiff; reflexivity).
    split; [intros Hc; contradiction|]. split; [intros _; apply Hfree; reflexivity|].
    intros _. split; [apply Hfree; reflexivity|exact He].
  - assert (Hne : m_owner s <> "") by (intros He; apply Hiff in He; discriminate).
    destruct (Hown eq_refl) as [Hrd Hw].
    split; [intros _; rewrite Hnr, Hrd; cbn; auto|]. split; [intros Hc; contradiction|].
    intros Hc; contradiction.
Qed.

(* a client that follows the protocol never makes the lock panic *)
Lemma mrsw_no_panic : forall l s a, run mrsw_enabled mrsw_step mrsw_init l = Some s ->
  mrsw_enabled s a = true ->
  snd (mrsw_step_obs s a) <> Panic /\ snd (mrsw_step_obs s a) <> Invalid.
Proof.
  intros l s a Hr Hen. pose proof (mrsw_reach_linv l s Hr) as Hinv.
  assert (Htb : forall s t k, snd (try_blocking s t k) <> Panic /\ snd (try_blocking s t k) <> Invalid).
  { intros s0 t k. unfold try_blocking. destruct (guard_blocked s0 k); cbn; split; discriminate. }
  destruct a as [t|t|t|t o|t o|t|t o|t]; cbn [mrsw_step_obs mrsw_enabled] in *.
  - destruct (negb (is_empty (m_owner s))); cbn; split; discriminate.
  - apply Htb.
  - apply andb_true_iff in Hen as [_ Hin]. apply memn_In in Hin.
    pose proof (remove1_length t (m_rd s) Hin) as Hlen. pose proof (i_nr s Hinv) as Hnr.
    cbn [m_nr]. destruct (m_nr s - 1 <? 0)%Z eqn:E; [lia|].
    destruct (m_nr s - 1 =? 0)%Z; cbn; split; discriminate.
  - apply andb_true_iff in Hen as [_ Hname]. apply negb_true_iff in Hname. rewrite Hname.
    destruct (negb (is_empty (m_owner s))); cbn; [split; discriminate|].
    destruct (0 <? m_nr s)%Z; cbn; split; discriminate.
  - apply andb_true_iff in Hen as [_ Hname]. apply negb_true_iff in Hname. rewrite Hname. apply Htb.
  - apply andb_true_iff in Hen as [_ Hin]. apply memn_In in Hin.
    destruct (is_empty (m_owner s)) eqn:E; cbn; [|split; discriminate].
    exfalso. assert (Hh : held s = false) by (rewrite E; reflexivity).
    rewrite (i_free s Hinv Hh) in Hin. destruct Hin.
  - apply andb_true_iff in Hen as [Hen _]. apply andb_true_iff in Hen as [_ Hin]. apply memn_In in Hin.
    pose proof (remove1_length t (m_rd s) Hin) as Hlen. pose proof (i_nr s Hinv) as Hnr.
    destruct (negb (is_empty (m_owner s))); cbn; [split; discriminate|].
    destruct (1 <? m_nr s)%Z; cbn; [split; discriminate|].
    destruct (m_nr s =? 0)%Z eqn:E; [lia|]. cbn. split; discriminate.
  - apply memn_In in Hen. destruct (find_w_some _ _ Hen) as [k Hf]. rewrite Hf. apply Htb.
Qed.

(* no lost wake-up: nobody sleeps in cond.Wait while its guard is open; so a blocked acquirer
   whose guard is open has been woken, its Resume step is enabled, and that step acquires *)
Lemma mrsw_no_lost_wakeup : forall l s t k, run mrsw_enabled mrsw_step mrsw_init l = Some s ->
  In (t, k) (m_wait s ++ m_woken s) -> guard_blocked s k = false ->
  In (t, k) (m_woken s) /\ mrsw_enabled s (MResume t) = true /\
  mrsw_step_obs s (MResume t) = (acquire (unwoken s t) t k, Ok).
Proof.
  intros l s t k Hr Hin Hg. pose proof (mrsw_reach_linv l s Hr) as Hinv.
  assert (Hw : In (t, k) (m_woken s)).
  { apply in_app_or in Hin as [Hin|Hin]; [|exact Hin].
    rewrite (i_wait s Hinv t k Hin) in Hg. discriminate. }
  split; [exact Hw|]. split.
  - cbn [mrsw_enabled]. apply memn_In. apply (in_map fst) in Hw. exact Hw.
  - cbn [mrsw_step_obs].
    assert (Hnd : NoDup (map fst (m_woken s))).
    { pose proof (i_nodup s Hinv) as H. rewrite map_app in H. apply nodup_app_r in H. exact H. }
    rewrite (find_w_unique t (m_woken s) k Hnd Hw). unfold try_blocking.
    fold (unwoken s t).
    assert (Hg' : guard_blocked (unwoken s t) k = guard_blocked s k) by (destruct k; reflexivity).
    rewrite Hg', Hg. reflexivity.
Qed.

(* ... in particular once every holder has released (no read hold, no write hold) *)
Lemma mrsw_released_enables : forall l s t k, run mrsw_enabled mrsw_step mrsw_init l = Some s ->
  In (t, k) (m_wait s ++ m_woken s) -> m_rd s = [] -> m_wr s = [] ->
  mrsw_enabled s (MResume t) = true /\
  mrsw_step_obs s (MResume t) = (acquire (unwoken s t) t k, Ok).
Proof.
  intros l s t k Hr Hin Hrd Hwr. pose proof (mrsw_reach_linv l s Hr) as Hinv.
  assert (Hh : held s = false).
  { destruct (held s) eqn:E; [|reflexivity]. destruct (i_own s Hinv E) as [_ [u Hu]]. congruence. }
  assert (Hg : guard_blocked s k = false).
  { destruct k as [|o]; [rewrite guard_WR; exact Hh|].
    rewrite guard_WW, Hh. pose proof (i_nr s Hinv) as Hnr. rewrite Hrd in Hnr. cbn in Hnr.
    rewrite Hnr. reflexivity. }
  destruct (mrsw_no_lost_wakeup l s t k Hr Hin Hg) as (_ & H1 & H2). split; assumption.
Qed.

(* a blocked reader only needs the writer to leave *)
Lemma mrsw_reader_enabled_without_writer : forall l s t, run mrsw_enabled mrsw_step mrsw_init l = Some s ->
  In (t, WR) (m_wait s ++ m_woken s) -> m_wr s = [] ->
  mrsw_enabled s (MResume t) = true /\
  mrsw_step_obs s (MResume t) = (acquire (unwoken s t) t WR, Ok).
Proof.
  intros l s t Hr Hin Hwr. pose proof (mrsw_reach_linv l s Hr) as Hinv.
  assert (Hh : held s = false).
  { destruct (held s) eqn:E; [|reflexivity]. destruct (i_own s Hinv E) as [_ [u Hu]]. congruence. }
  destruct (mrsw_no_lost_wakeup l s t WR Hr Hin) as (_ & H1 & H2); [rewrite guard_WR; exact Hh|].
  split; assumption.
Qed.

(* UpgradeToWriter by a read holder: succeeds exactly when it is the only reader; it then is
   the writer and no reader is left; otherwise nothing changes *)
Lemma mrsw_upgrade : forall l s t o, run mrsw_enabled mrsw_step mrsw_init l = Some s ->
  mrsw_enabled s (MUpgrade t o) = true ->
  (snd (mrsw_step_obs s (MUpgrade t o)) = Ok <-> m_rd s = [t]) /\
  (snd (mrsw_step_obs s (MUpgrade t o)) = Ok ->
     let s' := mrsw_step s (MUpgrade t o) in
     m_owner s' = o /\ m_nr s' = 0%Z /\ m_rd s' = [] /\ m_wr s' = [t]) /\
  (snd (mrsw_step_obs s (MUpgrade t o)) <> Ok ->
     snd (mrsw_step_obs s (MUpgrade t o)) = Conflict /\ mrsw_step s (MUpgrade t o) = s).
Proof.
  intros l s t o Hr Hen. pose proof (mrsw_reach_linv l s Hr) as Hinv.
  pose proof (mrsw_linv_step s _ Hinv Hen) as Hinv'.
  cbn [mrsw_enabled] in Hen.
  apply andb_true_iff in Hen as [Hen Hname]. apply andb_true_iff in Hen as [_ Hin].
  apply negb_true_iff in Hname. apply memn_In in Hin.
  assert (Hh : held s = false).
  { apply held_false_rd; [exact Hinv|]. intros E. rewrite E in Hin. destruct Hin. }
  pose proof (i_nr s Hinv) as Hnr. pose proof (remove1_length t (m_rd s) Hin) as Hlen.
  unfold mrsw_step in *. cbn [mrsw_step_obs] in *. fold (held s) in *. rewrite Hh in *.
  destruct (1 <? m_nr s)%Z eqn:E1; cbn [fst snd] in *.
  - split; [|split].
    + split; [discriminate|]. intros E. rewrite E in Hnr. cbn in Hnr. lia.
    + discriminate.
    + intros _. split; reflexivity.
  - destruct (m_nr s =? 0)%Z eqn:E0; [lia|]. cbn [fst snd] in *.
    assert (Hrd : m_rd s = [t]).
    { destruct (m_rd s) as [|x [|y r]] eqn:E; cbn [List.length] in *; [destruct Hin| |lia].
      destruct Hin as [->|[]]. reflexivity. }
    split; [|split].
    + split; [intros _; exact Hrd|reflexivity].
    + intros _. cbn [m_owner m_nr m_rd m_wr]. rewrite Hrd, remove1_single.
      rewrite (i_free s Hinv Hh). repeat split; reflexivity.
    + intros H. exfalso. apply H. reflexivity.
Qed.

Example mrsw_example :
  exists s, run mrsw_enabled mrsw_step mrsw_init
      [MBeginRead 0; MBeginReadB 1; MBeginWriteB 2 "reap"; MEndRead 0; MEndRead 1; MResume 2;
       MBeginReadB 0; MEndWrite 2; MResume 0] = Some s
    /\ m_owner s = "" /\ m_nr s = 1%Z /\ m_rd s = [0] /\ m_wr s = [] /\ m_wait s = [] /\ m_woken s = [].
Proof. eexists. split; [vm_compute; reflexivity|]. repeat split; reflexivity. Qed.

Example mrsw_wakeup_example :
  exists s, run mrsw_enabled mrsw_step mrsw_init [MBeginRead 0; MBeginWriteB 1 "w"; MEndRead 0] = Some s
    /\ In (1, WW "w") (m_wait s ++ m_woken s) /\ m_rd s = [] /\ m_wr s = [].
Proof. eexists. split; [vm_compute; reflexivity|]. cbn. auto. Qed.

Example mrsw_upgrade_example :
  exists s, run mrsw_enabled mrsw_step mrsw_init [MBeginRead 0; MBeginRead 1; MEndRead 1] = Some s
    /\ mrsw_enabled s (MUpgrade 0 "up") = true /\ m_rd s = [0].
Proof. eexists. split; [vm_compute; reflexivity|]. split; reflexivity. Qed.

(* ------------------------------------------------------------------ ReadyTarget *)
(* Specification, from the property text, over the HISTORY of calls.  The applied index is the
   largest index signalled since the last reset.  The waiter created by a Subscribe(target) is
   woken at once if the index already reached the target; otherwise it is woken by the first
   later Signal that brings the index to the target or beyond - unless it was unsubscribed or the
   target was reset before that, after which it is never woken. *)
Fixpoint follow (tg : N) (ch : nat) (cur : N) (rest : list ract) : wstat :=
  match rest with
  | [] => Waiting
  | RSignal i :: r => if (tg <=? N.max cur i)%N then Woken else follow tg ch (N.max cur i) r
  | RUnsub c :: r => if Nat.eqb c ch then Dropped else follow tg ch cur r
  | RReset :: r => Dropped
  | RSub _ :: r => follow tg ch cur r
  end.

(* status of the channel returned by the ch-th Subscribe of history h (n = Subscribes so far,
   cur = applied index so far) *)
Fixpoint spec_status (h : list ract) (ch n : nat) (cur : N) : wstat :=
  match h with
  | [] => Unborn
  | RSub tg :: r =>
      if Nat.eqb n ch then (if (tg <=? cur)%N then Woken else follow tg ch cur r)
      else spec_status r ch (S n) cur
  | RSignal i :: r => spec_status r ch n (N.max cur i)
  | RReset :: r => spec_status r ch n 0%N
  | RUnsub _ :: r => spec_status r ch n cur
  end.

Record rinv (s : rt) : Prop := {
  v_nd : NoDup (map fst (r_subs s));
  v_lt : forall c tg, In (c, tg) (r_subs s) -> c < r_next s /\ (r_cur s < tg)%N;
  v_cl : forall c, In c (r_closed s) -> c < r_next s;
  v_dis : forall c tg, In (c, tg) (r_subs s) -> ~ In c (r_closed s) }.

Lemma remove_sub_In : forall ch l x, In x (remove_sub ch l) -> In x l.
Proof.
  induction l as [|[c tg] l IH]; intros x H; cbn [remove_sub] in H; [exact H|].
  destruct (Nat.eqb c ch); [right; exact H|]. destruct H as [<-|H]; [left; reflexivity|right; apply IH; exact H].
Qed.

Lemma remove_sub_nodup : forall ch l, NoDup (map fst l) -> NoDup (map fst (remove_sub ch l)).
Proof.
  induction l as [|[c tg] l IH]; intros H; cbn [remove_sub]; [exact H|].
  cbn [map fst] in H. inversion H as [|? ? Hnin Hnd]; subst.
  destruct (Nat.eqb c ch); [exact Hnd|]. cbn [map fst]. constructor; [|apply IH; exact Hnd].
  intros Hin. apply Hnin. apply in_map_iff in Hin as ([c' tg'] & He & Hin). cbn in He. subst c'.
  apply remove_sub_In in Hin. apply (in_map fst) in Hin. exact Hin.
Qed.

Lemma remove_sub_gone : forall ch l, NoDup (map fst l) -> ~ In ch (map fst (remove_sub ch l)).
Proof.
  induction l as [|[c tg] l IH]; intros H; cbn [remove_sub]; [intros []|].
  cbn [map fst] in H. inversion H as [|? ? Hnin Hnd]; subst.
  destruct (Nat.eqb c ch) eqn:E.
  - apply Nat.eqb_eq in E. subst. exact Hnin.
  - cbn [map fst]. intros [He|Hin]; [subst; rewrite Nat.eqb_refl in E; discriminate|].
    apply (IH Hnd). exact Hin.
Qed.

Lemma remove_sub_other : forall ch c tg l, c <> ch -> In (c, tg) l -> In (c, tg) (remove_sub ch l).
Proof.
  induction l as [|[c' tg'] l IH]; intros Hne H; [destruct H|].
  cbn [remove_sub]. destruct (Nat.eqb c' ch) eqn:E.
  - apply Nat.eqb_eq in E. destruct H as [He|H]; [injection He as -> ->; contradiction|exact H].
  - destruct H as [He|H]; [left; exact He|right; apply IH; assumption].
Qed.

Lemma fst_unique : forall (l : list (nat * N)) c a b,
  NoDup (map fst l) -> In (c, a) l -> In (c, b) l -> a = b.
Proof.
  induction l as [|[c' x] l IH]; intros c a b Hnd Ha Hb; [destruct Ha|].
  cbn [map fst] in Hnd. inversion Hnd as [|? ? Hnin Hnd']; subst.
  destruct Ha as [Ha|Ha]; destruct Hb as [Hb|Hb].
  - congruence.
  - injection Ha as -> ->. exfalso. apply Hnin. apply (in_map fst) in Hb. exact Hb.
  - injection Hb as -> ->. exfalso. apply Hnin. apply (in_map fst) in Ha. exact Ha.
  - eapply IH; eassumption.
Qed.

Lemma rinv_step : forall s a, rinv s -> rinv (rt_step s a).
Proof.
  intros s a [Hnd Hlt Hcl Hdis]. destruct a as [tg|ch|i|]; cbn [rt_step].
  - destruct (tg <=? r_cur s)%N eqn:E.
    + constructor; cbn [r_cur r_subs r_closed r_next]; try assumption.
      * intros c t Hin. destruct (Hlt c t Hin). split; [lia|assumption].
      * intros c [<-|Hin]; [lia|]. specialize (Hcl c Hin). lia.
      * intros c t Hin [He|Hc]; [destruct (Hlt c t Hin); lia|]. apply (Hdis c t Hin Hc).
    + constructor; cbn [r_cur r_subs r_closed r_next].
      * rewrite map_app. cbn [map fst].
        apply NoDup_Add with (a := r_next s) (l := map fst (r_subs s)).
        { apply Add_snoc. }
        split; [exact Hnd|]. intros Hin. apply in_map_iff in Hin as ([c t] & He & Hin). cbn in He. subst c.
        destruct (Hlt _ _ Hin). lia.
      * intros c t Hin. apply in_app_or in Hin as [Hin|[He|[]]].
        { destruct (Hlt c t Hin). split; [lia|assumption]. }
        injection He as <- <-. split; [lia|]. lia.
      * intros c Hin. specialize (Hcl c Hin). lia.
      * intros c t Hin Hc. apply in_app_or in Hin as [Hin|[He|[]]]; [apply (Hdis c t Hin Hc)|].
        injection He as <- <-. specialize (Hcl _ Hc). lia.
  - constructor; cbn [r_cur r_subs r_closed r_next]; try assumption.
    + apply remove_sub_nodup. exact Hnd.
    + intros c t Hin. apply Hlt. apply remove_sub_In in Hin. exact Hin.
    + intros c t Hin. apply (Hdis c t). apply remove_sub_In in Hin. exact Hin.
  - destruct (i <=? r_cur s)%N eqn:E; [constructor; assumption|].
    constructor; cbn [r_cur r_subs r_closed r_next].
    + clear - Hnd. induction (r_subs s) as [|[c t] l IH]; [constructor|].
      cbn [map fst] in Hnd. inversion Hnd as [|? ? Hnin Hnd']; subst. cbn [filter snd].
      destruct (negb (t <=? i)%N); [|apply IH; exact Hnd'].
      cbn [map fst]. constructor; [|apply IH; exact Hnd'].
      intros Hin. apply Hnin. apply in_map_iff in Hin as ([c' t'] & He & Hin). cbn in He. subst c'.
      apply filter_In in Hin as [Hin _]. apply (in_map fst) in Hin. exact Hin.
    + intros c t Hin. apply filter_In in Hin as [Hin Hf]. cbn [snd] in Hf.
      destruct (Hlt c t Hin). split; [assumption|lia].
    + intros c Hin. apply in_app_or in Hin as [Hin|Hin]; [|apply Hcl; exact Hin].
      apply in_map_iff in Hin as ([c' t'] & He & Hin). cbn in He. subst c'.
      apply filter_In in Hin as [Hin _]. destruct (Hlt _ _ Hin). assumption.
    + intros c t Hin Hc. apply filter_In in Hin as [Hin Hf]. cbn [snd] in Hf.
      apply in_app_or in Hc as [Hc|Hc]; [|apply (Hdis c t Hin Hc)].
      apply in_map_iff in Hc as ([c' t'] & He & Hc). cbn in He. subst c'.
      apply filter_In in Hc as [Hc Hf']. cbn [snd] in Hf'.
      assert (t' = t) by (eapply fst_unique; eassumption). subst t'. lia.
  - constructor; cbn [r_cur r_subs r_closed r_next]; try assumption.
    + constructor.
    + intros c t [].
    + intros c t [].
Qed.

Definition rt_exec_all (h : list ract) (s : rt) : rt := fold_left rt_step h s.

Lemma run_rt : forall h s, run rt_enabled rt_step s h = Some (rt_exec_all h s).
Proof. induction h as [|a h IH]; intros s; cbn; [reflexivity|apply IH]. Qed.

Lemma status_woken : forall s ch, In ch (r_closed s) -> rt_status s ch = Woken.
Proof. intros s ch H. unfold rt_status. apply memn_In in H. now rewrite H. Qed.

Lemma status_waiting : forall s ch, ~ In ch (r_closed s) -> In ch (map fst (r_subs s)) -> rt_status s ch = Waiting.
Proof.
  intros s ch H1 H2. unfold rt_status. apply memn_false in H1. apply memn_In in H2. now rewrite H1, H2.
Qed.

Lemma status_dropped : forall s ch, ~ In ch (r_closed s) -> ~ In ch (map fst (r_subs s)) -> ch < r_next s ->
  rt_status s ch = Dropped.
Proof.
  intros s ch H1 H2 H3. unfold rt_status. apply memn_false in H1. apply memn_false in H2.
  rewrite H1, H2. apply Nat.ltb_lt in H3. now rewrite H3.
Qed.

Lemma status_unborn : forall s ch, rinv s -> r_next s <= ch -> rt_status s ch = Unborn.
Proof.
  intros s ch [Hnd Hlt Hcl Hdis] Hle. unfold rt_status.
  assert (H1 : ~ In ch (r_closed s)) by (intros H; specialize (Hcl _ H); lia).
  assert (H2 : ~ In ch (map fst (r_subs s))).
  { intros H. apply in_map_iff in H as ([c t] & He & Hin). cbn in He. subst c. destruct (Hlt _ _ Hin). lia. }
  apply memn_false in H1. apply memn_false in H2. rewrite H1, H2.
  assert (H3 : Nat.ltb ch (r_next s) = false) by (apply Nat.ltb_ge; exact Hle). now rewrite H3.
Qed.

Lemma woken_stable : forall h s ch, In ch (r_closed s) -> rt_status (rt_exec_all h s) ch = Woken.
Proof.
  induction h as [|a h IH]; intros s ch Hin; cbn [rt_exec_all fold_left].
  - apply status_woken. exact Hin.
  - apply IH. destruct a as [tg|c|i|]; cbn [rt_step].
    + destruct (tg <=? r_cur s)%N; cbn [r_closed]; [right|]; exact Hin.
    + exact Hin.
    + destruct (i <=? r_cur s)%N; cbn [r_closed]; [exact Hin|]. apply in_or_app. right. exact Hin.
    + exact Hin.
Qed.

Lemma dropped_stable : forall h s ch, rinv s ->
  ~ In ch (r_closed s) -> ~ In ch (map fst (r_subs s)) -> ch < r_next s ->
  rt_status (rt_exec_all h s) ch = Dropped.
Proof.
  induction h as [|a h IH]; intros s ch Hinv H1 H2 H3; cbn [rt_exec_all fold_left].
  - apply status_dropped; assumption.
  - apply IH; [apply rinv_step; exact Hinv| | |]; destruct a as [tg|c|i|]; cbn [rt_step].
    + destruct (tg <=? r_cur s)%N; cbn [r_closed]; [|exact H1]. intros [He|Hin]; [lia|contradiction].
    + exact H1.
    + destruct (i <=? r_cur s)%N; cbn [r_closed]; [exact H1|]. intros Hin.
      apply in_app_or in Hin as [Hin|Hin]; [|contradiction]. apply H2.
      apply in_map_iff in Hin as ([c' t'] & He & Hin). apply filter_In in Hin as [Hin _].
      apply in_map_iff. exists (c', t'). split; assumption.
    + exact H1.
    + destruct (tg <=? r_cur s)%N; cbn [r_subs]; [exact H2|]. rewrite map_app. cbn [map fst]. intros Hin.
      apply in_app_or in Hin as [Hin|[He|[]]]; [contradiction|lia].
    + cbn [r_subs]. intros Hin. apply H2. apply in_map_iff in Hin as ([c' t'] & He & Hin).
      apply remove_sub_In in Hin. apply in_map_iff. exists (c', t'). split; assumption.
    + destruct (i <=? r_cur s)%N; cbn [r_subs]; [exact H2|]. intros Hin. apply H2.
      apply in_map_iff in Hin as ([c' t'] & He & Hin). apply filter_In in Hin as [Hin _].
      apply in_map_iff. exists (c', t'). split; assumption.
    + cbn [r_subs]. intros [].
    + destruct (tg <=? r_cur s)%N; cbn [r_next]; lia.
    + exact H3.
    + destruct (i <=? r_cur s)%N; cbn [r_next]; exact H3.
    + exact H3.
Qed.

Lemma follow_correct : forall h s tg ch, rinv s -> In (ch, tg) (r_subs s) ->
  rt_status (rt_exec_all h s) ch = follow tg ch (r_cur s) h.
Proof.
  induction h as [|a h IH]; intros s tg ch Hinv Hin; cbn [rt_exec_all fold_left follow].
  - apply status_waiting; [apply (v_dis s Hinv ch tg Hin)|]. apply (in_map fst) in Hin. exact Hin.
  - pose proof (rinv_step s a Hinv) as Hinv'.
    destruct (v_lt s Hinv ch tg Hin) as [Hlt Hcur].
    pose proof (v_dis s Hinv ch tg Hin) as Hncl.
    destruct a as [tg'|c|i|].
    + (* a later Subscribe does not concern this waiter *)
      replace (r_cur s) with (r_cur (rt_step s (RSub tg'))) by (cbn [rt_step]; destruct (tg' <=? r_cur s)%N; reflexivity).
      apply IH; [exact Hinv'|]. cbn [rt_step]. destruct (tg' <=? r_cur s)%N; cbn [r_subs]; [exact Hin|].
      apply in_or_app. left. exact Hin.
    + destruct (Nat.eqb c ch) eqn:E.
      * apply Nat.eqb_eq in E. subst c. fold (rt_exec_all h (rt_step s (RUnsub ch))).
        apply dropped_stable; [exact Hinv'| | |]; cbn [rt_step r_closed r_subs r_next].
        -- exact Hncl.
        -- apply remove_sub_gone. apply (v_nd s Hinv).
        -- exact Hlt.
      * replace (r_cur s) with (r_cur (rt_step s (RUnsub c))) by reflexivity.
        apply IH; [exact Hinv'|]. cbn [rt_step r_subs]. apply remove_sub_other; [|exact Hin].
        intros He. subst. rewrite Nat.eqb_refl in E. discriminate.
    + fold (rt_exec_all h (rt_step s (RSignal i))). cbn [rt_step] in *.
      destruct (i <=? r_cur s)%N eqn:E.
      * assert (Hm : N.max (r_cur s) i = r_cur s) by lia. rewrite Hm.
        assert (Hf : (tg <=? r_cur s)%N = false) by lia. rewrite Hf.
        apply IH; assumption.
      * assert (Hm : N.max (r_cur s) i = i) by lia. rewrite Hm.
        destruct (tg <=? i)%N eqn:Et.
        -- apply woken_stable. cbn [r_closed]. apply in_or_app. left.
           apply in_map_iff. exists (ch, tg). split; [reflexivity|]. apply filter_In. split; [exact Hin|exact Et].
        -- replace i with (r_cur {| r_cur := i;
               r_subs := filter (fun p => negb (snd p <=? i)%N) (r_subs s);
               r_closed := map fst (filter (fun p => (snd p <=? i)%N) (r_subs s)) ++ r_closed s;
               r_next := r_next s |}) at 3 by reflexivity.
           apply IH; [exact Hinv'|]. cbn [r_subs]. apply filter_In. split; [exact Hin|]. cbn [snd]. now rewrite Et.
    + fold (rt_exec_all h (rt_step s RReset)).
      apply dropped_stable; [exact Hinv'| | |]; cbn [rt_step r_closed r_subs r_next]; [exact Hncl|intros []|exact Hlt].
Qed.

Lemma unborn_correct : forall h s ch, rinv s -> r_next s <= ch ->
  rt_status (rt_exec_all h s) ch = spec_status h ch (r_next s) (r_cur s).
Proof.
  induction h as [|a h IH]; intros s ch Hinv Hle; cbn [rt_exec_all fold_left spec_status].
  - apply status_unborn; assumption.
  - pose proof (rinv_step s a Hinv) as Hinv'. fold (rt_exec_all h (rt_step s a)).
    destruct a as [tg|c|i|].
    + destruct (Nat.eqb (r_next s) ch) eqn:E.
      * apply Nat.eqb_eq in E. cbn [rt_step] in *. destruct (tg <=? r_cur s)%N eqn:Et.
        -- apply woken_stable. cbn [r_closed]. left. exact E.
        -- replace (r_cur s) with (r_cur {| r_cur := r_cur s; r_subs := r_subs s ++ [(r_next s, tg)];
                                              r_closed := r_closed s; r_next := S (r_next s) |}) by reflexivity.
           apply follow_correct; [exact Hinv'|]. cbn [r_subs]. apply in_or_app. right. left. now rewrite E.
      * apply Nat.eqb_neq in E.
        assert (Hn : r_next (rt_step s (RSub tg)) = S (r_next s)) by (cbn [rt_step]; destruct (tg <=? r_cur s)%N; reflexivity).
        assert (Hc : r_cur (rt_step s (RSub tg)) = r_cur s) by (cbn [rt_step]; destruct (tg <=? r_cur s)%N; reflexivity).
        specialize (IH (rt_step s (RSub tg)) ch Hinv'). rewrite Hn, Hc in IH. apply IH. lia.
    + apply (IH (rt_step s (RUnsub c)) ch Hinv'). exact Hle.
    + assert (Hn : r_next (rt_step s (RSignal i)) = r_next s) by (cbn [rt_step]; destruct (i <=? r_cur s)%N; reflexivity).
      assert (Hc : r_cur (rt_step s (RSignal i)) = N.max (r_cur s) i) by (cbn [rt_step]; destruct (i <=? r_cur s)%N eqn:E; cbn [r_cur]; lia).
      specialize (IH (rt_step s (RSignal i)) ch Hinv'). rewrite Hn, Hc in IH. apply IH. exact Hle.
    + apply (IH (rt_step s RReset) ch Hinv'). exact Hle.
Qed.

Lemma rt_init_rinv : rinv rt_init.
Proof. constructor; cbn; [constructor|intros ? ? []|intros ? []|intros ? ? []]. Qed.

(* every history, every channel: closed / still subscribed / dropped exactly as the property says *)
Lemma ready_exact : forall h s ch, run rt_enabled rt_step rt_init h = Some s ->
  rt_status s ch = spec_status h ch 0 0%N.
Proof.
  intros h s ch Hr. rewrite run_rt in Hr. injection Hr as <-.
  apply (unborn_correct h rt_init ch rt_init_rinv). cbn. lia.
Qed.

(* "never before": whoever is still subscribed has a target above the applied index and an open
   channel; the channel of a waiter is closed only if the history woke it *)
Lemma ready_never_before : forall h s ch tg, run rt_enabled rt_step rt_init h = Some s ->
  In (ch, tg) (r_subs s) -> (r_cur s < tg)%N /\ memn ch (r_closed s) = false.
Proof.
  intros h s ch tg Hr Hin.
  assert (Hinv : rinv s).
  { apply (invariant_rule rt_enabled rt_step rinv rt_init rt_init_rinv) with (l := h); [|exact Hr].
    intros s0 a H _. apply rinv_step. exact H. }
  split; [apply (v_lt s Hinv ch tg Hin)|]. apply memn_false. apply (v_dis s Hinv ch tg Hin).
Qed.

Example ready_example :
  let h := [RSub 0; RSub 5; RSub 6; RSignal 5; RSub 5; RSub 7; RUnsub 2; RSignal 3; RSignal 9; RReset; RSub 1]%N in
  map (fun ch => spec_status h ch 0 0%N) [0; 1; 2; 3; 4; 5; 6] = [Woken; Woken; Dropped; Woken; Woken; Waiting; Unborn]
  /\ exists s, run rt_enabled rt_step rt_init h = Some s /\ r_subs s = [(5, 1%N)].
Proof. split; [vm_compute; reflexivity|]. eexists. split; vm_compute; reflexivity. Qed.
