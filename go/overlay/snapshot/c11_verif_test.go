package snapshot

// C11 driver: a real snapshot.Store driven by a sequencer.
//   streams    Store.Open / Read (2 KiB chunks) / Close
//   idle timer "inject" schedules: a very long read timeout, the timer callback checkIdle is
//              invoked by the driver from its own goroutine after ageing lastRead (fire) or
//              without ageing (early fire = re-arm);  "timer" schedules: a 20 ms timeout and the
//              real time.AfterFunc timers; fires are detected from the streamers' flags
//   reaping    Store.Reap() (non-blocking writer) and the reaper goroutine reapLoop (blocking
//              writer, signalled through signalReap); both are paused INSIDE the write-locked
//              section through an existing seam: the filter function of a registered Observer
//              is called synchronously by reap() before EndWrite
//   creation   incremental snapshots through a Sink (takes no lock)
// After every step the driver waits for quiescence (the reaper goroutine is parked in
// sync.Cond.Wait, or paused in the filter, or idle in its select - read from the goroutine dump)
// and records the result, white-box numReaders/owner, fires and whether the parked reaper got the
// lock.  The record is replayed through Model.C11 and judged by oracles from the property text.

import (
	"bytes"
	"encoding/json"
	"errors"
	"fmt"
	"io"
	"math/rand"
	"os"
	"reflect"
	"runtime"
	"strconv"
	"strings"
	"sync"
	"syscall"
	"testing"
	"time"
	"unsafe"
)

type c11Op struct {
	Op string `json:"op"`
	I  int    `json:"i,omitempty"`
}

type c11Input struct {
	Mode string  `json:"mode"` // inject | timer | slipin
	Ops  []c11Op `json:"ops,omitempty"`
	N    int     `json:"n,omitempty"` // slipin: rounds
}

const c11TimerTimeout = 20 * time.Millisecond

type c11Stream struct {
	rc       io.ReadCloser
	ls       *LockingStreamer
	id       string
	got      []byte
	lastRead time.Time // taken before the call that last produced data (or before Open)
	prevRead time.Time // the value of lastRead before that call
	readStep int       // step of that call
	closed   bool      // Close called by the driver
	fired    bool      // force-closed by the idle timer (detected)
}

func (s *c11Stream) open() bool { return s.rc != nil && !s.closed && !s.fired }

type c11Env struct {
	t        *testing.T
	mode     string
	store    *Store
	hit      chan uint64
	release  chan struct{}
	streams  []*c11Stream
	loopGid  uint64
	loop     string // idle | waiting | reaping
	manual   string // "" | inflight | reaping
	manDone  chan error
	lastID   string
	created  int
	expected map[string][]byte
	fail     string
	sig      string
	step     int
	openFails int
}

func (e *c11Env) setFail(sig, msg string) {
	if e.fail == "" {
		e.fail, e.sig = msg, sig
	}
}

func c11Gid() uint64 {
	var buf [64]byte
	n := runtime.Stack(buf[:], false)
	f := strings.Fields(string(buf[:n]))
	id, _ := strconv.ParseUint(f[1], 10, 64)
	return id
}

var c11StackBuf = make([]byte, 4<<20)

// c11Dump returns goroutine id -> state for every goroutine, and the ids of goroutines running reapLoop.
func c11Dump() (map[uint64]string, []uint64) {
	n := runtime.Stack(c11StackBuf, true)
	st := map[uint64]string{}
	var loops []uint64
	for _, blk := range bytes.Split(c11StackBuf[:n], []byte("\n\n")) {
		if !bytes.HasPrefix(blk, []byte("goroutine ")) {
			continue
		}
		line := blk
		if i := bytes.IndexByte(blk, '\n'); i >= 0 {
			line = blk[:i]
		}
		f := bytes.Fields(line)
		if len(f) < 3 {
			continue
		}
		id, err := strconv.ParseUint(string(f[1]), 10, 64)
		if err != nil {
			continue
		}
		s := string(bytes.Join(f[2:], []byte(" ")))
		s = strings.TrimPrefix(s, "[")
		if i := strings.IndexAny(s, ",]"); i >= 0 {
			s = s[:i]
		}
		st[id] = s
		if bytes.Contains(blk, []byte("(*Store).reapLoop")) {
			loops = append(loops, id)
		}
	}
	return st, loops
}

// white-box view of the store's MultiRSW (fields of another package: reflect + unsafe)
func c11Lock(s *Store) (numReaders int, owner string) {
	v := reflect.ValueOf(s.mrsw).Elem()
	mu := (*sync.Mutex)(unsafe.Pointer(v.FieldByName("mu").UnsafeAddr()))
	mu.Lock()
	defer mu.Unlock()
	return int(v.FieldByName("numReaders").Int()), v.FieldByName("owner").String()
}

func c11NewEnv(t *testing.T, mode string) (*c11Env, error) {
	_, before := c11Dump() // reaper goroutines of earlier stores that a failed schedule left behind
	old := map[uint64]bool{}
	for _, g := range before {
		old[g] = true
	}
	store, err := NewStore(t.TempDir())
	if err != nil {
		return nil, err
	}
	e := &c11Env{t: t, mode: mode, store: store, hit: make(chan uint64, 4), release: make(chan struct{}),
		manDone: make(chan error, 1), loop: "idle", expected: map[string][]byte{}}
	if mode == "timer" {
		store.SetReadTimeout(c11TimerTimeout)
	} else {
		store.SetReadTimeout(24 * time.Hour)
	}
	store.SetReapThreshold(1)
	store.RegisterObserver(NewObserver(make(chan ReapObservation, 1), func(*ReapObservation) bool {
		e.hit <- c11Gid()
		<-e.release
		return false
	}))
	fresh := func() []uint64 {
		_, all := c11Dump()
		var l []uint64
		for _, g := range all {
			if !old[g] {
				l = append(l, g)
			}
		}
		return l
	}
	loops := fresh()
	for i := 0; i < 5000 && len(loops) == 0; i++ { // the goroutine may not have run yet
		time.Sleep(time.Millisecond)
		loops = fresh()
	}
	if len(loops) != 1 {
		store.Close()
		return nil, fmt.Errorf("%d new reapLoop goroutines", len(loops))
	}
	e.loopGid = loops[0]
	createSnapshotInStore(t, store, snapshotName(2, 1017), 1017, 2, 1, "testdata/db-and-wals/backup.db")
	e.refreshID()
	return e, nil
}

func (e *c11Env) refreshID() {
	if metas, err := e.store.List(); err == nil && len(metas) > 0 {
		e.lastID = metas[0].ID
	}
}

// settle waits until the reaper goroutine and an in-flight Store.Reap are in a stable state.
// It returns false if that does not happen within 20 s.
func (e *c11Env) settle() bool {
	deadline := time.Now().Add(20 * time.Second)
	for spin := 0; ; spin++ {
		for more := true; more; {
			select {
			case g := <-e.hit:
				if g == e.loopGid {
					e.loop = "reaping"
				} else {
					e.manual = "reaping"
				}
				if e.loop == "reaping" && e.manual == "reaping" {
					e.setFail("C11:two-reapers", "Store.Reap and the reaper goroutine are inside reap() at the same time")
				}
			default:
				more = false
			}
		}
		if e.manual == "inflight" {
			select {
			case err := <-e.manDone:
				e.manual = "returned"
				e.manDone <- err
			default:
			}
		}
		st, _ := c11Dump()
		ls := st[e.loopGid]
		loopStable := false
		switch {
		case e.loop == "reaping":
			loopStable = len(e.hit) == 0 // paused in the filter
		case strings.HasPrefix(ls, "sync.Cond.Wait"):
			e.loop = "waiting"
			loopStable = true
		case ls == "select" && len(e.store.reapCh) == 0:
			e.loop = "idle"
			loopStable = true
		}
		if loopStable && e.manual != "inflight" && len(e.hit) == 0 {
			return true
		}
		if time.Now().After(deadline) {
			return false
		}
		if spin < 20 {
			runtime.Gosched()
		} else {
			time.Sleep(50 * time.Microsecond)
		}
	}
}

func c11Call(f func() error) (err error, panicked bool) {
	defer func() {
		if r := recover(); r != nil {
			panicked = true
		}
	}()
	return f(), false
}

func (e *c11Env) expectedFor(id string) []byte {
	if b, ok := e.expected[id]; ok {
		return b
	}
	saved := e.store.readTimeout
	e.store.readTimeout = 0 // the reference read must not be cut short by the idle timer
	_, rc, err := e.store.Open(id)
	e.store.readTimeout = saved
	if err != nil {
		return nil
	}
	b, err := io.ReadAll(rc)
	rc.Close()
	if err != nil {
		return nil
	}
	e.expected[id] = b
	return b
}

// detectFires records streams force-closed by their idle timer since the last call.
func (e *c11Env) detectFires(now time.Time) []int {
	var fired []int
	for i, s := range e.streams {
		if s.rc == nil || s.fired {
			continue
		}
		s.ls.mu.Lock() // a callback in progress finishes first
		to := s.ls.timedOut.Is()
		s.ls.mu.Unlock()
		if to {
			s.fired = true
			fired = append(fired, i)
			// Read does not take the streamer's mutex: a Read of this very step may have overlapped the
			// callback that had already found the stream idle; only activity before this step counts
			base := s.lastRead
			if s.readStep == e.step && !s.prevRead.IsZero() {
				base = s.prevRead
			}
			if e.mode == "timer" && now.Sub(base) < c11TimerTimeout {
				e.setFail("C11:fired-early", fmt.Sprintf("stream %d was force-closed %s after its last read activity (timeout %s)", i, now.Sub(base), c11TimerTimeout))
			}
		}
	}
	return fired
}

type c11StepRes struct {
	act, obs string
	skip     bool
}

func (e *c11Env) do(op c11Op) c11StepRes {
	idx := func() *c11Stream {
		if op.I < 0 || op.I >= len(e.streams) || e.streams[op.I].rc == nil {
			return nil
		}
		return e.streams[op.I]
	}
	switch op.Op {
	case "open":
		if e.manual == "" && e.loop != "reaping" {
			e.refreshID()
		}
		before := time.Now()
		_, rc, err := e.store.Open(e.lastID)
		if err != nil {
			if !strings.Contains(err.Error(), "acquiring read lock") {
				e.setFail("C11:open-failed", fmt.Sprintf("Open(%s): %v", e.lastID, err))
			} else if e.manual != "reaping" && e.loop != "reaping" {
				e.setFail("C11:open-spurious-conflict", fmt.Sprintf("Open refused (%v) although nobody is reaping", err))
			}
			e.streams = append(e.streams, &c11Stream{})
			return c11StepRes{act: "AOpen", obs: "OConflict"}
		}
		s := &c11Stream{rc: rc, ls: rc.(*LockingStreamer), id: e.lastID, lastRead: before, readStep: -1}
		e.streams = append(e.streams, s)
		if e.expectedFor(s.id) == nil {
			e.setFail("C11:open-failed", "cannot read reference content of "+s.id)
		}
		return c11StepRes{act: "AOpen", obs: "OOk"}
	case "read":
		s := idx()
		if s == nil {
			return c11StepRes{skip: true}
		}
		buf := make([]byte, 2048)
		before := time.Now()
		n, err := s.rc.Read(buf)
		act := "ARead " + coqNat(op.I)
		if s.fired && !errors.Is(err, ErrSnapshotReaderTimeout) {
			e.setFail("C11:read-after-timeout", fmt.Sprintf("stream %d was force-closed by its idle timer, yet Read returned (%d, %v) instead of the timeout error", op.I, n, err))
		}
		switch {
		case errors.Is(err, ErrSnapshotReaderTimeout):
			return c11StepRes{act: act, obs: "OTimeoutErr"}
		case s.closed:
			// Read after the consumer's own Close: the in-memory header part of the stream still
			// reads, the file part fails - position dependent, one class for the model
			return c11StepRes{act: act, obs: "OClosedErr"}
		case n > 0 || err == nil || err == io.EOF:
			if n > 0 {
				s.prevRead, s.lastRead, s.readStep = s.lastRead, before, e.step
			}
			s.got = append(s.got, buf[:n]...)
			if exp := e.expected[s.id]; !bytes.HasPrefix(exp, s.got) || (err == io.EOF && len(s.got) != len(exp)) {
				e.setFail("C11:stream-bytes-differ", fmt.Sprintf("stream %d (%s): %d bytes read so far are not a prefix of the %d bytes the snapshot had when it was opened", op.I, s.id, len(s.got), len(exp)))
			}
			return c11StepRes{act: act, obs: "OData"}
		default:
			// a failing Read on a stream that is open; only a timer that fired concurrently excuses it
			s.ls.mu.Lock()
			to := s.ls.timedOut.Is()
			s.ls.mu.Unlock()
			if !to {
				e.setFail("C11:open-stream-read-failed", fmt.Sprintf("stream %d (%s) is open but Read failed: %v", op.I, s.id, err))
			}
			return c11StepRes{act: act, obs: "OClosedErr"}
		}
	case "close":
		s := idx()
		if s == nil {
			return c11StepRes{skip: true}
		}
		err, p := c11Call(s.rc.Close)
		s.closed = true
		if p {
			e.setFail("C11:release-panic", fmt.Sprintf("Close of stream %d panicked", op.I))
			return c11StepRes{act: "AClose " + coqNat(op.I), obs: "OPanic"}
		}
		if err != nil {
			e.setFail("C11:close-error", fmt.Sprintf("Close of stream %d: %v", op.I, err))
		}
		return c11StepRes{act: "AClose " + coqNat(op.I), obs: "OOk"}
	case "fire", "earlyfire":
		s := idx()
		if s == nil || e.mode != "inject" {
			return c11StepRes{skip: true}
		}
		act := "AEarlyFire " + coqNat(op.I)
		if op.Op == "fire" {
			act = "AFire " + coqNat(op.I)
			s.ls.lastRead.Store(time.Now().Add(-48 * time.Hour).UnixNano())
		} else {
			s.ls.lastRead.Store(time.Now().UnixNano())
		}
		done := make(chan bool)
		go func() { // the timer's goroutine
			_, p := c11Call(func() error { s.ls.checkIdle(); return nil })
			done <- p
		}()
		if <-done {
			e.setFail("C11:release-panic", fmt.Sprintf("idle callback of stream %d panicked", op.I))
			return c11StepRes{act: act, obs: "OPanic"}
		}
		return c11StepRes{act: act, obs: "OOk"}
	case "create":
		if e.created >= 4 || e.manual != "" || e.loop == "reaping" {
			return c11StepRes{skip: true}
		}
		idxN := uint64(1100 + 100*e.created)
		createSnapshotInStore(e.t, e.store, snapshotName(2, idxN), idxN, 2, 1, "", fmt.Sprintf("testdata/db-and-wals/wal-%02d", e.created))
		e.created++
		return c11StepRes{act: "ACreate", obs: "OOk"}
	case "reapbegin":
		if e.manual != "" {
			return c11StepRes{skip: true}
		}
		e.manual = "inflight"
		go func() { _, _, err := e.store.Reap(); e.manDone <- err }()
		if !e.settle() {
			return c11StepRes{act: "AReapBegin", obs: "stuck"}
		}
		if e.manual == "reaping" {
			return c11StepRes{act: "AReapBegin", obs: "OOk"}
		}
		err := <-e.manDone
		e.manual = ""
		if err == nil {
			e.setFail("C11:reap-not-observed", "Store.Reap returned without passing the observer")
			return c11StepRes{act: "AReapBegin", obs: "OOk"}
		}
		if !strings.Contains(err.Error(), "MSRW conflict") {
			e.setFail("C11:reap-failed", "Store.Reap: "+err.Error())
		} else if e.loop != "reaping" && e.nOpen() == 0 {
			e.setFail("C11:reap-spurious-conflict", "Store.Reap refused ("+err.Error()+") although no stream is open and nobody is reaping")
		}
		return c11StepRes{act: "AReapBegin", obs: "OConflict"}
	case "reapend":
		if e.manual != "reaping" {
			return c11StepRes{skip: true}
		}
		if !e.sendRelease() {
			return c11StepRes{act: "AReapEnd", obs: "stuck"}
		}
		select {
		case err := <-e.manDone:
			if err != nil {
				e.setFail("C11:reap-failed", "Store.Reap: "+err.Error())
			}
		case <-time.After(20 * time.Second):
			e.setFail("C11:reap-stuck", "Store.Reap did not return within 20 s of being released from the observer")
			return c11StepRes{act: "AReapEnd", obs: "OPanic"}
		}
		e.manual = ""
		e.refreshID()
		return c11StepRes{act: "AReapEnd", obs: "OOk"}
	case "loopbegin":
		if e.loop != "idle" {
			return c11StepRes{skip: true}
		}
		e.store.signalReap()
		e.loop = "signalled"
		if !e.settle() {
			return c11StepRes{act: "ALoopBegin", obs: "stuck"}
		}
		switch e.loop {
		case "reaping":
			return c11StepRes{act: "ALoopBegin", obs: "OOk"}
		case "waiting":
			return c11StepRes{act: "ALoopBegin", obs: "OBlocked"}
		}
		e.setFail("C11:reaper-gave-up", fmt.Sprintf("the reaper goroutine was signalled with %d streams open and went back to idle without reaping or waiting", e.nOpen()))
		return c11StepRes{act: "ALoopBegin", obs: "OConflict"}
	case "loopend":
		if e.loop != "reaping" {
			return c11StepRes{skip: true}
		}
		e.loop = "ending"
		if !e.sendRelease() || !e.settle() {
			return c11StepRes{act: "ALoopEnd", obs: "stuck"}
		}
		e.refreshID()
		return c11StepRes{act: "ALoopEnd", obs: "OOk"}
	case "openfail":
		// Store.Open made to fail at every point a resource fault can reach: RLIMIT_NOFILE is
		// lowered to "no new descriptor", then raised one descriptor at a time, so successive
		// attempts fail at the directory scan, at opening the data files, at Len(), at reading
		// meta.json ...  A failed Open must leave the lock exactly as it was (model: ATick).
		// The store verifies the CRC32 of its data files lazily, once, on the first use - and treats
		// ANY error of that check (also a transient EMFILE) as a fatal integrity error that exits the
		// process.  That one-off check must therefore not fall into the window in which descriptors
		// are withheld: it is run here first (it is a no-op afterwards).  With a reaper holding the
		// lock an Open is refused before it gets that far, so nothing needs to be done then.
		if !(e.manual == "reaping" || e.loop == "reaping") {
			if err := e.store.EnsureVerify(); err != nil {
				return c11StepRes{skip: true}
			}
		}
		ents, err := os.ReadDir("/proc/self/fd")
		if err != nil {
			return c11StepRes{skip: true}
		}
		var orig syscall.Rlimit
		if err := syscall.Getrlimit(syscall.RLIMIT_NOFILE, &orig); err != nil {
			return c11StepRes{skip: true}
		}
		func() {
			defer syscall.Setrlimit(syscall.RLIMIT_NOFILE, &orig)
			for lim := uint64(len(ents)); lim < uint64(len(ents))+16; lim++ {
				if err := syscall.Setrlimit(syscall.RLIMIT_NOFILE, &syscall.Rlimit{Cur: lim, Max: orig.Max}); err != nil {
					return
				}
				_, rc, err := e.store.Open(e.lastID)
				if err == nil {
					// enough descriptors: a complete Open; hand it back at once
					if _, p := c11Call(rc.Close); p {
						e.setFail("C11:release-panic", "Close right after Open panicked")
					}
					return
				}
				e.openFails++
			}
		}()
		return c11StepRes{act: "ATick", obs: "OOk"}
	case "waitfire": // timer schedules: let the idle timers of all open streams expire
		if e.mode != "timer" {
			return c11StepRes{skip: true}
		}
		deadline := time.Now().Add(5 * time.Second)
		for {
			pending := 0
			for _, s := range e.streams {
				if s.open() {
					s.ls.mu.Lock()
					if !s.ls.timedOut.Is() {
						pending++
					}
					s.ls.mu.Unlock()
				}
			}
			if pending == 0 {
				break
			}
			if time.Now().After(deadline) {
				e.setFail("C11:idle-timeout-not-enforced", fmt.Sprintf("%d stalled streams were not force-closed 5 s after their last read (timeout %s)", pending, c11TimerTimeout))
				break
			}
			time.Sleep(2 * time.Millisecond)
		}
		return c11StepRes{act: "ATick", obs: "OOk"}
	case "raceclose": // timer schedules: Close right when the idle timer is due
		s := idx()
		if s == nil || e.mode != "timer" {
			return c11StepRes{skip: true}
		}
		if s.open() {
			if d := time.Until(s.lastRead.Add(c11TimerTimeout)); d > 0 {
				time.Sleep(d)
			}
		}
		err, p := c11Call(s.rc.Close)
		s.closed = true
		if p {
			e.setFail("C11:release-panic", fmt.Sprintf("Close of stream %d panicked", op.I))
			return c11StepRes{act: "AClose " + coqNat(op.I), obs: "OPanic"}
		}
		if err != nil {
			e.setFail("C11:close-error", fmt.Sprintf("Close of stream %d: %v", op.I, err))
		}
		return c11StepRes{act: "AClose " + coqNat(op.I), obs: "OOk"}
	}
	panic("bad op " + op.Op)
}

func (e *c11Env) sendRelease() bool {
	select {
	case e.release <- struct{}{}:
		return true
	case <-time.After(20 * time.Second):
		return false
	}
}

func (e *c11Env) nOpen() int {
	n := 0
	for _, s := range e.streams {
		if s.open() {
			n++
		}
	}
	return n
}

func (e *c11Env) cleanup() {
	defer func() { recover() }()
	if e.fail != "" {
		// inconsistent lock state is possible: release whoever waits and do not wait for the reaper
		for _, s := range e.streams {
			if s.rc != nil {
				c11Call(s.rc.Close)
			}
		}
		go func() {
			defer func() { recover() }()
			for i := 0; i < 4; i++ {
				select {
				case e.release <- struct{}{}:
				case <-time.After(50 * time.Millisecond):
				}
			}
			e.store.Close()
		}()
		return
	}
	for _, s := range e.streams {
		if s.rc != nil {
			c11Call(s.rc.Close)
		}
	}
	for i := 0; i < 10; i++ {
		e.settle()
		switch {
		case e.manual == "reaping":
			e.sendRelease()
			select {
			case <-e.manDone:
			case <-time.After(20 * time.Second):
			}
			e.manual = ""
		case e.loop == "reaping":
			e.loop = "ending"
			e.sendRelease()
		case e.loop == "idle" && e.manual == "":
			e.store.Close()
			return
		}
	}
	// last resort (a mutant left the reaper parked): do not wait for it
	go e.store.Close()
}

// c11RunSchedule runs ops (or, with gen != nil, generates them while running) and emits one case.
func c11RunSchedule(t *testing.T, w *vWriter, in c11Input, gen func(e *c11Env) (c11Op, bool)) {
	defer func() { // keep what was found even if the process dies later (panic in a timer goroutine)
		w.mu.Lock()
		w.w.Flush()
		w.mu.Unlock()
	}()
	// Real-timer schedules: a double release panics inside a timer goroutine and kills the test
	// process, which nothing can recover.  So that the schedule is not lost, a provisional failing
	// case (with the operations so far) is kept at the end of cases.jsonl while the schedule runs;
	// it is turned into an unparsable line (which bin/check skips) as soon as it is superseded.
	cancel := func() {
		if c11Pending {
			w.mu.Lock()
			w.w.WriteString(" CANCELLED\n")
			w.w.Flush()
			w.mu.Unlock()
			c11Pending = false
		}
	}
	provisional := func(step int, op c11Op) {
		if in.Mode != "timer" {
			return
		}
		cancel()
		b, err := json.Marshal(VCase{Input: in, Key: vJSON(in),
			OracleFail: fmt.Sprintf("the test process died during or after step %d (%s %d): a goroutine of the store panicked (see the driver log; e.g. \"reader count went negative\" in an idle-timer callback)", step, op.Op, op.I),
			Sig:        "C11:process-died"})
		if err != nil {
			return
		}
		w.mu.Lock()
		w.w.Write(b)
		w.w.Flush()
		w.mu.Unlock()
		c11Pending = true
	}
	emit := func(vc VCase) {
		cancel()
		w.Emit(vc)
	}
	defer cancel()
	e, err := c11NewEnv(t, in.Mode)
	if err != nil {
		emit(VCase{Input: in, Key: vJSON(in), Inconcl: "setup: " + err.Error()})
		return
	}
	defer e.cleanup()
	var steps, keyb []string
	fires, reapWhileOpen, loopReleased, races := 0, 0, 0, 0
	for i := 0; ; i++ {
		var op c11Op
		if gen != nil {
			var more bool
			if op, more = gen(e); !more {
				break
			}
		} else if i < len(in.Ops) {
			op = in.Ops[i]
		} else {
			break
		}
		{
			saved := in.Ops
			if gen != nil {
				in.Ops = append(append([]c11Op{}, in.Ops...), op)
			}
			provisional(i, op)
			in.Ops = saved
		}
		e.step = i
		wasWaiting := e.loop == "waiting"
		openBefore := e.nOpen()
		var r c11StepRes
		if _, p := c11Call(func() error { r = e.do(op); return nil }); p {
			// a panic escaping a store call (e.g. "reader count went negative" in an unrelated List)
			e.setFail("C11:panic", fmt.Sprintf("step %d (%s %d): a store call panicked", i, op.Op, op.I))
			if gen != nil {
				in.Ops = append(in.Ops, op)
			}
			break
		}
		if r.skip {
			continue
		}
		// the reaper's state when the call returned: a real timer may fire between here and the
		// next quiescence check and let a just-parked reaper in - that is still "parked, then released"
		loopAfterDo := e.loop
		if gen != nil {
			in.Ops = append(in.Ops, op)
		}
		if r.obs == "stuck" || !e.settle() {
			if e.fail == "" {
				e.setFail("C11:stuck", fmt.Sprintf("step %d (%s): the store did not become quiescent within 20 s", i, op.Op))
			}
			emit(VCase{Input: in, Key: vJSON(in), OracleFail: e.fail, Sig: e.sig})
			return
		}
		// fires, reaper state and lock state must be one consistent snapshot: a real timer may fire
		// at any moment, so re-read until no new fire shows up after the lock was read
		fired := e.detectFires(time.Now())
		var nr int
		var owner string
		for round := 0; ; round++ {
			if (len(fired) > 0 || round > 0) && !e.settle() { // a fire may have woken the reaper
				emit(VCase{Input: in, Key: vJSON(in), Inconcl: "no quiescence within 20 s after idle fire"})
				return
			}
			nr, owner = c11Lock(e.store)
			more := e.detectFires(time.Now())
			if len(more) == 0 {
				break
			}
			fired = append(fired, more...)
		}
		didFire := len(fired) > 0
		if op.Op == "fire" {
			fired = nil // an explicit action of the schedule, not an observation
		}
		acquired := (wasWaiting || loopAfterDo == "waiting") && e.loop == "reaping"

		// ---- oracles (property text)
		reaping := e.manual == "reaping" || e.loop == "reaping"
		if reaping && e.nOpen() > 0 {
			e.setFail("C11:reap-with-open-stream", fmt.Sprintf("step %d (%s): reaping while %d streams are open", i, op.Op, e.nOpen()))
		}
		if e.loop == "waiting" && e.nOpen() == 0 && e.manual != "reaping" {
			e.setFail("C11:reaper-stuck", fmt.Sprintf("step %d (%s): the reaper is still waiting although no stream is open and nobody else is reaping", i, op.Op))
		}
		if nr != e.nOpen() {
			e.setFail("C11:reader-count", fmt.Sprintf("step %d (%s): lock reader count %d, open streams %d", i, op.Op, nr, e.nOpen()))
		}
		if (owner != "") != reaping {
			e.setFail("C11:owner", fmt.Sprintf("step %d (%s): lock owner %q, reaping=%v", i, op.Op, owner, reaping))
		}
		if (op.Op == "reapbegin" || op.Op == "loopbegin") && openBefore > 0 {
			reapWhileOpen++
		}
		if didFire {
			fires++
		}
		if acquired {
			loopReleased++
		}
		if op.Op == "raceclose" {
			races++
		}
		fs := make([]string, len(fired))
		for k, x := range fired {
			fs[k] = coqNat(x)
		}
		steps = append(steps, fmt.Sprintf("{| so_act := %s; so_obs := %s; so_fired := %s; so_loop_acquired := %s; so_nr := %s; so_owner := %s |}",
			r.act, r.obs, coqList(fs), coqBool(acquired), coqZ(int64(nr)), coqStr(owner)))
		keyb = append(keyb, fmt.Sprintf("%s%d>%s%v%v", op.Op, op.I, r.obs, fired, acquired))
		if e.fail != "" {
			break // the store's state can no longer be trusted; report what was found (incl. this step)
		}
	}
	vc := VCase{Input: in, Coq: "{| c_steps := " + coqList(steps) + " |}", Key: in.Mode + ":" + strings.Join(keyb, ","),
		Nontrivial: fires > 0 && reapWhileOpen > 0, Tags: []string{"mode-" + in.Mode}}
	if loopReleased > 0 {
		vc.Tags = append(vc.Tags, "reaper-released")
	}
	if fires > 0 {
		vc.Tags = append(vc.Tags, "idle-fire")
	}
	if races > 0 {
		vc.Tags = append(vc.Tags, "close-vs-timer")
	}
	if e.openFails > 0 {
		vc.Tags = append(vc.Tags, "open-failure")
	}
	if e.fail != "" {
		if in.Mode == "timer" && c11TimerAttempt < 2 {
			// Real timers race with the driver: on a starved machine a step can outlast the idle
			// timeout and the observation the oracle judged is then not the one the driver believes
			// it made.  A failure of a real-timer schedule counts only if the same operations fail
			// three times in a row; the run that does not fail is the one that is kept (and compared
			// with the model).  Schedules with injected fires are never retried.
			c11TimerAttempt++
			cancel()
			// kept (provisionally, as above) in case the process dies during the re-run: a goroutine
			// of this run's store may still panic
			if b, err := json.Marshal(VCase{Input: in, Key: vJSON(in), OracleFail: e.fail + " (and the test process died while the schedule was re-run for confirmation)", Sig: e.sig}); err == nil {
				w.mu.Lock()
				w.w.Write(b)
				w.w.Flush()
				w.mu.Unlock()
				c11Pending = true
			}
			c11RunSchedule(t, w, in, nil)
			c11TimerAttempt--
			return
		}
		vc.OracleFail, vc.Sig = e.fail, e.sig
	}
	emit(vc)
}

var c11TimerAttempt int
var c11Pending bool // a provisional case sits, unterminated, at the end of cases.jsonl

// ---------------------------------------------------------------- free-running family: an Open slips in
//
// The reaper goroutine is parked behind stream A.  A is closed and, at the same moment, a new Open
// is issued: both calls are made to queue on the lock's internal mutex (held by the driver for an
// instant), Close first, so that the new reader usually gets in after the Broadcast but before the
// woken reaper has re-acquired the mutex - the reaper must then look again and keep waiting.
// Oracle only (two concurrent calls are not a sequencer step of the model): never a reap with an
// open stream, the reader count is right, the reaper is not stuck.
func c11RunSlipIn(t *testing.T, w *vWriter, in c11Input) {
	e, err := c11NewEnv(t, "inject")
	if err != nil {
		w.Emit(VCase{Input: in, Key: vJSON(in), Inconcl: "setup: " + err.Error()})
		return
	}
	defer func() {
		w.mu.Lock()
		w.w.Flush()
		w.mu.Unlock()
	}()
	defer e.cleanup()
	v := reflect.ValueOf(e.store.mrsw).Elem()
	mu := (*sync.Mutex)(unsafe.Pointer(v.FieldByName("mu").UnsafeAddr()))
	slipped, reaperFirst := 0, 0
	for k := 0; k < in.N && e.fail == ""; k++ {
		if r := e.do(c11Op{Op: "open"}); r.obs != "OOk" {
			e.setFail("C11:open-spurious-conflict", "Open refused on an idle store")
			break
		}
		a := len(e.streams) - 1
		if r := e.do(c11Op{Op: "loopbegin"}); r.obs != "OBlocked" {
			if e.fail == "" {
				e.setFail("C11:reap-with-open-stream", fmt.Sprintf("round %d: the reaper did not wait behind an open stream (%s)", k, r.obs))
			}
			break
		}
		// the race
		mu.Lock()
		var wg sync.WaitGroup
		var rc io.ReadCloser
		var openErr error
		wg.Add(2)
		go func() { defer wg.Done(); c11Call(e.streams[a].rc.Close) }()
		time.Sleep(200 * time.Microsecond) // Close queues on the mutex first
		go func() { defer wg.Done(); _, rc, openErr = e.store.Open(e.lastID) }()
		time.Sleep(200 * time.Microsecond)
		mu.Unlock()
		wg.Wait()
		e.streams[a].closed = true
		if openErr == nil {
			e.streams = append(e.streams, &c11Stream{rc: rc, ls: rc.(*LockingStreamer), id: e.lastID, lastRead: time.Now()})
		} else {
			e.streams = append(e.streams, &c11Stream{})
		}
		if !e.settle() {
			e.setFail("C11:stuck", fmt.Sprintf("round %d: no quiescence within 20 s after Close || Open", k))
			break
		}
		nr, owner := c11Lock(e.store)
		switch {
		case e.loop == "reaping" && e.nOpen() > 0, owner != "" && nr > 0:
			e.setFail("C11:reap-with-open-stream", fmt.Sprintf("round %d: stream A closed while a new Open slipped in: the reaper is reaping (owner %q) with %d streams open, reader count %d", k, owner, e.nOpen(), nr))
		case nr != e.nOpen():
			e.setFail("C11:reader-count", fmt.Sprintf("round %d: lock reader count %d, open streams %d", k, nr, e.nOpen()))
		case e.loop == "waiting" && e.nOpen() == 0:
			e.setFail("C11:reaper-stuck", fmt.Sprintf("round %d: the reaper is still waiting although no stream is open", k))
		case openErr != nil && e.loop != "reaping":
			e.setFail("C11:open-spurious-conflict", fmt.Sprintf("round %d: Open refused (%v) although nobody is reaping", k, openErr))
		}
		if e.fail != "" {
			break
		}
		if openErr == nil {
			slipped++
			// the reaper kept waiting; the new stream leaves and the reaper gets in
			e.do(c11Op{Op: "close", I: len(e.streams) - 1})
			if !e.settle() || e.loop != "reaping" {
				e.setFail("C11:reaper-stuck", fmt.Sprintf("round %d: the reaper did not start after the last stream closed (state %s)", k, e.loop))
				break
			}
		} else {
			reaperFirst++
		}
		if r := e.do(c11Op{Op: "loopend"}); r.obs != "OOk" {
			e.setFail("C11:stuck", fmt.Sprintf("round %d: the reaper did not finish", k))
			break
		}
	}
	vc := VCase{Input: in, Key: fmt.Sprintf("slipin:%d:%d", slipped, reaperFirst), Nontrivial: slipped > 0,
		Tags: []string{"slip-in", fmt.Sprintf("slip-in-reader-first=%d", slipped), fmt.Sprintf("slip-in-reaper-first=%d", reaperFirst)}}
	if e.fail != "" {
		vc.OracleFail, vc.Sig = e.fail, e.sig
	}
	w.Emit(vc)
}

func c11Gen(rng *rand.Rand, mode string) func(e *c11Env) (c11Op, bool) {
	n := 6 + rng.Intn(7)
	issued := 0
	return func(e *c11Env) (c11Op, bool) {
		if issued >= n {
			return c11Op{}, false
		}
		for tries := 0; tries < 100; tries++ {
			var op c11Op
			pick := func() int {
				if len(e.streams) == 0 {
					return -1
				}
				return rng.Intn(len(e.streams))
			}
			switch k := rng.Intn(100); {
			case k < 22:
				op = c11Op{Op: "open"}
			case k < 36:
				op = c11Op{Op: "read", I: pick()}
			case k < 50:
				op = c11Op{Op: "close", I: pick()}
			case k < 62:
				if mode == "inject" {
					op = c11Op{Op: "fire", I: pick()}
				} else if rng.Intn(2) == 0 {
					op = c11Op{Op: "waitfire"}
				} else {
					op = c11Op{Op: "raceclose", I: pick()}
				}
			case k < 66:
				if mode != "inject" {
					continue
				}
				op = c11Op{Op: "earlyfire", I: pick()}
			case k < 68:
				op = c11Op{Op: "create"}
			case k < 70:
				op = c11Op{Op: "openfail"}
			case k < 78:
				op = c11Op{Op: "reapbegin"}
			case k < 84:
				op = c11Op{Op: "reapend"}
			case k < 93:
				op = c11Op{Op: "loopbegin"}
			default:
				op = c11Op{Op: "loopend"}
			}
			// enabledness (the same conditions make do() skip)
			switch op.Op {
			case "read", "close", "fire", "earlyfire", "raceclose":
				if op.I < 0 || e.streams[op.I].rc == nil {
					continue
				}
			case "create":
				if e.created >= 4 || e.manual != "" || e.loop == "reaping" {
					continue
				}
			case "reapbegin":
				if e.manual != "" {
					continue
				}
			case "reapend":
				if e.manual != "reaping" {
					continue
				}
			case "loopbegin":
				if e.loop != "idle" {
					continue
				}
			case "loopend":
				if e.loop != "reaping" {
					continue
				}
			}
			issued++
			return op, true
		}
		return c11Op{}, false
	}
}

func TestVerif_C11(t *testing.T) {
	w := vOpen()
	defer w.Close()
	rng := vRand()
	if raw := vReplayInput(); raw != nil {
		var in c11Input
		if err := json.Unmarshal(raw, &in); err != nil {
			t.Fatal(err)
		}
		if in.Mode == "slipin" {
			c11RunSlipIn(t, w, in)
		} else {
			c11RunSchedule(t, w, in, nil)
		}
		return
	}
	for _, in := range []c11Input{
		{Mode: "inject", Ops: []c11Op{{Op: "open"}, {Op: "read", I: 0}, {Op: "reapbegin"}, {Op: "loopbegin"}, {Op: "open"}, {Op: "fire", I: 0}, {Op: "read", I: 0}, {Op: "close", I: 0}, {Op: "close", I: 1}, {Op: "open"}, {Op: "loopend"}, {Op: "open"}, {Op: "close", I: 3}}},
		{Mode: "inject", Ops: []c11Op{{Op: "create"}, {Op: "open"}, {Op: "create"}, {Op: "loopbegin"}, {Op: "earlyfire", I: 0}, {Op: "read", I: 0}, {Op: "read", I: 0}, {Op: "read", I: 0}, {Op: "read", I: 0}, {Op: "read", I: 0}, {Op: "read", I: 0}, {Op: "read", I: 0}, {Op: "read", I: 0}, {Op: "close", I: 0}, {Op: "close", I: 0}, {Op: "fire", I: 0}, {Op: "open"}, {Op: "loopend"}, {Op: "open"}, {Op: "read", I: 2}}},
		{Mode: "inject", Ops: []c11Op{{Op: "reapbegin"}, {Op: "open"}, {Op: "loopbegin"}, {Op: "reapend"}, {Op: "open"}, {Op: "loopend"}, {Op: "open"}, {Op: "reapbegin"}, {Op: "fire", I: 2}, {Op: "reapbegin"}, {Op: "reapend"}}},
		{Mode: "inject", Ops: []c11Op{{Op: "openfail"}, {Op: "open"}, {Op: "openfail"}, {Op: "reapbegin"}, {Op: "loopbegin"}, {Op: "openfail"}, {Op: "read", I: 0}, {Op: "close", I: 0}, {Op: "openfail"}, {Op: "loopend"}, {Op: "openfail"}}},
		{Mode: "timer", Ops: []c11Op{{Op: "open"}, {Op: "open"}, {Op: "loopbegin"}, {Op: "read", I: 0}, {Op: "waitfire"}, {Op: "read", I: 0}, {Op: "close", I: 1}, {Op: "loopend"}, {Op: "open"}, {Op: "raceclose", I: 2}, {Op: "reapbegin"}, {Op: "reapend"}}},
	} {
		c11RunSchedule(t, w, in, nil)
	}
	for i := 0; i < vN(3, 40); i++ {
		c11RunSlipIn(t, w, c11Input{Mode: "slipin", N: 60})
	}
	n := vN(200, 5000)
	for i := 0; i < n; i++ {
		mode := "inject"
		if i%5 == 4 {
			mode = "timer"
		}
		c11RunSchedule(t, w, c11Input{Mode: mode}, c11Gen(rng, mode))
	}
}
