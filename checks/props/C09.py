# C09 — configuration read by bin/check (see checks/registry.py)
SPEC = dict(
    title="Snapshot catalog stays well-formed and full-needed is honoured",
    pkg="./snapshot", files=["snapshot/c09_verif_test.go"],
    rule="histories of the real snapshot.Store API: a hand-made corpus (the FULL_NEEDED check-then-act history, an incremental into an empty store, "
         "every cut point of an incremental and of a full Sink.Close as I/O failure and as crash+restart, interleaved sinks, cancelled/unfinished/bad payloads before a reap) "
         "plus random histories of <= 12 (quick) / <= 30 (thorough) operations over create, full/incremental payload, close (normal, failed after k steps, crashed after k steps), "
         "cancel, set-full-needed, reap, reopen; after every operation the catalog projection is compared with the model; a history is non-trivial when it has "
         ">= 1 incremental payload and >= 1 of {cancel, failed/crashed/refused close, set-full-needed, reap}; distinct by the operation list",
    exhaustive=False, shard=60,
    trusted=["the reap is atomic in this model (its crash safety is C07); its effect on the catalog is transcribed from reapInternal",
             "file-system faults inside Close are produced by real failing system calls (missing WAL directory, missing sidecar, blocked meta.json / rename target, failing type controller), not by a hook"],
    assumptions=["chain shape (C09_chain_shape) is proved for raft's usage: one sink open at a time, created with a (term, index) above every stored snapshot; "
                 "Example ex_interleaved_sinks shows the premise is needed, and the driver checks the real store behaves the same way",
                 "SetDueNext(Full) is not interleaved between the re-check in Sink.Close and the rename (operations are atomic in the model)",
                 "an incremental payload carries at least one WAL file (the store never produces an empty one)"],
    level_text="C09_only_complete_listed / C09_invariant_reachable hold for every history of any length including closes cut after any number of micro-steps with or without restart; "
               "C09_inc_never_accepted_while_full_needed and C09_flag_cleared_only_by_install for every state and operation; the model is run against the real store on every driver history.",
    level_note="Model = directory contents + open sinks + FULL_NEEDED; Sink.Close as micro-steps; Scan/ResolveFiles/DueNext/reapInternal transcribed; modelled code includes fix C09-full-needed-recheck.",
    technique="Coq invariant proof over all operation sequences and cut points + differential run of model and real store + property oracle on the real directory",
    design_ref="6/C09",
    timeout_quick=600, timeout_thorough=7200,
)
