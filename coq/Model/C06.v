(* C06 — model of db/checkpoint_manager.go (CheckpointManager.Checkpoint with a writer: three
   outcomes + the empty-file short cut), db/wal_reset_watch.go (Arm / Disarm / Check), the store's
   rule "keep the staged segment iff Checkpoint returned no error" (store/store.go fsmSnapshot),
   on top of an explicit model of SQLite's WAL: frames of the current generation, backfill
   counter, salt generation, reader marks, and the documented locking rules for a TRUNCATE
   checkpoint and for restarting the log.  Executable definitions only. *)
From Coq Require Import List NArith Bool PeanoNat.
From RQ Require Export Lib.C05_PageDB.
Import ListNotations.
Local Open Scope N_scope.

(* ---- WALResetWatch ---- *)
Record watch := { armed : bool; wsalt : N; resume : nat }.
Definition disarmed : watch := {| armed := false; wsalt := 0; resume := 0 |}.
Definition arm (s : N) (r : nat) : watch := {| armed := true; wsalt := s; resume := r |}.

(* Check(current) = (frame index to resume at, reset detected), and the watch afterwards *)
Definition check (w : watch) (cur : N) : nat * bool * watch :=
  if negb (armed w) then (0%nat, false, w)
  else if wsalt w =? cur then (resume w, false, w)
  else (0%nat, true, disarmed).

(* ---- SQLite WAL ---- *)
(* A read transaction either ignores the log (it started when everything was backfilled: read
   lock 0) or holds a read mark equal to the number of frames at its start. *)
Inductive mark := M0 | MN (m : nat).

Record state := {
  hist : list frame;            (* ghost: every frame committed since the base snapshot *)
  frames : list frame;          (* committed frames of the current generation, in file order *)
  nback : nat;                  (* nBackfill *)
  gen : N;                      (* salt generation: changes whenever the log is restarted *)
  wempty : bool;                (* the WAL file has size 0 *)
  readers : list (N * mark);
  wt : watch;
  segs : list (list frame);     (* segments kept by the store, oldest first *)
  rsa : bool                    (* ghost: the log was restarted since the watch was armed *)
}.

Definition init : state :=
  {| hist := []; frames := []; nback := 0; gen := 0; wempty := true; readers := [];
     wt := disarmed; segs := []; rsa := false |}.

Definition is_mn (r : N * mark) : bool := match snd r with MN _ => true | M0 => false end.
Definition is_m0 (r : N * mark) : bool := match snd r with MN _ => false | M0 => true end.

(* mxSafeFrame: the checkpoint may not pass a read mark it cannot get exclusively *)
Fixpoint safe (len : nat) (rs : list (N * mark)) : nat :=
  match rs with
  | [] => len
  | (_, MN m) :: t => Nat.min m (safe len t)
  | (_, M0) :: t => safe len t
  end.

Inductive event :=
| Write (tx : list frame)       (* one committed write transaction: its frames, the last one a commit *)
| RStart (id : N)               (* a connection begins a read transaction *)
| RStop (id : N)                (* ... and ends it *)
| Ckpt.                         (* one incremental snapshot attempt: Checkpoint(w != nil, timeout) *)

Inductive outcome := NoWAL | Truncated | AllMoved | Busy.

Record ckobs := {
  o_kind : outcome;
  o_pages : nat; o_moved : nat;     (* CheckpointMeta.Pages / Moved *)
  o_reset : bool;                   (* CheckpointManagerMeta.WALReset *)
  o_seg : option (list frame);      (* the segment the store keeps (None: cancelled or nothing written) *)
  o_armed : bool; o_resume : nat    (* watch after the call *)
}.

Inductive obs := OWrite (restarted : bool) | ONone | OCkpt (c : ckobs).

Definition set_ckpt (s : state) (fr : list frame) (nb : nat) (g : N) (e : bool) (w : watch)
                    (sg : list (list frame)) (r : bool) : state :=
  {| hist := hist s; frames := fr; nback := nb; gen := g; wempty := e; readers := readers s;
     wt := w; segs := sg; rsa := r |}.

Definition step (s : state) (e : event) : state * obs :=
  match e with
  | Write tx =>
      let len := length (frames s) in
      (* walRestartLog: everything backfilled, log not empty, nobody holds a read mark *)
      if Nat.eqb (nback s) len && Nat.ltb 0 len && negb (existsb is_mn (readers s)) then
        ({| hist := hist s ++ tx; frames := tx; nback := 0; gen := gen s + 1; wempty := false;
            readers := readers s; wt := wt s; segs := segs s; rsa := true |}, OWrite true)
      else
        ({| hist := hist s ++ tx; frames := frames s ++ tx; nback := nback s; gen := gen s;
            wempty := false; readers := readers s; wt := wt s; segs := segs s; rsa := rsa s |},
         OWrite false)
  | RStart id =>
      let m := if Nat.eqb (nback s) (length (frames s)) then M0 else MN (length (frames s)) in
      ({| hist := hist s; frames := frames s; nback := nback s; gen := gen s; wempty := wempty s;
          readers := (id, m) :: filter (fun r => negb (fst r =? id)) (readers s);
          wt := wt s; segs := segs s; rsa := rsa s |}, ONone)
  | RStop id =>
      ({| hist := hist s; frames := frames s; nback := nback s; gen := gen s; wempty := wempty s;
          readers := filter (fun r => negb (fst r =? id)) (readers s);
          wt := wt s; segs := segs s; rsa := rsa s |}, ONone)
  | Ckpt =>
      if wempty s then
        (* walSzPre == 0: Disarm, empty meta, nothing written *)
        (set_ckpt s (frames s) (nback s) (gen s) true disarmed (segs s) (rsa s),
         OCkpt {| o_kind := NoWAL; o_pages := 0; o_moved := 0; o_reset := false; o_seg := None;
                  o_armed := false; o_resume := 0 |})
      else
        let '(start, wreset, w1) := check (wt s) (gen s) in
        (* compacting scan from `start` (C05: the scanner emits keep_last of what it is given) *)
        let seg := keep_last (skipn start (frames s)) in
        let len := length (frames s) in
        let sf := safe len (readers s) in
        (* backfill needs read lock 0 exclusively; readers that ignore the log hold it shared *)
        let nb := if Nat.ltb (nback s) sf
                  then (if existsb is_m0 (readers s) then nback s else sf) else nback s in
        if Nat.ltb nb len then
          (* pnCkpt < pnLog: ErrDatabaseCheckpointBusy, the store cancels the segment *)
          (set_ckpt s (frames s) nb (gen s) false w1 (segs s) (rsa s),
           OCkpt {| o_kind := Busy; o_pages := len; o_moved := nb; o_reset := wreset; o_seg := None;
                    o_armed := armed w1; o_resume := resume w1 |})
        else if existsb is_mn (readers s) then
          (* everything moved, log not truncated: Arm(salt, pnCkpt); the segment is kept *)
          (set_ckpt s (frames s) len (gen s) false (arm (gen s) len) (segs s ++ [seg]) false,
           OCkpt {| o_kind := AllMoved; o_pages := len; o_moved := len; o_reset := wreset;
                    o_seg := Some seg; o_armed := true; o_resume := len |})
        else
          (* rc == 0: log truncated (new salts); Disarm; the segment is kept *)
          (set_ckpt s [] 0 (gen s + 1) true disarmed (segs s ++ [seg]) (rsa s),
           OCkpt {| o_kind := Truncated; o_pages := 0; o_moved := 0; o_reset := wreset;
                    o_seg := Some seg; o_armed := false; o_resume := 0 |})
  end.

Definition exec (s : state) (l : list event) : state := fold_left (fun a e => fst (step a e)) l s.

(* restoring a snapshot chain: checkpoint every segment, oldest first, into the base *)
Definition replay (base : db) (sg : list (list frame)) : db := fold_left checkpoint sg base.

(* ---- correspondence ---- *)

(* what the driver saw for one event; for a successful attempt also the page images of the live
   database file *)
Record seen := { sn_obs : obs; sn_live : option (list N) }.

Record case := {
  c_base : list N;             (* page images of the database at the base (full) snapshot *)
  c_events : list event;       (* Write carries the frames SQLite appended for that transaction *)
  c_seen : list seen
}.

Definition frame_eqb (a b : frame) : bool := (pg a =? pg b) && (cm a =? cm b) && (ct a =? ct b).
Fixpoint frames_eqb (a b : list frame) : bool :=
  match a, b with
  | [], [] => true
  | x :: a', y :: b' => frame_eqb x y && frames_eqb a' b'
  | _, _ => false
  end.
Definition outcome_eqb (a b : outcome) : bool :=
  match a, b with
  | NoWAL, NoWAL | Truncated, Truncated | AllMoved, AllMoved | Busy, Busy => true
  | _, _ => false
  end.
Definition oseg_eqb (a b : option (list frame)) : bool :=
  match a, b with
  | None, None => true
  | Some x, Some y => frames_eqb x y
  | _, _ => false
  end.
Definition ckobs_eqb (a b : ckobs) : bool :=
  outcome_eqb (o_kind a) (o_kind b) && Nat.eqb (o_pages a) (o_pages b) && Nat.eqb (o_moved a) (o_moved b)
  && Bool.eqb (o_reset a) (o_reset b) && oseg_eqb (o_seg a) (o_seg b)
  && Bool.eqb (o_armed a) (o_armed b) && Nat.eqb (o_resume a) (o_resume b).
Definition obs_eqb (a b : obs) : bool :=
  match a, b with
  | OWrite x, OWrite y => Bool.eqb x y
  | ONone, ONone => true
  | OCkpt x, OCkpt y => ckobs_eqb x y
  | _, _ => false
  end.

Fixpoint check_run (base : db) (s : state) (es : list event) (sn : list seen) : bool :=
  match es, sn with
  | [], [] => true
  | e :: es', x :: sn' =>
      let '(s', o) := step s e in
      obs_eqb o (sn_obs x)
      && match sn_live x with
         | Some pages => list_N_eqb (db_pages (replay base (segs s'))) pages
         | None => true
         end
      && check_run base s' es' sn'
  | _, _ => false
  end.

Definition check_case (c : case) : bool :=
  check_run (db_of_list (c_base c)) init (c_events c) (c_seen c).
