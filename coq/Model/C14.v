(* C14 — model of command/sql/processor.go (after fix C14-rewrite-implicit-now):
   Process = substring pre-filters over the lower-cased text, parse, Rewriter.Do, re-render iff modified.
   Executable definitions only; proofs are in Proofs/C14.v.

   The statement is a tagged tree.  The driver converts the AST built by the real parser
   (github.com/rqlite/sql) node by node: calls, ORDER BY terms and RETURNING clauses keep
   their identity, literals and identifiers are leaves, every other AST node is `Nd tag children`
   with the node type, operators, keyword flags and child layout in `tag` (sent as a short digest,
   "X…" for an EXPLAIN statement; tags are only compared).  The parser and the printer are outside the model. *)
From Coq Require Import List String Ascii Bool NArith Lia.
Import ListNotations.
Open Scope string_scope.

(* ------------------------------------------------------------------ text side *)

Definition lower_ascii (c : ascii) : ascii :=
  let n := N_of_ascii c in
  if (65 <=? n)%N && (n <=? 90)%N then ascii_of_N (n + 32) else c.

Fixpoint lower (s : string) : string :=
  match s with EmptyString => EmptyString | String c r => String (lower_ascii c) (lower r) end.

Fixpoint prefix (p s : string) : bool :=
  match p, s with
  | EmptyString, _ => true
  | String a p', String b s' => Ascii.eqb a b && prefix p' s'
  | _, EmptyString => false
  end.

Fixpoint drop (n : nat) (s : string) : string :=
  match n, s with O, _ => s | S n', String _ r => drop n' r | _, EmptyString => EmptyString end.

(* strings.Contains *)
Fixpoint contains (s p : string) : bool :=
  prefix p s || match s with EmptyString => false | String _ r => contains r p end.

(* unicode.IsSpace on ASCII *)
Definition is_space (c : ascii) : bool :=
  let n := N_of_ascii c in ((9 <=? n)%N && (n <=? 13)%N) || (n =? 32)%N.

(* rest of the text after the first newline; None if there is none *)
Fixpoint after_newline (s : string) : option string :=
  match s with
  | EmptyString => None
  | String c r => if (N_of_ascii c =? 10)%N then Some r else after_newline r
  end.

(* rest of the text after the first "*/"; None if there is none *)
Fixpoint after_close (s : string) : option string :=
  match s with
  | EmptyString => None
  | String c r => if prefix "*/" s then Some (drop 2 s) else after_close r
  end.

(* followedByParen, after the optional closing quote: the loop `for s != ""`.  fuel >= length s + 1. *)
Fixpoint paren_next (fuel : nat) (s : string) : bool :=
  match fuel with
  | O => false
  | S f =>
    match s with
    | EmptyString => false
    | String c r =>
      if Ascii.eqb c "("%char then true
      else if prefix "--" s then match after_newline s with Some r' => paren_next f r' | None => false end
      else if prefix "/*" s then match after_close (drop 2 s) with Some r' => paren_next f r' | None => false end
      else if is_space c then paren_next f r
      else false
    end
  end.

Definition followed_by_paren (s : string) : bool :=
  let s' := match s with
            | String c r => if Ascii.eqb c """"%char || Ascii.eqb c "`"%char then r else s
            | EmptyString => s
            end in
  paren_next (S (String.length s')) s'.

(* containsCall: some occurrence of name is followed by "(" *)
Fixpoint contains_call (s name : string) : bool :=
  (prefix name s && followed_by_paren (drop (String.length name) s))
  || match s with EmptyString => false | String _ r => contains_call r name end.

Definition time_targets := ["time"; "date"; "julianday"; "unixepoch"; "timediff"].
Definition random_targets := ["random"; "randomblob"].
Definition contains_time (l : string) : bool := existsb (contains_call l) time_targets.
Definition contains_random (l : string) : bool := existsb (contains_call l) random_targets.
Definition contains_returning (l : string) : bool := contains l "returning ".
Definition contains_explain (l : string) : bool := contains l "explain ".

(* ------------------------------------------------------------------ tree side *)

Inductive kind :=
| KNum | KStr | KBlob | KIdent | KTok                (* leaves of a parsed statement *)
| KJd | KRand | KRBlob.                              (* literals put in by the rewriter (values abstracted) *)

Definition kind_eqb (a b : kind) : bool :=
  match a, b with
  | KNum, KNum | KStr, KStr | KBlob, KBlob | KIdent, KIdent | KTok, KTok
  | KJd, KJd | KRand, KRand | KRBlob, KRBlob => true
  | _, _ => false
  end.

Inductive node :=
| Leaf (k : kind) (s : string)                        (* KRBlob: s = the byte count literal *)
| Call (name flags : string) (args extra : list node) (* extra = FILTER / OVER clauses *)
| Ord (tag : string) (cs : list node)                 (* sql.OrderingTerm *)
| Ret (cs : list node)                                (* sql.ReturningClause *)
| Nd (tag : string) (cs : list node).                  (* any other AST node *)

Definition eq_ci (a b : string) : bool := String.eqb (lower a) (lower b).   (* strings.EqualFold, ASCII *)

Definition is_time5 (n : string) : bool :=
  eq_ci n "date" || eq_ci n "time" || eq_ci n "datetime" || eq_ci n "julianday" || eq_ci n "unixepoch".
Definition is_strftime (n : string) : bool := eq_ci n "strftime".
Definition is_timediff (n : string) : bool := eq_ci n "timediff".
Definition is_random (n : string) : bool := eq_ci n "random".
Definition is_randomblob (n : string) : bool := eq_ci n "randomblob".

(* isNow: identifier or string literal equal to now *)
Definition is_now (e : node) : bool :=
  match e with
  | Leaf KIdent s => eq_ci s "now"
  | Leaf KStr s => eq_ci s "now"
  | _ => false
  end.
Definition is_subsec (e : node) : bool :=
  match e with
  | Leaf KStr s => eq_ci s "subsec" || eq_ci s "subsecond"
  | _ => false
  end.

Definition JD := Leaf KJd "".

(* rewriteTimeValue(args, i) *)
Fixpoint time_value (args : list node) (i : nat) : list node :=
  match i, args with
  | O, [] => [JD]
  | O, a :: r => if is_now a then JD :: r else if is_subsec a then JD :: a :: r else args
  | S i', [] => []
  | S i', a :: r => a :: time_value r i'
  end.

Definition now_to_jd (e : node) : node := if is_now e || is_subsec e then JD else e.
Definition timediff_args (args : list node) : list node :=
  match args with
  | a :: b :: r => now_to_jd a :: now_to_jd b :: r
  | _ => args
  end.

Definition is_digit (c : ascii) : bool := let n := N_of_ascii c in (48 <=? n)%N && (n <=? 57)%N.
Fixpoint all_chars (f : ascii -> bool) (s : string) : bool :=
  match s with EmptyString => true | String c r => f c && all_chars f r end.
(* strconv.Atoi succeeds on a NumberLit text: decimal digits only (texts of at most 18 digits) *)
Definition atoi_ok (s : string) : bool :=
  negb (String.eqb s "") && all_chars is_digit s && Nat.leb (String.length s) 18.

Record cfg := { rwrand : bool; rwtime : bool }.

Section Rewrite.
Variable c : cfg.

(* which branch of Visit's Call case is taken *)
Inductive branch := BTime5 | BStrftime | BTimediff | BRandom | BRandomblob | BNone.
Definition pick (o : bool) (name : string) (args : list node) : branch :=
  if rwtime c && is_time5 name then BTime5
  else if rwtime c && negb (Nat.eqb (List.length args) 0) && is_strftime name then BStrftime
  else if rwtime c && Nat.ltb 1 (List.length args) && is_timediff name then BTimediff
  else if negb o && rwrand c && Nat.eqb (List.length args) 0 && is_random name then BRandom
  else if negb o && rwrand c && is_randomblob name then
    match args with
    | [Leaf KNum s] => if atoi_ok s then BRandomblob else BNone
    | _ => BNone
    end
  else BNone.

(* Rewriter.Visit/VisitEnd over sql.Walk; o = "inside an ORDER BY term" (rw.orderedBy > 0).
   Visit replaces the time value first and Walk then descends into the arguments; here the arguments
   are rewritten first (the replaced ones are leaves, and rewriting never turns an argument into or
   away from 'now'/'subsec' — Proofs.C14.is_now_rw), which is the same tree. *)
Fixpoint rw (o : bool) (t : node) : node :=
  match t with
  | Leaf _ _ => t
  | Ord tag cs => Ord tag (map (rw true) cs)
  | Ret cs => Ret (map (rw o) cs)
  | Nd tag cs => Nd tag (map (rw o) cs)
  | Call name fl args extra =>
    match pick o name args with
    | BTime5 => Call name fl (time_value (map (rw o) args) 0) (map (rw o) extra)
    | BStrftime => Call name fl (time_value (map (rw o) args) 1) (map (rw o) extra)
    | BTimediff => Call name fl (timediff_args (map (rw o) args)) (map (rw o) extra)
    | BRandom => Leaf KRand ""
    | BRandomblob => match args with [Leaf KNum s] => Leaf KRBlob s | _ => t end
    | BNone => Call name fl (map (rw o) args) (map (rw o) extra)
    end
  end.

(* rw.modified after the walk *)
Fixpoint modif (o : bool) (t : node) : bool :=
  match t with
  | Leaf _ _ => false
  | Ord _ cs => existsb (modif true) cs
  | Ret cs => existsb (modif o) cs
  | Nd _ cs => existsb (modif o) cs
  | Call name _ args extra =>
    match pick o name args with
    | BNone => existsb (modif o) args || existsb (modif o) extra
    | _ => true
    end
  end.
End Rewrite.

(* rw.returning after the walk: a RETURNING clause was visited *)
Fixpoint has_ret (t : node) : bool :=
  match t with
  | Leaf _ _ => false
  | Ret _ => true
  | Ord _ cs | Nd _ cs => existsb has_ret cs
  | Call _ _ args extra => existsb has_ret args || existsb has_ret extra
  end.

Definition is_explain (t : node) : bool :=
  match t with Nd tag _ => prefix "X" tag | _ => false end.   (* the driver's tag of *sql.ExplainStatement *)

Inductive output := Unchanged | Rewritten (t : node).
Record result := { r_out : output; r_fq : bool; r_explain : bool }.

Definition gate (c : cfg) (text : string) : bool :=
  let l := lower text in
  (rwtime c && contains_time l) || (rwrand c && contains_random l) || contains_returning l || contains_explain l.

(* Process for one statement: text as received, pt = what the parser returns for it *)
Definition processed (c : cfg) (text : string) (pt : option node) : result :=
  if negb (gate c text) then {| r_out := Unchanged; r_fq := false; r_explain := false |}
  else match pt with
       | None => {| r_out := Unchanged; r_fq := false; r_explain := false |}
       | Some t => {| r_out := if modif c false t then Rewritten (rw c false t) else Unchanged;
                      r_fq := has_ret t; r_explain := is_explain t |}
       end.

(* the statement that is replicated *)
Definition replicated (r : result) (t : node) : node :=
  match r_out r with Unchanged => t | Rewritten t' => t' end.

(* ---- calls in a statement, for the text/tree link (the parser is outside the model) ---- *)
Fixpoint any_call (p : string -> bool) (t : node) : bool :=
  match t with
  | Leaf _ _ => false
  | Ord _ cs | Ret cs | Nd _ cs => existsb (any_call p) cs
  | Call name _ args extra => p name || existsb (any_call p) args || existsb (any_call p) extra
  end.
Definition is_time_name (n : string) : bool := is_time5 n || is_strftime n || is_timediff n.
Definition is_rand_name (n : string) : bool := is_random n || is_randomblob n.

(* every call the parser found is visible to the pre-filters *)
Definition scan_sound (text : string) (t : node) : bool :=
  (negb (any_call is_time_name t) || contains_time (lower text))
  && (negb (any_call is_rand_name t) || contains_random (lower text)).

(* ------------------------------------------------------------------ correspondence *)

(* matching the model's output against the re-parsed output of the implementation:
   placeholders stand for concrete literals; collects the Julian-day literals seen *)
Definition is_hex_upper (c : ascii) : bool :=
  let n := N_of_ascii c in is_digit c || ((65 <=? n)%N && (n <=? 70)%N).
Fixpoint dec_value (s : string) (acc : N) : N :=
  match s with EmptyString => acc | String c r => dec_value r (acc * 10 + (N_of_ascii c - 48))%N end.
Definition blob_ok (n h : string) : bool :=
  all_chars is_hex_upper h && (N.of_nat (String.length h) =? 2 * N.max (dec_value n 0) 1)%N.

Section Match.
Variable match_node : node -> node -> option (list string).
Fixpoint match_list (ms os : list node) : option (list string) :=
  match ms, os with
  | [], [] => Some []
  | m :: ms', o :: os' =>
    match match_node m o, match_list ms' os' with
    | Some a, Some b => Some (a ++ b)%list
    | _, _ => None
    end
  | _, _ => None
  end.
End Match.

Fixpoint match_node (m o : node) : option (list string) :=
  match m, o with
  | Leaf KJd _, Leaf KNum s => Some [s]
  | Leaf KRand _, Leaf KNum s => if atoi_ok s || (all_chars is_digit s && negb (String.eqb s "")) then Some [] else None
  | Leaf KRBlob n, Leaf KBlob h => if blob_ok n h then Some [] else None
  | Leaf k s, Leaf k' s' =>
    match k with
    | KJd | KRand | KRBlob => None
    | _ => if kind_eqb k k' && String.eqb s s' then Some [] else None
    end
  | Call n f a e, Call n' f' a' e' =>
    if String.eqb n n' && String.eqb f f' then
      match match_list match_node a a', match_list match_node e e' with
      | Some x, Some y => Some (x ++ y)%list
      | _, _ => None
      end
    else None
  | Ord tg cs, Ord tg' cs' => if String.eqb tg tg' then match_list match_node cs cs' else None
  | Ret cs, Ret cs' => match_list match_node cs cs'
  | Nd tg cs, Nd tg' cs' => if String.eqb tg tg' then match_list match_node cs cs' else None
  | _, _ => None
  end.

(* "%f" of a Julian day of this era: 7 digits, point, 6 digits *)
Definition jd_fmt (s : string) : bool :=
  Nat.eqb (String.length s) 14 && all_chars is_digit (substring 0 7 s)
  && String.eqb (substring 7 1 s) "." && all_chars is_digit (substring 8 6 s).

Fixpoint all_same (l : list string) : bool :=
  match l with
  | a :: ((b :: _) as r) => String.eqb a b && all_same r
  | _ => true
  end.

Record case := {
  c_rand : bool; c_time : bool;     (* rwrand, rwtime *)
  c_text : string;                  (* the statement as sent *)
  c_tree : option node;             (* real parser's result for it, converted; None = parse error *)
  c_same : bool;                    (* implementation left the text byte-identical *)
  c_out : option node;              (* if not: the output text re-parsed by the real parser *)
  c_fq : bool; c_expl : bool        (* ForceQuery, SqlExplain afterwards *)
}.

Definition check_case (k : case) : bool :=
  let cf := {| rwrand := c_rand k; rwtime := c_time k |} in
  let r := processed cf (c_text k) (c_tree k) in
  Bool.eqb (r_fq r) (c_fq k) && Bool.eqb (r_explain r) (c_expl k)
  && match c_tree k with Some t => scan_sound (c_text k) t | None => true end
  && match r_out r with
     | Unchanged => c_same k
     | Rewritten t' =>
       match c_out k with
       | Some o => match match_node t' o with
                   | Some jds => all_same jds && forallb jd_fmt jds
                   | None => false
                   end
       | None => false
       end
     end.
