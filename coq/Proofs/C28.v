(* C28 — proofs about Model.C28.  The specification side (what "reassembles", "exactly one last",
   "rejected", "leaves nothing") is written from the property text. *)
From Coq Require Import List String Bool NArith ZArith Lia ZifyBool ZifyNat ZifyN.
From RQ Require Import Model.C28.
Import ListNotations.
Open Scope string_scope.
Open Scope list_scope.

(* ---------------------------------------------------------------- take / drop *)
Lemma take_drop n l : take n l ++ drop n l = l.
Proof.
  revert n; induction l as [|x l IH]; intros n; cbn [take drop]; [reflexivity|].
  destruct (N.eqb n 0); [reflexivity|]. cbn [app]. now rewrite IH.
Qed.

Lemma take_nonempty n x l : (0 < n)%N -> take n (x :: l) <> [].
Proof. intros H. cbn [take]. destruct (N.eqb_spec n 0); [lia | discriminate]. Qed.

Lemma lenN_app a b : lenN (a ++ b) = (lenN a + lenN b)%N.
Proof. unfold lenN. rewrite app_length. lia. Qed.

Lemma lenN_zero l : lenN l = 0%N -> l = [].
Proof. destruct l; [reflexivity | unfold lenN; cbn [List.length]; lia]. Qed.

(* ---------------------------------------------------------------- the reader *)
(* a Read delivers a prefix of the remaining data; it delivers nothing only at the end of the data, with EOF *)
Lemma read_spec bufsz r b eof r' :
  (0 < bufsz)%N -> read bufsz r = (b, eof, r') ->
  b ++ rd_data r' = rd_data r /\
  (b = [] -> eof = true /\ rd_data r = []) /\
  (rd_data r <> [] -> b <> []).
Proof.
  intros Hb. unfold read. destruct (rd_data r) as [|x l] eqn:E.
  - intros H; inversion H; subst. rewrite E. repeat split; auto; congruence.
  - set (want := match rd_caps r with [] => bufsz | c :: _ => N.min bufsz (N.max 1 c) end).
    assert (Hw : (0 < want)%N) by (unfold want; destruct (rd_caps r); lia).
    intros H. injection H as <- <- <-. cbn [rd_data].
    split; [exact (take_drop want (x :: l))|].
    split; [intros Hn; exfalso; exact (take_nonempty want x l Hw Hn)|].
    intros _. exact (take_nonempty want x l Hw).
Qed.

(* ---------------------------------------------------------------- the read loop of Next *)
(* With enough fuel the loop terminates; it consumes a prefix p of the data; it ends either because
   size bytes were read (not finished) or at the end of the data (finished, fewer than size bytes). *)
Lemma fill_spec size bufsz : (0 < bufsz)%N ->
  forall fuel r total, List.length (rd_data r) < fuel ->
  exists p t fin r',
    fill fuel size bufsz r total = Some (p, t, fin, r') /\
    p ++ rd_data r' = rd_data r /\ t = (total + lenN p)%N /\
    (fin = true -> rd_data r' = [] /\ (t < size)%N) /\
    (fin = false -> (size <= t)%N).
Proof.
  intros Hb. induction fuel as [|f IH]; intros r total Hf; [lia|].
  cbn [fill]. destruct (N.leb_spec size total) as [Hle|Hlt].
  - exists [], total, false, r. unfold lenN; cbn [List.length app]. repeat split; try lia; discriminate.
  - destruct (read bufsz r) as [[b eof] r1] eqn:Er.
    destruct (read_spec _ _ _ _ _ Hb Er) as (Hd & Hnil & Hne).
    destruct (N.ltb_spec 0 (lenN b)) as [Hpos|Hz].
    + (* data was read: the reader's error is overwritten by the write's nil *)
      assert (Hlen : List.length (rd_data r1) < f).
      { rewrite <- Hd, app_length in Hf. unfold lenN in Hpos. lia. }
      destruct (IH r1 (total + lenN b)%N Hlen) as (p & t & fin & r2 & Hfill & Hp & Ht & Hfin & Hnf).
      rewrite Hfill. exists (b ++ p), t, fin, r2. split; [reflexivity|].
      split; [rewrite <- app_assoc, Hp; exact Hd|].
      split; [rewrite lenN_app; lia|]. split; assumption.
    + assert (b = []) as -> by (apply lenN_zero; lia).
      destruct (Hnil eq_refl) as (-> & Hr). cbn [app] in Hd.
      exists [], (total + lenN [])%N, true, r1. split; [reflexivity|].
      split; [cbn [app]; exact Hd|]. split; [reflexivity|].
      split; [intros _; split; [congruence | unfold lenN; cbn [List.length]; lia] | discriminate].
Qed.

(* ================================================================= round trip *)
Section RoundTrip.
  Variable gzip : bytes -> bytes.
  Variable gunzip : bytes -> option bytes.
  Hypothesis gz_inverse : forall b, gunzip (gzip b) = Some b.

  (* Specification: a chunk list is "well marked" when exactly its final chunk carries the last flag. *)
  Definition well_marked (cs : list chunk) : Prop :=
    exists pre c, cs = pre ++ [c] /\ ch_last c = true /\ Forall (fun x => ch_last x = false) pre.

  (* what Next does, by cases, for size > 0 *)
  Lemma next_spec sid size k : (0 < size)%N -> ck_fin k = false ->
    let data := rd_data (ck_rd k) in
    (data = [] /\ ck_seq k = 0%Z /\ next gzip sid size k = NEof)
    \/ (data = [] /\ ck_seq k <> 0%Z /\ exists k',
          next gzip sid size k =
            NChunk {| ch_stream := sid; ch_seq := (ck_seq k + 1)%Z; ch_last := true; ch_abort := false; ch_data := None |} k'
          /\ ck_fin k' = true /\ rd_data (ck_rd k') = [])
    \/ (exists p k', p <> [] /\ p ++ rd_data (ck_rd k') = data /\
          next gzip sid size k =
            NChunk {| ch_stream := sid; ch_seq := (ck_seq k + 1)%Z; ch_last := ck_fin k'; ch_abort := false;
                      ch_data := Some (gzip p) |} k'
          /\ ck_seq k' = (ck_seq k + 1)%Z /\ (ck_fin k' = true -> rd_data (ck_rd k') = [])).
  Proof.
    intros Hs Hfin data. unfold next. rewrite Hfin.
    assert (Hb : (0 < N.min internalChunkSize size)%N) by (unfold internalChunkSize; lia).
    destruct (fill_spec size _ Hb (S (List.length (rd_data (ck_rd k)))) (ck_rd k) 0%N (Nat.lt_succ_diag_r _))
      as (p & t & fin & r' & Hfill & Hp & Ht & Hf & Hnf).
    rewrite Hfill. cbn [N.add] in Ht. subst t.
    destruct (N.eqb_spec (lenN p) 0) as [Hz|Hnz].
    - apply lenN_zero in Hz. subst p. cbn [app] in Hp.
      assert (fin = true) as -> by (destruct fin; [reflexivity | specialize (Hnf eq_refl); unfold lenN in Hnf; cbn in Hnf; lia]).
      destruct (Hf eq_refl) as (Hr & _).
      destruct (Z.eqb_spec (ck_seq k) 0) as [Hq|Hq].
      + left. unfold data. rewrite <- Hp, Hr. auto.
      + right; left. unfold data. rewrite <- Hp, Hr. split; [reflexivity|]. split; [assumption|].
        exists {| ck_rd := r'; ck_seq := ck_seq k; ck_fin := true |}. split; [reflexivity|]. cbn [ck_fin ck_rd]. auto.
    - right; right. exists p, {| ck_rd := r'; ck_seq := (ck_seq k + 1)%Z; ck_fin := fin |}. split; [intros ->; apply Hnz; reflexivity|].
      cbn [ck_rd ck_seq ck_fin]. split; [exact Hp|]. split.
      + f_equal. f_equal. destruct fin.
        * destruct (Hf eq_refl) as (_ & Hlt). apply N.ltb_lt. exact Hlt.
        * specialize (Hnf eq_refl). apply N.ltb_ge. exact Hnf.
      + split; [reflexivity|]. intros ->. apply Hf. reflexivity.
  Qed.

  (* the receiver state that matches a chunker about to produce chunk number ck_seq + 1 *)
  Definition synced (sid : string) (k : chunker) (d : dechunker) : Prop :=
    dc_seq d = ck_seq k /\ (0 <= ck_seq k)%Z /\
    (dc_stream d = sid \/ (dc_stream d = "" /\ ck_seq k = 0%Z)).

  Lemma write_own_chunk sid d s lst data :
    sid <> "" -> dc_seq d = s -> (dc_stream d = sid \/ dc_stream d = "") ->
    write_chunk gunzip d {| ch_stream := sid; ch_seq := (s + 1)%Z; ch_last := lst; ch_abort := false; ch_data := data |} =
    match data with
    | None => ({| dc_stream := sid; dc_seq := (s + 1)%Z; dc_file := dc_file d |}, WOk lst)
    | Some z => match gunzip z with
                | Some p => ({| dc_stream := sid; dc_seq := (s + 1)%Z; dc_file := dc_file d ++ p |}, WOk lst)
                | None => ({| dc_stream := sid; dc_seq := (s + 1)%Z; dc_file := dc_file d |}, WErr EGzip)
                end
    end.
  Proof.
    intros Hsid Hs Hst. unfold write_chunk. cbn [ch_stream ch_seq ch_data ch_last].
    destruct Hst as [Hst|Hst]; rewrite Hst.
    - destruct (String.eqb_spec sid "") as [|_]; [contradiction|]. rewrite String.eqb_refl. cbn [negb andb].
      rewrite Hs, Z.eqb_refl. cbn [negb]. rewrite Hst. destruct data as [z|]; [destruct (gunzip z)|]; reflexivity.
    - cbn [String.eqb negb andb dc_seq dc_stream dc_file]. rewrite Hs, Z.eqb_refl. cbn [negb].
      destruct data as [z|]; [destruct (gunzip z)|]; reflexivity.
  Qed.

  Lemma loop_finished sid size f k : ck_fin k = true -> chunk_loop gzip (S f) sid size k = Some [].
  Proof. intros H. cbn [chunk_loop]. unfold next. now rewrite H. Qed.

  Lemma well_marked_single c : ch_last c = true -> well_marked [c].
  Proof. intros H. exists [], c. repeat split; auto. Qed.

  Lemma well_marked_cons c cs : ch_last c = false -> well_marked cs -> well_marked (c :: cs).
  Proof.
    intros H (pre & x & -> & Hx & Hpre). exists (c :: pre), x. repeat split; auto.
  Qed.

  (* Main invariant: from synchronised states, with enough fuel, the chunker's remaining output is accepted
     chunk by chunk by the receiver and appends exactly the remaining data; unless nothing at all is sent
     (empty stream, no chunk sent before) exactly the final chunk is marked last and the receiver sees it. *)
  Lemma loop_roundtrip sid size : (0 < size)%N -> sid <> "" ->
    forall fuel k d,
      List.length (rd_data (ck_rd k)) + 2 <= fuel ->
      ck_fin k = false ->
      synced sid k d ->
      exists cs rs d',
        chunk_loop gzip fuel sid size k = Some cs /\
        run_dechunk gunzip d cs = (rs, d') /\
        forallb is_ok rs = true /\
        dc_file d' = dc_file d ++ rd_data (ck_rd k) /\
        ((ck_seq k = 0%Z /\ rd_data (ck_rd k) = [] /\ cs = [])
         \/ (well_marked cs /\ existsb is_ok_last rs = true)).
  Proof.
    intros Hs Hsid. induction fuel as [|f IH]; intros k d Hfuel Hfin Hsync; [lia|].
    destruct Hsync as (Hseq & Hge & Hst).
    assert (Hst' : dc_stream d = sid \/ dc_stream d = "") by (destruct Hst as [|[? ?]]; auto).
    cbn [chunk_loop].
    destruct (next_spec sid size k Hs Hfin)
      as [(Hd & Hq & Hn) | [(Hd & Hq & k' & Hn & Hf' & Hd') | (p & k' & Hp & Hpd & Hn & Hq' & Hf')]]; rewrite Hn.
    - exists [], [], d. cbn [run_dechunk forallb]. rewrite Hd, app_nil_r. repeat split; auto.
    - (* the final empty chunk *)
      destruct f as [|f]; [lia|]. rewrite (loop_finished sid size f k' Hf').
      eexists; eexists; eexists. split; [reflexivity|]. cbn [run_dechunk].
      rewrite (write_own_chunk sid d (ck_seq k) true None Hsid Hseq Hst').
      split; [reflexivity|]. cbn [forallb is_ok existsb is_ok_last andb orb dc_file].
      rewrite Hd, app_nil_r. repeat split; auto. right. split; [now apply well_marked_single | reflexivity].
    - rewrite <- Hpd in Hfuel. rewrite app_length in Hfuel.
      assert (Hlp : 0 < List.length p) by (destruct p; [congruence | cbn; lia]).
      pose proof (write_own_chunk sid d (ck_seq k) (ck_fin k') (Some (gzip p)) Hsid Hseq Hst') as Hw.
      cbv beta iota in Hw. rewrite gz_inverse in Hw.
      destruct (ck_fin k') eqn:Hfk.
      + (* the final, short chunk *)
        destruct f as [|f]; [lia|]. rewrite (loop_finished sid size f k' Hfk).
        eexists; eexists; eexists. split; [reflexivity|]. cbn [run_dechunk]. rewrite Hw.
        split; [reflexivity|]. cbn [forallb is_ok existsb is_ok_last andb orb dc_file].
        rewrite <- Hpd, (Hf' eq_refl), app_nil_r. repeat split; auto.
        right. split; [now apply well_marked_single | reflexivity].
      + destruct (IH k' {| dc_stream := sid; dc_seq := (ck_seq k + 1)%Z; dc_file := dc_file d ++ p |})
          as (cs & rs & d' & Hl & Hr & Hok & Hfile & Hmark); [lia | assumption | |].
        { unfold synced. cbn [dc_seq dc_stream]. rewrite Hq'. repeat split; auto; lia. }
        rewrite Hl. eexists; eexists; eexists. split; [reflexivity|]. cbn [run_dechunk]. rewrite Hw, Hr.
        split; [reflexivity|]. cbn [forallb is_ok existsb is_ok_last andb orb].
        split; [exact Hok|]. cbn [dc_file] in Hfile. split; [rewrite Hfile, <- Hpd, app_assoc; reflexivity|].
        right. destruct Hmark as [(Hz & _) | (Hwm & Hex)]; [lia|].
        split; [apply well_marked_cons; [reflexivity | exact Hwm] | exact Hex].
  Qed.

  (* C28 round trip.  For every reader (any data, any short-read schedule, EOF with or after the final bytes),
     every chunk size > 0 and every non-empty stream id the chunker terminates (never out of fuel), and a fresh
     receiver fed its chunks in order accepts them all and holds exactly the data; exactly the final chunk is
     marked last (an empty stream produces no chunk at all). *)
  Theorem roundtrip sid size r : (0 < size)%N -> sid <> "" ->
    exists cs,
      chunk_stream gzip sid size r = Some cs /\
      dechunk gunzip cs = DOk (rd_data r) (negb (is_nil (rd_data r))) /\
      (rd_data r = [] -> cs = []) /\
      (rd_data r <> [] -> well_marked cs).
  Proof.
    intros Hs Hsid. unfold chunk_stream.
    destruct (loop_roundtrip sid size Hs Hsid (List.length (rd_data r) + 3) (new_chunker r) new_dechunker)
      as (cs & rs & d' & Hl & Hr & Hok & Hfile & Hmark).
    - cbn [new_chunker ck_rd]. lia.
    - reflexivity.
    - unfold synced, new_chunker, new_dechunker. cbn. repeat split; auto; lia.
    - exists cs. split; [exact Hl|]. unfold dechunk. rewrite Hr, Hok.
      cbn [new_chunker ck_rd new_dechunker dc_file app] in Hfile. rewrite Hfile.
      cbn [new_chunker ck_rd ck_seq] in Hmark.
      destruct Hmark as [(_ & Hd & Hcs) | (Hwm & Hex)].
      + rewrite Hd. cbn [is_nil negb]. subst cs. cbn [run_dechunk] in Hr. inversion Hr; subst.
        repeat split; auto. congruence.
      + rewrite Hex. destruct (rd_data r) eqn:Ed.
        * (* well marked but no data: impossible, next returns EOF at once *)
          exfalso. cbn [List.length Nat.add chunk_loop] in Hl.
          destruct (next_spec sid size (new_chunker r) Hs eq_refl)
            as [(_ & _ & Hn) | [(_ & Hq & _) | (p & k' & Hp & Hpd & _)]].
          -- rewrite Hn in Hl. inversion Hl; subst. destruct Hwm as (pre & c & Hc & _). destruct pre; discriminate.
          -- now apply Hq.
          -- cbn [new_chunker ck_rd] in Hpd. rewrite Ed in Hpd. destruct p; [congruence | discriminate].
        * cbn [is_nil negb]. repeat split; auto. discriminate.
  Qed.
End RoundTrip.

(* ================================================================= rejection, abort *)
Section Receiver.
  Variable gunzip : bytes -> option bytes.

  (* Specification (property text): a receiver bound to stream s that has taken n chunks must reject a chunk
     of another stream and a chunk whose number is not n + 1 -- and the rejection must not disturb it. *)
  Definition foreign_or_out_of_order (d : dechunker) (c : chunk) : Prop :=
    ch_stream c <> dc_stream d \/ ch_seq c <> (dc_seq d + 1)%Z.

  Theorem rejected d c : dc_stream d <> "" -> foreign_or_out_of_order d c ->
    exists e, write_chunk gunzip d c = (d, WErr e) /\ (e = EStream \/ e = EOrder).
  Proof.
    intros Hs Hbad. unfold write_chunk.
    destruct (String.eqb_spec (dc_stream d) "") as [|_]; [contradiction|]. cbn [negb andb].
    destruct (String.eqb_spec (dc_stream d) (ch_stream c)) as [He|Hne]; cbn [negb].
    - destruct (Z.eqb_spec (ch_seq c) (dc_seq d + 1)) as [Hq|Hq]; cbn [negb].
      + destruct Hbad as [H|H]; [symmetry in He|]; contradiction.
      + exists EOrder. auto.
    - exists EStream. auto.
  Qed.

  Lemma run_dechunk_app d a b :
    run_dechunk gunzip d (a ++ b) =
    let (ra, da) := run_dechunk gunzip d a in let (rb, db) := run_dechunk gunzip da b in (ra ++ rb, db).
  Proof.
    revert d; induction a as [|c a IH]; intros d; cbn [app run_dechunk].
    - destruct (run_dechunk gunzip d b); reflexivity.
    - destruct (write_chunk gunzip d c) as [d1 r]. rewrite IH.
      destruct (run_dechunk gunzip d1 a) as [ra da]. destruct (run_dechunk gunzip da b); reflexivity.
  Qed.

  (* a pinned receiver stays pinned to the same stream *)
  Lemma write_chunk_stream d c : dc_stream d <> "" -> dc_stream (fst (write_chunk gunzip d c)) = dc_stream d.
  Proof.
    intros Hs. unfold write_chunk.
    destruct (String.eqb_spec (dc_stream d) "") as [|_]; [contradiction|]. cbn [negb andb].
    destruct (String.eqb (dc_stream d) (ch_stream c)); cbn [negb fst]; [|reflexivity].
    destruct (Z.eqb (ch_seq c) (dc_seq d + 1)); cbn [negb fst]; [|reflexivity].
    destruct (ch_data c) as [z|]; [destruct (gunzip z)|]; reflexivity.
  Qed.

  Lemma run_dechunk_stream cs : forall d, dc_stream d <> "" -> dc_stream (snd (run_dechunk gunzip d cs)) = dc_stream d.
  Proof.
    induction cs as [|c cs IH]; intros d Hs; cbn [run_dechunk snd]; [reflexivity|].
    pose proof (write_chunk_stream d c Hs) as Hw. destruct (write_chunk gunzip d c) as [d1 r]. cbn [fst] in Hw.
    specialize (IH d1). rewrite Hw in IH. specialize (IH Hs).
    destruct (run_dechunk gunzip d1 cs) as [rs d2]. cbn [snd] in *. congruence.
  Qed.

  (* A foreign, duplicated or otherwise out-of-order chunk dropped anywhere into a chunk sequence is rejected and
     changes nothing: every other chunk gets the verdict it would have got, and the file is the same.
     (pre non-empty-stream condition: the receiver is bound, i.e. at least one chunk with a stream id was seen.) *)
  Theorem rejected_chunk_is_harmless d pre bad post :
    dc_stream d <> "" ->
    foreign_or_out_of_order (snd (run_dechunk gunzip d pre)) bad ->
    exists e, (e = EStream \/ e = EOrder) /\
      run_dechunk gunzip d (pre ++ bad :: post) =
      (let (r1, d1) := run_dechunk gunzip d pre in
       let (r2, d2) := run_dechunk gunzip d1 post in (r1 ++ WErr e :: r2, d2)) /\
      snd (run_dechunk gunzip d (pre ++ bad :: post)) = snd (run_dechunk gunzip d (pre ++ post)).
  Proof.
    intros Hs Hbad. pose proof (run_dechunk_stream pre d Hs) as Hst.
    rewrite !run_dechunk_app. destruct (run_dechunk gunzip d pre) as [r1 d1]. cbn [snd] in *.
    destruct (rejected d1 bad) as (e & Hw & He); [congruence | assumption |].
    exists e. split; [exact He|]. cbn [run_dechunk]. rewrite Hw.
    destruct (run_dechunk gunzip d1 post) as [r2 d2]. split; reflexivity.
  Qed.

  (* General safety of a bound receiver, for ANY chunk sequence whatsoever (reordered, duplicated, foreign,
     corrupt...): the chunks that consumed a sequence number (accepted, or rejected only because their data does
     not decompress) all belong to the receiver's stream and carry consecutive numbers, and the file grows by
     exactly the payloads of the accepted ones, in order. *)
  Definition consumed (r : wres) : bool := match r with WOk _ | WErr EGzip => true | _ => false end.
  Definition plain (c : chunk) : bytes :=
    match ch_data c with Some z => match gunzip z with Some p => p | None => [] end | None => [] end.
  Fixpoint pick {A} (f : wres -> bool) (cs : list A) (rs : list wres) : list A :=
    match cs, rs with
    | c :: cs', r :: rs' => if f r then c :: pick f cs' rs' else pick f cs' rs'
    | _, _ => []
    end.
  Fixpoint consecutive (from : Z) (l : list Z) : Prop :=
    match l with [] => True | x :: t => x = from /\ consecutive (from + 1) t end.

  Theorem accepted_in_sequence cs : forall d rs d',
    dc_stream d <> "" -> run_dechunk gunzip d cs = (rs, d') ->
    List.length rs = List.length cs /\
    Forall (fun c => ch_stream c = dc_stream d) (pick consumed cs rs) /\
    consecutive (dc_seq d + 1) (map ch_seq (pick consumed cs rs)) /\
    dc_file d' = dc_file d ++ List.concat (map plain (pick is_ok cs rs)).
  Proof.
    induction cs as [|c cs IH]; intros d rs d' Hs Hr; cbn [run_dechunk] in Hr.
    - inversion Hr; subst. cbn. rewrite app_nil_r. auto.
    - pose proof (write_chunk_stream d c Hs) as Hst.
      destruct (write_chunk gunzip d c) as [d1 r] eqn:Hw. cbn [fst] in Hst.
      destruct (run_dechunk gunzip d1 cs) as [rs1 d2] eqn:Hr1. inversion Hr; subst; clear Hr.
      assert (Hs1 : dc_stream d1 <> "") by congruence.
      destruct (IH d1 rs1 d' Hs1 Hr1) as (Hlen & Hall & Hcons & Hfile). rewrite Hst in Hall.
      cbn [List.length]. split; [congruence|].
      unfold write_chunk in Hw.
      destruct (String.eqb_spec (dc_stream d) "") as [|_]; [contradiction|]. cbn [negb andb] in Hw.
      destruct (String.eqb_spec (dc_stream d) (ch_stream c)) as [He|Hne]; cbn [negb] in Hw.
      + destruct (Z.eqb_spec (ch_seq c) (dc_seq d + 1)) as [Hq|Hq]; cbn [negb] in Hw.
        * assert (Hpl : plain c = match ch_data c with Some z => match gunzip z with Some p => p | None => [] end | None => [] end)
            by reflexivity.
          destruct (ch_data c) as [z|] eqn:Ez; [destruct (gunzip z) as [p|] eqn:Eg|];
            inversion Hw; subst; clear Hw; cbn [dc_seq dc_file dc_stream] in *;
            cbn [pick consumed is_ok map List.concat consecutive]; rewrite Hq in Hcons.
          -- split; [constructor; auto|]. split; [auto|].
             rewrite Hfile, app_assoc. reflexivity.
          -- split; [constructor; auto|]. split; [auto|]. exact Hfile.
          -- rewrite Hpl. split; [constructor; auto|]. split; [auto|].
             rewrite Hfile. reflexivity.
        * inversion Hw; subst; clear Hw. cbn [pick consumed is_ok]. auto.
      + inversion Hw; subst; clear Hw. cbn [pick consumed is_ok]. auto.
  Qed.

  (* ---------------------------------------------------------------- manager / Process *)
  Lemma mget_mdel_same m id : mget (mdel m id) id = None.
  Proof.
    induction m as [|[k v] m IH]; cbn [mdel mget]; [reflexivity|].
    destruct (String.eqb k id) eqn:E; [exact IH|]. cbn [mget]. now rewrite E.
  Qed.

  Lemma mget_mdel_other m id id' : id <> id' -> mget (mdel m id) id' = mget m id'.
  Proof.
    intros Hne. induction m as [|[k v] m IH]; cbn [mdel mget]; [reflexivity|].
    destruct (String.eqb_spec k id) as [->|Hk].
    - destruct (String.eqb_spec id id'); [contradiction | exact IH].
    - cbn [mget]. now rewrite IH.
  Qed.

  Lemma mget_mset_same m id d : mget (mset m id d) id = Some d.
  Proof.
    induction m as [|[k v] m IH]; cbn [mset mget]; [now rewrite String.eqb_refl|].
    destruct (String.eqb k id) eqn:E; cbn [mget]; rewrite E; [reflexivity | exact IH].
  Qed.

  Lemma mget_mset_other m id id' d : id <> id' -> mget (mset m id d) id' = mget m id'.
  Proof.
    intros Hne. induction m as [|[k v] m IH]; cbn [mset mget].
    - destruct (String.eqb_spec id id'); [contradiction | reflexivity].
    - destruct (String.eqb_spec k id) as [->|Hk]; cbn [mget].
      + destruct (String.eqb_spec id id'); [contradiction | reflexivity].
      + now rewrite IH.
  Qed.

  (* a stream has a temp file in the directory iff the manager holds a receiver for it *)
  Lemma files_mget m id : In id (map fst (files m)) <-> mget m id <> None.
  Proof.
    induction m as [|[k v] m IH]; cbn [files map fst mget In].
    - split; [contradiction | congruence].
    - destruct (String.eqb_spec k id) as [->|Hk].
      + split; [discriminate | auto].
      + unfold files in IH. rewrite <- IH. split; [intros [H|H]; [contradiction | exact H] | auto].
  Qed.

  (* what is on disk for stream id: nothing, or its partial file *)
  Definition file_of (m : mgr) (id : string) : option bytes := option_map dc_file (mget m id).

  (* Abort, at any time, in any manager state: afterwards the stream has no receiver and no temp file -- no
     partial data is left -- and every other stream's partial file is exactly what it was. *)
  Theorem abort_step m c : ch_abort c = true ->
    let (m', r) := process gunzip m c in
    r = PAborted /\ file_of m' (ch_stream c) = None /\ ~ In (ch_stream c) (map fst (files m')) /\
    forall id, id <> ch_stream c -> file_of m' id = file_of m id.
  Proof.
    intros Ha. unfold process. rewrite Ha. unfold file_of.
    split; [reflexivity|]. split; [now rewrite mget_mdel_same|].
    split; [rewrite files_mget, mget_mdel_same; congruence|].
    intros id Hne. rewrite mget_mdel_other; [reflexivity | congruence].
  Qed.

  (* the same over whole histories: whatever commands were processed before (chunks of this and of other
     streams, in any order, tampered or not), once the abort command of a stream has been processed nothing
     of that stream is left *)
  Theorem abort_leaves_nothing hist c : ch_abort c = true ->
    let m' := snd (run_process gunzip [] (hist ++ [c])) in
    file_of m' (ch_stream c) = None /\ ~ In (ch_stream c) (map fst (files m')).
  Proof.
    intros Ha. cbn zeta.
    assert (Happ : forall a b m, snd (run_process gunzip m (a ++ b)) = snd (run_process gunzip (snd (run_process gunzip m a)) b)).
    { induction a as [|x a IH]; intros b m; cbn [app run_process snd]; [reflexivity|].
      destruct (process gunzip m x) as [m1 r1]. specialize (IH b m1).
      destruct (run_process gunzip m1 (a ++ b)). destruct (run_process gunzip m1 a). cbn [snd] in *. exact IH. }
    rewrite Happ. set (m := snd (run_process gunzip [] hist)). cbn [run_process].
    pose proof (abort_step m c Ha) as H. destruct (process gunzip m c) as [m' r]. cbn [snd].
    destruct H as (_ & H1 & H2 & _). auto.
  Qed.

  (* a completed stream leaves nothing either, and what it delivers is the receiver's file *)
  Theorem delivered_leaves_nothing m c f m' :
    process gunzip m c = (m', PDelivered f) -> file_of m' (ch_stream c) = None.
  Proof.
    unfold process, file_of. destruct (ch_abort c); [intros H; inversion H|].
    destruct (write_chunk gunzip _ c) as [d' r]. destruct r as [[|]|e]; intros H; inversion H; subst.
    now rewrite mget_mdel_same.
  Qed.

  (* streams are isolated: a command of one stream never changes the partial file of another *)
  Theorem other_streams_untouched m c id : id <> ch_stream c ->
    file_of (fst (process gunzip m c)) id = file_of m id.
  Proof.
    intros Hne. unfold process, file_of. destruct (ch_abort c); cbn [fst].
    - rewrite mget_mdel_other; [reflexivity | congruence].
    - destruct (write_chunk gunzip _ c) as [d' r]. destruct r as [[|]|e]; cbn [fst];
        rewrite ?mget_mdel_other, ?mget_mset_other by congruence; reflexivity.
  Qed.
End Receiver.

(* ================================================================= non-vacuity *)
(* the codec used on driver cases satisfies the hypothesis of the round-trip theorem *)
Lemma tcodec_inverse b : tgunzip (tgzip b) = Some b.
Proof. reflexivity. Qed.

(* 8 bytes, chunk size 4, reader returning EOF together with the final bytes: three chunks, the third one empty
   and marked last *)
Example ex_exact_multiple :
  let r := {| rd_data := bs "abcdefgh"; rd_caps := []; rd_eofwd := true |} in
  option_map (map (fun c => (ch_seq c, ch_last c, ch_data c))) (chunk_stream tgzip "S" 4 r)
    = Some [(1%Z, false, Some (tgzip (bs "abcd"))); (2%Z, false, Some (tgzip (bs "efgh"))); (3%Z, true, None)]
  /\ (forall cs, chunk_stream tgzip "S" 4 r = Some cs -> dechunk tgunzip cs = DOk (bs "abcdefgh") true).
Proof. split; [vm_compute; reflexivity | intros cs H; vm_compute in H; inversion H; subst; vm_compute; reflexivity]. Qed.

(* short reads: a chunk may carry more than the chunk size *)
Example ex_short_reads :
  let r := {| rd_data := bs "abcdefgh"; rd_caps := [3; 3; 1]%N; rd_eofwd := false |} in
  option_map (map (fun c => (ch_seq c, ch_last c, ch_data c))) (chunk_stream tgzip "S" 4 r)
    = Some [(1%Z, false, Some (tgzip (bs "abcdef"))); (2%Z, true, Some (tgzip (bs "gh")))].
Proof. vm_compute. reflexivity. Qed.

(* a duplicate and a foreign chunk are rejected and harmless; an abort removes the partial file *)
Example ex_reject_and_abort :
  let c n l p := {| ch_stream := "A"; ch_seq := n; ch_last := l; ch_abort := false; ch_data := Some (tgzip (bs p)) |} in
  let f := {| ch_stream := "B"; ch_seq := 2; ch_last := true; ch_abort := false; ch_data := Some (tgzip (bs "zz")) |} in
  run_dechunk tgunzip new_dechunker [c 1%Z false "ab"; c 1%Z false "ab"; f; c 2%Z true "c"]
    = ([WOk false; WErr EOrder; WErr EStream; WOk true], {| dc_stream := "A"; dc_seq := 2; dc_file := bs "abc" |})
  /\ map (fun s => (fst s, snd s)) (fst (run_process tgunzip [] [c 1%Z false "ab"; f; abort_chunk "A"]))
     = [(PAccepted, [("A", bs "ab")]); (PErr EOrder, [("A", bs "ab"); ("B", [])]); (PAborted, [("B", [])])].
Proof. split; vm_compute; reflexivity. Qed.
