(* C15 — how SQLite (3.53, as vendored by go-sqlite3) reads a request text, as far as the
   rqlite-critical settings are concerned.  Written from SQLite's lexical rules
   (tokenize.c: aiClass / sqlite3GetToken), the PRAGMA grammar rules of parse.y and the way
   go-sqlite3 feeds a multi-statement text to sqlite3_prepare — NOT from rqlite's guard.
   Executable definitions only.

   Deliberate over-approximations (the model may report an effect that real SQLite does not
   have; it must never miss one — the driver checks "observed changes are predicted"):
   * statements other than [EXPLAIN [QUERY PLAN]] PRAGMA are not parsed: they are skipped to
     the next ';' outside quotes/comments, and an error in one statement does not stop the
     following ones (in reality go-sqlite3 stops at the first error);
   * any token other than ';' and ')' after '=' / '(' counts as a value; a PRAGMA takes effect
     as soon as its value starts (flag PRAGMAs take effect at prepare time, before a later
     syntax error is noticed — observed on the real library);
   * numbers and multi-byte operators are read coarsely: a digit starts a run of identifier
     characters, operators are single bytes ('==' excepted).  SQLite's number token may also
     contain '.', and an exponent sign; none of these bytes is a quote, a ';' or starts a
     comment, so the position of every later quote/comment/';' is the same.  '.5' is DOT then
     a number; DOT is accepted where a value may start;
   * go-sqlite3 trims Unicode white space (strings.TrimSpace) from the tail that follows each
     statement; the model skips it at every statement start. *)
From Coq Require Import List NArith Bool String Ascii.
Import ListNotations.
Local Open Scope N_scope.

Definition bytes := list N.

Definition bytes_of_string (s : string) : bytes := map (fun a => N_of_ascii a) (list_ascii_of_string s).

(* ---------- shared models of library functions used on both sides ---------- *)

(* a Go string handed to C.CString / read as a C string: everything before the first NUL *)
Fixpoint cstring (l : bytes) : bytes :=
  match l with
  | [] => []
  | c :: r => if c =? 0 then [] else c :: cstring r
  end.

(* Go: strings.TrimLeftFunc(s, unicode.IsSpace) (= the left half of strings.TrimSpace) on a
   UTF-8 string: '\t' '\n' '\v' '\f' '\r' ' ' U+0085 U+00A0 U+1680 U+2000-200A U+2028 U+2029
   U+202F U+205F U+3000; anything else, including invalid UTF-8, stops the trimming. *)
Fixpoint go_trim_left (l : bytes) : bytes :=
  match l with
  | [] => []
  | c :: r =>
    if (c =? 32) || ((9 <=? c) && (c <=? 13)) then go_trim_left r
    else if c =? 194 then
      match r with
      | d :: r1 => if (d =? 133) || (d =? 160) then go_trim_left r1 else l
      | [] => l
      end
    else if c =? 225 then
      match r with
      | d :: e :: r2 => if (d =? 154) && (e =? 128) then go_trim_left r2 else l
      | _ => l
      end
    else if c =? 226 then
      match r with
      | d :: e :: r2 =>
        if ((d =? 128) && (((128 <=? e) && (e <=? 138)) || (e =? 168) || (e =? 169) || (e =? 175)))
           || ((d =? 129) && (e =? 159)) then go_trim_left r2 else l
      | _ => l
      end
    else if c =? 227 then
      match r with
      | d :: e :: r2 => if (d =? 128) && (e =? 128) then go_trim_left r2 else l
      | _ => l
      end
    else l
  end.

Fixpoint drop_while (p : N -> bool) (l : bytes) : bytes :=
  match l with
  | c :: r => if p c then drop_while p r else l
  | [] => []
  end.

Fixpoint take_while (p : N -> bool) (l : bytes) : bytes :=
  match l with
  | c :: r => if p c then c :: take_while p r else []
  | [] => []
  end.

Definition to_lower (c : N) : N := if (65 <=? c) && (c <=? 90) then c + 32 else c.

Fixpoint bytes_eqb (a b : bytes) : bool :=
  match a, b with
  | [], [] => true
  | x :: a', y :: b' => (x =? y) && bytes_eqb a' b'
  | _, _ => false
  end.

(* sqlite3StrICmp(a, b) == 0 against a lower-case ASCII name *)
Definition ieq (a : bytes) (name : string) : bool := bytes_eqb (map to_lower a) (bytes_of_string name).

(* ---------- tokenize.c ---------- *)

Inductive cc :=
| CC_SPACE | CC_MINUS | CC_SLASH | CC_QUOTE | CC_QUOTE2 | CC_SEMI | CC_DOT | CC_EQ | CC_LP | CC_RP
| CC_VAR      (* CC_DOLLAR, CC_VARALPHA: $ @ : # *)
| CC_X        (* x X *)
| CC_IDSTART  (* CC_KYWD0, CC_KYWD, CC_ID: letters, '_', bytes >= 0x80 *)
| CC_DIGIT
| CC_BOM      (* 0xEF *)
| CC_SINGLE.  (* every other byte: a one-byte token (operator) or an illegal byte *)

(* aiClass[], ASCII build *)
Definition ai_class (c : N) : cc :=
  if (c =? 9) || (c =? 10) || (c =? 12) || (c =? 13) || (c =? 32) then CC_SPACE
  else if (c =? 34) || (c =? 39) || (c =? 96) then CC_QUOTE
  else if (c =? 35) || (c =? 36) || (c =? 58) || (c =? 64) then CC_VAR
  else if c =? 40 then CC_LP
  else if c =? 41 then CC_RP
  else if c =? 45 then CC_MINUS
  else if c =? 46 then CC_DOT
  else if c =? 47 then CC_SLASH
  else if (48 <=? c) && (c <=? 57) then CC_DIGIT
  else if c =? 59 then CC_SEMI
  else if c =? 61 then CC_EQ
  else if (c =? 88) || (c =? 120) then CC_X
  else if ((65 <=? c) && (c <=? 90)) || ((97 <=? c) && (c <=? 122)) || (c =? 95) then CC_IDSTART
  else if c =? 91 then CC_QUOTE2
  else if c =? 239 then CC_BOM
  else if 128 <=? c then CC_IDSTART
  else CC_SINGLE.

(* sqlite3Isspace: sqlite3CtypeMap[c] & 0x01 — note: includes 0x0b, which aiClass does not *)
Definition sq_isspace (c : N) : bool := ((9 <=? c) && (c <=? 13)) || (c =? 32).
(* sqlite3Isxdigit *)
Definition sq_isxdigit (c : N) : bool :=
  ((48 <=? c) && (c <=? 57)) || ((65 <=? c) && (c <=? 70)) || ((97 <=? c) && (c <=? 102)).
(* IdChar(C): sqlite3CtypeMap[c] & 0x46 *)
Definition sq_idchar (c : N) : bool :=
  ((48 <=? c) && (c <=? 57)) || ((65 <=? c) && (c <=? 90)) || ((97 <=? c) && (c <=? 122))
  || (c =? 36) || (c =? 95) || (128 <=? c).

Inductive stok :=
| SSpace                          (* TK_SPACE, TK_COMMENT: dropped before the parser *)
| SSemi | SDot | SEq | SLp | SRp
| SWord (w : bytes)               (* unquoted identifier or keyword *)
| SQuoted (q : N) (raw : bytes)   (* 'x' (TK_STRING) or "x" `x` [x] (TK_ID); raw = bytes between the delimiters *)
| SOther.                         (* anything else, legal or not *)

(* "--": for(i=2; (c=z[i])!=0 && c!='\n'; i++){} — l = z[2:] *)
Definition c_line_comment (l : bytes) : bytes := drop_while (fun c => negb (c =? 10)) l.

(* "/*": for(i=3, c=z[2]; (c!='*' || z[i]!='/') && (c=z[i])!=0; i++){}  if(c) i++;
   c = the previous byte, l = z[i:] *)
Fixpoint c_block_comment (c : N) (l : bytes) : bytes :=
  match l with
  | [] => []
  | x :: r => if (c =? 42) && (x =? 47) then r else c_block_comment x r
  end.

(* CC_QUOTE: for(i=1; (c=z[i])!=0; i++){ if(c==delim){ if(z[i+1]==delim) i++; else break; } }
   l = z[1:]; result: the raw bytes before the closing delimiter and the rest after it *)
Fixpoint c_quoted (delim : N) (l : bytes) : option (bytes * bytes) :=
  match l with
  | [] => None
  | c :: r =>
    if c =? delim then
      match r with
      | c2 :: r2 =>
        if c2 =? delim then
          match c_quoted delim r2 with Some (raw, rest) => Some (c :: c2 :: raw, rest) | None => None end
        else Some ([], r)
      | [] => Some ([], [])
      end
    else match c_quoted delim r with Some (raw, rest) => Some (c :: raw, rest) | None => None end
  end.

(* CC_QUOTE2: for(i=1, c=z[0]; c!=']' && (c=z[i])!=0; i++){} *)
Fixpoint c_bracket (l : bytes) : option (bytes * bytes) :=
  match l with
  | [] => None
  | c :: r => if c =? 93 then Some ([], r)
              else match c_bracket r with Some (raw, rest) => Some (c :: raw, rest) | None => None end
  end.

(* TCL-style variable tail: do{ i++; }while( (c=z[i])!=0 && !sqlite3Isspace(c) && c!=')' ); if(c==')') i++; *)
Fixpoint c_var_paren (l : bytes) : bytes :=
  match l with
  | [] => []
  | c :: r => if sq_isspace c then l else if c =? 41 then r else c_var_paren r
  end.

(* CC_DOLLAR / CC_VARALPHA: l = z[1:], seen = (n > 0) *)
Fixpoint c_variable (seen : bool) (l : bytes) : bytes :=
  match l with
  | [] => []
  | c :: r =>
    if sq_idchar c then c_variable true r
    else if (c =? 40) && seen then c_var_paren r
    else if c =? 58 then
      match r with
      | c2 :: r2 => if c2 =? 58 then c_variable seen r2 else l
      | [] => l
      end
    else l
  end.

(* CC_X with z[1]=='\'': l = z[2:].  for(i=2; isxdigit(z[i]); i++){}
   if( z[i]!='\'' || i%2 ){ while( z[i] && z[i]!='\'' ) i++; }  if( z[i] ) i++;
   (the second loop does nothing when z[i] is the quote, so it is run unconditionally here) *)
Definition c_blob (l : bytes) : bytes :=
  match drop_while (fun c => negb (c =? 39)) (drop_while sq_isxdigit l) with
  | [] => []
  | _ :: r => r
  end.

Definition c_ident (c : N) (r : bytes) : stok * bytes :=
  (SWord (c :: take_while sq_idchar r), drop_while sq_idchar r).

(* sqlite3GetToken on a non-empty C string *)
Definition sq_token (z : bytes) : option (stok * bytes) :=
  match z with
  | [] => None
  | c :: r =>
    Some
      match ai_class c with
      | CC_SPACE => (SSpace, drop_while sq_isspace r)
      | CC_MINUS =>
        match r with
        | c1 :: r1 => if c1 =? 45 then (SSpace, c_line_comment r1) else (SOther, r)
        | [] => (SOther, r)
        end
      | CC_SLASH =>
        match r with
        | c1 :: c2 :: r2 => if c1 =? 42 then (SSpace, c_block_comment c2 r2) else (SOther, r)
        | _ => (SOther, r)
        end
      | CC_QUOTE =>
        match c_quoted c r with
        | Some (raw, rest) => (SQuoted c raw, rest)
        | None => (SOther, [])          (* TK_ILLEGAL up to the end of the text *)
        end
      | CC_QUOTE2 =>
        match c_bracket r with
        | Some (raw, rest) => (SQuoted c raw, rest)
        | None => (SOther, [])
        end
      | CC_SEMI => (SSemi, r)
      | CC_DOT => (SDot, r)
      | CC_LP => (SLp, r)
      | CC_RP => (SRp, r)
      | CC_EQ =>
        match r with
        | c1 :: r1 => if c1 =? 61 then (SEq, r1) else (SEq, r)
        | [] => (SEq, r)
        end
      | CC_VAR => (SOther, c_variable false r)
      | CC_X =>
        match r with
        | c1 :: r1 => if c1 =? 39 then (SOther, c_blob r1) else c_ident c r
        | [] => c_ident c r
        end
      | CC_IDSTART => c_ident c r
      | CC_DIGIT => (SOther, drop_while sq_idchar r)
      | CC_BOM =>
        match r with
        | c1 :: c2 :: r2 => if (c1 =? 187) && (c2 =? 191) then (SSpace, r2) else c_ident c r
        | _ => c_ident c r
        end
      | CC_SINGLE => (SOther, r)
      end
  end.

(* sqlite3Dequote for '...', "...", `...`: a doubled delimiter stands for one (a lone one
   cannot occur in a token produced by c_quoted; it is kept); [...] has no escapes *)
Fixpoint dequote (q : N) (raw : bytes) : bytes :=
  match raw with
  | [] => []
  | c :: r =>
    if c =? q then
      match r with
      | c2 :: r2 => if c2 =? q then c :: dequote q r2 else c :: dequote q r
      | [] => [c]
      end
    else c :: dequote q r
  end.

Definition name_of_quoted (q : N) (raw : bytes) : bytes := if q =? 91 then raw else dequote q raw.

(* ---------- the settings rqlite depends on ---------- *)

Inductive effect := SetJournalMode | SetAutoCheckpoint | SetSynchronous | SetQueryOnly | RunCheckpoint.

Definition effect_eqb (a b : effect) : bool :=
  match a, b with
  | SetJournalMode, SetJournalMode | SetAutoCheckpoint, SetAutoCheckpoint
  | SetSynchronous, SetSynchronous | SetQueryOnly, SetQueryOnly | RunCheckpoint, RunCheckpoint => true
  | _, _ => false
  end.

(* pragmaLocate: case-insensitive look-up of the pragma name; with a value ... *)
Definition set_effect (name : bytes) : list effect :=
  if ieq name "journal_mode" then [SetJournalMode]
  else if ieq name "wal_autocheckpoint" then [SetAutoCheckpoint]
  else if ieq name "synchronous" then [SetSynchronous]
  else if ieq name "query_only" then [SetQueryOnly]
  else if ieq name "wal_checkpoint" then [RunCheckpoint]
  else [].

(* ... and without one: only wal_checkpoint does something *)
Definition bare_effect (name : bytes) : list effect :=
  if ieq name "wal_checkpoint" then [RunCheckpoint] else [].

(* ---------- parse.y, the rules that lead to sqlite3Pragma ----------
   ecmd ::= SEMI | cmdx SEMI | explain cmdx SEMI.   explain ::= EXPLAIN | EXPLAIN QUERY PLAN.
   cmd ::= PRAGMA nm dbnm | PRAGMA nm dbnm EQ nmnum | PRAGMA nm dbnm LP nmnum RP
         | PRAGMA nm dbnm EQ minus_num | PRAGMA nm dbnm LP minus_num RP.
   dbnm ::= | DOT nm.     nm ::= idj | STRING.   (with dbnm present, the first nm is the schema) *)
Inductive pstate :=
| PStart | PExplain | PExplainQ | PExplainQP | PPragma
| PName1 (n : bytes) | PDot | PName2 (n : bytes) | PValue (n : bytes) | PSkip.

Definition is_start (p : pstate) : bool := match p with PStart => true | _ => false end.

Definition name_tok (t : stok) : option bytes :=
  match t with
  | SWord w => Some w
  | SQuoted q raw => Some (name_of_quoted q raw)
  | _ => None
  end.

Definition is_kw (t : stok) (kw : string) : bool :=
  match t with SWord w => ieq w kw | _ => false end.

(* one significant (non-space) token *)
Definition p_step (p : pstate) (t : stok) : pstate * list effect :=
  match t with
  | SSemi =>
    match p with
    | PName1 n | PName2 n => (PStart, bare_effect n)
    | _ => (PStart, [])
    end
  | _ =>
    match p with
    | PStart =>
      if is_kw t "explain" then (PExplain, []) else if is_kw t "pragma" then (PPragma, []) else (PSkip, [])
    | PExplain =>
      if is_kw t "query" then (PExplainQ, []) else if is_kw t "pragma" then (PPragma, []) else (PSkip, [])
    | PExplainQ => if is_kw t "plan" then (PExplainQP, []) else (PSkip, [])
    | PExplainQP => if is_kw t "pragma" then (PPragma, []) else (PSkip, [])
    | PPragma => match name_tok t with Some n => (PName1 n, []) | None => (PSkip, []) end
    | PName1 n =>
      match t with
      | SDot => (PDot, [])
      | SEq | SLp => (PValue n, [])
      | _ => (PSkip, [])
      end
    | PDot => match name_tok t with Some n => (PName2 n, []) | None => (PSkip, []) end
    | PName2 n =>
      match t with
      | SEq | SLp => (PValue n, [])
      | _ => (PSkip, [])
      end
    | PValue n =>
      match t with
      | SRp => (PSkip, [])
      | _ => (PSkip, set_effect n)
      end
    | PSkip => (PSkip, [])
    end
  end.

(* end of the text acts as a final ';' *)
Definition p_end (p : pstate) : list effect :=
  match p with PName1 n | PName2 n => bare_effect n | _ => [] end.

(* None = out of fuel (never happens with fuel > length, see Proofs) *)
Fixpoint sq_run (fuel : nat) (p : pstate) (z : bytes) : option (list effect) :=
  match fuel with
  | O => None
  | S fuel' =>
    let z := if is_start p then go_trim_left z else z in
    match sq_token z with
    | None => Some (p_end p)
    | Some (SSpace, rest) => sq_run fuel' p rest
    | Some (t, rest) =>
      let '(p', e) := p_step p t in
      match sq_run fuel' p' rest with
      | Some es => Some (e ++ es)
      | None => None
      end
    end
  end.

Definition sqlite_effects (text : bytes) : option (list effect) :=
  let z := cstring text in sq_run (S (List.length z)) PStart z.
