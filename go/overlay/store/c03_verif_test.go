package store

// C03 driver: histories of non-idempotent writes, snapshots (micro-stepped white-box or through raft with
// log compaction), simulated snapshot installs and clean restarts on a real single-node Store.  After every
// micro-step the test can reach, a crash image (cp -a of the data directory) is taken; every image is
// reopened with a fresh Store and its database compared with (a) the Coq model's prediction (content and
// fast-path decision) and (b) the oracle: exactly the acknowledged entries, each once, in order.

import (
	"context"
	"encoding/json"
	"fmt"
	"io"
	"math/rand"
	"os"
	"path/filepath"
	"strings"
	"sync"
	"testing"
	"time"

	"github.com/hashicorp/raft"
	sql "github.com/rqlite/rqlite/v10/db"
	"github.com/rqlite/rqlite/v10/snapshot"
)

type c03Op struct {
	Kind    string `json:"kind"`              // write | snap | install | restart
	Compact int    `json:"compact,omitempty"` // snap: 0 = white-box micro-steps, no log compaction; t>0 = through raft, t trailing entries
	Extra   int    `json:"extra,omitempty"`   // install: the incoming snapshot is at (entries so far)+extra
}

type c03Input struct {
	Ops []c03Op `json:"ops"`
}

const c03DDL = "CREATE TABLE IF NOT EXISTS t (id INTEGER PRIMARY KEY AUTOINCREMENT, v INTEGER)"

type c03Image struct {
	K      int    // micro-steps of the model's flattened history executed before the crash
	After  string // name of the last micro-step
	Dir    string
	Expect int  // entries 1..Expect are durable (acknowledged, or covered by a visible snapshot)
	Fresh  bool // a write was acknowledged since the previous snapshot and the crash is inside a snapshot / restore path
	// filled by reopening
	Content []int
	Fast    bool
	Err     string
	Skip    string // the image could not be evaluated (harness / environment): not an observation
}

func c03Dump(n *vsNode) ([]int, error) {
	rows, _, _, err := n.s.Query(context.Background(), queryRequestFromString("SELECT v FROM t ORDER BY id", false, false, false))
	if err != nil {
		return nil, err
	}
	if len(rows) != 1 || rows[0].Error != "" {
		return nil, fmt.Errorf("query: %v", rows)
	}
	var out []int
	for _, v := range rows[0].Values {
		out = append(out, int(v.Parameters[0].GetI()))
	}
	return out, nil
}

// donor database holding entries 1..j, as a leader at index j would have it
func c03Donor(path string, j int) error {
	for _, sfx := range []string{"", "-wal", "-shm"} {
		os.Remove(path + sfx)
	}
	d, err := sql.Open(path, false, true)
	if err != nil {
		return err
	}
	stmts := []string{c03DDL}
	for i := 1; i <= j; i++ {
		stmts = append(stmts, fmt.Sprintf("INSERT INTO t(v) VALUES(%d)", i))
	}
	for _, q := range stmts {
		if rs, err := d.ExecuteStringStmt(q); err != nil || (len(rs) > 0 && rs[0].GetError() != "") {
			d.Close()
			return fmt.Errorf("donor: %v %v", err, rs)
		}
	}
	if err := d.CheckpointTruncateWithTimeout(5 * time.Second); err != nil {
		d.Close()
		return err
	}
	if err := d.Close(); err != nil {
		return err
	}
	os.Remove(path + "-wal")
	os.Remove(path + "-shm")
	return nil
}

func c03Reopen(img *c03Image) {
	n := vsNewNode(img.Dir, "n1")
	defer func() { n.ln.Close() }()
	if err := n.openSingle(false); err != nil {
		n.s.Close(true)
		if !vsTransient(err) {
			img.Err = "reopen: " + err.Error()
			return
		}
		// the machine was too slow for the node to elect itself: try the same image once more
		n.ln.Close()
		n = vsNewNode(img.Dir, "n1")
		if err := n.openSingle(false); err != nil {
			n.s.Close(true)
			if vsTransient(err) {
				img.Skip = "reopen: " + err.Error()
			} else {
				img.Err = "reopen: " + err.Error()
			}
			return
		}
	}
	defer n.s.Close(true)
	img.Fast = n.s.numSnapshotsSkipped.Load() > 0
	c, err := c03Dump(n)
	if err != nil {
		img.Err = "dump: " + err.Error()
		return
	}
	img.Content = c
}

func c03RunCase(in c03Input, base string, seq int) VCase {
	return vsRetry(func(attempt int) VCase { return c03RunOnce(in, base, seq*2+attempt) })
}

func c03RunOnce(in c03Input, base string, seq int) VCase {
	key := vJSON(in)
	dir := filepath.Join(base, fmt.Sprintf("n%d", seq))
	scratch := filepath.Join(base, fmt.Sprintf("s%d", seq))
	os.MkdirAll(scratch, 0755)
	defer os.RemoveAll(dir)
	defer os.RemoveAll(scratch)
	n := vsNewNode(dir, "n1")
	defer func() { n.ln.Close() }()
	if err := n.openSingle(true); err != nil {
		return VCase{Input: in, Key: key, Inconcl: "node did not start: " + err.Error()}
	}
	closed := false
	defer func() {
		if !closed {
			n.s.Close(true)
		}
	}()
	if _, err := n.exec([]string{c03DDL}); err != nil {
		return VCase{Input: in, Key: key, Inconcl: "create table: " + err.Error()}
	}
	var images []*c03Image
	k, entries, sinceSnap := 0, 0, 0
	nimg := 0
	image := func(after string, inPath bool) error {
		img := &c03Image{K: k, After: after, Dir: filepath.Join(scratch, fmt.Sprintf("img%d", nimg)), Expect: entries, Fresh: inPath && sinceSnap > 0}
		nimg++
		if err := vsCrashImage(dir, img.Dir); err != nil {
			return err
		}
		images = append(images, img)
		return nil
	}
	fail := func(i int, op c03Op, err error) VCase {
		if vsTransient(err) {
			return VCase{Input: in, Key: key, Inconcl: fmt.Sprintf("step %d (%s): %v", i, op.Kind, err)}
		}
		return VCase{Input: in, Key: key, OracleFail: fmt.Sprintf("step %d (%s) failed: %v", i, op.Kind, err), Sig: "C03:step-error:" + op.Kind}
	}
	for i, op := range in.Ops {
		s := n.s
		switch op.Kind {
		case "write":
			if _, err := n.exec([]string{fmt.Sprintf("INSERT INTO t(v) VALUES(%d)", entries+1)}); err != nil {
				return fail(i, op, err)
			}
			entries++
			sinceSnap++
			k += 3
			if err := image("MAck", false); err != nil {
				return fail(i, op, err)
			}
		case "snap":
			if op.Compact > 0 {
				err := s.Snapshot(uint64(op.Compact))
				if err != nil && err != ErrNoWALToSnapshot && err != ErrNothingNewToSnapshot && !strings.Contains(err.Error(), ErrNoWALToSnapshot.Error()) {
					return fail(i, op, err)
				}
				k += 5
				if err == nil {
					sinceSnap = 0
				}
				if err := image("MCompact", false); err != nil {
					return fail(i, op, err)
				}
				break
			}
			f, err := NewFSM(s).Snapshot()
			if err == ErrNoWALToSnapshot {
				k += 5
				if err := image("MRelease", false); err != nil {
					return fail(i, op, err)
				}
				break
			}
			if err != nil {
				return fail(i, op, err)
			}
			k++
			if err := image("MCheckpoint", true); err != nil {
				return fail(i, op, err)
			}
			cf := s.raft.GetConfiguration()
			if err := cf.Error(); err != nil {
				return fail(i, op, err)
			}
			time.Sleep(2 * time.Millisecond)
			sink, err := s.snapshotStore.Create(raft.SnapshotVersionMax, s.raft.AppliedIndex(), s.raft.CurrentTerm(), cf.Configuration(), 1, nil)
			if err != nil {
				return fail(i, op, err)
			}
			fs := f.(*FSMSnapshot)
			orig := fs.Finalizer
			var imgErr error
			fs.Finalizer = func() error {
				k++
				imgErr = image("MStream", true)
				return orig()
			}
			if err := f.Persist(sink); err != nil {
				sink.Cancel()
				return fail(i, op, err)
			}
			if imgErr != nil {
				return fail(i, op, imgErr)
			}
			k++
			if err := image("MFingerprint", true); err != nil {
				return fail(i, op, err)
			}
			if err := sink.Close(); err != nil {
				return fail(i, op, err)
			}
			k++
			if err := image("MSinkClose", true); err != nil {
				return fail(i, op, err)
			}
			f.Release()
			sinceSnap = 0
			k++
			if err := image("MRelease", false); err != nil {
				return fail(i, op, err)
			}
		case "install":
			j := entries + op.Extra
			p := filepath.Join(scratch, "donor.db")
			if err := c03Donor(p, j); err != nil {
				return fail(i, op, err)
			}
			st, err := snapshot.NewSnapshotStreamer(p)
			if err != nil {
				return fail(i, op, err)
			}
			if err := st.Open(); err != nil {
				return fail(i, op, err)
			}
			cf := s.raft.GetConfiguration()
			if err := cf.Error(); err != nil {
				return fail(i, op, err)
			}
			time.Sleep(2 * time.Millisecond)
			sink, err := s.snapshotStore.Create(raft.SnapshotVersionMax, s.raft.LastIndex()+3, s.raft.CurrentTerm(), cf.Configuration(), 1, nil)
			if err != nil {
				return fail(i, op, err)
			}
			if _, err := io.Copy(sink, st); err != nil {
				sink.Cancel()
				return fail(i, op, err)
			}
			st.Close()
			if err := sink.Close(); err != nil {
				return fail(i, op, err)
			}
			entries = j
			k++
			if err := image("MInstallClose", true); err != nil {
				return fail(i, op, err)
			}
			_, rc, err := s.snapshotStore.Open(sink.ID())
			if err != nil {
				return fail(i, op, err)
			}
			if err := s.fsmRestore(rc); err != nil {
				return fail(i, op, err)
			}
			sinceSnap = 0
			k += 3
			if err := image("MRestoreFp", false); err != nil {
				return fail(i, op, err)
			}
		case "restart":
			if err := n.restart(); err != nil {
				return fail(i, op, err)
			}
			k++
			if err := image("MRestart", false); err != nil {
				return fail(i, op, err)
			}
		}
	}
	n.s.Close(true)
	closed = true

	// reopen every image (in parallel: each is a private directory)
	var wg sync.WaitGroup
	sem := make(chan struct{}, 4)
	for _, img := range images {
		wg.Add(1)
		go func(img *c03Image) {
			defer wg.Done()
			sem <- struct{}{}
			defer func() { <-sem }()
			c03Reopen(img)
			os.RemoveAll(img.Dir)
		}(img)
	}
	wg.Wait()

	failMsg, sig := "", ""
	nontrivial := false
	var obs []string
	tags := map[string]bool{}
	for _, img := range images {
		tags["crash-after-"+img.After] = true
		if img.Fresh {
			nontrivial = true
		}
		if img.Skip != "" {
			tags["image-not-evaluated"] = true
			continue
		}
		if img.Err != "" {
			if failMsg == "" {
				failMsg = fmt.Sprintf("crash after micro-step %d (%s): the node does not come back: %s", img.K, img.After, img.Err)
				sig = "C03:no-restart:after-" + img.After
			}
			continue
		}
		cs := make([]string, len(img.Content))
		for i, v := range img.Content {
			cs[i] = fmt.Sprint(v)
		}
		obs = append(obs, fmt.Sprintf("(%d, %s, %s)", img.K, coqList(cs), coqBool(img.Fast)))
		// oracle: exactly 1..Expect
		bad := len(img.Content) != img.Expect
		for i := 0; !bad && i < img.Expect; i++ {
			bad = img.Content[i] != i+1
		}
		if bad && failMsg == "" {
			kind := "state-differs"
			if len(img.Content) > img.Expect {
				kind = "entries-applied-twice"
			} else if len(img.Content) < img.Expect {
				kind = "acknowledged-write-missing"
			}
			failMsg = fmt.Sprintf("crash after micro-step %d (%s): restarted node has %v, acknowledged history is 1..%d (fast path: %v)", img.K, img.After, img.Content, img.Expect, img.Fast)
			switch img.After {
			case "MFingerprint":
				sig = "C03:crash-between-fingerprint-and-sink-close"
			case "MInstallClose":
				sig = "C03:crash-between-install-and-restore"
			default:
				sig = "C03:" + kind + ":after-" + img.After
			}
		}
	}
	hops := make([]string, len(in.Ops))
	for i, op := range in.Ops {
		switch op.Kind {
		case "write":
			hops[i] = "HWrite"
		case "snap":
			if op.Compact > 0 {
				hops[i] = fmt.Sprintf("(HSnap (Some %d))", op.Compact)
			} else {
				hops[i] = "(HSnap None)"
			}
		case "install":
			hops[i] = fmt.Sprintf("(HInstall %d)", op.Extra)
		case "restart":
			hops[i] = "HRestart"
		}
	}
	c := VCase{Input: in, Key: key, Nontrivial: nontrivial,
		Coq: fmt.Sprintf("{| c_hist := %s; c_obs := %s |}", coqList(hops), coqList(obs))}
	for t := range tags {
		c.Tags = append(c.Tags, t)
	}
	if failMsg != "" {
		c.OracleFail, c.Sig = failMsg, sig
	}
	return c
}

func c03Gen(rng *rand.Rand, maxOps int) c03Input {
	var ops []c03Op
	n := 4 + rng.Intn(maxOps-3)
	for len(ops) < n {
		switch x := rng.Intn(20); {
		case x < 9:
			ops = append(ops, c03Op{Kind: "write"})
		case x < 14:
			ops = append(ops, c03Op{Kind: "snap"})
		case x < 16:
			ops = append(ops, c03Op{Kind: "snap", Compact: 1 + rng.Intn(3)})
		case x < 18:
			ops = append(ops, c03Op{Kind: "restart"})
		default:
			// an install is followed by a restart (raft itself learns about the snapshot then)
			ops = append(ops, c03Op{Kind: "install", Extra: 1 + rng.Intn(3)}, c03Op{Kind: "restart"}) // raft never installs a snapshot at an index the node already has a snapshot for
		}
	}
	return c03Input{Ops: ops}
}

func c03Corpus() []c03Input {
	W, S, R := c03Op{Kind: "write"}, c03Op{Kind: "snap"}, c03Op{Kind: "restart"}
	SC := func(t int) c03Op { return c03Op{Kind: "snap", Compact: t} }
	I := func(e int) c03Op { return c03Op{Kind: "install", Extra: e} }
	return []c03Input{
		{Ops: []c03Op{W, W, S, W, W, W, S, W, R, W, S}},            // full then incrementals, with writes in between
		{Ops: []c03Op{W, W, W, S, W, W, I(2), R, W, S, W}},         // install on a node with its own snapshot and later writes
		{Ops: []c03Op{W, SC(1), W, W, S, R, W, SC(2), W, S, R, S}}, // compaction, restart, snapshot without WAL
		{Ops: []c03Op{W, W, I(0), R, W, W, S, W, SC(1), R, W}},     // install at the node's own index
	}
}

func TestVerif_C03(t *testing.T) {
	w := vOpen()
	defer w.Close()
	rng := vRand()
	base, err := os.MkdirTemp("", "c03-")
	if err != nil {
		t.Fatal(err)
	}
	defer os.RemoveAll(base)
	if raw := vReplayInput(); raw != nil {
		var in c03Input
		if err := json.Unmarshal(raw, &in); err != nil {
			t.Fatal(err)
		}
		w.Emit(c03RunCase(in, base, 0))
		return
	}
	ins := c03Corpus()
	n := vN(3, 150)
	maxOps := 10
	if vTier() == "thorough" {
		maxOps = 24
	}
	for i := 0; i < n; i++ {
		ins = append(ins, c03Gen(rng, maxOps))
	}
	out := make([]VCase, len(ins))
	var wg sync.WaitGroup
	sem := make(chan struct{}, 3)
	for i := range ins {
		wg.Add(1)
		go func(i int) {
			defer wg.Done()
			sem <- struct{}{}
			defer func() { <-sem }()
			out[i] = c03RunCase(ins[i], base, i)
		}(i)
	}
	wg.Wait()
	for _, c := range out {
		w.Emit(c)
	}
}
