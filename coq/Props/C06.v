(* C06 — property theorems only.  step = one event on the modelled SQLite WAL + CheckpointManager +
   WALResetWatch + the store's keep/cancel rule; exec = a whole schedule; replay = restoring the base
   snapshot and checkpointing every kept segment in order; live = the base with every committed
   transaction applied.  "partial": SQLite's locking rules are part of the model (validated against
   real SQLite by the driver on every schedule), not derived from SQLite's source. *)
From Coq Require Import List NArith.
From RQ Require Import Lib.C05_PageDB Model.C06 Proofs.C06.
Import ListNotations.

(* For every schedule of writes, reader starts/stops and attempts, of any length: at each successful
   incremental attempt the segments kept so far, applied in order to the base, give the live database. *)
Theorem C06_segments_partial : forall base sched s' c,
  db_wf base -> sched_ok (size base) sched ->
  step (exec init sched) Ckpt = (s', OCkpt c) -> success c ->
  db_eq (replay base (segs s')) (live base s').
Proof. exact segments_proof. Qed.
Print Assumptions C06_segments_partial.

(* A failed attempt (busy, or no WAL data) keeps no segment and changes neither the log nor what
   later attempts will capture. *)
Theorem C06_failed_leaves_nothing : forall s s' c,
  step s Ckpt = (s', OCkpt c) -> ~ success c ->
  segs s' = segs s /\ o_seg c = None /\ hist s' = hist s /\ frames s' = frames s /\ gen s' = gen s.
Proof. exact failed_proof. Qed.
Print Assumptions C06_failed_leaves_nothing.

(* WALReset is reported exactly when the watch was armed and the log was restarted since. *)
Theorem C06_reset_detected : forall base sched s' c,
  db_wf base -> sched_ok (size base) sched ->
  step (exec init sched) Ckpt = (s', OCkpt c) ->
  (o_reset c = true <-> armed (wt (exec init sched)) = true /\ rsa (exec init sched) = true).
Proof. exact reset_proof. Qed.
Print Assumptions C06_reset_detected.

(* ... where rsa is cleared by the attempt that arms the watch and set by the writes that restart the log *)
Theorem C06_restarted_since_arm : forall s e,
  rsa (fst (step s e)) =
  match e, snd (step s e) with
  | Write _, OWrite true => true
  | Ckpt, OCkpt c => match o_kind c with AllMoved => false | _ => rsa s end
  | _, _ => rsa s
  end.
Proof. exact rsa_meaning. Qed.
Print Assumptions C06_restarted_since_arm.

(* Second tie (DESIGN 3.5, docs/gotrans.md): Arm / Disarm / Check of WALResetWatch as translated from
   db/wal_reset_watch.go on this run are the hand model's arm / disarmed / check (salts as numbers,
   Salt.Equal as equality; rep = the Go-side struct of a model watch). *)
From Coq Require Import ZArith.
From RQ Require Import Gen.WalResetWatch.
From RQ Require Import Proofs.C06_Gen.
Theorem C06_source_derived_eq :
  (forall w s r, WALResetWatch_Arm N (rep w) s (Z.of_nat r) = rep (arm s r)) /\
  (forall w, WALResetWatch_Disarm N 0%N (rep w) = rep disarmed) /\
  (forall w cur, WALResetWatch_Check N 0%N N.eqb (rep w) cur
     = (rep (snd (check w cur)), Z.of_nat (fst (fst (check w cur))), snd (fst (check w cur)))).
Proof. exact gen_watch_eq. Qed.
Print Assumptions C06_source_derived_eq.
