(* C31 — model of rsync.CheckAndSet.BeginWithRetry (internal/rsync/cas.go) over a discrete clock
   (milliseconds since the call) and of its call site in Store.Close (store/store.go).

     deadline := now + timeout
     for { if Begin() == nil { return nil }          (the gate is free from time r on)
           if now > deadline { return ErrCASConflictTimeout }
           sleep(retryInterval) }

   Only Sleep advances the clock.  No proofs here. *)
From Coq Require Import NArith List Bool String.
From RQ Require Export Lib.C34_Sched Model.C34.
Import ListNotations.
Local Open Scope N_scope.

Inductive outcome := Acquired (t : N) | TimedOut (t : N) | OutOfFuel.

(* the gate is held by somebody else until time r: Begin at time `now` succeeds iff r <= now *)
Fixpoint bwr_loop (fuel : nat) (now deadline interval r : N) : outcome :=
  match fuel with
  | O => OutOfFuel
  | S f =>
      if r <=? now then Acquired now
      else if deadline <? now then TimedOut now
      else bwr_loop f (now + interval) deadline interval r
  end.

Definition begin_with_retry (fuel : nat) (timeout interval r : N) : outcome :=
  bwr_loop fuel 0 (0 + timeout) interval r.

(* enough iterations for the loop to end: one per poll up to the first one after the deadline *)
Definition fuel_for (timeout interval : N) : nat := N.to_nat (timeout / interval) + 2.

(* the arguments of the BeginWithRetry("close", timeout, retryInterval) call in Store.Close, in ms.
   The driver parses them from store/store.go and check_case compares. *)
Definition close_timeout : N := 10000.
Definition close_interval : N := 10.

Definition close_gate (hold : N) : outcome :=
  begin_with_retry (fuel_for close_timeout close_interval) close_timeout close_interval hold.

(* ---- correspondence ---- *)
Inductive case :=
(* the real BeginWithRetry(timeout, interval) against a holder that releases `release` ms after
   the call: did it acquire, and after how many ms did it return *)
| CasePrim (timeout interval release : N) (acquired : bool) (elapsed : N)
(* the real Store.Close with the gate held for `hold` ms: the constants found in the source,
   whether Close succeeded, whether it took the gate promptly after the release (for a successful
   close; the driver's threshold is 1 s, the model's prediction is "within 100 ms"), and for a
   failed close after how many ms it gave up *)
| CaseClose (src_timeout src_interval hold : N) (ok prompt : bool) (gave_up : N)
(* the snapshot gate of a real Store while another owner holds it: snapshot attempts, results,
   Owner() after each *)
| CaseGate (l : list (cas_act * obs * string)).

(* The gate itself is Model.C34's CheckAndSet (cas_step_obs), used with its caller discipline
   cas_enabled: only the caller of a successful Begin calls End.  A recorded gate history (calls,
   results, Owner() afterwards) must be a run of that model in which every End is enabled - an End
   without a matching successful Begin (e.g. by a refused snapshot attempt) shows up as a wrong
   owner after the step. *)
Fixpoint gate_exec (s : cas) (l : list (cas_act * obs * string)) : bool :=
  match l with
  | [] => true
  | (a, o, ow) :: r =>
      cas_enabled s a &&
      let '(s1, o1) := cas_step_obs s a in
      obs_eqb o1 o && String.eqb (c_owner s1) ow && gate_exec s1 r
  end.

(* observed time t_obs is the model's poll time t up to half an interval *)
Definition near (t t_obs interval : N) : bool :=
  (2 * t <=? 2 * t_obs + interval) && (2 * t_obs <? 2 * t + interval).

Definition check_case (c : case) : bool :=
  match c with
  | CasePrim timeout interval release acquired elapsed =>
      match begin_with_retry (fuel_for timeout interval) timeout interval release with
      | Acquired t => acquired && near t elapsed interval
      | TimedOut t => negb acquired && near t elapsed interval
      | OutOfFuel => false
      end
  | CaseClose st si hold ok prompt gave_up =>
      (st =? close_timeout) && (si =? close_interval) &&
      match close_gate hold with
      | Acquired t => ok && Bool.eqb prompt (t - hold <=? 100)
      | TimedOut t => negb ok && (t <=? gave_up + 1000) && (gave_up <=? t + 1000)
      | OutOfFuel => false
      end
  | CaseGate l => gate_exec cas_init l
  end.
