(* C26 — model of cdc/fifo.go: the BoltDB-backed queue and its single manager goroutine.
   Executable definitions only; proofs are in Proofs/C26.v.

   Persistent part  = what is inside the BoltDB file: bucket "fifo_queue" (a map ordered by the
                      8-byte big-endian key = index) and "max_key" of the meta bucket.
   Volatile part    = the locals of Queue.run: highestKey, nextEv (the cached head), nextFrom.
   (outCh is non-nil exactly when nextEv is non-nil, so it is not a separate component.)

   BoltDB enters as the usual ordered-map operations on a key-sorted association list;
   a transaction is atomic and durable once Update returned (hypothesis, see docs/C26.md):
   a kill leaves the persistent part either before or after the transaction in flight. *)
From Coq Require Import List String Bool NArith.
Import ListNotations.
Local Open Scope N_scope.

Definition item := (N * string)%type.

Record pstate := { bucket : list item; max_key : N }.
Record vstate := { highest : N; nextEv : option item; nextFrom : N }.
Record state := { P : pstate; V : vstate }.

(* ---- the ordered map (bbolt bucket) ---- *)

(* Bucket.Put *)
Fixpoint put (k : N) (v : string) (l : list item) : list item :=
  match l with
  | [] => [(k, v)]
  | (k', v') :: r =>
      if k <? k' then (k, v) :: l
      else if k =? k' then (k, v) :: r
      else (k', v') :: put k v r
  end.

(* Cursor.Seek: first entry with key >= k *)
Fixpoint seek (k : N) (l : list item) : option item :=
  match l with
  | [] => None
  | it :: r => if k <=? fst it then Some it else seek k r
  end.

(* Bucket.Delete *)
Fixpoint del_key (k : N) (l : list item) : list item :=
  match l with
  | [] => []
  | it :: r => if fst it =? k then r else it :: del_key k r
  end.

(* for k := c.First(); k != nil && k <= idx; k = c.Next() { collect k } *)
Fixpoint collect (idx : N) (l : list item) : list N :=
  match l with
  | [] => []
  | it :: r => if fst it <=? idx then fst it :: collect idx r else []
  end.

(* ---- NewQueue ---- *)

Definition fresh : pstate := {| bucket := []; max_key := 0 |}.

(* run(highestKey): nextEv=nil, nextFrom=0, loadHead() *)
Definition open (p : pstate) : state :=
  {| P := p; V := {| highest := max_key p; nextEv := seek 0 (bucket p); nextFrom := 0 |} |}.

(* loadHead *)
Definition load_head (b : list item) (ev : option item) (from : N) : option item :=
  match ev with Some _ => ev | None => seek from b end.

(* ---- the select arms ---- *)

(* case req := <-q.enqueueChan *)
Definition enqueue (s : state) (k : N) (d : string) : state :=
  let p := P s in let v := V s in
  if k <=? highest v then s
  else
    let b' := put k d (bucket p) in
    let hi := if highest v <? k then k else highest v in
    {| P := {| bucket := b'; max_key := hi |};
       V := {| highest := hi; nextEv := load_head b' (nextEv v) (nextFrom v); nextFrom := nextFrom v |} |}.

(* case req := <-q.deleteRangeChan *)
Definition delete_range (s : state) (idx : N) : state :=
  let p := P s in let v := V s in
  let deleted_head := match nextEv v with Some e => fst e <=? idx | None => false end in
  let b' := fold_left (fun b k => del_key k b) (collect idx (bucket p)) (bucket p) in
  let from' := if negb (nextFrom v =? 0) && (nextFrom v <=? idx) then idx + 1 else nextFrom v in
  let ev' := if deleted_head then None else nextEv v in
  {| P := {| bucket := b'; max_key := max_key p |};
     V := {| highest := highest v; nextEv := load_head b' ev' from'; nextFrom := from' |} |}.

(* case outCh <- nextEv (a consumer is receiving from C); None = nothing is offered *)
Definition take (s : state) : state * option item :=
  let p := P s in let v := V s in
  match nextEv v with
  | None => (s, None)
  | Some e =>
      let from' := fst e + 1 in
      ({| P := p; V := {| highest := highest v; nextEv := seek from' (bucket p); nextFrom := from' |} |}, Some e)
  end.

(* Close + NewQueue, or kill + NewQueue: only the persistent part survives *)
Definition reopen (s : state) : state := open (P s).

(* ---- operations of a history ---- *)
Inductive op :=
| Enq (k : N) (d : string)          (* acknowledged Enqueue *)
| Del (i : N)                       (* acknowledged DeleteRange *)
| Take                              (* consumer receives from C (or finds nothing offered) *)
| Reopen                            (* Close; NewQueue *)
| Kill                              (* SIGKILL while idle; NewQueue *)
| KillEnq (k : N) (d : string) (applied : bool)   (* SIGKILL during an Enqueue that was never acknowledged *)
| KillDel (i : N) (applied : bool).               (* SIGKILL during a DeleteRange that was never acknowledged *)

Definition step (s : state) (o : op) : state * option item :=
  match o with
  | Enq k d => (enqueue s k d, None)
  | Del i => (delete_range s i, None)
  | Take => take s
  | Reopen | Kill => (reopen s, None)
  | KillEnq k d b => (reopen (if b then enqueue s k d else s), None)
  | KillDel i b => (reopen (if b then delete_range s i else s), None)
  end.

(* the answers of the query arm: Len, FirstKey, HighestKey, HasNext *)
Record obs := { o_ev : option item; o_len : N; o_first : N; o_high : N; o_hasnext : bool }.

Definition observe (s : state) (ev : option item) : obs :=
  {| o_ev := ev;
     o_len := N.of_nat (List.length (bucket (P s)));
     o_first := match bucket (P s) with [] => 0 | it :: _ => fst it end;
     o_high := highest (V s);
     o_hasnext := match nextEv (V s) with Some _ => true | None => false end |}.

Fixpoint run (s : state) (ops : list op) : state * list obs :=
  match ops with
  | [] => (s, [])
  | o :: r =>
      let '(s1, ev) := step s o in
      let '(s2, os) := run s1 r in
      (s2, observe s1 ev :: os)
  end.

(* ---- correspondence ---- *)
Definition item_eqb (a b : item) : bool := (fst a =? fst b) && String.eqb (snd a) (snd b).
Definition oitem_eqb (a b : option item) : bool :=
  match a, b with Some x, Some y => item_eqb x y | None, None => true | _, _ => false end.
Definition obs_eqb (a b : obs) : bool :=
  oitem_eqb (o_ev a) (o_ev b) && (o_len a =? o_len b) && (o_first a =? o_first b)
  && (o_high a =? o_high b) && Bool.eqb (o_hasnext a) (o_hasnext b).
Fixpoint obs_list_eqb (a b : list obs) : bool :=
  match a, b with
  | [], [] => true
  | x :: a', y :: b' => obs_eqb x y && obs_list_eqb a' b'
  | _, _ => false
  end.

(* a case: a history on a queue file that did not exist before, and what the real queue
   answered after every operation *)
Record case := { c_ops : list op; c_impl : list obs }.
Definition check_case (c : case) : bool :=
  obs_list_eqb (snd (run (open fresh) (c_ops c))) (c_impl c).
