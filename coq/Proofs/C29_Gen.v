(* C29 — the source-derived RequestMarshaler.Marshal (Gen/Marshal.v, regenerated from
   command/marshal.go on every run) makes the compression decision of the hand model:
   Model.C29.want_compress (batch / statement-size thresholds) followed by Model.C29.choose
   ("smaller, or forced").
   Adapter.  The Go function sees a Requester; what it uses of it are its statements
   (r.GetRequest().GetStatements(), of which only len and len(Sql)), its protobuf encoding
   (pb.Marshal) and gzip (gzCompress): Section variables of the generated file, instantiated here
   by a request given as (statements, encoding) and an arbitrary gzip function.  Bytes are N in
   the model and Z in the generated file (zs), an SQL text is a byte list in the model and a
   string in the generated file (str_of).  The statistics calls (stats.Add) are not translated. *)
From Coq Require Import List String Ascii Bool NArith ZArith Lia ZifyBool.
From RQ Require Import Lib.GoLib.
From RQ Require Import Lib.GenTac.
From RQ Require Import Model.C29_Wire.
From RQ Require Import Model.C29.
From RQ Require Import Gen.Marshal.
Import ListNotations.
Local Open Scope Z_scope.

(* The Section variables of the generated file are instantiated by position below; these lines pin
   their names, so a change of callee cannot go unnoticed. *)
Arguments RequestMarshaler_Marshal Requester error_T proto_Request Requester_GetRequest
  gzCompress pb_Marshal proto_Request_GetStatements _ _ : assert.

Definition zs (b : bytes) : list Z := map Z.of_N b.
Definition ns (l : list Z) : bytes := map Z.to_N l.
Fixpoint str_of (b : bytes) : string :=
  match b with [] => EmptyString | x :: r => String (ascii_of_N x) (str_of r) end.
Definition gstmt (s : stmt) : proto_Statement := mk_proto_Statement (str_of (s_sql s)).
Definition rep (c : mcfg) : RequestMarshaler := mk_RequestMarshaler (m_batch c) (m_size c) (m_force c).

Lemma ns_zs : forall b, ns (zs b) = b.
Proof. induction b as [|x b IH]; cbn; [reflexivity|]. rewrite N2Z.id. f_equal. exact IH. Qed.
Lemma zlen_zs : forall b, zlen (zs b) = lenZ b.
Proof. intros. unfold zlen, lenZ, zs. rewrite map_length. reflexivity. Qed.
Lemma slen_str_of : forall b, slen (str_of b) = lenZ b.
Proof. unfold slen, lenZ. induction b as [|x b IH]; cbn [str_of String.length List.length]; [reflexivity|lia]. Qed.

Lemma zlen_gstmts : forall ss, zlen (map gstmt ss) = Z.of_nat (List.length ss).
Proof. intros. unfold zlen. rewrite map_length. reflexivity. Qed.

(* When the statement loop is a function of its own (it returns the decision; e.g. after the threshold test was
   extracted into a helper), it is existsb: the `fix` is taken from the goal and specified by induction. *)
Ltac bool_loop c ss :=
  lazymatch goal with
  | |- context [?F (map gstmt ss)] =>
      is_fix F;
      let LOOP := fresh "LOOP" in
      let Hloop := fresh "Hloop" in
      pose (LOOP := F);
      assert (Hloop : forall l, LOOP (map gstmt l) = existsb (fun s => Z.leb (m_size c) (lenZ (s_sql s))) l)
        by (let l := fresh "l" in let s0 := fresh "s0" in let IHl := fresh "IHl" in
            induction l as [|s0 l IHl]; [reflexivity|];
            unfold LOOP; cbn [map existsb gstmt proto_Statement_Sql]; fold LOOP; rewrite slen_str_of;
            destruct (Z.leb (m_size c) (lenZ (s_sql s0))); [reflexivity|exact IHl]);
      change (F (map gstmt ss)) with (LOOP (map gstmt ss)); rewrite !Hloop; clear Hloop; clearbody LOOP
  end.

(* a request as the Go function sees it: its statements and its encoding (None: pb.Marshal fails) *)
Definition req : Type := (list stmt * option bytes)%type.

Section Marshal.
  Variable E : Type.
  Variable err : E.
  Variable gzip : bytes -> option bytes.   (* None: gzCompress fails *)

  Definition get_request (r : req) : option (list stmt) := Some (fst r).
  Definition get_statements (o : option (list stmt)) : list proto_Statement :=
    match o with Some l => map gstmt l | None => [] end.
  Definition pb_marshal (r : req) : list Z * option E :=
    match snd r with Some b => (zs b, None) | None => ([], Some err) end.
  Definition gz_compress (l : list Z) : list Z * option E :=
    match gzip (ns l) with Some g => (zs g, None) | None => ([], Some err) end.
  Definition gen_marshal (c : mcfg) (r : req) : list Z * bool * option E :=
    RequestMarshaler_Marshal req E (list stmt) get_request gz_compress pb_marshal get_statements (rep c) r.

  (* the loop over the statements decides like existsb *)
  Lemma gen_Marshal_eq : forall c ss raw gz,
    gzip raw = Some gz ->
    gen_marshal c (ss, Some raw) =
      (zs (fst (choose c (want_compress c ss) raw gz)), snd (choose c (want_compress c ss) raw gz), None).
  Proof.
    intros c ss raw gz Hgz.
    assert (Hgz' : gz_compress (zs raw) = (zs gz, None)) by (unfold gz_compress; rewrite ns_zs, Hgz; reflexivity).
    unfold gen_marshal, RequestMarshaler_Marshal, want_compress, choose, rep, get_request, get_statements, pb_marshal. aux.
    cbn [fst snd RequestMarshaler_BatchThreshold RequestMarshaler_SizeThreshold RequestMarshaler_ForceCompression].
    rewrite ?zlen_gstmts.
    destruct (Z.leb (m_batch c) (Z.of_nat (List.length ss))) eqn:B.
    - rewrite Hgz', !zlen_zs. gen_cases.
    - clear B.
      first [ bool_loop c ss; rewrite Hgz', !zlen_zs; solve [gen_cases]
            | induction ss as [|s ss IH]; cbn [map existsb];
              [ gen_cases
              | cbn [gstmt proto_Statement_Sql]; rewrite slen_str_of;
                destruct (Z.leb (m_size c) (lenZ (s_sql s))); cbn [orb];
                [ rewrite Hgz', !zlen_zs; gen_cases | apply IH ] ] ].
  Qed.
End Marshal.

(* pb.Marshal or gzCompress failing: (nil, false, the error) *)
Lemma gen_Marshal_err : forall E err gzip c ss,
  gen_marshal E err gzip c (ss, None) = ([], false, Some err).
Proof.
  intros. unfold gen_marshal, RequestMarshaler_Marshal, pb_marshal, rep, get_request, get_statements. aux.
  cbn [fst snd RequestMarshaler_BatchThreshold RequestMarshaler_SizeThreshold RequestMarshaler_ForceCompression].
  first [ reflexivity
        | destruct (Z.leb _ _); [reflexivity|];
          induction ss as [|s ss IH]; cbn [map]; [reflexivity|];
          destruct (Z.leb _ _); [reflexivity|apply IH] ].
Qed.

(* gzCompress failing matters only if compression was wanted *)
Lemma gen_Marshal_gzerr : forall E err gzip c ss raw, gzip raw = None ->
  gen_marshal E err gzip c (ss, Some raw) =
    if want_compress c ss then ([], false, Some err) else (zs raw, false, None).
Proof.
  intros E err gzip c ss raw Hgz.
  assert (Hgz' : gz_compress E err gzip (zs raw) = ([], Some err)) by (unfold gz_compress; rewrite ns_zs, Hgz; reflexivity).
  unfold gen_marshal, RequestMarshaler_Marshal, want_compress, rep, get_request, get_statements, pb_marshal. aux.
  cbn [fst snd RequestMarshaler_BatchThreshold RequestMarshaler_SizeThreshold RequestMarshaler_ForceCompression].
  rewrite ?zlen_gstmts.
  destruct (Z.leb (m_batch c) (Z.of_nat (List.length ss))) eqn:B.
  - rewrite Hgz'. gen_cases.
  - clear B.
    first [ bool_loop c ss; rewrite Hgz'; solve [gen_cases]
          | induction ss as [|s ss IH]; cbn [map existsb]; [gen_cases|];
            cbn [gstmt proto_Statement_Sql]; rewrite slen_str_of;
            destruct (Z.leb (m_size c) (lenZ (s_sql s))); cbn [orb]; [rewrite Hgz'; gen_cases|apply IH] ].
Qed.

Lemma gen_marshal_eq : forall (E : Type) (err : E) (gzip : bytes -> option bytes),
  (forall c ss raw gz, gzip raw = Some gz ->
     gen_marshal E err gzip c (ss, Some raw) =
       (zs (fst (choose c (want_compress c ss) raw gz)), snd (choose c (want_compress c ss) raw gz), None)) /\
  (forall c ss raw, gzip raw = None ->
     gen_marshal E err gzip c (ss, Some raw) =
       if want_compress c ss then ([], false, Some err) else (zs raw, false, None)) /\
  (forall c ss, gen_marshal E err gzip c (ss, None) = ([], false, Some err)).
Proof. intros. split; [apply gen_Marshal_eq|split; [apply gen_Marshal_gzerr|apply gen_Marshal_err]]. Qed.
