(* C30 — model of the value path of the HTTP API:
     http/request_parser.go  makeParameter (+ db/state.go ParseHex)
     db/db.go                parametersToValues, normalizeRowParameters, populateEmptyTypes, isTextType,
                             the row loop of queryStmtWithConn
     command/encoding/json.go NewValuesFromQueryValues, NewRowsFromQueryRows, NewAssociativeRowsFromQueryRows
   Executable definitions only; proofs are in Proofs/C30.v.

   Conventions.  JSON strings are lists of Unicode code points (Go's JSON decoder only produces valid
   UTF-8); blobs are lists of bytes; float64 values are their IEEE-754 bit patterns (N); a JSON number is
   its literal text plus what strconv.ParseFloat makes of it (supplied by the driver: third-party
   behaviour).  TEXT values in SQLite are code point lists as well (UTF-8 transcoding is SQLite's / Go's). *)
From Coq Require Import List String Ascii NArith ZArith Bool.
From RQ Require Import Lib.AList.
Import ListNotations.
Open Scope string_scope.
Open Scope N_scope.

(* ------------------------------------------------------------------ JSON *)
Inductive jv :=
| JNull
| JBool (b : bool)
| JNum (lit : string) (fbits : option N)
| JStr (s : list N)
| JArr (l : list jv)
| JObj (m : list (string * jv)).

(* SQLite values: storage class + value *)
Inductive sval := SNull | SInt (z : Z) | SReal (bits : N) | SText (s : list N) | SBlob (b : list N).

(* command.Parameter: the oneof, PSraw is Parameter_S holding string(val) of a byte slice *)
Inductive pval := PNil | PI (z : Z) | PD (bits : N) | PB (b : bool) | PY (b : list N) | PS (s : list N) | PSraw (b : list N).

(* ------------------------------------------------------------------ decimal integers *)
Definition digit_of_ascii (a : ascii) : option N :=
  let n := N_of_ascii a in if (48 <=? n) && (n <=? 57) then Some (n - 48) else None.
Definition ascii_of_digit (d : N) : ascii := ascii_of_N (48 + d).

Fixpoint digits_of (l : list ascii) : option (list N) :=
  match l with
  | [] => Some []
  | a :: r => match digit_of_ascii a, digits_of r with
              | Some d, Some ds => Some (d :: ds)
              | _, _ => None
              end
  end.

(* strconv's accumulation, most significant digit first *)
Definition dec_value (ds : list N) : N := fold_left (fun a d => a * 10 + d) ds 0.

Definition parse_nat_lit (l : list ascii) : option N :=
  match l with
  | [] => None
  | _ => option_map dec_value (digits_of l)
  end.

Definition two63 : N := 9223372036854775808.

(* json.Number.Int64 = strconv.ParseInt(lit, 10, 64) on a JSON number literal *)
Definition parse_int64 (lit : string) : option Z :=
  match list_ascii_of_string lit with
  | "-"%char :: r =>
      match parse_nat_lit r with
      | Some n => if n <=? two63 then Some (- Z.of_N n)%Z else None
      | None => None
      end
  | l =>
      match parse_nat_lit l with
      | Some n => if n <? two63 then Some (Z.of_N n) else None
      | None => None
      end
  end.

(* least significant digit first; 20 digits are enough below 2^64 *)
Fixpoint rdigits (fuel : nat) (n : N) : list N :=
  match fuel with
  | O => []
  | S f => (n mod 10) :: (if n / 10 =? 0 then [] else rdigits f (n / 10))
  end.
Definition print_N (n : N) : string := string_of_list_ascii (map ascii_of_digit (rev (rdigits 20 n))).
Definition print_Z (z : Z) : string :=
  match z with
  | Zneg p => String "-" (print_N (Npos p))
  | _ => print_N (Z.to_N z)
  end.

(* ------------------------------------------------------------------ hex blob literals (db.ParseHex) *)
(* unicode.IsSpace *)
Definition is_space (c : N) : bool :=
  (c =? 9) || (c =? 10) || (c =? 11) || (c =? 12) || (c =? 13) || (c =? 32) || (c =? 133) || (c =? 160)
  || (c =? 5760) || ((8192 <=? c) && (c <=? 8202)) || (c =? 8232) || (c =? 8233) || (c =? 8239)
  || (c =? 8287) || (c =? 12288).

Fixpoint trim_left (l : list N) : list N :=
  match l with
  | c :: r => if is_space c then trim_left r else l
  | [] => []
  end.
Definition trim (l : list N) : list N := rev (trim_left (rev (trim_left l))).

Definition hexval (c : N) : option N :=
  if (48 <=? c) && (c <=? 57) then Some (c - 48)
  else if (97 <=? c) && (c <=? 102) then Some (c - 87)
  else if (65 <=? c) && (c <=? 70) then Some (c - 55)
  else None.

Fixpoint hex_decode (l : list N) : option (list N) :=
  match l with
  | [] => Some []
  | a :: b :: r =>
      match hexval a, hexval b, hex_decode r with
      | Some x, Some y, Some t => Some (x * 16 + y :: t)
      | _, _, _ => None
      end
  | [_] => None
  end.

Definition parse_hex (s : list N) : option (list N) :=
  match trim s with
  | x :: q :: rest =>
      if ((x =? 120) || (x =? 88)) && (q =? 39) then
        match rev rest with
        | c :: inner_rev => if c =? 39 then hex_decode (rev inner_rev) else None
        | [] => None
        end
      else None
  | _ => None
  end.

(* ------------------------------------------------------------------ makeParameter *)
Inductive perr := EUnsupported | ENumber.
Inductive pres := POk (p : pval) | PErr (e : perr).

Definition byte_of (e : jv) : option N :=
  match e with
  | JNum lit _ =>
      match parse_int64 lit with
      | Some z => if ((0 <=? z) && (z <=? 255))%Z then Some (Z.to_N z) else None
      | None => None
      end
  | _ => None
  end.

Fixpoint bytes_of (l : list jv) : option (list N) :=
  match l with
  | [] => Some []
  | e :: r => match byte_of e, bytes_of r with
              | Some b, Some bs => Some (b :: bs)
              | _, _ => None
              end
  end.

Definition make_parameter (j : jv) : pres :=
  match j with
  | JNull => POk PNil
  | JBool b => POk (PB b)
  | JNum lit fb =>
      match parse_int64 lit with
      | Some z => POk (PI z)
      | None => match fb with Some b => POk (PD b) | None => PErr ENumber end
      end
  | JStr s =>
      match parse_hex s with
      | Some b => POk (PY b)
      | None => POk (PS s)
      end
  | JArr l =>
      match bytes_of l with
      | Some b => POk (PY b)
      | None => PErr EUnsupported
      end
  | JObj _ => PErr EUnsupported
  end.

(* ------------------------------------------------------------------ parametersToValues + the driver's bind *)
Definition bind (p : pval) : sval :=
  match p with
  | PNil => SNull
  | PI z => SInt z
  | PD b => SReal b
  | PB b => SInt (if b then 1 else 0)%Z
  | PY b => SBlob b
  | PS s => SText s
  | PSraw b => SBlob b   (* never produced by make_parameter *)
  end.

Inductive slot := SlotPos (k : nat) | SlotName (nm : string).

(* named: the last parameter carrying the name; positional ?k: the k-th item if it is unnamed *)
Fixpoint last_named (ps : list (string * pval)) (nm : string) : option pval :=
  match ps with
  | [] => None
  | (n, p) :: r => match last_named r nm with
                   | Some q => Some q
                   | None => if String.eqb n nm then Some p else None
                   end
  end.

Definition slot_value (ps : list (string * pval)) (s : slot) : sval :=
  match s with
  | SlotName nm => match last_named ps nm with Some p => bind p | None => SNull end
  | SlotPos k => match nth_error ps (pred k) with
                 | Some (n, p) => if String.eqb n "" then bind p else SNull
                 | None => SNull
                 end
  end.

(* all parameters of a statement: Ok list or the errors met *)
Fixpoint make_parameters (items : list (string * jv)) : list (string * pval) * list perr :=
  match items with
  | [] => ([], [])
  | (n, j) :: r =>
      let '(ps, es) := make_parameters r in
      match make_parameter j with
      | POk p => ((n, p) :: ps, es)
      | PErr e => (ps, e :: es)
      end
  end.

(* ------------------------------------------------------------------ read back: db.queryStmtWithConn *)
Definition has_prefix (p s : string) : bool := String.prefix p s.

Definition is_text_type (t : string) : bool :=
  String.eqb t "text" || String.eqb t "json" || String.eqb t "" || has_prefix "varchar" t
  || has_prefix "varying character" t || has_prefix "nchar" t || has_prefix "native character" t
  || has_prefix "nvarchar" t || has_prefix "clob" t.

(* go-sqlite3 hands INTEGER as int64, REAL as float64, TEXT as string, BLOB as []byte, NULL as nil
   (declared types other than date/time/boolean); normalizeRowParameters on that value: *)
Definition normalize_cell (ty : string) (v : sval) : pval :=
  match v with
  | SNull => PNil
  | SInt z => PI z
  | SReal b => PD b
  | SText s => PS s
  | SBlob b => if is_text_type ty then PSraw b else PY b
  end.

Fixpoint normalize_row (tys : list string) (row : list sval) : list pval :=
  match tys, row with
  | t :: tr, v :: vr => normalize_cell t v :: normalize_row tr vr
  | _, _ => []
  end.

Definition type_of_param (p : pval) : string :=
  match p with
  | PI _ => "integer" | PD _ => "real" | PB _ => "boolean" | PY _ => "blob"
  | PS _ => "text" | PSraw _ => "text" | PNil => ""
  end.

Fixpoint populate_empty (tys : list string) (ps : list pval) : list string :=
  match tys, ps with
  | t :: tr, p :: pr => (if String.eqb t "" then type_of_param p else t) :: populate_empty tr pr
  | _, _ => tys
  end.

(* final types and the normalized rows *)
Definition query_rows (decls : list string) (rows : list (list sval)) : list string * list (list pval) :=
  match rows with
  | [] => (decls, [])
  | r1 :: rest =>
      let p1 := normalize_row decls r1 in
      let tys := populate_empty decls p1 in
      (tys, p1 :: map (normalize_row tys) rest)
  end.

(* ------------------------------------------------------------------ UTF-8 as Go's encoder sees a string *)
Definition cont (b : N) : bool := (128 <=? b) && (b <=? 191).
Definition inr (lo hi b : N) : bool := (lo <=? b) && (b <=? hi).

(* one entry per decoded rune: Some cp, or None for a byte that is not part of a valid encoding *)
Fixpoint utf8_decode (l : list N) : list (option N) :=
  match l with
  | [] => []
  | b0 :: r =>
      if b0 <? 128 then Some b0 :: utf8_decode r
      else
        let bad := None :: utf8_decode r in
        match r with
        | b1 :: r1 =>
            if inr 194 223 b0 then
              if cont b1 then Some ((b0 - 192) * 64 + (b1 - 128)) :: utf8_decode r1 else bad
            else
              let ok1 :=
                if b0 =? 224 then inr 160 191 b1
                else if b0 =? 237 then inr 128 159 b1
                else if inr 225 239 b0 then cont b1
                else if b0 =? 240 then inr 144 191 b1
                else if b0 =? 244 then inr 128 143 b1
                else if inr 241 243 b0 then cont b1
                else false in
              if negb ok1 then bad
              else
                match r1 with
                | b2 :: r2 =>
                    if negb (cont b2) then bad
                    else if b0 <? 240 then
                      Some ((b0 - 224) * 4096 + (b1 - 128) * 64 + (b2 - 128)) :: utf8_decode r2
                    else
                      match r2 with
                      | b3 :: r3 =>
                          if cont b3 then
                            Some ((b0 - 240) * 262144 + (b1 - 128) * 4096 + (b2 - 128) * 64 + (b3 - 128)) :: utf8_decode r3
                          else bad
                      | [] => bad
                      end
                | [] => bad
                end
        | [] => bad
        end
  end.

Definition utf8_valid (l : list N) : bool :=
  forallb (fun o => match o with Some _ => true | None => false end) (utf8_decode l).
(* encoding/json writes U+FFFD for every invalid byte *)
Definition utf8_lossy (l : list N) : list N :=
  map (fun o => match o with Some c => c | None => 65533 end) (utf8_decode l).

(* ------------------------------------------------------------------ base64 (encoding/json renders []byte so) *)
Definition b64_char (s : N) : N :=
  if s <? 26 then 65 + s else if s <? 52 then 97 + (s - 26) else if s <? 62 then 48 + (s - 52)
  else if s =? 62 then 43 else if s =? 63 then 47 else 61.   (* 64 = padding '=' *)

Fixpoint b64_sextets (l : list N) : list N :=
  match l with
  | a :: b :: c :: r =>
      a / 4 :: (a mod 4) * 16 + b / 16 :: (b mod 16) * 4 + c / 64 :: c mod 64 :: b64_sextets r
  | [a; b] => [a / 4; (a mod 4) * 16 + b / 16; (b mod 16) * 4; 64]
  | [a] => [a / 4; (a mod 4) * 16; 64; 64]
  | [] => []
  end.
Definition b64 (l : list N) : list N := map b64_char (b64_sextets l).

(* ------------------------------------------------------------------ JSON encoding of a result cell *)
(* the Go value handed to encoding/json *)
Inductive cell := CNull | CInt (z : Z) | CFloat (bits : N) | CBool (b : bool) | CStr (s : list N) | CB64 (b : list N) | CArr (b : list N).

Definition encode_cell (blob_array : bool) (p : pval) : cell :=
  match p with
  | PNil => CNull
  | PI z => CInt z
  | PD b => CFloat b
  | PB b => CBool b
  | PY b => if blob_array then CArr b else CB64 b
  | PS s => CStr s
  | PSraw b => CStr (utf8_lossy b)
  end.

Fixpoint list_eqb {A B} (eqb : A -> B -> bool) (a : list A) (b : list B) : bool :=
  match a, b with
  | [], [] => true
  | x :: a', y :: b' => eqb x y && list_eqb eqb a' b'
  | _, _ => false
  end.

Definition is_byte_lit (b : N) (j : jv) : bool :=
  match j with JNum lit _ => String.eqb lit (print_N b) | _ => false end.

(* does the decoded JSON value [o] equal what encoding/json writes for [c]?  (float64: the literal must
   parse back to the same float64 — strconv's shortest formatting, trusted) *)
Definition cell_matches (c : cell) (o : jv) : bool :=
  match c, o with
  | CNull, JNull => true
  | CInt z, JNum lit _ => String.eqb lit (print_Z z)
  | CFloat b, JNum _ (Some b') => b =? b'
  | CBool b, JBool b' => Bool.eqb b b'
  | CStr s, JStr s' => list_eqb N.eqb s s'
  | CB64 b, JStr s' => list_eqb N.eqb (b64 b) s'
  | CArr b, JArr l => list_eqb is_byte_lit b l
  | _, _ => false
  end.

(* protobuf refuses a string field that is not valid UTF-8: a forwarded result cannot be marshalled *)
Definition marshal_ok (rows : list (list pval)) : bool :=
  forallb (forallb (fun p => match p with PSraw b => utf8_valid b | _ => true end)) rows.

Definition cps_of_string (s : string) : list N := map N_of_ascii (list_ascii_of_string s).
Definition cps := cps_of_string.   (* compact notation for ASCII strings in driver cases *)
Definition is_jstr (s : string) (j : jv) : bool :=
  match j with JStr l => list_eqb N.eqb (cps_of_string s) l | _ => false end.

(* observed response of one query in one result form *)
Inductive robs :=
| RFail
| RStd (columns types values : jv)
| RAssoc (types rows : jv).

Definition row_matches (blob_array : bool) (ps : list pval) (o : jv) : bool :=
  match o with
  | JArr l => list_eqb (fun p j => cell_matches (encode_cell blob_array p) j) ps l
  | _ => false
  end.

(* associative form: m[column] = value, later columns of the same name overwrite *)
Fixpoint assoc_of {V} (cols : list string) (vs : list V) (acc : alist V) : alist V :=
  match cols, vs with
  | c :: cr, v :: vr => assoc_of cr vr (update acc c v)
  | _, _ => acc
  end.

Fixpoint distinct (l : list string) : list string :=
  match l with
  | [] => []
  | x :: r => if existsb (String.eqb x) r then distinct r else x :: distinct r
  end.

Definition obj_matches {V} (f : V -> jv -> bool) (cols : list string) (m : alist V) (o : jv) : bool :=
  match o with
  | JObj kv =>
      Nat.eqb (List.length kv) (List.length (distinct cols))
      && forallb (fun c => match lookup m c, lookup kv c with
                           | Some v, Some j => f v j
                           | _, _ => false
                           end) cols
  | _ => false
  end.

Definition resp_matches (remote assoc blob_array : bool) (cols decls : list string) (rows : list (list sval)) (o : robs) : bool :=
  let '(tys, prs) := query_rows decls rows in
  if remote && negb (marshal_ok prs) then match o with RFail => true | _ => false end
  else
    match o with
    | RFail => false
    | RStd ocols otys ovals =>
        negb assoc
        && match ocols with JArr l => list_eqb is_jstr cols l | _ => false end
        && match otys with JArr l => list_eqb is_jstr tys l | _ => false end
        && match ovals with JArr l => list_eqb (row_matches blob_array) prs l | _ => false end
    | RAssoc otys orows =>
        assoc
        && obj_matches is_jstr cols (assoc_of cols tys []) otys
        && match orows with
           | JArr l => list_eqb (fun ps j => obj_matches (fun p => cell_matches (encode_cell blob_array p)) cols (assoc_of cols ps []) j) prs l
           | _ => false
           end
    end.

(* ------------------------------------------------------------------ correspondence *)
Inductive bobs := BErr (kind : string) | BOk (stored : list sval).

Record case := {
  c_remote : bool;
  c_params : list (string * jv);      (* flattened (name, value) items of the statement, "" = positional *)
  c_slots : list slot;                (* the slot each generated value is bound through *)
  c_bind : bobs;                      (* rejection kind, or what SQLite holds in the untyped column *)
  c_cols : list string;
  c_decls : list string;
  c_rows : list (list sval);          (* stored cells, read through an independent connection *)
  c_resp : list (bool * bool * robs)  (* (associative, blob_array, decoded response) *)
}.

Definition sval_eqb (a b : sval) : bool :=
  match a, b with
  | SNull, SNull => true
  | SInt x, SInt y => Z.eqb x y
  | SReal x, SReal y => N.eqb x y
  | SText x, SText y => list_eqb N.eqb x y
  | SBlob x, SBlob y => list_eqb N.eqb x y
  | _, _ => false
  end.

Definition err_name (e : perr) : string := match e with EUnsupported => "unsupported" | ENumber => "number" end.

Definition bind_matches (c : case) : bool :=
  let '(ps, es) := make_parameters (c_params c) in
  match es, c_bind c with
  | [], BOk stored => list_eqb sval_eqb (map (slot_value ps) (c_slots c)) stored
  | _ :: _, BErr k => existsb (fun e => String.eqb (err_name e) k) es
  | _, _ => false
  end.

Definition check_case (c : case) : bool :=
  bind_matches c
  && forallb (fun '(assoc, blob_array, o) =>
                resp_matches (c_remote c) assoc blob_array (c_cols c) (c_decls c) (c_rows c) o) (c_resp c).
