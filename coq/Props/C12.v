(* C12 — property theorems only (model of the code WITH fix C12-reap-reverify). *)
From Coq Require Import List NArith.
From RQ Require Import Model.C12 Proofs.C12.
Import ListNotations.
Open Scope N_scope.

Theorem C12_late_corruption_not_installed : forall crcs es,
  valid_run (fresh crcs) es ->
  forall fs, In (Used fs) (snd (run (fresh crcs) es)) -> Forall clean fs.
Proof. exact late_corruption_not_installed. Qed.
Print Assumptions C12_late_corruption_not_installed.

Theorem C12_startup_corruption_detected : forall s,
  verified s = None -> (exists f, In f (files s) /\ fcheck f = false) ->
  forall e, (exists ids, e = EOpen ids) \/ (exists ids gone v, e = EReap ids gone v) ->
  snd (step s e) = Refused /\ verified (fst (step s e)) = Some false.
Proof. exact startup_corruption_detected. Qed.
Print Assumptions C12_startup_corruption_detected.

Theorem C12_failed_verification_is_sticky : forall s,
  verified s = Some false ->
  forall e, (exists ids, e = EOpen ids) \/ (exists ids gone v, e = EReap ids gone v) ->
  snd (step s e) = Refused /\ verified (fst (step s e)) = Some false.
Proof. exact failed_verification_is_sticky. Qed.
Print Assumptions C12_failed_verification_is_sticky.

Theorem C12_failed_reap_leaves_store_unchanged : forall s ids gone v,
  snd (step s (EReap ids gone v)) = Refused ->
  files (fst (step s (EReap ids gone v))) = files s /\
  plan (fst (step s (EReap ids gone v))) = plan s /\
  (verified (fst (step s (EReap ids gone v))) = verified s \/ verified s = None).
Proof. exact failed_reap_leaves_store_unchanged. Qed.
Print Assumptions C12_failed_reap_leaves_store_unchanged.

Theorem C12_no_plan_left_behind : forall crcs es, plan (fst (run (fresh crcs) es)) = false.
Proof. exact no_plan_left_behind. Qed.
Print Assumptions C12_no_plan_left_behind.

Theorem C12_unknown_record_is_rejected : forall s,
  (exists f, In f (files s) /\ unknown f = true) ->
  forall e, (exists ids, e = EOpen ids) \/ (exists ids gone v, e = EReap ids gone v) ->
  snd (step s e) = Refused.
Proof. exact unknown_record_is_rejected. Qed.
Print Assumptions C12_unknown_record_is_rejected.
