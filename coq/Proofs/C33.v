(* C33 — specification and proofs: manual recovery keeps all applied data and installs the peers file. *)
From Coq Require Import List String Ascii Bool NArith Lia.
From RQ Require Import Lib.C33_Log Model.C33.
Import ListNotations.
Open Scope string_scope.

(* ------------------------------------------------------------------ specification *)

(* everything the node has applied since it was created is the history h (entry 1 first); what it holds on
   disk is a snapshot of some prefix and the log from some earlier point on *)
Record wf (nd : node) (h : list (entry cmd)) : Prop := {
  wf_first : (1 <= n_first nd)%nat;
  wf_log : n_log nd = skipn (n_first nd - 1) h;
  wf_snap : match n_snap nd with
            | Some (k, d) => (n_first nd <= S k)%nat /\ (k <= List.length h)%nat
                             /\ d = replay (step (n_fk nd)) (firstn k h) empty_db
            | None => n_first nd = 1%nat
            end
}.

(* the data the node had applied *)
Definition applied (fk : bool) (h : list (entry cmd)) : db := replay (step fk) h empty_db.

(* a peers file rqlite accepts (documentation of peers.json recovery): every server has an ID and a
   host:port address, no ID and no address occurs twice, and at least one server is a voter *)
Definition addr_ok (a : string) : Prop :=
  a <> "" /\ has_sub "://" a = false /\ split_host_port_ok a = true.
Definition valid_peers (conf : list server) : Prop :=
  Forall (fun s => sv_id s <> "" /\ addr_ok (sv_addr s)) conf
  /\ NoDup (map sv_id conf) /\ NoDup (map sv_addr conf)
  /\ Exists (fun s => sv_voter s = true) conf.

(* ------------------------------------------------------------------ recovery *)

Lemma length_skipn {A} n (l : list A) : List.length (skipn n l) = (List.length l - n)%nat.
Proof.
  revert l. induction n as [|n IH]; intros l; [cbn [skipn]; lia|].
  destruct l as [|x l]; cbn [skipn List.length]; [reflexivity | apply IH].
Qed.

(* facts about a well-formed node *)
Lemma wf_facts nd h : wf nd h ->
  (n_first nd <= S (snap_index nd))%nat /\ (snap_index nd <= List.length h)%nat
  /\ log_last nd = List.length h
  /\ snap_db nd = replay (step (n_fk nd)) (firstn (snap_index nd) h) empty_db
  /\ replay (step (n_fk nd)) (skipn (S (snap_index nd) - n_first nd) (n_log nd)) (snap_db nd) = applied (n_fk nd) h.
Proof.
  intros [Hf Hl Hs]. unfold snap_index, snap_db, log_last.
  assert (Hlen : List.length (n_log nd) = (List.length h - (n_first nd - 1))%nat) by (rewrite Hl; apply length_skipn).
  destruct (n_snap nd) as [[k d]|].
  - destruct Hs as (Hk1 & Hk2 & Hd). split; [lia|]. split; [lia|]. split; [lia|]. split; [exact Hd|].
    rewrite Hl, Hd. unfold applied.
    replace (S k - n_first nd)%nat with (k - (n_first nd - 1))%nat by lia. apply replay_split2. lia.
  - rewrite Hs in *. split; [lia|]. split; [lia|]. split; [lia|]. split; [reflexivity|]. rewrite Hl. reflexivity.
Qed.

Lemma replay_not_missing nd h : wf nd h ->
  Nat.ltb (S (snap_index nd)) (n_first nd) && Nat.leb (S (snap_index nd)) (log_last nd) = false.
Proof.
  intros H. destruct (wf_facts nd h H) as (H1 & _). 
  assert (E : Nat.ltb (S (snap_index nd)) (n_first nd) = false) by (apply PeanoNat.Nat.ltb_ge; lia).
  rewrite E. reflexivity.
Qed.

(* the node after the first n effects of an attempt *)
Definition node_written (nd : node) (h : list (entry cmd)) (peers : list server) : node :=
  {| n_fk := n_fk nd; n_snap := Some (List.length h, applied (n_fk nd) h); n_first := n_first nd; n_log := n_log nd; n_conf := peers |}.
Definition node_done (nd : node) (h : list (entry cmd)) (peers : list server) : node :=
  {| n_fk := n_fk nd; n_snap := Some (List.length h, applied (n_fk nd) h); n_first := S (List.length h); n_log := []; n_conf := peers |}.

Lemma run_prefix nd h peers n : wf nd h ->
  exists a, run peers (firstn n recovery_steps) (start nd) = (a, true)
    /\ a_node a = match n with
                  | 0%nat | 1%nat | 2%nat | 3%nat => nd
                  | 4%nat => node_written nd h peers
                  | _ => node_done nd h peers
                  end.
Proof.
  intros Hwf. destruct (wf_facts nd h Hwf) as (H1 & H2 & H3 & H4 & H5).
  pose proof (replay_not_missing nd h Hwf) as Hm.
  assert (Hmax : Nat.max (snap_index nd) (log_last nd) = List.length h) by lia.
  assert (Hfull : forall m, firstn (S (S (S (S (S m))))) recovery_steps = recovery_steps) by (intros [|m]; reflexivity).
  destruct n as [|[|[|[|[|n]]]]]; [| | | | |rewrite Hfull];
    cbn [firstn recovery_steps run do_step start a_node a_scratch a_last];
    rewrite ?Hm; cbn [run do_step a_node a_scratch a_last n_fk n_snap n_first n_log n_conf];
    eexists; (split; [reflexivity|]); try reflexivity.
  - cbn [a_node]. unfold node_written. rewrite Hmax, H5. reflexivity.
  - cbn [a_node]. unfold node_done. rewrite Hmax, H5. reflexivity.
Qed.

Lemma firstn_all2 {A} (l : list A) : firstn (List.length l) l = l.
Proof. induction l; cbn [firstn List.length]; congruence. Qed.
Lemma skipn_all2 {A} (l : list A) : skipn (List.length l) l = [].
Proof. induction l; cbn [skipn List.length]; congruence. Qed.

Lemma wf_written nd h peers : wf nd h -> wf (node_written nd h peers) h.
Proof.
  intros Hwf. destruct (wf_facts nd h Hwf) as (H1 & H2 & _). destruct Hwf as [Hf Hl Hs].
  split; cbn [node_written n_first n_log n_snap n_fk]; [exact Hf | exact Hl |].
  repeat split; [lia | lia |]. unfold applied. rewrite firstn_all2. reflexivity.
Qed.
Lemma wf_done nd h peers : wf nd h -> wf (node_done nd h peers) h.
Proof.
  intros Hwf. split; cbn [node_done n_first n_log n_snap n_fk]; [lia | |].
  - replace (S (List.length h) - 1)%nat with (List.length h) by lia. rewrite skipn_all2. reflexivity.
  - repeat split; [lia | lia |]. unfold applied. rewrite firstn_all2. reflexivity.
Qed.

(* the invariant: whatever an attempt got done before it failed or died, the node is still a view of the whole history
   — the log is deleted only once the snapshot covering it is visible *)
Lemma partial_wf nd h peers n : wf nd h -> wf (partial peers n nd) h /\ n_fk (partial peers n nd) = n_fk nd.
Proof.
  intros Hwf. unfold partial. destruct (negb (check_configuration peers)); [split; [exact Hwf | reflexivity]|].
  destruct (run_prefix nd h peers n Hwf) as (a & Hr & Ha). rewrite Hr. cbn [fst]. rewrite Ha.
  destruct n as [|[|[|[|[|n]]]]]; try (split; [exact Hwf | reflexivity]).
  - split; [apply wf_written; exact Hwf | reflexivity].
  - split; [apply wf_done; exact Hwf | reflexivity].
Qed.

Theorem recover_keeps_data nd h peers :
  wf nd h -> check_configuration peers = true ->
  exists nd', recover nd peers = Recovered nd'
    /\ contents nd' = applied (n_fk nd) h
    /\ n_conf nd' = peers
    /\ n_log nd' = []
    /\ exists d, n_snap nd' = Some (List.length h, d).
Proof.
  intros Hwf Hc. unfold recover. rewrite Hc. cbn [negb].
  destruct (run_prefix nd h peers 5%nat Hwf) as (a & Hr & Ha). change (firstn 5%nat recovery_steps) with recovery_steps in Hr. rewrite Hr.
  exists (a_node a). rewrite Ha. split; [reflexivity|]. unfold node_done.
  repeat split; [|eexists; reflexivity].
  unfold contents. cbn [n_snap n_fk n_first n_log].
  replace (S (List.length h) - S (List.length h))%nat with 0%nat by lia. reflexivity.
Qed.

(* before recovery the node already held exactly that (restart = snapshot + later entries) *)
Lemma contents_applied nd h : wf nd h -> contents nd = applied (n_fk nd) h.
Proof.
  intros Hwf. destruct (wf_facts nd h Hwf) as (_ & _ & _ & _ & H5). unfold contents.
  unfold snap_index, snap_db in H5. destruct (n_snap nd) as [[k d]|]; exact H5.
Qed.

Theorem recover_rejects nd peers : check_configuration peers = false -> recover nd peers = Rejected.
Proof. intros H. unfold recover. rewrite H. reflexivity. Qed.

(* any number of attempts that fail or die after any number of effects, then one that completes *)
Theorem recover_retry nd h peers (fails : list nat) :
  wf nd h -> check_configuration peers = true ->
  let nd1 := fold_left (fun n k => partial peers k n) fails nd in
  exists nd', recover nd1 peers = Recovered nd'
    /\ contents nd' = applied (n_fk nd) h
    /\ n_conf nd' = peers
    /\ n_log nd' = []
    /\ exists d, n_snap nd' = Some (List.length h, d).
Proof.
  intros Hwf Hc. cbn zeta.
  assert (H : wf (fold_left (fun n k => partial peers k n) fails nd) h
              /\ n_fk (fold_left (fun n k => partial peers k n) fails nd) = n_fk nd).
  { revert nd Hwf. induction fails as [|k fails IH]; intros nd Hwf; cbn [fold_left]; [split; [exact Hwf|reflexivity]|].
    destruct (partial_wf nd h peers k Hwf) as [Hw Hfk]. destruct (IH _ Hw) as [Hw' Hfk']. split; [exact Hw' | congruence]. }
  destruct H as [Hw Hfk]. rewrite <- Hfk. apply recover_keeps_data; assumption.
Qed.

(* the driver's failed attempts are such attempts *)
Theorem recover_retry_points nd h peers (fs : list (point * bool)) :
  wf nd h -> check_configuration peers = true ->
  let nd1 := fold_left (failed_attempt peers) fs nd in
  exists nd', recover nd1 peers = Recovered nd'
    /\ contents nd' = applied (n_fk nd) h
    /\ n_conf nd' = peers
    /\ n_log nd' = []
    /\ exists d, n_snap nd' = Some (List.length h, d).
Proof.
  intros Hwf Hc. cbn zeta.
  assert (H : wf (fold_left (failed_attempt peers) fs nd) h /\ n_fk (fold_left (failed_attempt peers) fs nd) = n_fk nd).
  { revert nd Hwf. induction fs as [|f fs IH]; intros nd Hwf; cbn [fold_left]; [split; [exact Hwf|reflexivity]|].
    unfold failed_attempt at 2 4.
    destruct (partial_wf nd h peers (if reached nd (fst f) then steps_done (fst f) else 5%nat) Hwf) as [Hw Hfk].
    destruct (IH _ Hw) as [Hw' Hfk']. split; [exact Hw' | congruence]. }
  destruct H as [Hw Hfk]. rewrite <- Hfk. apply recover_keeps_data; assumption.
Qed.

(* ------------------------------------------------------------------ the configuration check *)

Lemma mem_str_In x l : mem_str x l = true <-> In x l.
Proof.
  unfold mem_str. rewrite existsb_exists. split.
  - intros (y & Hy & E). apply String.eqb_eq in E. subst. exact Hy.
  - intros H. exists x. split; [exact H | apply String.eqb_refl].
Qed.

Lemma check_servers_spec l : forall ids addrs v,
  check_servers l ids addrs v = true <->
  (Forall (fun s => sv_id s <> "" /\ addr_ok (sv_addr s)) l
   /\ NoDup (map sv_id l) /\ (forall x, In x (map sv_id l) -> ~ In x ids)
   /\ NoDup (map sv_addr l) /\ (forall x, In x (map sv_addr l) -> ~ In x addrs)
   /\ (v <> 0%nat \/ Exists (fun s => sv_voter s = true) l)).
Proof.
  induction l as [|s l IH]; intros ids addrs v; cbn [check_servers map].
  - rewrite negb_true_iff, PeanoNat.Nat.eqb_neq. split.
    + intros H. split; [constructor|]. split; [constructor|]. split; [intros x []|].
      split; [constructor|]. split; [intros x []|]. left. exact H.
    + intros (_ & _ & _ & _ & _ & [H|H]); [exact H | inversion H].
  - destruct (String.eqb_spec (sv_id s) "") as [Eid|Eid].
    { split; [discriminate|]. intros (H & _). inversion H as [|? ? [Hn _] _]; subst. contradiction. }
    destruct (String.eqb_spec (sv_addr s) "") as [Ead|Ead].
    { split; [discriminate|]. intros (H & _). inversion H as [|? ? [_ [Hn _]] _]; subst. contradiction. }
    destruct (has_sub "://" (sv_addr s)) eqn:Esub.
    { split; [discriminate|]. intros (H & _). inversion H as [|? ? [_ [_ [Hn _]]] _]; subst. congruence. }
    destruct (split_host_port_ok (sv_addr s)) eqn:Ehp; cbn [negb].
    2:{ split; [discriminate|]. intros (H & _). inversion H as [|? ? [_ [_ [_ Hn]]] _]; subst. congruence. }
    destruct (mem_str (sv_id s) ids) eqn:Emi.
    { split; [discriminate|]. intros (_ & _ & H & _). apply mem_str_In in Emi. exfalso. apply (H (sv_id s)); [left; reflexivity | exact Emi]. }
    destruct (mem_str (sv_addr s) addrs) eqn:Ema.
    { split; [discriminate|]. intros (_ & _ & _ & _ & H & _). apply mem_str_In in Ema. exfalso. apply (H (sv_addr s)); [left; reflexivity | exact Ema]. }
    assert (Hni : ~ In (sv_id s) ids) by (intros X; apply mem_str_In in X; congruence).
    assert (Hna : ~ In (sv_addr s) addrs) by (intros X; apply mem_str_In in X; congruence).
    rewrite IH. split.
    + intros (HF & Hnd & Hi & Hnda & Ha & Hv). repeat split.
      * constructor; [|exact HF]. repeat split; assumption.
      * constructor; [|exact Hnd]. intros X. apply (Hi _ X). left. reflexivity.
      * intros x [<-|X]; [exact Hni|]. intros Y. apply (Hi _ X). right. exact Y.
      * constructor; [|exact Hnda]. intros X. apply (Ha _ X). left. reflexivity.
      * intros x [<-|X]; [exact Hna|]. intros Y. apply (Ha _ X). right. exact Y.
      * destruct (sv_voter s) eqn:Ev.
        -- right. constructor. exact Ev.
        -- destruct Hv as [Hv|Hv]; [left; exact Hv | right; constructor 2; exact Hv].
    + intros (HF & Hnd & Hi & Hnda & Ha & Hv).
      inversion HF as [|? ? _ HF']; subst. inversion Hnd as [|? ? Hn1 Hnd']; subst. inversion Hnda as [|? ? Hn2 Hnda']; subst.
      repeat split; try assumption.
      * intros x X [<-|Y]; [contradiction|]. apply (Hi x); [right; exact X | exact Y].
      * intros x X [<-|Y]; [contradiction|]. apply (Ha x); [right; exact X | exact Y].
      * destruct (sv_voter s) eqn:Ev; [left; discriminate|].
        destruct Hv as [Hv|Hv]; [left; exact Hv|]. inversion Hv as [? ? Hx|? ? Hx]; subst; [congruence | right; exact Hx].
Qed.

Theorem check_configuration_spec conf : check_configuration conf = true <-> valid_peers conf.
Proof.
  unfold check_configuration, valid_peers. rewrite check_servers_spec. split.
  - intros (H1 & H2 & _ & H3 & _ & [H|H]); [contradiction|]. auto.
  - intros (H1 & H2 & H3 & H4). repeat split; auto.
Qed.

(* ------------------------------------------------------------------ the property *)

Theorem C33_recover_thm nd h peers :
  wf nd h ->
  (valid_peers peers ->
     exists nd', recover nd peers = Recovered nd'
       /\ contents nd' = applied (n_fk nd) h /\ contents nd' = contents nd
       /\ n_conf nd' = peers /\ n_log nd' = []
       /\ exists d, n_snap nd' = Some (List.length h, d))
  /\ (~ valid_peers peers -> recover nd peers = Rejected).
Proof.
  intros Hwf. split.
  - intros Hv. apply check_configuration_spec in Hv.
    destruct (recover_keeps_data nd h peers Hwf Hv) as (nd' & H1 & H2 & H3 & H4 & H5).
    exists nd'. repeat split; try assumption. rewrite H2. symmetry. apply contents_applied. exact Hwf.
  - intros Hn. apply recover_rejects. destruct (check_configuration peers) eqn:E; [|reflexivity].
    apply check_configuration_spec in E. contradiction.
Qed.

(* ------------------------------------------------------------------ examples *)
Open Scope N_scope.
(* foreign keys on: the child row (2, 99) was rejected when first applied and must not appear after recovery *)
Example ex_hist : list (entry cmd) :=
  [EOther; ECmd CSchema; ECmd (CReq false [SInsP 1; SInsC 1 1]); EOther; ECmd (CReq false [SInsC 2 99; SInsP 2]); ECmd (CReq true [SDelP 1; SInsP 3])].
Example ex_node := {| n_fk := true; n_snap := Some (3%nat, {| parents := [1]; children := [(1, 1)] |});
                      n_first := 2%nat; n_log := skipn 1 ex_hist; n_conf := [] |}.
Example ex_peers := [ {| sv_id := "n1"; sv_addr := "localhost:4002"; sv_voter := true |};
                      {| sv_id := "n2"; sv_addr := "10.0.0.2:4002"; sv_voter := false |} ].
Example ex_wf : wf ex_node ex_hist.
Proof. split; cbn; auto. repeat split; auto; lia. Qed.
Example ex_recover :
  match recover ex_node ex_peers with
  | Recovered nd' => contents nd' = {| parents := [1; 2]; children := [(1, 1)] |} /\ n_snap nd' = Some (6%nat, contents nd')
  | Rejected => False
  end
  /\ recover ex_node [ {| sv_id := "n1"; sv_addr := "localhost:4002"; sv_voter := false |} ] = Rejected
  /\ recover ex_node (ex_peers ++ [ {| sv_id := "n3"; sv_addr := "10.0.0.2:4002"; sv_voter := true |} ]) = Rejected
  /\ recover ex_node [ {| sv_id := "n1"; sv_addr := "http://localhost:4002"; sv_voter := true |} ] = Rejected.
Proof. vm_compute. auto. Qed.
(* three attempts fail or die (snapshot cannot be created; died after the snapshot became visible; died after the log
   was deleted), the fourth completes: same data, snapshot at the last index *)
Example ex_retry :
  match recover (fold_left (failed_attempt ex_peers) [(PCreate, false); (PAfterSinkClose, true); (PAfterDeleteRange, true)] ex_node) ex_peers with
  | Recovered nd' => contents nd' = {| parents := [1; 2]; children := [(1, 1)] |} /\ n_snap nd' = Some (6%nat, contents nd') /\ n_log nd' = []
  | Rejected => False
  end
  /\ n_log (failed_attempt ex_peers ex_node (PAfterSinkClose, true)) = n_log ex_node
  /\ n_log (failed_attempt ex_peers ex_node (PAfterDeleteRange, true)) = [].
Proof. vm_compute. auto. Qed.
(* a load that every node refused sits in the log between the snapshot and later writes: it is an entry like any other,
   recovery neither starts from it nor loses what precedes it *)
Example ex_hist_rl : list (entry cmd) :=
  [EOther; ECmd CSchema; ECmd (CReq false [SInsP 1; SInsC 1 1]); ECmd (CReq false [SInsP 2]); ECmd CLoadRejected; ECmd (CReq false [SInsC 2 2])].
Example ex_node_rl := {| n_fk := true; n_snap := Some (3%nat, {| parents := [1]; children := [(1, 1)] |});
                         n_first := 3%nat; n_log := skipn 2 ex_hist_rl; n_conf := [] |}.
Example ex_wf_rl : wf ex_node_rl ex_hist_rl.
Proof. split; cbn; auto. repeat split; auto; lia. Qed.
Example ex_recover_rl :
  match recover ex_node_rl ex_peers with
  | Recovered nd' => contents nd' = {| parents := [1; 2]; children := [(1, 1); (2, 2)] |} /\ contents nd' = applied true ex_hist_rl
  | Rejected => False
  end.
Proof. vm_compute. auto. Qed.
(* with foreign keys off the same history keeps the dangling row *)
Example ex_fk_off : applied false ex_hist = {| parents := [2; 3]; children := [(1, 1); (2, 99)] |}.
Proof. vm_compute. reflexivity. Qed.
