(* C34 — property theorems only.  `run enabled step init l = Some s`: s is reached by the
   schedule l (any interleaving, any number of threads) in which every action respects the
   client protocol `enabled`. *)
From Coq Require Import List String ZArith NArith.
From RQ Require Import Lib.C34_Sched Model.C34 Proofs.C34.
Import ListNotations.
Open Scope string_scope.

Theorem C34_cas_mutex : forall l s, run cas_enabled cas_step cas_init l = Some s ->
  List.length (c_holders s) <= 1 /\ (c_state s = true <-> c_holders s <> []).
Proof. exact cas_mutex. Qed.
Print Assumptions C34_cas_mutex.

Theorem C34_cas_begin_exact : forall l s t o, run cas_enabled cas_step cas_init l = Some s ->
  (snd (cas_step_obs s (CBegin t o)) = Ok <-> c_holders s = []) /\
  (snd (cas_step_obs s (CBegin t o)) = Ok ->
     c_holders (cas_step s (CBegin t o)) = [t] /\ c_owner (cas_step s (CBegin t o)) = o) /\
  (snd (cas_step_obs s (CBegin t o)) <> Ok ->
     snd (cas_step_obs s (CBegin t o)) = Conflict /\ cas_step s (CBegin t o) = s).
Proof. exact cas_begin_exact. Qed.
Print Assumptions C34_cas_begin_exact.

Theorem C34_mrsw_exclusion : forall l s, run mrsw_enabled mrsw_step mrsw_init l = Some s ->
  m_nr s = Z.of_nat (List.length (m_rd s)) /\ (0 <= m_nr s)%Z /\
  (m_owner s <> "" -> m_nr s = 0%Z /\ m_rd s = [] /\ exists t, m_wr s = [t]) /\
  (m_owner s = "" -> m_wr s = []) /\
  (m_rd s <> [] -> m_wr s = [] /\ m_owner s = "").
Proof. exact mrsw_exclusion. Qed.
Print Assumptions C34_mrsw_exclusion.

Theorem C34_mrsw_no_panic : forall l s a, run mrsw_enabled mrsw_step mrsw_init l = Some s ->
  mrsw_enabled s a = true ->
  snd (mrsw_step_obs s a) <> Panic /\ snd (mrsw_step_obs s a) <> Invalid.
Proof. exact mrsw_no_panic. Qed.
Print Assumptions C34_mrsw_no_panic.

Theorem C34_mrsw_no_lost_wakeup : forall l s t k, run mrsw_enabled mrsw_step mrsw_init l = Some s ->
  In (t, k) (m_wait s ++ m_woken s) -> guard_blocked s k = false ->
  In (t, k) (m_woken s) /\ mrsw_enabled s (MResume t) = true /\
  mrsw_step_obs s (MResume t) = (acquire (unwoken s t) t k, Ok).
Proof. exact mrsw_no_lost_wakeup. Qed.
Print Assumptions C34_mrsw_no_lost_wakeup.

Theorem C34_mrsw_released_enables : forall l s t k, run mrsw_enabled mrsw_step mrsw_init l = Some s ->
  In (t, k) (m_wait s ++ m_woken s) -> m_rd s = [] -> m_wr s = [] ->
  mrsw_enabled s (MResume t) = true /\
  mrsw_step_obs s (MResume t) = (acquire (unwoken s t) t k, Ok).
Proof. exact mrsw_released_enables. Qed.
Print Assumptions C34_mrsw_released_enables.

Theorem C34_mrsw_reader_enabled_without_writer : forall l s t,
  run mrsw_enabled mrsw_step mrsw_init l = Some s ->
  In (t, WR) (m_wait s ++ m_woken s) -> m_wr s = [] ->
  mrsw_enabled s (MResume t) = true /\
  mrsw_step_obs s (MResume t) = (acquire (unwoken s t) t WR, Ok).
Proof. exact mrsw_reader_enabled_without_writer. Qed.
Print Assumptions C34_mrsw_reader_enabled_without_writer.

Theorem C34_mrsw_upgrade : forall l s t o, run mrsw_enabled mrsw_step mrsw_init l = Some s ->
  mrsw_enabled s (MUpgrade t o) = true ->
  (snd (mrsw_step_obs s (MUpgrade t o)) = Ok <-> m_rd s = [t]) /\
  (snd (mrsw_step_obs s (MUpgrade t o)) = Ok ->
     let s' := mrsw_step s (MUpgrade t o) in
     m_owner s' = o /\ m_nr s' = 0%Z /\ m_rd s' = [] /\ m_wr s' = [t]) /\
  (snd (mrsw_step_obs s (MUpgrade t o)) <> Ok ->
     snd (mrsw_step_obs s (MUpgrade t o)) = Conflict /\ mrsw_step s (MUpgrade t o) = s).
Proof. exact mrsw_upgrade. Qed.
Print Assumptions C34_mrsw_upgrade.

Theorem C34_ready_exact : forall h s ch, run rt_enabled rt_step rt_init h = Some s ->
  rt_status s ch = spec_status h ch 0 0%N.
Proof. exact ready_exact. Qed.
Print Assumptions C34_ready_exact.

Theorem C34_ready_never_before : forall h s ch tg, run rt_enabled rt_step rt_init h = Some s ->
  In (ch, tg) (r_subs s) -> (r_cur s < tg)%N /\ memn ch (r_closed s) = false.
Proof. exact ready_never_before. Qed.
Print Assumptions C34_ready_never_before.

(* Second tie (DESIGN 3.5, docs/gotrans.md): Begin / End / Owner of CheckAndSet and the non-blocking
   methods of MultiRSW and the methods of ReadyTarget as translated from
   internal/rsync/{cas,multir_singlew,ready_target}.go on this run are the corresponding cases of
   cas_step_obs / mrsw_step_obs / rt_step, on the fields both sides have, the returned observation,
   the wait-sets after the reported cond.Broadcast() calls and the channels closed by the reported close() calls.  Premise: the package's
   error constructor never returns nil (fmt.Errorf is known not to). *)
From RQ Require Import Lib.GoLib.
From RQ Require Import Gen.Cas.
From RQ Require Import Gen.Mrsw.
From RQ Require Import Gen.ReadyTarget.
From RQ Require Import Proofs.C34_Gen.
Theorem C34_source_derived_eq : forall (E : Type) (now : Z) (errorf : string -> E)
    (mkerr : string -> option E) (sprintf : string -> Z -> string),
  (forall m, mkerr m <> None) ->
  (forall s start t o,
     gen_core (fst (CheckAndSet_Begin E errorf now (rep_cas s start) o)) = cas_core (fst (cas_step_obs s (CBegin t o))) /\
     obs_of_err (snd (CheckAndSet_Begin E errorf now (rep_cas s start) o)) = snd (cas_step_obs s (CBegin t o))) /\
  (forall s start t,
     gen_core (CheckAndSet_End (rep_cas s start)) = cas_core (fst (cas_step_obs s (CEnd t))) /\
     Ok = snd (cas_step_obs s (CEnd t))) /\
  (forall s start, CheckAndSet_Owner (rep_cas s start) = c_owner s) /\
  (forall s t,
     m_core (absorb_m s (fst (MultiRSW_BeginRead E mkerr (rep_m s))) []) = m_core (fst (mrsw_step_obs s (MBeginRead t))) /\
     obs_of_err (snd (MultiRSW_BeginRead E mkerr (rep_m s))) = snd (mrsw_step_obs s (MBeginRead t))) /\
  (forall s t,
     let r := MultiRSW_EndRead (rep_m s) in
     m_core (absorb_m s (fst (fst r)) (snd r)) = m_core (fst (mrsw_step_obs s (MEndRead t))) /\
     obs_of_unit (snd (fst r)) = snd (mrsw_step_obs s (MEndRead t))) /\
  (forall s t o,
     let r := MultiRSW_BeginWrite E mkerr sprintf (rep_m s) o in
     m_core (absorb_m s (fst r) []) = m_core (fst (mrsw_step_obs s (MBeginWrite t o))) /\
     obs_of_res (snd r) = snd (mrsw_step_obs s (MBeginWrite t o))) /\
  (forall s t,
     let r := MultiRSW_EndWrite (rep_m s) in
     m_core (absorb_m s (fst (fst r)) (snd r)) = m_core (fst (mrsw_step_obs s (MEndWrite t))) /\
     obs_of_unit (snd (fst r)) = snd (mrsw_step_obs s (MEndWrite t))) /\
  (forall s t o,
     let r := MultiRSW_UpgradeToWriter E mkerr sprintf (rep_m s) o in
     m_core (absorb_m s (fst r) []) = m_core (fst (mrsw_step_obs s (MUpgrade t o))) /\
     obs_of_res (snd r) = snd (mrsw_step_obs s (MUpgrade t o))) /\
  (forall s tg,
     let r := ReadyTarget_Subscribe N nat N.leb (r_next s) (rep_rt s) tg in
     fst (fst r) = rep_rt (rt_step s (RSub tg)) /\ snd (fst r) = r_next s /\
     (closes (snd r) ++ r_closed s)%list = r_closed (rt_step s (RSub tg))) /\
  (forall s ch, ReadyTarget_Unsubscribe N nat Nat.eqb (rep_rt s) ch = rep_rt (rt_step s (RUnsub ch))) /\
  (forall s i,
     let r := ReadyTarget_Signal N nat N.leb (rep_rt s) i in
     fst r = rep_rt (rt_step s (RSignal i)) /\
     (closes (snd r) ++ r_closed s)%list = r_closed (rt_step s (RSignal i))) /\
  (forall s, ReadyTarget_Reset N nat 0%N (rep_rt s) = rep_rt (rt_step s RReset)).
Proof. exact gen_rsync_eq. Qed.
Print Assumptions C34_source_derived_eq.
