(* C35 — property theorems only.  [decode] is protobuf's Unmarshal (third party): any function
   ANY function from payload bytes to an optional command whose type is ANY integer. *)
From Coq Require Import List String NArith ZArith.
From RQ Require Import Model.C19 Model.C18 Model.C35 Proofs.C18 Proofs.C35.
Import ListNotations.
Open Scope N_scope.

(* Whatever bytes arrive and whatever the decoder makes of them — the command type is ANY integer
   (Z), negative and out-of-enum values included, dispatched by the total function [type_name] —
   the connection handler ends by closing the connection: no nil dereference, no impossible
   allocation, no type without a handler, and the model's recursion budget is never the reason. *)
Theorem C35_no_crash : forall decode st input, r_end (mux_serve decode st input) = EClosed.
Proof. exact no_crash. Qed.
Print Assumptions C35_no_crash.

(* The read buffers held for a connection never exceed twice the bytes it sent plus 520. *)
Theorem C35_alloc_bounded : forall decode st input,
  r_alloc (mux_serve decode st input) <= 2 * N.of_nat (List.length input) + 520.
Proof. exact alloc_bounded. Qed.
Print Assumptions C35_alloc_bounded.

(* Every call into store or manager other than the commit-index read was caused by a command whose
   credentials the store authorizes for the documented requirement of its type.
   `partial`: HIGHWATER_MARK_UPDATE excluded (C35_state_change_refuted). *)
Theorem C35_no_state_change_without_perm_partial : forall decode st input name c,
  In (name, c) (r_calls (mux_serve decode st input)) ->
  meta_call name = false -> type_name (cm_type c) <> hwm ->
  exists g, required (type_name (cm_type c)) = Some g /\
            holds (authz st (cm_user c) (cm_pass c)) (cm_voter c) g = true.
Proof. exact no_state_change_without_perm_partial. Qed.
Print Assumptions C35_no_state_change_without_perm_partial.

(* A length prefix above 2^31-1 closes the connection: nothing called, nothing written, 8 bytes held. *)
Theorem C35_oversize_rejected : forall decode st hdr tail,
  List.length hdr = 8%nat -> max_command_size < le64 hdr ->
  let r := mux_serve decode st (mux_cluster_header :: hdr ++ tail) in
  r_calls r = [] /\ r_out r = [] /\ r_alloc r = 8 /\ r_end r = EClosed.
Proof. exact oversize_rejected. Qed.
Print Assumptions C35_oversize_rejected.

(* The full statement fails: nine bytes change CDC state under a store that grants nothing. *)
Theorem C35_state_change_refuted :
  exists decode input,
    (forall u p perm, authz (Some (load [])) u p perm = false) /\
    In ("HWM"%string, hwm_cmd) (r_calls (mux_serve decode (Some (load [])) input)).
Proof. exact state_change_refuted. Qed.
Print Assumptions C35_state_change_refuted.
