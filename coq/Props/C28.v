(* C28 — property theorems only.  gzip enters as an explicit premise: gunzip (gzip b) = Some b. *)
From Coq Require Import List String NArith ZArith.
From RQ Require Import Model.C28 Proofs.C28.
Import ListNotations.
Open Scope string_scope.
Open Scope list_scope.

(* Splitting any byte stream (any reader behaviour: short reads, EOF with or after the final bytes) into chunks of
   any size > 0 terminates, and a fresh receiver fed the chunks in order accepts all of them and holds exactly the
   stream; exactly the final chunk is marked last (an empty stream yields no chunk). *)
Theorem C28_roundtrip :
  forall (gzip : bytes -> bytes) (gunzip : bytes -> option bytes),
  (forall b, gunzip (gzip b) = Some b) ->
  forall sid size r, (0 < size)%N -> sid <> "" ->
  exists cs,
    chunk_stream gzip sid size r = Some cs /\
    dechunk gunzip cs = DOk (rd_data r) (negb (is_nil (rd_data r))) /\
    (rd_data r = [] -> cs = []) /\
    (rd_data r <> [] -> well_marked cs).
Proof. exact roundtrip. Qed.
Print Assumptions C28_roundtrip.

(* A receiver bound to a stream rejects every chunk of another stream and every chunk that is not the next in
   sequence, and the rejection leaves the receiver exactly as it was. *)
Theorem C28_foreign_or_out_of_order_rejected :
  forall gunzip d c, dc_stream d <> "" -> foreign_or_out_of_order d c ->
  exists e, write_chunk gunzip d c = (d, WErr e) /\ (e = EStream \/ e = EOrder).
Proof. exact rejected. Qed.
Print Assumptions C28_foreign_or_out_of_order_rejected.

(* ... hence such a chunk dropped anywhere into any chunk sequence changes neither the other verdicts nor the file. *)
Theorem C28_rejected_chunk_is_harmless :
  forall gunzip d pre bad post, dc_stream d <> "" ->
  foreign_or_out_of_order (snd (run_dechunk gunzip d pre)) bad ->
  exists e, (e = EStream \/ e = EOrder) /\
    run_dechunk gunzip d (pre ++ bad :: post) =
    (let (r1, d1) := run_dechunk gunzip d pre in
     let (r2, d2) := run_dechunk gunzip d1 post in (r1 ++ WErr e :: r2, d2)) /\
    snd (run_dechunk gunzip d (pre ++ bad :: post)) = snd (run_dechunk gunzip d (pre ++ post)).
Proof. exact rejected_chunk_is_harmless. Qed.
Print Assumptions C28_rejected_chunk_is_harmless.

(* For ANY chunk sequence fed to a bound receiver: the chunks that took a sequence number belong to its stream and
   are consecutively numbered, and the file grows by exactly the payloads of the accepted chunks, in order. *)
Theorem C28_accepted_in_sequence :
  forall gunzip cs d rs d', dc_stream d <> "" -> run_dechunk gunzip d cs = (rs, d') ->
  List.length rs = List.length cs /\
  Forall (fun c => ch_stream c = dc_stream d) (pick consumed cs rs) /\
  consecutive (dc_seq d + 1) (map ch_seq (pick consumed cs rs)) /\
  dc_file d' = dc_file d ++ List.concat (map (plain gunzip) (pick is_ok cs rs)).
Proof. exact accepted_in_sequence. Qed.
Print Assumptions C28_accepted_in_sequence.

(* After the abort command of a stream has been processed -- whatever was processed before -- the stream has no
   receiver and no temp file. *)
Theorem C28_abort_leaves_nothing :
  forall gunzip hist c, ch_abort c = true ->
  let m' := snd (run_process gunzip [] (hist ++ [c])) in
  file_of m' (ch_stream c) = None /\ ~ In (ch_stream c) (map fst (files m')).
Proof. exact abort_leaves_nothing. Qed.
Print Assumptions C28_abort_leaves_nothing.

(* ... and an abort (in any manager state) does not touch any other stream's partial file. *)
Theorem C28_abort_step :
  forall gunzip m c, ch_abort c = true ->
  let (m', r) := process gunzip m c in
  r = PAborted /\ file_of m' (ch_stream c) = None /\ ~ In (ch_stream c) (map fst (files m')) /\
  forall id, id <> ch_stream c -> file_of m' id = file_of m id.
Proof. exact abort_step. Qed.
Print Assumptions C28_abort_step.

(* Streams are isolated in the command processor: a command of one stream never changes another stream's file;
   a delivered (completed) stream leaves nothing behind either. *)
Theorem C28_other_streams_untouched :
  forall gunzip m c id, id <> ch_stream c -> file_of (fst (process gunzip m c)) id = file_of m id.
Proof. exact other_streams_untouched. Qed.
Print Assumptions C28_other_streams_untouched.

Theorem C28_delivered_leaves_nothing :
  forall gunzip m c f m', process gunzip m c = (m', PDelivered f) -> file_of m' (ch_stream c) = None.
Proof. exact delivered_leaves_nothing. Qed.
Print Assumptions C28_delivered_leaves_nothing.
