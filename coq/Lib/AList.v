(* Last-write-wins association lists with string keys: the model of Go's map[string]T
   as far as lookups and assignments go (iteration order is never observed). *)
From Coq Require Import List String Bool.
Import ListNotations.
Open Scope string_scope.

Section AList.
  Context {V : Type}.
  Definition alist := list (string * V).

  Fixpoint lookup (m : alist) (k : string) : option V :=
    match m with
    | [] => None
    | (k', v) :: r => if String.eqb k' k then Some v else lookup r k
    end.

  (* m[k] = v *)
  Definition update (m : alist) (k : string) (v : V) : alist := (k, v) :: m.

  Lemma lookup_update_eq m k v : lookup (update m k v) k = Some v.
  Proof. unfold update; cbn [lookup]. now rewrite String.eqb_refl. Qed.

  Lemma lookup_update_neq m k k' v : k <> k' -> lookup (update m k v) k' = lookup m k'.
  Proof.
    intros H. unfold update; cbn [lookup].
    destruct (String.eqb_spec k k'); [contradiction | reflexivity].
  Qed.
End AList.
Arguments alist V : clear implicits.
