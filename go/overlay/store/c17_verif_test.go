package store

// C17 driver.  Generated SQL texts (several SQL statements per text, read-only heads with writing
// tails, EXPLAIN, PRAGMA, ATTACH, temp tables, CTE writes, RETURNING, comments and semicolons inside
// literals) are sent
//   - directly to the node's database object: Query (read-only pool), Request, Execute (read-write connection)
//   - through a real single-node Store: Query / Request at every consistency level, Execute.
// Observed from a separate read-only connection: the logical contents (rows of t, extra tables,
// user_version) and PRAGMA data_version before and after, and whether the raft log grew.
// Every SQL statement's read-only flag (sqlite3_stmt_readonly, asked of the driver directly) and row
// changes are measured by running it alone on a scratch database.

import (
	"context"
	"database/sql"
	"encoding/json"
	"fmt"
	"math/rand"
	"os"
	"path/filepath"
	"sort"
	"strings"
	"testing"
	"time"

	"github.com/mattn/go-sqlite3"
	"github.com/rqlite/rqlite/v10/command/proto"
)

type c17Sub struct {
	SQL string  `json:"sql"`
	RO  bool    `json:"ro"`            // declared: read-only for SQLite
	Ops []c17Op `json:"ops,omitempty"` // declared absolute row changes
}

type c17Op struct {
	K   int64 `json:"k"`
	Del bool  `json:"del,omitempty"`
	V   int64 `json:"v,omitempty"`
}

type c17Text struct {
	Subs    []c17Sub `json:"subs,omitempty"`
	Bad     bool     `json:"bad,omitempty"`     // first statement does not prepare
	Explain bool     `json:"explain,omitempty"` // Statement.SqlExplain
	Sep     []string `json:"sep,omitempty"`     // separators after each sub (";", "; ", " ;\n-- c\n", ...)
}

type c17Row struct {
	K int64 `json:"k"`
	V int64 `json:"v"`
}

type c17Input struct {
	Endpoint string    `json:"endpoint"` // dbquery dbrequest dbexecute query request execute
	Level    string    `json:"level,omitempty"`
	Fresh    bool      `json:"fresh,omitempty"` // linearizable only: no strong read has gone through the log in this term yet (as after a leader change)
	Init     []c17Row  `json:"init"`
	Texts    []c17Text `json:"texts"`
}

func (t c17Text) sql() string {
	if t.Bad {
		return "SELEC 1 FROM t; DELETE FROM t"
	}
	var sb strings.Builder
	for i, s := range t.Subs {
		sb.WriteString(s.SQL)
		if i < len(t.Sep) {
			sb.WriteString(t.Sep[i])
		} else if i < len(t.Subs)-1 {
			sb.WriteString("; ")
		}
	}
	return sb.String()
}

const c17Schema = "CREATE TABLE IF NOT EXISTS t(id INTEGER PRIMARY KEY, v INTEGER)"

func c17ResetSQL(init []c17Row) []string {
	out := []string{"DELETE FROM t", "DROP TABLE IF EXISTS u1", "DROP TABLE IF EXISTS u2", "DROP TABLE IF EXISTS u3", "PRAGMA user_version=0"}
	for _, r := range init {
		out = append(out, fmt.Sprintf("INSERT INTO t(id,v) VALUES(%d,%d)", r.K, r.V))
	}
	return out
}

// logical contents: rows of t, (9000+K,1) for table uK, (8000,user_version) when not 0
func c17Dump(db *sql.DB) []c17Row {
	var out []c17Row
	rows, err := db.Query("SELECT id, v FROM t ORDER BY id")
	if err != nil {
		panic(err)
	}
	for rows.Next() {
		var r c17Row
		var v sql.NullInt64
		if err := rows.Scan(&r.K, &v); err != nil {
			panic(err)
		}
		r.V = v.Int64
		out = append(out, r)
	}
	rows.Close()
	var uv int64
	if err := db.QueryRow("PRAGMA user_version").Scan(&uv); err != nil {
		panic(err)
	}
	if uv != 0 {
		out = append(out, c17Row{8000, uv})
	}
	rows, err = db.Query("SELECT name FROM sqlite_master WHERE type='table' AND name != 't' ORDER BY name")
	if err != nil {
		panic(err)
	}
	for rows.Next() {
		var n string
		rows.Scan(&n)
		k := int64(9999)
		fmt.Sscanf(n, "u%d", &k)
		out = append(out, c17Row{9000 + k, 1})
	}
	rows.Close()
	sort.Slice(out, func(i, j int) bool { return out[i].K < out[j].K })
	return out
}

func c17Apply(rows []c17Row, ops []c17Op) []c17Row {
	m := map[int64]int64{}
	for _, r := range rows {
		m[r.K] = r.V
	}
	for _, o := range ops {
		if o.Del {
			delete(m, o.K)
		} else {
			m[o.K] = o.V
		}
	}
	var out []c17Row
	for k, v := range m {
		out = append(out, c17Row{k, v})
	}
	sort.Slice(out, func(i, j int) bool { return out[i].K < out[j].K })
	return out
}

func c17Eq(a, b []c17Row) bool {
	if len(a) != len(b) {
		return false
	}
	for i := range a {
		if a[i] != b[i] {
			return false
		}
	}
	return true
}

type c17Env struct {
	dir     string
	s       *Store
	obs     *sql.DB // separate read-only connection to the node's database file
	obsConn *sql.Conn
	scratch *sql.DB // plain SQLite database for measuring single statements
}

func c17Open(t *testing.T) *c17Env {
	dir, err := os.MkdirTemp("", "c17-verif")
	if err != nil {
		t.Fatal(err)
	}
	e := &c17Env{dir: dir}
	s := New(&Config{DBConf: NewDBConfig(), Dir: filepath.Join(dir, "node"), ID: "n1"}, mustMockLayer("localhost:0"))
	s.SnapshotThreshold = 1 << 30
	if err := s.Open(); err != nil {
		t.Fatal(err)
	}
	if err := s.Bootstrap(NewServer(s.ID(), s.Addr(), true)); err != nil {
		t.Fatal(err)
	}
	if _, err := s.WaitForLeader(10 * time.Second); err != nil {
		t.Fatal(err)
	}
	e.s = s
	if _, _, err := s.Execute(context.Background(), executeRequestFromString(c17Schema, false, false)); err != nil {
		t.Fatal(err)
	}
	e.obs, err = sql.Open("sqlite3", "file:"+s.dbPath+"?mode=ro")
	if err != nil {
		t.Fatal(err)
	}
	e.obs.SetMaxOpenConns(1)
	e.scratch, err = sql.Open("sqlite3", "file:"+filepath.Join(dir, "scratch.db"))
	if err != nil {
		t.Fatal(err)
	}
	e.scratch.SetMaxOpenConns(1)
	if _, err := e.scratch.Exec(c17Schema); err != nil {
		t.Fatal(err)
	}
	return e
}

func (e *c17Env) Close() {
	e.obs.Close()
	e.scratch.Close()
	e.s.Close(true)
	os.RemoveAll(e.dir)
}

func (e *c17Env) dataVersion() int64 {
	var v int64
	if err := e.obs.QueryRow("PRAGMA data_version").Scan(&v); err != nil {
		panic(err)
	}
	return v
}

// measure one SQL statement alone on the scratch database holding `init`
func (e *c17Env) measure(init []c17Row, sub c17Sub) (ro bool, after []c17Row, err error) {
	e.scratch.Exec("DETACH DATABASE m")
	for _, q := range c17ResetSQL(init) {
		if _, err := e.scratch.Exec(q); err != nil {
			return false, nil, err
		}
	}
	conn, err := e.scratch.Conn(context.Background())
	if err != nil {
		return false, nil, err
	}
	err = conn.Raw(func(dc any) error {
		st, err := dc.(*sqlite3.SQLiteConn).Prepare(sub.SQL)
		if err != nil {
			return err
		}
		ro = st.(*sqlite3.SQLiteStmt).Readonly()
		return st.Close()
	})
	if err == nil {
		_, err = conn.ExecContext(context.Background(), sub.SQL)
	}
	conn.Close()
	if err != nil {
		return false, nil, err
	}
	return ro, c17Dump(e.scratch), nil
}

func c17Level(l string) proto.ConsistencyLevel {
	switch l {
	case "none":
		return proto.ConsistencyLevel_NONE
	case "weak":
		return proto.ConsistencyLevel_WEAK
	case "linearizable":
		return proto.ConsistencyLevel_LINEARIZABLE
	case "strong":
		return proto.ConsistencyLevel_STRONG
	default:
		return proto.ConsistencyLevel_AUTO
	}
}

func c17CoqTable(rows []c17Row) string {
	it := make([]string, len(rows))
	for i, r := range rows {
		it[i] = fmt.Sprintf("(%d, %d)", r.K, r.V)
	}
	return coqList(it)
}

func c17CoqOps(ops []c17Op) string {
	it := make([]string, len(ops))
	for i, o := range ops {
		if o.Del {
			it[i] = fmt.Sprintf("(%d, None)", o.K)
		} else {
			it[i] = fmt.Sprintf("(%d, Some %d)", o.K, o.V)
		}
	}
	return coqList(it)
}

func c17Run(w *vWriter, e *c17Env, in c17Input) {
	key := vJSON(in)
	ctx := context.Background()
	// measure every statement; the declared flags/changes are the generator's, the measurement is SQLite's
	ros := map[string]bool{}
	for _, t := range in.Texts {
		for _, sub := range t.Subs {
			ro, after, err := e.measure(in.Init, sub)
			if err != nil {
				w.Emit(VCase{Input: in, Key: key, Inconcl: fmt.Sprintf("statement %q does not run alone: %v", sub.SQL, err)})
				return
			}
			if want := c17Apply(in.Init, sub.Ops); !c17Eq(after, want) || ro != sub.RO {
				w.Emit(VCase{Input: in, Key: key, OracleFail: fmt.Sprintf("statement %q: declared ro=%v ops=%v, SQLite says ro=%v contents %v (from %v)", sub.SQL, sub.RO, sub.Ops, ro, after, in.Init),
					Sig: "C17:generator-declaration-wrong"})
				return
			}
			ros[sub.SQL] = ro
		}
	}
	// reset the node's database (directly on its read-write connection) and connection-local state
	reset := &proto.Request{Statements: []*proto.Statement{{Sql: "DETACH DATABASE m"}}}
	for _, q := range c17ResetSQL(in.Init) {
		reset.Statements = append(reset.Statements, &proto.Statement{Sql: q})
	}
	if _, err := e.s.db.Execute(reset, false); err != nil {
		w.Emit(VCase{Input: in, Key: key, Inconcl: "reset: " + err.Error()})
		return
	}
	before := c17Dump(e.obs)
	if !c17Eq(before, c17Apply(nil, func() []c17Op {
		var o []c17Op
		for _, r := range in.Init {
			o = append(o, c17Op{K: r.K, V: r.V})
		}
		return o
	}())) {
		w.Emit(VCase{Input: in, Key: key, Inconcl: fmt.Sprintf("reset left %v, want %v", before, in.Init)})
		return
	}
	if in.Level == "linearizable" && in.Fresh {
		e.s.strongReadTerm.Store(0) // makes waitForLinearizableRead ask for a strong read, as it does in a new term
	}
	dv0 := e.dataVersion()
	idx0 := e.s.raft.LastIndex()

	req := &proto.Request{}
	for _, t := range in.Texts {
		req.Statements = append(req.Statements, &proto.Statement{Sql: t.sql(), SqlExplain: t.Explain})
	}
	var (
		kinds   []string // per non-empty text: Q, E, Err, QErr
		callErr error
		nRW     = int64(-1)
		upg     bool
	)
	eqKinds := func(rs []*proto.ExecuteQueryResponse) {
		for _, r := range rs {
			switch x := r.GetResult().(type) {
			case *proto.ExecuteQueryResponse_E:
				kinds = append(kinds, "E")
			case *proto.ExecuteQueryResponse_Q:
				if x.Q.GetError() != "" {
					kinds = append(kinds, "QErr")
				} else {
					kinds = append(kinds, "Q")
				}
			default:
				kinds = append(kinds, "Err")
			}
		}
	}
	switch in.Endpoint {
	case "dbquery":
		_, callErr = e.s.db.Query(req, false)
	case "dbrequest":
		var rs []*proto.ExecuteQueryResponse
		rs, callErr = e.s.db.Request(req, false)
		eqKinds(rs)
	case "dbexecute":
		_, callErr = e.s.db.Execute(req, false)
	case "query":
		qr := &proto.QueryRequest{Request: req, Level: c17Level(in.Level)}
		var lv proto.ConsistencyLevel
		_, lv, _, callErr = e.s.Query(ctx, qr)
		upg = in.Level == "linearizable" && lv == proto.ConsistencyLevel_STRONG
	case "request":
		eqr := &proto.ExecuteQueryRequest{Request: req, Level: c17Level(in.Level)}
		var rs []*proto.ExecuteQueryResponse
		var n uint64
		rs, n, _, callErr = e.s.Request(ctx, eqr)
		nRW = int64(n)
		eqKinds(rs)
		upg = in.Level == "linearizable" && eqr.Level == proto.ConsistencyLevel_STRONG
	case "execute":
		_, _, callErr = e.s.Execute(ctx, &proto.ExecuteRequest{Request: req})
	}
	if callErr != nil {
		w.Emit(VCase{Input: in, Key: key, Inconcl: "call failed: " + callErr.Error()})
		return
	}
	after := c17Dump(e.obs)
	dv1 := e.dataVersion()
	appended := e.s.raft.LastIndex() > idx0

	// ---- model case ----
	var texts []string
	for _, t := range in.Texts {
		switch {
		case t.Bad:
			texts = append(texts, "TBad")
		case len(t.Subs) == 0:
			texts = append(texts, "TEmpty")
		default:
			subs := make([]string, len(t.Subs))
			for i, s := range t.Subs {
				subs[i] = fmt.Sprintf("{| sb_ro := %s; sb_eff := %s |}", coqBool(ros[s.SQL]), c17CoqOps(s.Ops))
			}
			texts = append(texts, fmt.Sprintf("TSubs %s %s", coqBool(t.Explain), coqList(subs)))
		}
	}
	lv := map[string]string{"none": "LvNone", "weak": "LvWeak", "strong": "LvStrong", "auto": "LvAuto"}[in.Level]
	if in.Level == "linearizable" {
		lv = "(LvLinearizable " + coqBool(upg) + ")"
	}
	ep := map[string]string{"dbquery": "DbQuery", "dbrequest": "DbRequest", "dbexecute": "DbExecute", "execute": "StExecute"}[in.Endpoint]
	if in.Endpoint == "query" {
		ep = "(StQuery " + lv + ")"
	} else if in.Endpoint == "request" {
		ep = "(StRequest " + lv + ")"
	}
	coq := fmt.Sprintf("({| k_ep := %s; k_req := %s; k_init := %s; k_final := %s; k_appended := %s; k_nrw := %s |})%%N",
		ep, coqList(texts), c17CoqTable(before), c17CoqTable(after), coqBool(appended), coqOpt(nRW >= 0, fmt.Sprint(nRW)))

	// ---- the property ----
	c := VCase{Input: in, Key: key, Coq: coq}
	changed := !c17Eq(before, after) || dv0 != dv1
	roHeadRwTail, writeNotFirst, special := false, false, false
	for _, t := range in.Texts {
		for i, s := range t.Subs {
			if !s.RO && len(s.Ops) > 0 && i > 0 {
				writeNotFirst = true
				if t.Subs[0].RO {
					roHeadRwTail = true
				}
			}
			up := strings.ToUpper(s.SQL)
			if strings.Contains(up, "ATTACH") || strings.Contains(up, "TEMP") || strings.Contains(up, "PRAGMA") {
				special = true
			}
		}
	}
	c.Nontrivial = writeNotFirst || special
	c.Tags = []string{"endpoint=" + in.Endpoint}
	if in.Level != "" {
		c.Tags = append(c.Tags, "level="+in.Level)
	}
	if upg {
		c.Tags = append(c.Tags, "linearizable-upgraded-to-strong")
	}
	if roHeadRwTail {
		c.Tags = append(c.Tags, "ro-head-rw-tail")
	}
	if special {
		c.Tags = append(c.Tags, "attach-temp-pragma")
	}
	if appended {
		c.Tags = append(c.Tags, "via-log")
	}
	switch in.Endpoint {
	case "dbquery", "query":
		if changed {
			c.OracleFail = fmt.Sprintf("query endpoint (%s level %q) changed the database: %v -> %v (data_version %d -> %d); request %v", in.Endpoint, in.Level, before, after, dv0, dv1, vJSON(req.Statements))
			c.Sig = "C17:query-endpoint-wrote"
		}
	case "dbrequest", "request":
		// texts answered with a Q result were treated as read-only; only the others may change anything
		var nonEmpty []c17Text
		for _, t := range in.Texts {
			if t.Bad || len(t.Subs) > 0 {
				nonEmpty = append(nonEmpty, t)
			}
		}
		if len(kinds) == len(nonEmpty) {
			want := before
			for i, t := range nonEmpty {
				if kinds[i] == "E" {
					for _, s := range t.Subs {
						want = c17Apply(want, s.Ops)
					}
				}
			}
			allRO := true
			for _, k := range kinds {
				if k == "E" {
					allRO = false
				}
			}
			if !c17Eq(after, want) || (allRO && dv0 != dv1) {
				c.OracleFail = fmt.Sprintf("unified request (%s level %q): statements answered as read-only (result kinds %v) changed the database: %v -> %v, expected %v; texts %v",
					in.Endpoint, in.Level, kinds, before, after, want, vJSON(req.Statements))
				c.Sig = "C17:unified-ro-wrote"
				if roHeadRwTail {
					c.Sig = "C17:unified-ro-head-rw-tail"
				}
			}
		}
	}
	// a database changes only through the log: checked last so that it wins over the endpoint-specific verdicts
	if changed && !appended && (in.Endpoint == "query" || in.Endpoint == "request" || in.Endpoint == "execute") {
		c.OracleFail = fmt.Sprintf("%s level %q changed the database without a log entry: %v -> %v (data_version %d -> %d); texts %v", in.Endpoint, in.Level, before, after, dv0, dv1, vJSON(req.Statements))
		c.Sig = "C17:changed-without-log-entry"
	}
	w.Emit(c)
}

// ---- generator ----

func c17GenSub(rng *rand.Rand, wantRO bool) c17Sub {
	k := int64(1 + rng.Intn(6))
	v := int64(10 + rng.Intn(90))
	if wantRO {
		ros := []string{
			"SELECT * FROM t", fmt.Sprintf("SELECT count(*) FROM t WHERE id > %d", k), "EXPLAIN SELECT * FROM t", "EXPLAIN QUERY PLAN SELECT v FROM t WHERE id = 1",
			"PRAGMA table_info(t)", "PRAGMA user_version", "WITH x AS (SELECT id FROM t) SELECT count(*) FROM x", "ATTACH DATABASE ':memory:' AS m",
			"SELECT ';'", "/* c; */ SELECT 1 -- x\n", "SELECT \"a;b\" FROM (SELECT 1 AS \"a;b\")", "PRAGMA optimize", "REINDEX",
		}
		return c17Sub{SQL: ros[rng.Intn(len(ros))], RO: true}
	}
	switch rng.Intn(12) {
	case 0, 1:
		return c17Sub{SQL: fmt.Sprintf("DELETE FROM t WHERE id = %d", k), Ops: []c17Op{{K: k, Del: true}}}
	case 2, 3:
		return c17Sub{SQL: fmt.Sprintf("INSERT OR REPLACE INTO t(id,v) VALUES(%d,%d)", k, v), Ops: []c17Op{{K: k, V: v}}}
	case 4:
		return c17Sub{SQL: fmt.Sprintf("WITH x AS (SELECT %d AS i) DELETE FROM t WHERE id IN (SELECT i FROM x)", k), Ops: []c17Op{{K: k, Del: true}}}
	case 5:
		return c17Sub{SQL: fmt.Sprintf("DELETE FROM t WHERE id = %d RETURNING v", k), Ops: []c17Op{{K: k, Del: true}}}
	case 6:
		return c17Sub{SQL: fmt.Sprintf("REPLACE INTO t(id,v) VALUES(%d,%d) RETURNING id", k, v), Ops: []c17Op{{K: k, V: v}}}
	case 7:
		u := int64(1 + rng.Intn(3))
		return c17Sub{SQL: fmt.Sprintf("CREATE TABLE IF NOT EXISTS u%d(a)", u), Ops: []c17Op{{K: 9000 + u, V: 1}}}
	case 8:
		return c17Sub{SQL: fmt.Sprintf("PRAGMA user_version = %d", k), Ops: []c17Op{{K: 8000, V: k}}}
	case 9:
		return c17Sub{SQL: "CREATE TEMP TABLE IF NOT EXISTS tt(a)"}
	case 10:
		return c17Sub{SQL: "UPDATE t SET v = v WHERE 0"}
	default:
		return c17Sub{SQL: "EXPLAIN QUERY PLAN DELETE FROM t"}
	}
}

func c17GenText(rng *rand.Rand) c17Text {
	var t c17Text
	switch p := rng.Intn(100); {
	case p < 4:
		return c17Text{} // ""
	case p < 8:
		return c17Text{Bad: true}
	case p < 25: // single read-only statement
		t.Subs = []c17Sub{c17GenSub(rng, true)}
	case p < 37: // single write
		t.Subs = []c17Sub{c17GenSub(rng, false)}
	case p < 67: // read-only head, then anything (at least one write)
		t.Subs = []c17Sub{c17GenSub(rng, true)}
		n := 1 + rng.Intn(3)
		for i := 0; i < n; i++ {
			t.Subs = append(t.Subs, c17GenSub(rng, rng.Intn(3) == 0))
		}
	case p < 80: // write head, anything after
		t.Subs = []c17Sub{c17GenSub(rng, false)}
		n := 1 + rng.Intn(3)
		for i := 0; i < n; i++ {
			t.Subs = append(t.Subs, c17GenSub(rng, rng.Intn(2) == 0))
		}
	default: // only read-only statements
		n := 2 + rng.Intn(2)
		for i := 0; i < n; i++ {
			t.Subs = append(t.Subs, c17GenSub(rng, true))
		}
	}
	// ATTACH changes connection-local state: keep at most one per text (the second would fail on the same connection)
	seenAttach := false
	for i := range t.Subs {
		if strings.HasPrefix(t.Subs[i].SQL, "ATTACH") {
			if seenAttach {
				t.Subs[i] = c17Sub{SQL: "SELECT 2", RO: true}
			}
			seenAttach = true
		}
	}
	seps := []string{"; ", ";", " ;\n", "; -- c\n", ";/* ; */ "}
	for i := range t.Subs {
		if i < len(t.Subs)-1 {
			t.Sep = append(t.Sep, seps[rng.Intn(len(seps))])
		} else if rng.Intn(3) == 0 {
			t.Sep = append(t.Sep, []string{";", " ; ", ";\n"}[rng.Intn(3)])
		}
	}
	if len(t.Subs) > 0 && strings.HasPrefix(t.Subs[0].SQL, "EXPLAIN") {
		t.Explain = rng.Intn(2) == 0
	}
	return t
}

func c17GenInit(rng *rand.Rand) []c17Row {
	var init []c17Row
	for id := int64(1); id <= 6; id++ {
		if rng.Intn(2) == 0 {
			init = append(init, c17Row{id, int64(100 + rng.Intn(100))})
		}
	}
	return init
}

var c17Endpoints = []struct{ ep, lv string }{
	{"dbquery", ""}, {"dbrequest", ""}, {"dbexecute", ""},
	{"query", "none"}, {"query", "weak"}, {"query", "linearizable"}, {"query", "strong"}, {"query", "auto"},
	{"request", "none"}, {"request", "weak"}, {"request", "linearizable"}, {"request", "strong"}, {"request", "auto"},
	{"execute", ""},
}

func c17Corpus() [][]c17Text {
	sel := c17Sub{SQL: "SELECT 1", RO: true}
	del := c17Sub{SQL: "DELETE FROM t WHERE id = 1", Ops: []c17Op{{K: 1, Del: true}}}
	put := c17Sub{SQL: "INSERT OR REPLACE INTO t(id,v) VALUES(5,55)", Ops: []c17Op{{K: 5, V: 55}}}
	expl := c17Sub{SQL: "EXPLAIN SELECT 1", RO: true}
	return [][]c17Text{
		{{Subs: []c17Sub{sel, del}}},                                  // the known defect shape
		{{Subs: []c17Sub{del, sel}}},                                  // write head: a write, and treated as one
		{{Subs: []c17Sub{sel, del, sel}}},                             // only the last statement of a query text is stepped
		{{Subs: []c17Sub{expl, del}, Explain: true}},                  // counted read-only because of SqlExplain
		{{Subs: []c17Sub{sel}}, {Subs: []c17Sub{put}}},                // mixed request: goes through the log at every level
		{{Subs: []c17Sub{sel, del}}, {Subs: []c17Sub{put}}},           // read-only head + write tail next to a real write
		{{Subs: []c17Sub{{SQL: "ATTACH DATABASE ':memory:' AS m", RO: true}, {SQL: "CREATE TABLE IF NOT EXISTS u1(a)", Ops: []c17Op{{K: 9001, V: 1}}}}}},
		{{Subs: []c17Sub{{SQL: "PRAGMA user_version", RO: true}, {SQL: "PRAGMA user_version = 3", Ops: []c17Op{{K: 8000, V: 3}}}}}},
		{{Bad: true}, {Subs: []c17Sub{sel}}},
		{{}, {Subs: []c17Sub{sel}}},
	}
}

func TestVerif_C17(t *testing.T) {
	w := vOpen()
	defer w.Close()
	e := c17Open(t)
	defer e.Close()
	if raw := vReplayInput(); raw != nil {
		var in c17Input
		if err := json.Unmarshal(raw, &in); err != nil {
			t.Fatal(err)
		}
		c17Run(w, e, in)
		return
	}
	init := []c17Row{{1, 101}, {2, 102}, {3, 103}}
	for _, texts := range c17Corpus() {
		for _, ep := range c17Endpoints {
			c17Run(w, e, c17Input{Endpoint: ep.ep, Level: ep.lv, Init: init, Texts: texts})
		}
	}
	rng := vRand()
	n := vN(70, 1000)
	for i := 0; i < n; i++ {
		var texts []c17Text
		for j, m := 0, 1+rng.Intn(3); j < m; j++ {
			texts = append(texts, c17GenText(rng))
		}
		// ATTACH changes connection-local state: at most one per request (a second one fails on the same connection)
		seenAttach := false
		for ti := range texts {
			for si := range texts[ti].Subs {
				if strings.HasPrefix(texts[ti].Subs[si].SQL, "ATTACH") {
					if seenAttach {
						texts[ti].Subs[si] = c17Sub{SQL: "SELECT 3", RO: true}
					}
					seenAttach = true
				}
			}
		}
		init := c17GenInit(rng)
		for _, ep := range c17Endpoints {
			c17Run(w, e, c17Input{Endpoint: ep.ep, Level: ep.lv, Fresh: ep.lv == "linearizable" && rng.Intn(2) == 0, Init: init, Texts: texts})
		}
	}
}
