package http

// C18 driver: wire-level exchanges against a real http.Service and a real cluster.Service
// (behind a real tcp.Mux), both over mock stores that record every call.  Every route of the
// ServeHTTP switch (read from service.go with go/parser) and every Command_Type of the proto
// enum x credential stores (real auth.CredentialsStore loaded from JSON) x credential
// presentations.  Observed: every byte returned until the server closes, every mock call.
// Compared with (a) Model.C18 through the emitted Gallina cases and (b) the property written
// independently below (c18Oracle).

import (
	"bufio"
	"bytes"
	"compress/gzip"
	"context"
	"encoding/base64"
	"encoding/binary"
	"encoding/json"
	"fmt"
	"go/ast"
	"go/parser"
	"go/token"
	"io"
	"math/rand"
	"net"
	nethttp "net/http"
	"sort"
	"strconv"
	"strings"
	"sync"
	"testing"
	"time"

	"github.com/rqlite/rqlite/v10/auth"
	"github.com/rqlite/rqlite/v10/cluster"
	clstrPB "github.com/rqlite/rqlite/v10/cluster/proto"
	"github.com/rqlite/rqlite/v10/command/proto"
	"github.com/rqlite/rqlite/v10/proxy"
	"github.com/rqlite/rqlite/v10/store"
	"github.com/rqlite/rqlite/v10/tcp"
	pb "google.golang.org/protobuf/proto"
)

const c18Secret = "SECRET"

var c18StreamMark = append(bytes.Repeat([]byte{0xff}, 8), []byte("SECRET-BACKUP")...)

// ---------------------------------------------------------------- recording mocks

type c18Rec struct {
	mu    sync.Mutex
	calls []string
}

func (r *c18Rec) add(c string) {
	r.mu.Lock()
	r.calls = append(r.calls, c)
	r.mu.Unlock()
}
func (r *c18Rec) take() []string {
	r.mu.Lock()
	defer r.mu.Unlock()
	c := r.calls
	r.calls = nil
	return c
}

// c18Node implements http.Store, proxy.Store, cluster.Database and cluster.Manager.
type c18Node struct{ rec *c18Rec }

func c18Rows() []*proto.QueryRows {
	return []*proto.QueryRows{{Columns: []string{"c"}, Types: []string{"text"},
		Values: []*proto.Values{{Parameters: []*proto.Parameter{{Value: &proto.Parameter_S{S: c18Secret + "-ROW"}}}}}}}
}
func c18Srv() *store.Server {
	return &store.Server{ID: c18Secret + "-id", Addr: "127.0.0.1:1", Suffrage: proto.Suffrage_VOTER}
}

func (m *c18Node) Leader() (*store.Server, error)  { m.rec.add("Leader"); return c18Srv(), nil }
func (m *c18Node) Nodes() ([]*store.Server, error) { m.rec.add("Nodes"); return []*store.Server{c18Srv()}, nil }
func (m *c18Node) Ready() bool                     { m.rec.add("Ready"); return true }
func (m *c18Node) Committed(time.Duration) (uint64, error) {
	m.rec.add("Committed")
	return 7, nil
}
func (m *c18Node) Stats() (map[string]any, error) {
	m.rec.add("Stats")
	return map[string]any{"db": c18Secret + "-STATS"}, nil
}
func (m *c18Node) Snapshot(uint64) error        { m.rec.add("Snapshot"); return nil }
func (m *c18Node) Reap() (int, int, error)      { m.rec.add("Reap"); return 1, 1, nil }
func (m *c18Node) ReadFrom(r io.Reader) (int64, error) {
	m.rec.add("ReadFrom")
	return io.Copy(io.Discard, r)
}
func (m *c18Node) Execute(context.Context, *proto.ExecuteRequest) ([]*proto.ExecuteQueryResponse, uint64, error) {
	m.rec.add("Execute")
	return []*proto.ExecuteQueryResponse{}, 3, nil
}
func (m *c18Node) Query(context.Context, *proto.QueryRequest) ([]*proto.QueryRows, proto.ConsistencyLevel, uint64, error) {
	m.rec.add("Query")
	return c18Rows(), proto.ConsistencyLevel_NONE, 3, nil
}
func (m *c18Node) Request(context.Context, *proto.ExecuteQueryRequest) ([]*proto.ExecuteQueryResponse, uint64, uint64, error) {
	m.rec.add("Request")
	return []*proto.ExecuteQueryResponse{{Result: &proto.ExecuteQueryResponse_Q{Q: c18Rows()[0]}}}, 0, 3, nil
}
func (m *c18Node) Load(context.Context, *proto.LoadRequest) error { m.rec.add("Load"); return nil }
func (m *c18Node) Backup(_ context.Context, _ *proto.BackupRequest, dst io.Writer) error {
	m.rec.add("Backup")
	_, err := dst.Write(c18StreamMark)
	return err
}
func (m *c18Node) Remove(context.Context, *proto.RemoveNodeRequest) error { m.rec.add("Remove"); return nil }
func (m *c18Node) Stepdown(bool, string) error                            { m.rec.add("Stepdown"); return nil }
func (m *c18Node) LeaderAddr() (string, error)                            { m.rec.add("LeaderAddr"); return "127.0.0.1:1", nil }
func (m *c18Node) CommitIndex() (uint64, error)                           { m.rec.add("CommitIndex"); return 7, nil }
func (m *c18Node) Notify(*proto.NotifyRequest) error                      { m.rec.add("Notify"); return nil }
func (m *c18Node) Join(*proto.JoinRequest) error                          { m.rec.add("Join"); return nil }

// c18Clstr implements http.Cluster and proxy.Cluster (the latter is never reached: the mock node is the leader).
type c18Clstr struct{ rec *c18Rec }

func (m *c18Clstr) GetNodeMeta(context.Context, string, int, time.Duration) (*clstrPB.NodeMeta, error) {
	m.rec.add("GetNodeMeta")
	return &clstrPB.NodeMeta{Url: "http://" + c18Secret + "-meta", Version: "v"}, nil
}
func (m *c18Clstr) Stats() (map[string]any, error) {
	m.rec.add("ClusterStats")
	return map[string]any{"c": c18Secret + "-CSTATS"}, nil
}
func (m *c18Clstr) Execute(context.Context, *proto.ExecuteRequest, string, *clstrPB.Credentials, time.Duration, int) ([]*proto.ExecuteQueryResponse, uint64, error) {
	m.rec.add("RemoteExecute")
	return nil, 0, nil
}
func (m *c18Clstr) Query(context.Context, *proto.QueryRequest, string, *clstrPB.Credentials, time.Duration, int) ([]*proto.QueryRows, uint64, error) {
	m.rec.add("RemoteQuery")
	return nil, 0, nil
}
func (m *c18Clstr) Request(context.Context, *proto.ExecuteQueryRequest, string, *clstrPB.Credentials, time.Duration, int) ([]*proto.ExecuteQueryResponse, uint64, uint64, error) {
	m.rec.add("RemoteRequest")
	return nil, 0, 0, nil
}
func (m *c18Clstr) Backup(context.Context, *proto.BackupRequest, string, *clstrPB.Credentials, time.Duration, io.Writer) error {
	m.rec.add("RemoteBackup")
	return nil
}
func (m *c18Clstr) Load(context.Context, *proto.LoadRequest, string, *clstrPB.Credentials, time.Duration, int) error {
	m.rec.add("RemoteLoad")
	return nil
}
func (m *c18Clstr) RemoveNode(context.Context, *proto.RemoveNodeRequest, string, *clstrPB.Credentials, time.Duration) error {
	m.rec.add("RemoteRemove")
	return nil
}
func (m *c18Clstr) Stepdown(context.Context, *proto.StepdownRequest, string, *clstrPB.Credentials, time.Duration) error {
	m.rec.add("RemoteStepdown")
	return nil
}

// c18Creds lets one running service be used with many credential files.
type c18Creds struct {
	mu  sync.RWMutex
	cur *auth.CredentialsStore
}

func (c *c18Creds) AA(u, p, perm string) bool {
	c.mu.RLock()
	defer c.mu.RUnlock()
	return c.cur.AA(u, p, perm)
}
func (c *c18Creds) set(s *auth.CredentialsStore) {
	c.mu.Lock()
	c.cur = s
	c.mu.Unlock()
}

// ---------------------------------------------------------------- the rig

type c18Rig struct {
	// The services under test are given a REAL *auth.CredentialsStore, loaded from the case's
	// credentials file through Load as in production (so every optional interface the real store
	// offers is in play); they are rebuilt whenever the file changes.  A second, persistent pair of
	// services is given a wrapper that offers nothing but AA (what the repository's own mocks offer).
	realKey                      string
	realClose                    []func()
	mkHTTP                       func(cs CredentialStore) (*Service, func())
	mkNode                       func(cs cluster.CredentialStore) (string, chan uint64, func())
	httpReal                     *Service
	muxReal                      string
	hwmReal                      chan uint64
	httpWrap                     *Service
	muxWrap                      string
	hwmWrap                      chan uint64
	rec      *c18Rec
	creds    *c18Creds
	httpAuth *Service // credential store configured
	httpOpen *Service // no credential store
	muxAuth  string   // inter-node address (mux), credential store configured
	muxOpen  string
	hwmAuth  chan uint64
	hwmOpen  chan uint64
	closers  []func()
}

func c18NewRig(t *testing.T) *c18Rig {
	r := &c18Rig{rec: &c18Rec{}, creds: &c18Creds{cur: auth.NewCredentialsStore()}}
	node := &c18Node{rec: r.rec}
	cl := &c18Clstr{rec: r.rec}
	r.mkHTTP = func(cs CredentialStore) (*Service, func()) {
		s := New("127.0.0.1:0", node, cl, proxy.New(node, cl), cs)
		s.logger.SetOutput(io.Discard)
		if err := s.Start(); err != nil {
			t.Fatalf("http start: %v", err)
		}
		return s, s.Close
	}
	r.mkNode = func(cs cluster.CredentialStore) (string, chan uint64, func()) {
		ln, err := net.Listen("tcp", "127.0.0.1:0")
		if err != nil {
			t.Fatal(err)
		}
		mux, err := tcp.NewMux(ln, nil)
		if err != nil {
			t.Fatal(err)
		}
		mux.Logger.SetOutput(io.Discard)
		cln := mux.Listen(cluster.MuxClusterHeader)
		go mux.Serve()
		svc := cluster.New(cln, node, node, cs)
		ch := make(chan uint64, 16)
		svc.RegisterHWMUpdate(ch)
		if err := svc.Open(); err != nil {
			t.Fatal(err)
		}
		return ln.Addr().String(), ch, func() { ln.Close() }
	}
	var c1, c2, c3, c4 func()
	r.httpWrap, c1 = r.mkHTTP(r.creds)
	r.httpOpen, c2 = r.mkHTTP(nil)
	r.muxWrap, r.hwmWrap, c3 = r.mkNode(r.creds)
	r.muxOpen, r.hwmOpen, c4 = r.mkNode(nil)
	r.closers = append(r.closers, c1, c2, c3, c4)
	return r
}

// useStore points httpAuth / muxAuth at services holding the credentials of [file]: the real store
// itself, or (aaOnly) the AA-only wrapper around it.
func (r *c18Rig) useStore(file []c18Entry, aaOnly bool) error {
	js, _ := json.Marshal(c18FileJSON(file))
	cs := auth.NewCredentialsStore()
	if err := cs.Load(bytes.NewReader(js)); err != nil {
		return err
	}
	if aaOnly {
		r.creds.set(cs)
		r.httpAuth, r.muxAuth, r.hwmAuth = r.httpWrap, r.muxWrap, r.hwmWrap
		return nil
	}
	if key := string(js); key != r.realKey || r.realClose == nil {
		for _, f := range r.realClose {
			f()
		}
		var c1, c2 func()
		r.httpAuth, c1 = r.mkHTTP(cs)
		r.muxAuth, r.hwmAuth, c2 = r.mkNode(cs)
		r.realClose, r.realKey = []func(){c1, c2}, key
		r.httpReal, r.muxReal, r.hwmReal = r.httpAuth, r.muxAuth, r.hwmAuth
	}
	r.httpAuth, r.muxAuth, r.hwmAuth = r.httpReal, r.muxReal, r.hwmReal
	return nil
}

func (r *c18Rig) close() {
	for _, f := range append(r.closers, r.realClose...) {
		f()
	}
}

// ---------------------------------------------------------------- inputs

type c18Entry struct {
	User  string   `json:"u"`
	Pass  string   `json:"p"`
	Perms []string `json:"perms"`
}

type c18Input struct {
	Kind     string     `json:"kind"`     // "http" | "node"
	Endpoint string     `json:"endpoint"` // model name of the term
	Variant  string     `json:"variant"`  // "", "wrong-method", "nil-payload", "other-payload", "non-voter"
	NoStore  bool       `json:"no_store"` // service without credential store
	File     []c18Entry `json:"file"`
	Present  bool       `json:"present"` // credentials sent at all
	User     string     `json:"user"`
	Pass     string     `json:"pass"`
}

// one request of a connection
type c18StepIn struct {
	Endpoint string `json:"endpoint"`
	Variant  string `json:"variant"`
	Present  bool   `json:"present"`
	User     string `json:"user"`
	Pass     string `json:"pass"`
}

// c18Conn is one case: a connection to one of the two services, the credentials file of the
// store, and the requests sent over it in order (one request = the old single exchange).
type c18Conn struct {
	Kind    string      `json:"kind"`
	NoStore bool        `json:"no_store"`
	AAOnly  bool        `json:"aa_only_store,omitempty"` // the store is offered to the service through a wrapper that has AA and nothing else
	File    []c18Entry  `json:"file"`
	Steps   []c18StepIn `json:"steps"`
}

func (c c18Conn) step(i int) c18Input {
	st := c.Steps[i]
	return c18Input{Kind: c.Kind, Endpoint: st.Endpoint, Variant: st.Variant, NoStore: c.NoStore, File: c.File,
		Present: st.Present, User: st.User, Pass: st.Pass}
}

var c18Perms = []string{"all", "join", "join-read-only", "join-read-replica", "remove", "execute", "query",
	"status", "ready", "backup", "load", "snapshot", "leader-ops", "ui"}

// The permission each endpoint requires, from the rqlite security documentation / the comments
// on the Perm constants in auth/credential_store.go ("PermExecute means user can access execute
// endpoint", ...).  Alternatives (any of) of conjunctions (all of); nil = the endpoint has no
// permission requirement.  Written independently of Model.C18.
func c18Required(endpoint string, voter bool) [][]string {
	switch endpoint {
	case "http:/console":
		return [][]string{{"ui"}}
	case "http:/db/execute", "COMMAND_TYPE_EXECUTE":
		return [][]string{{"execute"}}
	case "http:/db/query", "http:/db/sql", "COMMAND_TYPE_QUERY":
		return [][]string{{"query"}}
	case "http:/db/request", "COMMAND_TYPE_REQUEST":
		return [][]string{{"query", "execute"}}
	case "http:/db/backup", "COMMAND_TYPE_BACKUP", "COMMAND_TYPE_BACKUP_STREAM":
		return [][]string{{"backup"}}
	case "http:/db/load", "http:/db/load#sql", "http:/boot", "COMMAND_TYPE_LOAD":
		return [][]string{{"load"}}
	case "http:/snapshot", "http:/reap":
		return [][]string{{"snapshot"}}
	case "http:/remove", "COMMAND_TYPE_REMOVE_NODE":
		return [][]string{{"remove"}}
	case "http:/status", "http:/nodes", "http:/licenses", "http:/debug/vars", "http:/debug/pprof":
		return [][]string{{"status"}}
	case "http:/leader", "http:/leader#POST", "COMMAND_TYPE_STEPDOWN":
		return [][]string{{"leader-ops"}}
	case "http:/readyz":
		return [][]string{{"ready"}}
	case "COMMAND_TYPE_NOTIFY":
		return [][]string{{"join"}}
	case "COMMAND_TYPE_JOIN":
		if voter {
			return [][]string{{"join"}}
		}
		return [][]string{{"join-read-only"}, {"join-read-replica"}}
	}
	return nil
}

// the documented credential rule (C19), on the file
func c18Authorized(file []c18Entry, present bool, u, p, perm string) bool {
	if !present {
		u, p = "", ""
	}
	last := func(name string) *c18Entry {
		var r *c18Entry
		for i := range file {
			if file[i].User == name {
				r = &file[i]
			}
		}
		return r
	}
	granted := func(name, pm string) bool {
		e := last(name)
		if e == nil {
			return false
		}
		for _, x := range e.Perms {
			if x == pm {
				return true
			}
		}
		return false
	}
	if granted("*", perm) || granted("*", "all") {
		return true
	}
	if u == "" {
		return false
	}
	e := last(u)
	if e == nil || e.Pass != p {
		return false
	}
	return granted(u, perm) || granted(u, "all")
}

func c18Satisfied(in c18Input, req [][]string) bool {
	for _, alt := range req {
		ok := true
		for _, pm := range alt {
			if !c18Authorized(in.File, in.Present, in.User, in.Pass, pm) {
				ok = false
			}
		}
		if ok {
			return true
		}
	}
	return false
}

// ---------------------------------------------------------------- HTTP exchanges

type c18HTTPReq struct {
	method, target, ctype string
	body                  []byte
}

func c18SQLiteBytes() []byte {
	b := make([]byte, 200)
	copy(b, "SQLite format 3\x00")
	return b
}

var c18HTTPReqs = map[string]c18HTTPReq{
	"http:OPTIONS":      {"OPTIONS", "/db/backup", "", nil},
	"http:/":            {"GET", "/", "", nil},
	"http:/console":     {"GET", "/console/", "", nil},
	"http:/db/execute":  {"POST", "/db/execute", "application/json", []byte(`["INSERT INTO t VALUES(1)"]`)},
	"http:/db/query":    {"GET", "/db/query?q=SELECT%201", "", nil},
	"http:/db/request":  {"POST", "/db/request", "application/json", []byte(`["SELECT 1"]`)},
	"http:/db/backup":   {"GET", "/db/backup", "", nil},
	"http:/db/load":     {"POST", "/db/load", "application/octet-stream", c18SQLiteBytes()},
	"http:/db/load#sql": {"POST", "/db/load", "text/plain", []byte("CREATE TABLE x(a)")},
	"http:/db/sql":      {"GET", "/db/sql?q=SELECT%201", "", nil},
	"http:/boot":        {"POST", "/boot", "application/octet-stream", c18SQLiteBytes()},
	"http:/snapshot":    {"POST", "/snapshot", "", nil},
	"http:/reap":        {"POST", "/reap", "", nil},
	"http:/remove":      {"DELETE", "/remove", "application/json", []byte(`{"id":"n2"}`)},
	"http:/status":      {"GET", "/status", "", nil},
	"http:/nodes":       {"GET", "/nodes", "", nil},
	"http:/leader":      {"GET", "/leader", "", nil},
	"http:/leader#POST": {"POST", "/leader", "", nil},
	"http:/readyz":      {"GET", "/readyz", "", nil},
	"http:/licenses":    {"GET", "/licenses", "", nil},
	"http:/debug/vars":  {"GET", "/debug/vars", "", nil},
	"http:/debug/pprof": {"GET", "/debug/pprof/", "", nil},
	"http:default":      {"GET", "/no-such-route", "", nil},
}

// extra request shapes for a route of the switch (same case clause, other branch)
var c18HTTPExtra = map[string][]string{
	"http:/db/load": {"http:/db/load#sql"},
	"http:/leader":  {"http:/leader#POST"},
}

// c18Routes reads the ServeHTTP switch of service.go: one key per case clause (its first string
// literal), "default" for the default clause, plus the OPTIONS short-cut before the switch.
func c18Routes() ([]string, error) {
	fset := token.NewFileSet()
	f, err := parser.ParseFile(fset, "service.go", nil, 0)
	if err != nil {
		return nil, err
	}
	var keys []string
	for _, d := range f.Decls {
		fd, ok := d.(*ast.FuncDecl)
		if !ok || fd.Name.Name != "ServeHTTP" || fd.Recv == nil {
			continue
		}
		ast.Inspect(fd.Body, func(n ast.Node) bool {
			sw, ok := n.(*ast.SwitchStmt)
			if !ok || sw.Tag != nil || len(keys) > 0 {
				return true
			}
			for _, st := range sw.Body.List {
				cc := st.(*ast.CaseClause)
				if cc.List == nil {
					keys = append(keys, "http:default")
					continue
				}
				lit := ""
				for _, e := range cc.List {
					ast.Inspect(e, func(m ast.Node) bool {
						if bl, ok := m.(*ast.BasicLit); ok && bl.Kind == token.STRING && lit == "" {
							lit, _ = strconv.Unquote(bl.Value)
						}
						return true
					})
				}
				keys = append(keys, "http:"+lit)
			}
			return false
		})
	}
	if len(keys) < 5 {
		return nil, fmt.Errorf("ServeHTTP switch not found (%d keys)", len(keys))
	}
	return append([]string{"http:OPTIONS"}, keys...), nil
}

type c18Obs struct {
	calls []string
	out   []string // "F:<text>" response frame / status class, "D:<call>" raw data
	raw   []byte   // every byte returned (gzip frames also expanded), for the secret search
}

func c18HTTPExchange(r *c18Rig, in c18Input) (c18Obs, error) {
	req, ok := c18HTTPReqs[in.Endpoint]
	if !ok {
		req = c18HTTPReq{"GET", strings.TrimPrefix(in.Endpoint, "http:"), "", nil}
	}
	method := req.method
	if in.Variant == "wrong-method" {
		method = "PUT"
	}
	svc := r.httpAuth
	if in.NoStore {
		svc = r.httpOpen
	}
	conn, err := net.DialTimeout("tcp", svc.Addr().String(), 5*time.Second)
	if err != nil {
		return c18Obs{}, err
	}
	defer conn.Close()
	conn.SetDeadline(time.Now().Add(20 * time.Second))
	var sb bytes.Buffer
	fmt.Fprintf(&sb, "%s %s HTTP/1.1\r\nHost: verif\r\nConnection: close\r\n", method, req.target)
	if in.Present {
		fmt.Fprintf(&sb, "Authorization: Basic %s\r\n", base64.StdEncoding.EncodeToString([]byte(in.User+":"+in.Pass)))
	}
	if req.ctype != "" {
		fmt.Fprintf(&sb, "Content-Type: %s\r\n", req.ctype)
	}
	fmt.Fprintf(&sb, "Content-Length: %d\r\n\r\n", len(req.body))
	sb.Write(req.body)
	r.rec.take()
	if _, err := conn.Write(sb.Bytes()); err != nil {
		return c18Obs{}, err
	}
	raw, _ := io.ReadAll(conn)
	o := c18Obs{calls: r.rec.take(), raw: raw}
	line := string(raw)
	if i := strings.Index(line, "\r\n"); i >= 0 {
		line = line[:i]
	}
	parts := strings.SplitN(line, " ", 3)
	if len(parts) < 2 || !strings.HasPrefix(parts[0], "HTTP/") {
		return o, fmt.Errorf("no status line in %q", line)
	}
	switch parts[1] {
	case "401":
		o.out = []string{"F:unauthorized"}
	case "405":
		o.out = []string{"F:method not allowed"}
	default:
		o.out = []string{"F:"}
	}
	if bytes.Contains(raw, []byte("SECRET-BACKUP")) {
		o.out = append(o.out, "D:Backup")
	}
	return o, nil
}

// ---------------------------------------------------------------- inter-node exchanges

func c18Command(typ clstrPB.Command_Type, variant string, in c18Input) *clstrPB.Command {
	c := &clstrPB.Command{Type: typ}
	if in.Present {
		c.Credentials = &clstrPB.Credentials{Username: in.User, Password: in.Pass}
	}
	stmts := &proto.Request{Statements: []*proto.Statement{{Sql: "SELECT 1"}}}
	set := func(t clstrPB.Command_Type) {
		switch t {
		case clstrPB.Command_COMMAND_TYPE_EXECUTE:
			c.Request = &clstrPB.Command_ExecuteRequest{ExecuteRequest: &proto.ExecuteRequest{Request: stmts}}
		case clstrPB.Command_COMMAND_TYPE_QUERY:
			c.Request = &clstrPB.Command_QueryRequest{QueryRequest: &proto.QueryRequest{Request: stmts}}
		case clstrPB.Command_COMMAND_TYPE_REQUEST:
			c.Request = &clstrPB.Command_ExecuteQueryRequest{ExecuteQueryRequest: &proto.ExecuteQueryRequest{Request: stmts}}
		case clstrPB.Command_COMMAND_TYPE_BACKUP, clstrPB.Command_COMMAND_TYPE_BACKUP_STREAM:
			c.Request = &clstrPB.Command_BackupRequest{BackupRequest: &proto.BackupRequest{Format: proto.BackupRequest_BACKUP_REQUEST_FORMAT_BINARY}}
		case clstrPB.Command_COMMAND_TYPE_LOAD:
			c.Request = &clstrPB.Command_LoadRequest{LoadRequest: &proto.LoadRequest{Data: []byte("x")}}
		case clstrPB.Command_COMMAND_TYPE_LOAD_CHUNK:
			c.Request = &clstrPB.Command_LoadChunkRequest{LoadChunkRequest: &proto.LoadChunkRequest{StreamId: "s"}}
		case clstrPB.Command_COMMAND_TYPE_REMOVE_NODE:
			c.Request = &clstrPB.Command_RemoveNodeRequest{RemoveNodeRequest: &proto.RemoveNodeRequest{Id: "n2"}}
		case clstrPB.Command_COMMAND_TYPE_NOTIFY:
			c.Request = &clstrPB.Command_NotifyRequest{NotifyRequest: &proto.NotifyRequest{Id: "n2", Address: "a"}}
		case clstrPB.Command_COMMAND_TYPE_JOIN:
			c.Request = &clstrPB.Command_JoinRequest{JoinRequest: &proto.JoinRequest{Id: "n2", Address: "a", Voter: variant != "non-voter"}}
		case clstrPB.Command_COMMAND_TYPE_STEPDOWN:
			c.Request = &clstrPB.Command_StepdownRequest{StepdownRequest: &proto.StepdownRequest{Id: "n2"}}
		case clstrPB.Command_COMMAND_TYPE_HIGHWATER_MARK_UPDATE:
			c.Request = &clstrPB.Command_HighwaterMarkUpdateRequest{HighwaterMarkUpdateRequest: &clstrPB.HighwaterMarkUpdateRequest{NodeId: "n2", HighwaterMark: 1 << 40}}
		}
	}
	switch variant {
	case "nil-payload":
	case "other-payload":
		// a payload of a kind this command type does not read
		if typ == clstrPB.Command_COMMAND_TYPE_REMOVE_NODE {
			set(clstrPB.Command_COMMAND_TYPE_NOTIFY)
		} else {
			set(clstrPB.Command_COMMAND_TYPE_REMOVE_NODE)
		}
	default:
		set(typ)
	}
	return c
}

// c18Field1 returns the string in field 1 of a protobuf message ("" if absent or not a string).
func c18Field1(b []byte) string {
	for len(b) > 0 {
		key, n := binary.Uvarint(b)
		if n <= 0 {
			return ""
		}
		b = b[n:]
		switch key & 7 {
		case 0:
			_, n := binary.Uvarint(b)
			if n <= 0 {
				return ""
			}
			b = b[n:]
		case 1:
			if len(b) < 8 {
				return ""
			}
			b = b[8:]
		case 5:
			if len(b) < 4 {
				return ""
			}
			b = b[4:]
		case 2:
			l, n := binary.Uvarint(b)
			if n <= 0 || uint64(len(b)-n) < l {
				return ""
			}
			if key>>3 == 1 {
				return string(b[n : n+int(l)])
			}
			b = b[n+int(l):]
		default:
			return ""
		}
	}
	return ""
}

// c18ParseNodeOut splits the bytes a cluster.Service wrote into response frames and raw stream data.
func c18ParseNodeOut(raw []byte) (items []string, expanded []byte) {
	expanded = append(expanded, raw...)
	for len(raw) > 0 {
		if bytes.HasPrefix(raw, c18StreamMark) {
			items = append(items, "D:Backup")
			raw = raw[len(c18StreamMark):]
			continue
		}
		if len(raw) < 8 {
			items = append(items, "X:short-header")
			return
		}
		sz := binary.LittleEndian.Uint64(raw)
		if sz > uint64(len(raw)-8) {
			items = append(items, "X:short-frame")
			return
		}
		p := raw[8 : 8+sz]
		raw = raw[8+sz:]
		if len(p) > 2 && p[0] == 0x1f && p[1] == 0x8b {
			if zr, err := gzip.NewReader(bytes.NewReader(p)); err == nil {
				if q, err := io.ReadAll(zr); err == nil {
					p = q
					expanded = append(expanded, q...)
				}
			}
		}
		items = append(items, "F:"+c18Field1(p))
	}
	return
}

func c18NodeExchange(r *c18Rig, in c18Input, typ clstrPB.Command_Type) (c18Obs, error) {
	addr, hwm := r.muxAuth, r.hwmAuth
	if in.NoStore {
		addr, hwm = r.muxOpen, r.hwmOpen
	}
	p, err := pb.Marshal(c18Command(typ, in.Variant, in))
	if err != nil {
		return c18Obs{}, err
	}
	conn, err := net.DialTimeout("tcp", addr, 5*time.Second)
	if err != nil {
		return c18Obs{}, err
	}
	defer conn.Close()
	conn.SetDeadline(time.Now().Add(20 * time.Second))
	msg := []byte{cluster.MuxClusterHeader}
	msg = binary.LittleEndian.AppendUint64(msg, uint64(len(p)))
	msg = append(msg, p...)
	r.rec.take()
	for len(hwm) > 0 {
		<-hwm
	}
	if _, err := conn.Write(msg); err != nil {
		return c18Obs{}, err
	}
	conn.(*net.TCPConn).CloseWrite()
	raw, _ := io.ReadAll(conn) // until the service closes the connection
	o := c18Obs{calls: r.rec.take()}
	for len(hwm) > 0 {
		<-hwm
		o.calls = append(o.calls, "HWM")
	}
	o.out, o.raw = c18ParseNodeOut(raw)
	return o, nil
}

// ---------------------------------------------------------------- several requests on ONE connection

// c18HTTPSeq sends the requests over one keep-alive HTTP connection, reading each response completely
// (net/http's response reader on the raw socket) before the next request is written.
func c18HTTPSeq(r *c18Rig, c c18Conn) ([]c18Obs, error) {
	svc := r.httpAuth
	if c.NoStore {
		svc = r.httpOpen
	}
	conn, err := net.DialTimeout("tcp", svc.Addr().String(), 5*time.Second)
	if err != nil {
		return nil, err
	}
	defer conn.Close()
	conn.SetDeadline(time.Now().Add(60 * time.Second))
	br := bufio.NewReader(conn)
	var obs []c18Obs
	r.rec.take()
	for i := range c.Steps {
		in := c.step(i)
		req, ok := c18HTTPReqs[in.Endpoint]
		if !ok {
			req = c18HTTPReq{"GET", strings.TrimPrefix(in.Endpoint, "http:"), "", nil}
		}
		method := req.method
		if in.Variant == "wrong-method" {
			method = "PUT"
		}
		var sb bytes.Buffer
		fmt.Fprintf(&sb, "%s %s HTTP/1.1\r\nHost: verif\r\n", method, req.target)
		if in.Present {
			fmt.Fprintf(&sb, "Authorization: Basic %s\r\n", base64.StdEncoding.EncodeToString([]byte(in.User+":"+in.Pass)))
		}
		if req.ctype != "" {
			fmt.Fprintf(&sb, "Content-Type: %s\r\n", req.ctype)
		}
		fmt.Fprintf(&sb, "Content-Length: %d\r\n\r\n", len(req.body))
		sb.Write(req.body)
		if _, err := conn.Write(sb.Bytes()); err != nil {
			return obs, fmt.Errorf("request %d: %v", i, err)
		}
		resp, err := nethttp.ReadResponse(br, &nethttp.Request{Method: method})
		if err != nil {
			return obs, fmt.Errorf("response %d: %v", i, err)
		}
		body, _ := io.ReadAll(resp.Body)
		resp.Body.Close()
		var hd bytes.Buffer
		resp.Header.Write(&hd)
		o := c18Obs{calls: r.rec.take(), raw: append(hd.Bytes(), body...)}
		switch resp.StatusCode {
		case 401:
			o.out = []string{"F:unauthorized"}
		case 405:
			o.out = []string{"F:method not allowed"}
		default:
			o.out = []string{"F:"}
		}
		if bytes.Contains(body, []byte("SECRET-BACKUP")) {
			o.out = append(o.out, "D:Backup")
		}
		obs = append(obs, o)
	}
	return obs, nil
}

// c18ReadItem reads one wire item written by a cluster.Service: a response frame or the raw backup marker.
func c18ReadItem(br *bufio.Reader) (item string, raw []byte, err error) {
	hdr := make([]byte, 8)
	if _, err = io.ReadFull(br, hdr); err != nil {
		return "", nil, err
	}
	if bytes.Equal(hdr, c18StreamMark[:8]) {
		rest := make([]byte, len(c18StreamMark)-8)
		if _, err = io.ReadFull(br, rest); err != nil {
			return "", hdr, err
		}
		return "D:Backup", append(hdr, rest...), nil
	}
	sz := binary.LittleEndian.Uint64(hdr)
	if sz > 64<<20 {
		return "", hdr, fmt.Errorf("implausible frame length %d", sz)
	}
	p := make([]byte, sz)
	if _, err = io.ReadFull(br, p); err != nil {
		return "", hdr, err
	}
	raw = append(hdr, p...)
	if len(p) > 2 && p[0] == 0x1f && p[1] == 0x8b {
		if zr, e := gzip.NewReader(bytes.NewReader(p)); e == nil {
			if q, e := io.ReadAll(zr); e == nil {
				p = q
				raw = append(raw, q...)
			}
		}
	}
	return "F:" + c18Field1(p), raw, nil
}

// c18NodeSeq sends the commands over one inter-node connection.  After each command a
// GET_NODE_META carrying the same credentials is sent as a fence: the service handles a connection
// sequentially, so once the fence is answered everything the command caused (calls, response,
// streamed bytes) has happened and is attributed to that command.
func c18NodeSeq(r *c18Rig, c c18Conn) ([]c18Obs, error) {
	addr, hwm := r.muxAuth, r.hwmAuth
	if c.NoStore {
		addr, hwm = r.muxOpen, r.hwmOpen
	}
	conn, err := net.DialTimeout("tcp", addr, 5*time.Second)
	if err != nil {
		return nil, err
	}
	defer conn.Close()
	conn.SetDeadline(time.Now().Add(60 * time.Second))
	br := bufio.NewReader(conn)
	if _, err := conn.Write([]byte{cluster.MuxClusterHeader}); err != nil {
		return nil, err
	}
	frame := func(cmd *clstrPB.Command) []byte {
		p, _ := pb.Marshal(cmd)
		return append(binary.LittleEndian.AppendUint64(nil, uint64(len(p))), p...)
	}
	var obs []c18Obs
	r.rec.take()
	for len(hwm) > 0 {
		<-hwm
	}
	for i := range c.Steps {
		in := c.step(i)
		fence := &clstrPB.Command{Type: clstrPB.Command_COMMAND_TYPE_GET_NODE_META}
		if in.Present {
			fence.Credentials = &clstrPB.Credentials{Username: in.User, Password: in.Pass}
		}
		msg := append(frame(c18Command(c18TypeByName[in.Endpoint], in.Variant, in)), frame(fence)...)
		if _, err := conn.Write(msg); err != nil {
			return obs, fmt.Errorf("command %d: %v", i, err)
		}
		var o c18Obs
		frames := 0
		for frames < 2 {
			item, raw, err := c18ReadItem(br)
			if err != nil {
				o.calls = r.rec.take()
				obs = append(obs, o)
				return obs, fmt.Errorf("command %d: reading the service's answer: %v", i, err)
			}
			if strings.HasPrefix(item, "F:") {
				frames++
				if frames == 2 {
					if item != "F:http://" {
						o.out = append(o.out, "X:fence-answer:"+item)
					}
					break
				}
			}
			o.out = append(o.out, item)
			o.raw = append(o.raw, raw...)
		}
		o.calls = r.rec.take()
		// the fence's own commit-index read is the last call
		if n := len(o.calls); n > 0 && o.calls[n-1] == "CommitIndex" {
			o.calls = o.calls[:n-1]
		} else {
			o.calls = append(o.calls, "X:fence-without-CommitIndex")
		}
		for len(hwm) > 0 {
			<-hwm
			o.calls = append(o.calls, "HWM")
		}
		obs = append(obs, o)
	}
	// nothing may follow the last fence
	conn.(*net.TCPConn).CloseWrite()
	if rest, _ := io.ReadAll(br); len(rest) > 0 && len(obs) > 0 {
		extra, expanded := c18ParseNodeOut(rest)
		obs[len(obs)-1].out = append(obs[len(obs)-1].out, extra...)
		obs[len(obs)-1].raw = append(obs[len(obs)-1].raw, expanded...)
	}
	return obs, nil
}

// ---------------------------------------------------------------- one case

func c18CoqFile(in c18Input) string {
	if in.NoStore {
		return "None"
	}
	ents := make([]string, len(in.File))
	for i, e := range in.File {
		ents[i] = fmt.Sprintf("{| username := %s; password := %s; perms := %s |}", coqStr(e.User), coqStr(e.Pass), coqStrList(e.Perms))
	}
	return "(Some " + coqList(ents) + ")"
}

func c18Ascii(s string) string {
	var sb strings.Builder
	for _, c := range []byte(s) {
		if c < 32 || c > 126 {
			sb.WriteByte('?')
		} else {
			sb.WriteByte(c)
		}
	}
	return sb.String()
}

func c18CoqOut(items []string) string {
	it := make([]string, len(items))
	for i, s := range items {
		switch {
		case strings.HasPrefix(s, "F:"):
			it[i] = "OFrame " + coqStr(c18Ascii(s[2:]))
		case strings.HasPrefix(s, "D:"):
			it[i] = "OData " + coqStr(s[2:])
		default:
			it[i] = "OData " + coqStr("unparsable:"+c18Ascii(s))
		}
	}
	return coqList(it)
}

var c18TypeByName = func() map[string]clstrPB.Command_Type {
	m := map[string]clstrPB.Command_Type{"unknown-type": 99}
	for n, name := range clstrPB.Command_Type_name {
		m[name] = clstrPB.Command_Type(n)
	}
	return m
}()

func c18Run(w *vWriter, r *c18Rig, in c18Input) {
	c18RunConn(w, r, c18Conn{Kind: in.Kind, NoStore: in.NoStore, File: in.File,
		Steps: []c18StepIn{{in.Endpoint, in.Variant, in.Present, in.User, in.Pass}}})
}

func c18RunConn(w *vWriter, r *c18Rig, cn c18Conn) {
	if cn.NoStore {
		cn.File = nil
	} else {
		if err := r.useStore(cn.File, cn.AAOnly); err != nil {
			w.Emit(VCase{Input: cn, Key: vJSON(cn), Inconcl: "credentials file did not load: " + err.Error()})
			return
		}
	}
	var obs []c18Obs
	var err error
	switch {
	case len(cn.Steps) == 1 && cn.Kind == "http":
		var o c18Obs
		o, err = c18HTTPExchange(r, cn.step(0))
		obs = []c18Obs{o}
	case len(cn.Steps) == 1:
		var o c18Obs
		o, err = c18NodeExchange(r, cn.step(0), c18TypeByName[cn.Steps[0].Endpoint])
		obs = []c18Obs{o}
	case cn.Kind == "http":
		obs, err = c18HTTPSeq(r, cn)
	default:
		obs, err = c18NodeSeq(r, cn)
	}
	for len(obs) < len(cn.Steps) {
		obs = append(obs, c18Obs{}) // requests the connection did not live to see answered
	}
	c := VCase{Input: cn, Key: vJSON(cn), Tags: []string{cn.Kind, fmt.Sprintf("requests-on-connection=%d", len(cn.Steps)),
		map[bool]string{true: "store=aa-only-wrapper", false: "store=real-CredentialsStore"}[cn.AAOnly]}}
	var steps []string
	for i := range cn.Steps {
		in, o := cn.step(i), obs[i]
		user, pass := in.User, in.Pass
		if !in.Present {
			user, pass = "", ""
		}
		voter := in.Variant != "non-voter"
		pnil := in.Variant == "nil-payload" || in.Variant == "other-payload"
		steps = append(steps, fmt.Sprintf("{| p_req := {| q_user := %s; q_pass := %s; q_endpoint := %s; q_nil := %s; q_voter := %s; q_method_ok := %s |}; p_calls := %s; p_out := %s |}",
			coqStr(c18Ascii(user)), coqStr(c18Ascii(pass)), coqStr(in.Endpoint), coqBool(pnil), coqBool(voter),
			coqBool(in.Variant != "wrong-method"), coqStrList(o.calls), c18CoqOut(o.out)))
		c.Tags = append(c.Tags, "variant="+in.Variant)
		c18Oracle(&c, in, o, voter, i)
	}
	c.Coq = fmt.Sprintf("{| c_file := %s; c_steps := %s |}", c18CoqFile(cn.step(0)), coqList(steps))
	if err != nil && c.OracleFail == "" {
		c.OracleFail = fmt.Sprintf("%s connection with %d request(s), store %s: exchange failed: %v", cn.Kind, len(cn.Steps), vJSON(cn.File), err)
		c.Sig = "C18:exchange-failed:" + cn.Steps[0].Endpoint
	}
	w.Emit(c)
}

// c18Oracle is the property, stated on the observation alone.
func c18Oracle(c *VCase, in c18Input, o c18Obs, voter bool, stepIdx int) {
	if in.NoStore {
		c.Tags = append(c.Tags, "no-store")
		return // the property speaks about configured credential stores
	}
	req := c18Required(in.Endpoint, voter)
	secret := bytes.Contains(o.raw, []byte(c18Secret))
	fail := func(kind, msg string) {
		if c.OracleFail == "" {
			c.OracleFail = fmt.Sprintf("%s %s (variant %q) with store %s, credentials present=%v %q/%q: %s; calls=%v wire=%q",
				in.Kind, in.Endpoint, in.Variant, vJSON(in.File), in.Present, in.User, in.Pass, msg, o.calls, o.out)
			c.Sig = "C18:" + kind + ":" + in.Endpoint
			if stepIdx > 0 && req != nil {
				c.OracleFail = fmt.Sprintf("request #%d of its connection: ", stepIdx+1) + c.OracleFail
				c.Sig += ":after-other-requests-on-the-connection"
			}
		}
	}
	if req == nil {
		// An endpoint without a permission requirement must be harmless for a caller who holds no
		// permission whatsoever: nothing but node metadata may be touched.
		anyPerm := false
		for _, pm := range c18Perms {
			if c18Authorized(in.File, in.Present, in.User, in.Pass, pm) {
				anyPerm = true
			}
		}
		if anyPerm {
			c.Tags = append(c.Tags, "unguarded-endpoint")
			return
		}
		c.Tags = append(c.Tags, "unguarded-endpoint:no-permission")
		c.Nontrivial = true
		for _, call := range o.calls {
			if call != "CommitIndex" {
				fail("effect-without-authorization", "call "+call+" made for a caller without any permission")
			}
		}
		if secret {
			fail("data-without-authorization", "database content returned to a caller without any permission")
		}
		return
	}
	if c18Satisfied(in, req) {
		c.Tags = append(c.Tags, "authorized")
		return
	}
	c.Tags = append(c.Tags, "not-authorized")
	c.Nontrivial = true
	if len(o.calls) > 0 {
		fail("effect-without-authorization", "calls made although the credentials are not authorized")
	}
	if secret {
		fail("data-without-authorization", "content returned although the credentials are not authorized")
	}
	if len(o.out) == 0 || !strings.HasPrefix(o.out[0], "F:") || o.out[0] == "F:" {
		fail("not-rejected", "no error response")
	} else if len(o.out) > 1 {
		fail("data-after-error", "bytes follow the error response")
	}
}

// c18FileJSON renders the credentials file the way files are written in practice: an empty field
// is sometimes spelled out and sometimes left out (here: left out in every second entry) — the
// loader must treat both alike.
func c18FileJSON(f []c18Entry) []map[string]any {
	out := []map[string]any{}
	for i, e := range f {
		m := map[string]any{"username": e.User}
		if e.Pass != "" || i%2 == 0 {
			m["password"] = e.Pass
		}
		if len(e.Perms) > 0 {
			m["perms"] = e.Perms
		} else if i%2 == 0 {
			m["perms"] = []string{}
		}
		out = append(out, m)
	}
	return out
}

// ---------------------------------------------------------------- generation

type c18Shape struct {
	kind, endpoint, variant string
}

func c18Shapes(t *testing.T) (basic, variants []c18Shape) {
	routes, err := c18Routes()
	if err != nil {
		t.Fatalf("cannot read the ServeHTTP switch: %v", err)
	}
	for _, k := range routes {
		names := append([]string{k}, c18HTTPExtra[k]...)
		for _, n := range names {
			basic = append(basic, c18Shape{"http", n, ""})
			if n != "http:OPTIONS" {
				variants = append(variants, c18Shape{"http", n, "wrong-method"})
			}
		}
	}
	var nums []int
	for n := range clstrPB.Command_Type_name {
		nums = append(nums, int(n))
	}
	sort.Ints(nums)
	for _, n := range nums {
		name := clstrPB.Command_Type_name[int32(n)]
		basic = append(basic, c18Shape{"node", name, ""})
		variants = append(variants, c18Shape{"node", name, "nil-payload"}, c18Shape{"node", name, "other-payload"})
		if name == "COMMAND_TYPE_JOIN" {
			basic = append(basic, c18Shape{"node", name, "non-voter"})
		}
	}
	basic = append(basic, c18Shape{"node", "unknown-type", ""})
	return
}

type c18Pres struct {
	present    bool
	user, pass string
}

var c18Presentations = []c18Pres{
	{false, "", ""},     // no credentials
	{true, "u1", "bad"}, // wrong password
	{true, "u1", "pw1"}, // right password
	{true, "zz", "pw1"}, // unknown user
}

func c18Stores() [][]c18Entry {
	var fs [][]c18Entry
	for _, p := range c18Perms {
		fs = append(fs, []c18Entry{{"u1", "pw1", []string{p}}})
	}
	fs = append(fs,
		[]c18Entry{{"u1", "pw1", []string{}}},
		[]c18Entry{{"u2", "pw2", []string{"all"}}, {"u1", "pw1", []string{}}},
		[]c18Entry{{"u1", "pw1", []string{"query", "execute"}}},
		[]c18Entry{{"u1", "pw1", []string{"all"}}, {"u1", "pw1", []string{"status"}}}, // redefinition: last wins
		[]c18Entry{{"*", "", []string{"status", "ready"}}, {"u1", "pw1", []string{"backup"}}},
	)
	for _, p := range c18Perms {
		fs = append(fs, []c18Entry{{"*", "", []string{p}}, {"u1", "pw1", []string{}}})
	}
	// partial grants against the multi-permission requirements: '*' holds one half and the user the
	// other (authorized: every permission is granted by some route), '*' holds both, '*' holds all,
	// the user holds one half only, and the join permissions split between '*' and the user
	fs = append(fs,
		[]c18Entry{{"*", "", []string{"query"}}, {"u1", "pw1", []string{"execute"}}},
		[]c18Entry{{"*", "", []string{"execute"}}, {"u1", "pw1", []string{"query"}}},
		[]c18Entry{{"*", "", []string{"query", "execute"}}, {"u1", "pw1", []string{}}},
		[]c18Entry{{"*", "", []string{"all"}}},
		[]c18Entry{{"*", "", []string{"query"}}, {"u1", "pw1", []string{"query"}}, {"u2", "pw2", []string{"execute"}}},
		[]c18Entry{{"*", "", []string{"join-read-only"}}, {"u1", "pw1", []string{"join"}}},
		[]c18Entry{{"*", "", []string{"join-read-replica"}}, {"u1", "pw1", []string{"join-read-only"}}},
	)
	return fs
}

func c18RandomStore(rng *rand.Rand) []c18Entry {
	var f []c18Entry
	users := []string{"u1", "u2", "*", "u1"}
	n := 1 + rng.Intn(4)
	for i := 0; i < n; i++ {
		u := users[rng.Intn(len(users))]
		pw := map[string]string{"u1": "pw1", "u2": "pw2", "*": ""}[u]
		if rng.Intn(8) == 0 {
			pw = "other"
		}
		var ps []string
		for _, p := range c18Perms {
			if rng.Intn(4) == 0 && (p != "all" || rng.Intn(3) == 0) {
				ps = append(ps, p)
			}
		}
		if ps == nil {
			ps = []string{}
		}
		f = append(f, c18Entry{u, pw, ps})
	}
	return f
}

func TestVerif_C18(t *testing.T) {
	w := vOpen()
	defer w.Close()
	rng := vRand()
	r := c18NewRig(t)
	defer r.close()

	if raw := vReplayInput(); raw != nil {
		var cn c18Conn
		if err := json.Unmarshal(raw, &cn); err != nil {
			t.Fatal(err)
		}
		c18RunConn(w, r, cn)
		return
	}

	basic, variants := c18Shapes(t)
	mk := func(s c18Shape, f []c18Entry, p c18Pres) c18Input {
		return c18Input{Kind: s.kind, Endpoint: s.endpoint, Variant: s.variant, File: f, Present: p.present, User: p.user, Pass: p.pass}
	}
	stores := c18Stores()
	// every endpoint x every store of the fixed family x every presentation
	for _, f := range stores {
		for _, s := range basic {
			for _, p := range c18Presentations {
				c18Run(w, r, mk(s, f, p))
			}
		}
	}
	// the same through the AA-only wrapper (a store that offers the services nothing but AA), on every sixth file and the last three
	for i, f := range stores {
		if i%6 != 0 && i < len(stores)-3 {
			continue
		}
		for _, s := range basic {
			for _, p := range c18Presentations {
				in := mk(s, f, p)
				c18RunConn(w, r, c18Conn{Kind: in.Kind, AAOnly: true, File: in.File,
					Steps: []c18StepIn{{in.Endpoint, in.Variant, in.Present, in.User, in.Pass}}})
			}
		}
	}
	// other request shapes (wrong method, missing / foreign payload) on a few stores
	for _, f := range [][]c18Entry{stores[0], stores[9], stores[14], stores[15]} {
		for _, s := range variants {
			for _, p := range c18Presentations {
				c18Run(w, r, mk(s, f, p))
			}
		}
	}
	// no credential store configured: everything is allowed
	for _, s := range append(append([]c18Shape{}, basic...), variants...) {
		in := mk(s, nil, c18Presentations[rng.Intn(len(c18Presentations))])
		in.NoStore = true
		c18Run(w, r, in)
	}
	// several requests on ONE connection (inter-node: one TCP connection; HTTP: keep-alive), the
	// credentials changing from request to request: every request must be judged on what IT carries
	good, bad, empty, other, none, unknown := c18Pres{true, "u1", "pw1"}, c18Pres{true, "u1", "bad"}, c18Pres{true, "u1", ""},
		c18Pres{true, "u2", "pw2"}, c18Pres{false, "", ""}, c18Pres{true, "zz", "pw1"}
	patterns := [][]c18Pres{
		{good, bad}, {bad, good}, {good, empty}, {good, other}, {other, good}, {good, none}, {none, good},
		{good, unknown}, {good, bad, good, other}, {other, bad, good, bad, none},
	}
	allButAll := append([]string{}, c18Perms[1:]...)
	seqStores := [][]c18Entry{
		{{"u1", "pw1", []string{"all"}}, {"u2", "pw2", []string{}}},
		{{"u1", "pw1", allButAll}, {"u2", "pw2", []string{"status"}}},
		{{"*", "", []string{"ready"}}, {"u1", "pw1", []string{"all"}}, {"u2", "pw2", []string{"ui"}}},
	}
	seqable := func(s c18Shape) bool {
		// a request that is never answered cannot be fenced; it is covered by the single exchanges
		return s.endpoint != "COMMAND_TYPE_UNKNOWN" && s.endpoint != "unknown-type"
	}
	mkConn := func(kind string, f []c18Entry, shapes []c18Shape, ps []c18Pres) c18Conn {
		cn := c18Conn{Kind: kind, File: f}
		for i, p := range ps {
			sh := shapes[i%len(shapes)]
			cn.Steps = append(cn.Steps, c18StepIn{sh.endpoint, sh.variant, p.present, p.user, p.pass})
		}
		return cn
	}
	for si, f := range seqStores {
		for _, s := range basic {
			if !seqable(s) || c18Required(s.endpoint, s.variant != "non-voter") == nil {
				continue
			}
			for pi, ps := range patterns {
				if si > 0 && pi%3 != si {
					continue
				}
				// the same endpoint throughout
				c18RunConn(w, r, mkConn(s.kind, f, []c18Shape{s}, ps))
			}
		}
	}
	// different endpoints of the same service on one connection (a grant for one must not leak to another)
	byKind := map[string][]c18Shape{}
	for _, s := range append(append([]c18Shape{}, basic...), variants...) {
		if seqable(s) {
			byKind[s.kind] = append(byKind[s.kind], s)
		}
	}
	nseq := vN(300, 6000)
	for i := 0; i < nseq; i++ {
		kind := []string{"node", "node", "http"}[rng.Intn(3)]
		pool := byKind[kind]
		f := seqStores[rng.Intn(len(seqStores))]
		if rng.Intn(3) == 0 {
			f = c18RandomStore(rng)
		}
		l := 2 + rng.Intn(4)
		var shapes []c18Shape
		var ps []c18Pres
		base := pool[rng.Intn(len(pool))]
		for j := 0; j < l; j++ {
			if rng.Intn(2) == 0 {
				shapes = append(shapes, base)
			} else {
				shapes = append(shapes, pool[rng.Intn(len(pool))])
			}
			ps = append(ps, []c18Pres{good, good, bad, empty, other, none, unknown}[rng.Intn(7)])
		}
		c18RunConn(w, r, mkConn(kind, f, shapes, ps))
	}
	// random stores
	all := append(append([]c18Shape{}, basic...), variants...)
	pres := append([]c18Pres{{true, "u2", "pw2"}, {true, "", "pw1"}, {true, "*", ""}}, c18Presentations...)
	n := vN(40, 600)
	for i := 0; i < n; i++ {
		f := c18RandomStore(rng)
		for j := 0; j < 25; j++ {
			c18Run(w, r, mk(all[rng.Intn(len(all))], f, pres[rng.Intn(len(pres))]))
		}
	}
}
