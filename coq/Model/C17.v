(* C17 — model of where SQL text runs: the read-only pool (db.Query), the read-write
   connection (db.Execute, db.Request), the read-only classification (StmtReadOnlyWithConn,
   Store.RORWCount) and the routing of Store.Query / Store.Request / Store.Execute per
   consistency level; plus the cluster-level events that can touch a node's database.
   Executable definitions only; proofs in Proofs/C17.v.

   SQLite enters as `run : pool -> sub -> D -> D` (contents after one statement ran on a
   connection of that pool).  Proofs/C17.v states what is assumed of it. *)
From Coq Require Import List NArith Bool.
From RQ Require Import Model.C13.     (* table, rowop, t_apply, table_eqb: row contents keyed by number *)
Import ListNotations.

Set Implicit Arguments.

Inductive pool := RO | RW.             (* roDB: mode=ro + query_only;  rwDB: the single read-write connection *)

(* one SQL statement of a text, as SQLite sees it prepared and run on its own *)
Record sub (E : Type) := {
  sb_ro  : bool;     (* sqlite3_stmt_readonly *)
  sb_eff : E         (* the changes it makes when the connection lets it *)
}.

(* Statement.Sql of a request: several SQL statements may be in one text *)
Inductive text (E : Type) :=
| TEmpty                                   (* "" : skipped everywhere *)
| TBad                                     (* the first statement does not prepare *)
| TSubs (explain : bool) (l : list (sub E)). (* explain = Statement.SqlExplain, set by the HTTP layer for EXPLAIN texts *)
Arguments TEmpty {E}. Arguments TBad {E}.

Definition request (E : Type) := list (text E).

Section Routes.
  Variables D E : Type.
  Variable run : pool -> sub E -> D -> D.

  (* vendored driver, SQLiteConn.query: every statement of the text is prepared, only the
     LAST one is stepped *)
  Definition q_text (p : pool) (l : list (sub E)) (d : D) : D :=
    match rev l with
    | [] => d
    | s :: _ => run p s d
    end.

  (* SQLiteConn.exec: all statements, in order *)
  Definition e_text (p : pool) (l : list (sub E)) (d : D) : D :=
    fold_left (fun d s => run p s d) l d.

  (* DB.StmtReadOnlyWithConn: prepares the text, i.e. its FIRST statement, and asks
     sqlite3_stmt_readonly; a text without any statement is read-only; None = error *)
  Definition classify (t : text E) : option bool :=
    match t with
    | TEmpty => Some true
    | TBad => None
    | TSubs _ [] => Some true
    | TSubs _ (s :: _) => Some (sb_ro s)
    end.

  (* DB.QueryWithContext: every text through the read-only pool *)
  Definition db_query (req : request E) (d : D) : D :=
    fold_left (fun d t => match t with TSubs _ l => q_text RO l d | _ => d end) req d.

  (* DB.ExecuteWithContext: every text through Exec on the read-write connection *)
  Definition db_execute (req : request E) (d : D) : D :=
    fold_left (fun d t => match t with TSubs _ l => e_text RW l d | _ => d end) req d.

  (* what DB.RequestWithContext does with one text *)
  Definition request_text (t : text E) (d : D) : D :=
    match t with
    | TSubs _ l =>
      match classify t with
      | Some true => q_text RW l d       (* treated as read-only: queryStmtWithConn on the RW connection *)
      | Some false => e_text RW l d      (* executeStmtWithConn *)
      | None => d
      end
    | _ => d
    end.
  Definition db_request (req : request E) (d : D) : D :=
    fold_left (fun d t => request_text t d) req d.

  (* Store.RORWCount *)
  Definition counts_rw (t : text E) : bool :=
    match t with
    | TEmpty => false
    | TSubs true _ => false
    | _ => match classify t with Some true => false | _ => true end
    end.
  Definition counts_ro (t : text E) : bool :=
    match t with TEmpty => false | _ => negb (counts_rw t) end.
  Definition n_rw (req : request E) : nat := length (filter counts_rw req).
  Definition n_ro (req : request E) : nat := length (filter counts_ro req).

  (* consistency levels; Linearizable carries whether waitForLinearizableRead asked for a strong read *)
  Inductive level := LvNone | LvWeak | LvLinearizable (upgraded : bool) | LvStrong | LvAuto.

  Inductive entry :=
  | EnQuery (r : request E) | EnExecute (r : request E) | EnExecuteQuery (r : request E)
  | EnLoad (d : D) | EnNoop.

  Inductive route := Local | ViaLog (e : entry).

  Definition is_strong (lv : level) : bool :=
    match lv with LvStrong | LvLinearizable true => true | _ => false end.

  (* Store.Query *)
  Definition store_query (lv : level) (req : request E) : route :=
    if is_strong lv then ViaLog (EnQuery req) else Local.
  (* Store.Request *)
  Definition store_request (lv : level) (req : request E) : route :=
    if Nat.eqb (n_rw req) 0 && negb (is_strong lv) then Local else ViaLog (EnExecuteQuery req).
  (* Store.Execute *)
  Definition store_execute (req : request E) : route := ViaLog (EnExecute req).

  (* CommandProcessor.Process *)
  Definition apply_entry (e : entry) (d : D) : D :=
    match e with
    | EnQuery r => db_query r d
    | EnExecute r => db_execute r d
    | EnExecuteQuery r => db_request r d
    | EnLoad d' => d'
    | EnNoop => d
    end.

  (* a local (not logged) read of either endpoint goes to DB.QueryWithContext *)
  Definition serve_local (req : request E) (d : D) : D := db_query req d.

  (* ---- cluster: a log and one database per node ---- *)
  Record cluster := { c_log : list entry; c_dbs : list D }.

  Inductive event :=
  | EvQuery (i : nat) (lv : level) (r : request E)     (* client calls at node i *)
  | EvRequest (i : nat) (lv : level) (r : request E)
  | EvExecute (i : nat) (r : request E)
  | EvLoad (i : nat) (d : D)
  | EvApply (i k : nat)                                 (* node i applies log entry k *)
  | EvSnapshot (i : nat) (d : D)                        (* node i installs / restores a snapshot *)
  | EvBoot (i : nat) (d : D).                           (* explicit boot of node i from a file *)

  Fixpoint set_nth (l : list D) (i : nat) (x : D) : list D :=
    match l, i with
    | [], _ => []
    | _ :: r, O => x :: r
    | y :: r, S j => y :: set_nth r j x
    end.

  Definition on_node (c : cluster) (i : nat) (f : D -> D) : cluster :=
    match nth_error (c_dbs c) i with
    | Some d => {| c_log := c_log c; c_dbs := set_nth (c_dbs c) i (f d) |}
    | None => c
    end.
  Definition append (c : cluster) (e : entry) : cluster :=
    {| c_log := c_log c ++ [e]; c_dbs := c_dbs c |}.

  Definition do_route (c : cluster) (i : nat) (rt : route) (r : request E) : cluster :=
    match rt with
    | Local => on_node c i (serve_local r)
    | ViaLog e => append c e
    end.

  Definition step (c : cluster) (ev : event) : cluster :=
    match ev with
    | EvQuery i lv r => do_route c i (store_query lv r) r
    | EvRequest i lv r => do_route c i (store_request lv r) r
    | EvExecute i r => do_route c i (store_execute r) r
    | EvLoad i d => append c (EnLoad d)
    | EvApply i k =>
      match nth_error (c_log c) k with
      | Some e => on_node c i (apply_entry e)
      | None => c
      end
    | EvSnapshot i d => on_node c i (fun _ => d)
    | EvBoot i d => on_node c i (fun _ => d)
    end.
End Routes.
Arguments Local {D E}.
Arguments EnNoop {D E}.
Arguments EvQuery {D E}. Arguments EvRequest {D E}. Arguments EvExecute {D E}. Arguments EvLoad {D E}.
Arguments EvApply {D E}. Arguments EvSnapshot {D E}. Arguments EvBoot {D E}.

(* ---- the instance the model is run with: the read-only pool changes nothing, the
   read-write connection applies the statement's row changes ---- *)
Definition t_run (p : pool) (s : sub (list rowop)) (d : table) : table :=
  match p with RO => d | RW => t_apply (sb_eff s) d end.

(* ---- correspondence ---- *)
Inductive endpoint :=
| DbQuery | DbRequest | DbExecute                       (* called on the node's database object directly *)
| StQuery (lv : level) | StRequest (lv : level) | StExecute.   (* through the Store of a single-node cluster *)

Record case := {
  k_ep       : endpoint;
  k_req      : request (list rowop);     (* ro flags and row changes measured per SQL statement, run alone *)
  k_init     : table;
  (* observed *)
  k_final    : table;                    (* contents afterwards *)
  k_appended : bool;                     (* the raft log grew *)
  k_nrw      : option N                  (* Store.Request's count of read-write statements *)
}.

Definition model_case (c : case) : table * bool * option N :=
  let req := k_req c in
  let via rt :=
    match rt with
    | Local => (serve_local t_run req (k_init c), false)
    | ViaLog e => (apply_entry t_run e (k_init c), true)
    end in
  match k_ep c with
  | DbQuery => (db_query t_run req (k_init c), false, None)
  | DbRequest => (db_request t_run req (k_init c), false, None)
  | DbExecute => (db_execute t_run req (k_init c), false, None)
  | StQuery lv => (via (@store_query table _ lv req), None)
  | StRequest lv => (via (@store_request table _ lv req), Some (N.of_nat (n_rw req)))
  | StExecute => (via (@store_execute table _ req), None)
  end.

Definition optN_eqb (a b : option N) : bool :=
  match a, b with
  | None, None => true
  | Some x, Some y => N.eqb x y
  | _, _ => false
  end.

Definition check_case (c : case) : bool :=
  let '(fin, app, nrw) := model_case c in
  table_eqb fin (k_final c) && Bool.eqb app (k_appended c) && optN_eqb nrw (k_nrw c).
