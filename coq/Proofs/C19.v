From Coq Require Import List String Bool.
From RQ Require Import Lib.AList Model.C19.
Import ListNotations.
Open Scope string_scope.

(* ---- the specification, written directly from the property text ---- *)

(* the last definition of user u in the file *)
Fixpoint last_def (file : list cred) (u : string) : option cred :=
  match file with
  | [] => None
  | e :: r => match last_def r u with
              | Some e' => Some e'
              | None => if String.eqb (username e) u then Some e else None
              end
  end.

Definition granted (file : list cred) (u perm : string) : Prop :=
  exists e, last_def file u = Some e /\ In perm (perms e).

Definition password_of (file : list cred) (u : string) : option string :=
  option_map password (last_def file u).

Definition authorized (file : list cred) (u p perm : string) : Prop :=
  (granted file AllUsers perm \/ granted file AllUsers PermAll)
  \/ (u <> "" /\ password_of file u = Some p
      /\ (granted file u perm \/ granted file u PermAll
          \/ granted file AllUsers perm \/ granted file AllUsers PermAll)).

(* ---- load computes last_def ---- *)

Lemma last_def_app file e u :
  last_def (file ++ [e]) u = if String.eqb (username e) u then Some e else last_def file u.
Proof.
  induction file as [|a file IH]; cbn [app last_def].
  - destruct (String.eqb (username e) u); reflexivity.
  - rewrite IH. destruct (String.eqb (username e) u); [reflexivity|].
    reflexivity.
Qed.

Lemma load_app file e : load (file ++ [e]) = load_one (load file) e.
Proof. unfold load. rewrite fold_left_app. reflexivity. Qed.

Lemma load_lookup file u :
  lookup (st_pw (load file)) u = option_map password (last_def file u)
  /\ lookup (st_perms (load file)) u = option_map perms (last_def file u).
Proof.
  induction file as [|e file IH] using rev_ind.
  - split; reflexivity.
  - rewrite load_app, last_def_app. destruct IH as [IH1 IH2].
    unfold load_one; cbn [st_pw st_perms].
    destruct (String.eqb_spec (username e) u) as [->|Hne].
    + rewrite !lookup_update_eq. split; reflexivity.
    + rewrite !lookup_update_neq by assumption. split; assumption.
Qed.

Lemma mem_In p l : mem p l = true <-> In p l.
Proof.
  unfold mem. rewrite existsb_exists. split.
  - intros (x & Hx & E). apply String.eqb_eq in E. now subst.
  - intros H. exists p. split; [assumption | apply String.eqb_refl].
Qed.

Lemma direct_granted file u perm :
  (match lookup (st_perms (load file)) u with Some m => mem perm m | None => false end) = true
  <-> granted file u perm.
Proof.
  destruct (load_lookup file u) as [_ H]. rewrite H. unfold granted.
  destruct (last_def file u) as [e|]; cbn [option_map].
  - rewrite mem_In. split; [intros Hi; exists e; auto | intros (e' & E & Hi); congruence].
  - split; [discriminate | intros (e' & E & _); discriminate].
Qed.

Lemma has_perm_spec file u perm :
  has_perm (load file) u perm = true <-> granted file u perm \/ granted file AllUsers perm.
Proof.
  unfold has_perm. rewrite orb_true_iff, !direct_granted. reflexivity.
Qed.

Lemma has_any_spec file u perm :
  has_any_perm (load file) u [perm; PermAll] = true <->
  granted file u perm \/ granted file u PermAll \/ granted file AllUsers perm \/ granted file AllUsers PermAll.
Proof.
  unfold has_any_perm. cbn [existsb]. rewrite orb_false_r, orb_true_iff, !has_perm_spec. tauto.
Qed.

Lemma check_spec file u p : check (load file) u p = true <-> password_of file u = Some p.
Proof.
  unfold check, password_of. destruct (load_lookup file u) as [H _]. rewrite H.
  destruct (last_def file u) as [e|]; cbn [option_map].
  - rewrite String.eqb_eq. split; congruence.
  - split; discriminate.
Qed.

Theorem aa_spec file u p perm : aa (load file) u p perm = true <-> authorized file u p perm.
Proof.
  unfold aa, authorized.
  destruct (has_any_perm (load file) AllUsers [perm; PermAll]) eqn:Hall.
  - apply has_any_spec in Hall. split; [intros _; left; tauto | reflexivity].
  - assert (Hn : ~ (granted file AllUsers perm \/ granted file AllUsers PermAll)).
    { intros H. assert (X : has_any_perm (load file) AllUsers [perm; PermAll] = true)
        by (apply has_any_spec; tauto). congruence. }
    destruct (String.eqb_spec u "") as [->|Hu].
    + split; [discriminate | intros [H | (H & _)]; [tauto | congruence]].
    + destruct (check (load file) u p) eqn:Hc; cbn [negb].
      * apply check_spec in Hc. rewrite has_any_spec. tauto.
      * split; [discriminate|]. intros [H | (_ & Hp & _)]; [tauto|].
        apply check_spec in Hp. congruence.
Qed.

(* last definition wins: the decision depends on the file only through last_def *)
Theorem aa_last_wins file1 file2 u p perm :
  (forall v, last_def file1 v = last_def file2 v) ->
  aa (load file1) u p perm = aa (load file2) u p perm.
Proof.
  intros H.
  assert (E : forall f1 f2, (forall v, last_def f1 v = last_def f2 v) ->
              aa (load f1) u p perm = true -> aa (load f2) u p perm = true).
  { intros f1 f2 Hf. rewrite !aa_spec. unfold authorized, granted, password_of.
    rewrite !Hf. tauto. }
  destruct (aa (load file1) u p perm) eqn:E1.
  - symmetry. apply (E file1 file2); assumption.
  - destruct (aa (load file2) u p perm) eqn:E2; [|reflexivity].
    apply (E file2 file1) in E2; [congruence | intros v; symmetry; apply H].
Qed.

(* a later redefinition of u hides every earlier one *)
Theorem redefinition_hides pre e post u :
  username e = u -> (forall x, In x post -> username x <> u) ->
  last_def (pre ++ e :: post) u = Some e.
Proof.
  intros Hu Hpost. induction pre as [|a pre IH]; cbn [app last_def].
  - assert (Hn : last_def post u = None).
    { induction post as [|x post IHp]; [reflexivity|]. cbn [last_def].
      rewrite IHp by (intros y Hy; apply Hpost; now right).
      destruct (String.eqb_spec (username x) u) as [E|]; [|reflexivity].
      exfalso. apply (Hpost x); [now left | assumption]. }
    rewrite Hn, <- Hu, String.eqb_refl. reflexivity.
  - rewrite IH. reflexivity.
Qed.

(* non-vacuity: a concrete file where both routes of the rule are exercised *)
Example ex_file := [ {| username := "bob"; password := "x"; perms := ["all"] |};
                     {| username := "*"; password := ""; perms := ["status"] |};
                     {| username := "bob"; password := "pw"; perms := ["query"] |} ].
Example ex1 : aa (load ex_file) "" "" "status" = true /\ aa (load ex_file) "bob" "pw" "query" = true
           /\ aa (load ex_file) "bob" "x" "query" = false /\ aa (load ex_file) "bob" "pw" "execute" = false.
Proof. vm_compute. auto. Qed.
