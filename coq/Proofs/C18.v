(* C18 — specification (from the property text and the documented meaning of the permissions)
   and proofs about Model.C18's interpreter and handler table. *)
From Coq Require Import List String Bool.
From RQ Require Import Lib.AList Model.C19 Model.C18 Proofs.C19.
Import ListNotations.
Open Scope string_scope.

(* ---- specification ---- *)

(* The permission an endpoint requires, as documented (auth/credential_store.go: "PermExecute
   means user can access execute endpoint", "PermLoad means user can load a SQLite dump into a
   node", ...; the unified endpoint needs both query and execute; a node may join as voter with
   "join", as read-only replica with "join-read-only" or "join-read-replica").
   Endpoints that are absent have no requirement: the console redirect, OPTIONS, unknown paths,
   node metadata, the retired chunked load, undefined command types — and the high-water-mark
   broadcast, for which neither the wire protocol nor the client carries credentials. *)
Definition required_table : list (string * guard) := [
  ("http:/console", GPerm "ui");
  ("http:/db/execute", GPerm "execute");
  ("http:/db/query", GPerm "query");
  ("http:/db/request", GAll ["query"; "execute"]);
  ("http:/db/backup", GPerm "backup");
  ("http:/db/load", GPerm "load");
  ("http:/db/load#sql", GPerm "load");
  ("http:/db/sql", GPerm "query");
  ("http:/boot", GPerm "load");
  ("http:/snapshot", GPerm "snapshot");
  ("http:/reap", GPerm "snapshot");
  ("http:/remove", GPerm "remove");
  ("http:/status", GPerm "status");
  ("http:/nodes", GPerm "status");
  ("http:/leader", GPerm "leader-ops");
  ("http:/leader#POST", GPerm "leader-ops");
  ("http:/readyz", GPerm "ready");
  ("http:/licenses", GPerm "status");
  ("http:/debug/vars", GPerm "status");
  ("http:/debug/pprof", GPerm "status");
  ("COMMAND_TYPE_EXECUTE", GPerm "execute");
  ("COMMAND_TYPE_QUERY", GPerm "query");
  ("COMMAND_TYPE_REQUEST", GAll ["query"; "execute"]);
  ("COMMAND_TYPE_BACKUP", GPerm "backup");
  ("COMMAND_TYPE_BACKUP_STREAM", GPerm "backup");
  ("COMMAND_TYPE_LOAD", GPerm "load");
  ("COMMAND_TYPE_REMOVE_NODE", GPerm "remove");
  ("COMMAND_TYPE_NOTIFY", GPerm "join");
  ("COMMAND_TYPE_JOIN", GJoin);
  ("COMMAND_TYPE_STEPDOWN", GPerm "leader-ops")
].
Definition required (name : string) : option guard := lookup required_table name.

Definition hwm := "COMMAND_TYPE_HIGHWATER_MARK_UPDATE".

(* A call is harmless when it neither changes node / cluster state nor reads database content:
   only the commit index read of GET_NODE_META qualifies. *)
Definition meta_call (c : string) : bool := String.eqb c "CommitIndex".
Definition is_data (o : out) : bool := match o with OData _ => true | OFrame _ => false end.

(* the request acted (state-changing or content-reading call) or streamed database bytes *)
Definition sensitive (r : hstate) : bool :=
  existsb (fun c => negb (meta_call c)) (s_calls r) || existsb is_data (s_out r).

(* the whole wire output is one error response, nothing before, nothing after *)
Definition only_error (r : hstate) : bool :=
  match s_out r with
  | [OFrame m] => negb (String.eqb m "")
  | _ => false
  end.

(* ---- the interpreter consults the store only through the guards of the term ---- *)

Definition guards (h : list instr) : list guard :=
  flat_map (fun i => match i with Auth g => [g] | _ => [] end) h.

Lemma exec_ext a a' pnil mok h :
  (forall g, In g (guards h) -> a g = a' g) ->
  forall s, exec a pnil mok h s = exec a' pnil mok h s.
Proof.
  induction h as [|i r IH]; intros Hg s; [reflexivity|].
  assert (Hr : forall g, In g (guards r) -> a g = a' g).
  { intros g Hin. apply Hg. unfold guards in *. cbn [flat_map]. apply in_or_app. now right. }
  specialize (IH Hr).
  destruct i; cbn [exec];
    try (rewrite (Hg g) by (unfold guards; cbn [flat_map app]; now left));
    try destruct (s_err s); try destruct pnil; try destruct uses_payload; cbn [andb];
    try reflexivity; apply IH.
Qed.

Definition konst (b : bool) : guard -> bool := fun _ => b.

Definition guard_eq_dec : forall x y : guard, {x = y} + {x <> y}.
Proof. decide equality; try apply string_dec. apply (list_eq_dec string_dec). Defined.

(* ---- finite checks over the handler table (table x 2^3 request shapes) ---- *)

Definition all8 (f : bool -> bool -> bool -> bool) : bool :=
  f true true true && f true true false && f true false true && f true false false &&
  f false true true && f false true false && f false false true && f false false false.

Lemma all8_spec f : all8 f = true -> forall x y z, f x y z = true.
Proof.
  unfold all8. intros H x y z.
  repeat (apply andb_prop in H; destruct H as [H ?]).
  destruct x, y, z; assumption.
Qed.

(* the guards of the code are exactly the documented requirement *)
Definition wf_entry (e : string * list instr) : bool :=
  let '(name, h) := e in
  if list_eq_dec guard_eq_dec (guards h) (match required name with Some g => [g] | None => [] end)
  then true else false.

Definition enforced_entry (e : string * list instr) : bool :=
  let '(name, h) := e in
  all8 (fun ok pnil mok =>
    let r := run (konst ok) pnil mok h in
    match required name with
    | Some _ => implb (sensitive r) ok
    | None => String.eqb name hwm || negb (sensitive r)
    end).

Definition silent_entry (e : string * list instr) : bool :=
  let '(name, h) := e in
  match required name with
  | None => true
  | Some _ => all8 (fun _ pnil mok =>
      let r := run (konst false) pnil mok h in
      match s_calls r with [] => true | _ => false end && negb (s_crash r) && only_error r)
  end.

Definition nocrash_entry (e : string * list instr) : bool :=
  let '(_, h) := e in all8 (fun ok pnil mok => negb (s_crash (run (konst ok) pnil mok h))).

Lemma table_wf : forallb wf_entry table = true. Proof. vm_compute. reflexivity. Qed.
Lemma table_enforced : forallb enforced_entry table = true. Proof. vm_compute. reflexivity. Qed.
Lemma table_silent : forallb silent_entry table = true. Proof. vm_compute. reflexivity. Qed.
Lemma table_nocrash : forallb nocrash_entry table = true. Proof. vm_compute. reflexivity. Qed.

Lemma lookup_In {V} (m : alist V) k v : lookup m k = Some v -> In (k, v) m.
Proof.
  induction m as [|[k' v'] m IH]; cbn [lookup]; [discriminate|].
  destruct (String.eqb_spec k' k) as [->|Hne].
  - intros E. injection E as ->. now left.
  - intros E. right. now apply IH.
Qed.

Lemma term_in name h : term_of name = Some h -> In (name, h) table.
Proof. apply lookup_In. Qed.

(* running against any decision function = running against the single boolean it gives for the
   requirement of the endpoint *)
Lemma run_konst name h a pnil mok :
  term_of name = Some h ->
  run a pnil mok h =
  run (konst (match required name with Some g => a g | None => true end)) pnil mok h.
Proof.
  intros Ht. apply term_in in Ht.
  pose proof (proj1 (forallb_forall _ _) table_wf _ Ht) as Hwf. cbn [wf_entry] in Hwf.
  destruct (list_eq_dec guard_eq_dec _ _) as [Hg|]; [clear Hwf | discriminate].
  unfold run. apply exec_ext. rewrite Hg. intros g Hin.
  destruct (required name) as [g0|]; [|contradiction].
  destruct Hin as [<-|[]]. reflexivity.
Qed.

(* ---- the theorems ---- *)

(* Effects and disclosure imply authorization; endpoints without a requirement are harmless.
   `partial`: the high-water-mark broadcast is excluded (see hwm_refuted). *)
Theorem enforced_partial name h perm_ok voter pnil mok :
  term_of name = Some h -> name <> hwm ->
  sensitive (run (holds perm_ok voter) pnil mok h) = true ->
  match required name with
  | Some g => holds perm_ok voter g = true
  | None => False
  end.
Proof.
  intros Ht Hn Hs. rewrite (run_konst name h _ pnil mok Ht) in Hs.
  pose proof (proj1 (forallb_forall _ _) table_enforced _ (term_in _ _ Ht)) as He.
  cbn [enforced_entry] in He.
  destruct (required name) as [g|].
  - pose proof (all8_spec _ He (holds perm_ok voter g) pnil mok) as H. cbv beta in H.
    rewrite Hs in H. exact H.
  - pose proof (all8_spec _ He true pnil mok) as H. cbv beta in H.
    rewrite Hs in H. cbn [negb] in H. rewrite orb_false_r in H.
    apply String.eqb_eq in H. contradiction.
Qed.

(* Not authorized: no call at all, no crash, and the wire carries exactly one error response. *)
Theorem unauthorized_is_silent name h g perm_ok voter pnil mok :
  term_of name = Some h -> required name = Some g -> holds perm_ok voter g = false ->
  let r := run (holds perm_ok voter) pnil mok h in
  s_calls r = [] /\ s_crash r = false /\ exists m, m <> "" /\ s_out r = [OFrame m].
Proof.
  intros Ht Hr Hh r. subst r. rewrite (run_konst name h _ pnil mok Ht). rewrite Hr, Hh.
  pose proof (proj1 (forallb_forall _ _) table_silent _ (term_in _ _ Ht)) as He.
  cbn [silent_entry] in He. rewrite Hr in He.
  pose proof (all8_spec _ He true pnil mok) as H. cbv beta in H.
  apply andb_prop in H as [H Ho]. apply andb_prop in H as [Hc Hk].
  split; [destruct (s_calls _); [reflexivity | discriminate]|].
  split; [now apply negb_true_iff in Hk|].
  unfold only_error in Ho.
  destruct (s_out _) as [|[m|] [|? ?]]; try discriminate.
  exists m. split; [|reflexivity]. intros ->. discriminate.
Qed.

(* No handler dereferences an absent payload, whatever the store decides. *)
Theorem handlers_never_crash name h a pnil mok :
  term_of name = Some h -> s_crash (run a pnil mok h) = false.
Proof.
  intros Ht. rewrite (run_konst name h a pnil mok Ht).
  pose proof (proj1 (forallb_forall _ _) table_nocrash _ (term_in _ _ Ht)) as He.
  cbn [nocrash_entry] in He.
  pose proof (all8_spec _ He (match required name with Some g => a g | None => true end) pnil mok) as H.
  cbv beta in H. now apply negb_true_iff in H.
Qed.

(* The statement at full strength fails: with a credential store that grants nothing to anybody,
   HIGHWATER_MARK_UPDATE still acts. *)
Theorem hwm_refuted :
  exists h, term_of hwm = Some h /\
  (forall u p perm, authz (Some (load [])) u p perm = false) /\
  forall u p, sensitive (run (holds (authz (Some (load [])) u p) true) false true h) = true.
Proof.
  eexists. split; [reflexivity|]. split.
  - intros u p perm. unfold authz, aa, load, has_any_perm, has_perm. cbn.
    destruct (String.eqb u ""); [reflexivity|]. unfold check. cbn. reflexivity.
  - intros u p. reflexivity.
Qed.

(* In terms of the credentials FILE (C19's rule): on a single-permission endpoint, an effect or a
   disclosure means the file authorizes the presented user for that permission. *)
Theorem enforced_file_partial name h file u p perm voter pnil mok :
  term_of name = Some h -> required name = Some (GPerm perm) ->
  sensitive (run (holds (authz (Some (load file)) u p) voter) pnil mok h) = true ->
  authorized file u p perm.
Proof.
  intros Ht Hr Hs.
  assert (Hn : name <> hwm) by (intros ->; vm_compute in Hr; discriminate).
  pose proof (enforced_partial name h _ voter pnil mok Ht Hn Hs) as H.
  rewrite Hr in H. cbn [holds authz] in H. now apply aa_spec.
Qed.

(* ---- connections: the decision on a request does not depend on what came before it ---- *)

Lemma conn_loop_acc st qs : forall calls outs,
  conn_loop st qs calls outs =
  match conn_loop st qs [] [] with
  | Some (cs, os) => Some ((calls ++ cs)%list, (outs ++ os)%list)
  | None => None
  end.
Proof.
  induction qs as [|q r IH]; intros calls outs; cbn [conn_loop].
  - now rewrite !app_nil_r.
  - destruct (run_request st q) as [h|]; [|reflexivity].
    rewrite (IH (calls ++ s_calls h)%list (outs ++ s_out h)%list), (IH ([] ++ s_calls h)%list ([] ++ s_out h)%list).
    destruct (conn_loop st r [] []) as [[cs os]|]; [|reflexivity].
    cbn [app]. now rewrite !app_assoc.
Qed.

(* What a connection does is the concatenation of what each of its requests does when run alone
   against the same store: every request is judged on the credentials it carries, whatever was
   presented, granted or refused earlier on the connection. *)
Theorem connection_is_map st qs cs os :
  conn_loop st qs [] [] = Some (cs, os) ->
  exists hs, map (run_request st) qs = map Some hs /\
             cs = List.concat (map s_calls hs) /\ os = List.concat (map s_out hs).
Proof.
  revert cs os. induction qs as [|q r IH]; intros cs os H; cbn [conn_loop] in H.
  - injection H as <- <-. exists []. auto.
  - destruct (run_request st q) as [h|] eqn:Hq; [|discriminate].
    rewrite conn_loop_acc in H.
    destruct (conn_loop st r [] []) as [[cs' os']|] eqn:Hr; [|discriminate].
    injection H as <- <-. destruct (IH _ _ eq_refl) as (hs & Hm & -> & ->).
    exists (h :: hs). cbn [map List.concat app]. rewrite Hq, Hm. auto.
Qed.

(* ---- non-vacuity ---- *)
Example ex_file18 := [ {| username := "u1"; password := "pw1"; perms := ["query"] |} ].
Example ex_enforced :
  exists h, term_of "COMMAND_TYPE_BACKUP_STREAM" = Some h /\
    s_out (run (holds (authz (Some (load ex_file18)) "u1" "pw1") true) false true h) = [OFrame "unauthorized"] /\
    s_out (run (holds (authz (Some (load [ {| username := "u1"; password := "pw1"; perms := ["backup"] |} ])) "u1" "pw1") true) false true h)
      = [OFrame ""; OData "Backup"] /\
    s_out (run (holds (authz (Some (load ex_file18)) "u1" "pw1") true) true true h) = [OFrame "BackupRequest is nil"].
Proof. eexists. split; [reflexivity|]. vm_compute. auto. Qed.
Example ex_query_ok :
  exists h, term_of "http:/db/query" = Some h /\
    sensitive (run (holds (authz (Some (load ex_file18)) "u1" "pw1") true) false true h) = true /\
    sensitive (run (holds (authz (Some (load ex_file18)) "u1" "bad") true) false true h) = false.
Proof. eexists. split; [reflexivity|]. vm_compute. auto. Qed.

Example ex_conn :
  let q pw := {| q_user := "u1"; q_pass := pw; q_endpoint := "COMMAND_TYPE_QUERY"; q_nil := false; q_voter := true; q_method_ok := true |} in
  conn_loop (Some (load ex_file18)) [q "pw1"; q "bad"; q "pw1"] [] []
  = Some (["Query"; "Query"], [OFrame ""; OFrame "unauthorized"; OFrame ""]).
Proof. vm_compute. reflexivity. Qed.

(* CheckAll means ALL: with '*' holding exactly one of the two permissions of the unified endpoint,
   a caller without credentials (or with a wrong password, or without the other permission) is
   refused; a user who holds the other half is accepted — each permission is decided on its own. *)
Example ex_all_of :
  let half := [ {| username := "*"; password := ""; perms := ["query"] |};
                {| username := "u1"; password := "pw1"; perms := ["execute"] |};
                {| username := "u2"; password := "pw2"; perms := ["status"] |} ] in
  let go u p := match term_of "COMMAND_TYPE_REQUEST" with
                | Some h => s_out (run (holds (authz (Some (load half)) u p) true) false true h)
                | None => [] end in
  go "" "" = [OFrame "unauthorized"] /\ go "u1" "bad" = [OFrame "unauthorized"]
  /\ go "u2" "pw2" = [OFrame "unauthorized"] /\ go "u1" "pw1" = [OFrame ""]
  /\ holds (authz (Some (load half)) "" "") true (GAll ["query"; "execute"]) = false
  /\ holds (authz (Some (load half)) "" "") true (GPerm "query") = true.
Proof. vm_compute. repeat split. Qed.
