(* Small vocabulary shared by the source-derived definitions of coq/Gen/*.v (written by
   tools/gotrans).  Definitions only; nothing here is specific to one property. *)
From Coq Require Import List String ZArith Bool.
Import ListNotations.

(* helpers that gotrans translated because a listed function calls them register here; the lemmas unfold them *)
Create HintDb gen_aux.

(* result of a Go function that may panic: Ret v = returned normally, Panic msg = panic(msg) *)
Inductive res (A : Type) : Type := Ret (a : A) | Panic (msg : string).
Arguments Ret {A} a.
Arguments Panic {A} msg.

(* `x != nil` on a pointer / error; `_, ok := m[k]` *)
Definition isSome {A : Type} (o : option A) : bool := match o with Some _ => true | None => false end.
(* `v := m[k]` (zero value d when the key is absent) *)
Definition odef {A : Type} (d : A) (o : option A) : A := match o with Some v => v | None => d end.

(* len(s) *)
Definition zlen {A : Type} (l : list A) : Z := Z.of_nat (List.length l).
(* s[:i] and s[i:] (slices are immutable lists here: no aliasing is modelled) *)
Definition slice_to {A : Type} (l : list A) (i : Z) : list A := firstn (Z.to_nat i) l.
Definition slice_from {A : Type} (l : list A) (i : Z) : list A := skipn (Z.to_nat i) l.
(* len(s) for a string *)
Definition slen (s : string) : Z := Z.of_nat (String.length s).

(* ---- Go strings as byte lists (units translated with `bytestr`) ---- *)
Local Open Scope Z_scope.
(* a == b on strings *)
Fixpoint bytes_eqb (a b : list Z) : bool :=
  match a, b with
  | [], [] => true
  | x :: a', y :: b' => Z.eqb x y && bytes_eqb a' b'
  | _, _ => false
  end.
(* strings.HasPrefix(s, p) *)
Fixpoint bytes_has_prefix (s p : list Z) : bool :=
  match p, s with
  | [], _ => true
  | a :: p', x :: s' => Z.eqb a x && bytes_has_prefix s' p'
  | _ :: _, [] => false
  end.
(* strings.IndexByte(s, c): the first index of c in s, -1 if there is none *)
Fixpoint bytes_index_byte (s : list Z) (c : Z) : Z :=
  match s with
  | [] => -1
  | x :: r => if Z.eqb x c then 0 else let k := bytes_index_byte r c in if Z.ltb k 0 then -1 else k + 1
  end.
(* strings.Index(s, sub): the first index at which sub occurs in s, -1 if there is none *)
Fixpoint bytes_index (s sub : list Z) : Z :=
  if bytes_has_prefix s sub then 0
  else match s with
       | [] => -1
       | _ :: r => let k := bytes_index r sub in if Z.ltb k 0 then -1 else k + 1
       end.
(* xs[i] = v *)
Fixpoint list_set_nat {A : Type} (l : list A) (i : nat) (v : A) : list A :=
  match l, i with
  | [], _ => []
  | _ :: r, O => v :: r
  | x :: r, S i' => x :: list_set_nat r i' v
  end.
Definition list_set {A : Type} (l : list A) (i : Z) (v : A) : list A := list_set_nat l (Z.to_nat i) v.
(* map[string]V with byte-string keys *)
Definition balist (V : Type) : Type := list (list Z * V).
Fixpoint blookup {V : Type} (m : balist V) (k : list Z) : option V :=
  match m with
  | [] => None
  | (k', v) :: r => if bytes_eqb k' k then Some v else blookup r k
  end.
Definition bupdate {V : Type} (m : balist V) (k : list Z) (v : V) : balist V := (k, v) :: m.
