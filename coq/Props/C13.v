(* C13 — property theorems only.  `laws` (Proofs/C13.v) is what is assumed of SQLite and
   database/sql: ROLLBACK restores the contents at BEGIN, a failed COMMIT changes nothing,
   a successful one keeps the contents; it is an explicit premise of every theorem and is
   proved for the connection the model is run with (C13_snapshot_connection_laws). *)
From Coq Require Import List.
From RQ Require Import Model.C13 Proofs.C13.

Theorem C13_tx_all_or_nothing_execute :
  forall (C E D : Type) (o : ops C E) (view : C -> D) (in_tx : C -> bool) (dapply : E -> D -> D),
  laws o view in_tx dapply -> all_or_nothing view in_tx dapply (execute_path o).
Proof. exact tx_all_or_nothing_execute. Qed.
Print Assumptions C13_tx_all_or_nothing_execute.

Theorem C13_tx_all_or_nothing_unified :
  forall (C E D : Type) (o : ops C E) (view : C -> D) (in_tx : C -> bool) (dapply : E -> D -> D),
  laws o view in_tx dapply -> all_or_nothing view in_tx dapply (unified_path o).
Proof. exact tx_all_or_nothing_unified. Qed.
Print Assumptions C13_tx_all_or_nothing_unified.

Theorem C13_tx_outcome_execute :
  forall (C E D : Type) (o : ops C E) (view : C -> D) (in_tx : C -> bool) (dapply : E -> D -> D),
  laws o view in_tx dapply -> tx_outcome o view in_tx dapply (execute_path o).
Proof. exact tx_outcome_execute. Qed.
Print Assumptions C13_tx_outcome_execute.

Theorem C13_tx_outcome_unified :
  forall (C E D : Type) (o : ops C E) (view : C -> D) (in_tx : C -> bool) (dapply : E -> D -> D),
  laws o view in_tx dapply -> tx_outcome o view in_tx dapply (unified_path o).
Proof. exact tx_outcome_unified. Qed.
Print Assumptions C13_tx_outcome_unified.

Theorem C13_stops_at_first_failure_execute :
  forall (C E : Type) (o : ops C E), stops_at_first_failure (execute_path o).
Proof. exact stops_at_first_failure_execute. Qed.
Print Assumptions C13_stops_at_first_failure_execute.

Theorem C13_stops_at_first_failure_unified :
  forall (C E : Type) (o : ops C E), stops_at_first_failure (unified_path o).
Proof. exact stops_at_first_failure_unified. Qed.
Print Assumptions C13_stops_at_first_failure_unified.

Theorem C13_results_match_execute :
  forall (C E : Type) (o : ops C E), results_match (execute_path o) (@exec_result E).
Proof. exact results_match_execute. Qed.
Print Assumptions C13_results_match_execute.

Theorem C13_results_match_unified :
  forall (C E : Type) (o : ops C E), results_match (unified_path o) (@uni_result E).
Proof. exact results_match_unified. Qed.
Print Assumptions C13_results_match_unified.

Theorem C13_rollback_on_error_no_effect_execute :
  forall (C E D : Type) (o : ops C E) (view : C -> D) (in_tx : C -> bool) (dapply : E -> D -> D),
  laws o view in_tx dapply -> rollback_on_error_no_effect view in_tx dapply (execute_path o).
Proof. exact rollback_on_error_no_effect_execute. Qed.
Print Assumptions C13_rollback_on_error_no_effect_execute.

Theorem C13_rollback_on_error_no_effect_unified :
  forall (C E D : Type) (o : ops C E) (view : C -> D) (in_tx : C -> bool) (dapply : E -> D -> D),
  laws o view in_tx dapply -> rollback_on_error_no_effect view in_tx dapply (unified_path o).
Proof. exact rollback_on_error_no_effect_unified. Qed.
Print Assumptions C13_rollback_on_error_no_effect_unified.

Theorem C13_snapshot_connection_laws :
  forall (D E : Type) (dapply : E -> D -> D) (commit_ok : D -> bool),
  laws (sn_ops dapply commit_ok) (@sn_view D) (@sn_in_tx D) dapply.
Proof. exact snapshot_laws. Qed.
Print Assumptions C13_snapshot_connection_laws.
