package store

// C31 driver.
//  (a) the real rsync.CheckAndSet.BeginWithRetry on a grid of (timeout, retry interval, release
//      time of a holder): result and elapsed time, against Model.C31.begin_with_retry;
//  (b) the real Store.Close with the snapshot gate held by a driver goroutine for 0 ms ... beyond
//      the wait limit: result, and how long after the holder's release Close took the gate
//      (white-box: snapshotCAS.Owner() turning "close"), against Model.C31.close_gate;
//  (c) the arguments of the BeginWithRetry("close", ...) call are parsed from store.go and handed
//      to the model, so a changed or swapped constant breaks the tie.
// Oracle (property text): close proceeds promptly once the holder finishes and fails only if the
// holder is still running after about ten seconds.  All timing thresholds are >= 5x away from
// what correct code does; a canary goroutine measures scheduling noise and noisy runs are
// repeated / reported inconclusive independently of the outcome.

import (
	"encoding/json"
	"errors"
	"fmt"
	"go/ast"
	"go/parser"
	"go/token"
	"strconv"
	"sync"
	"testing"
	"time"

	"github.com/rqlite/rqlite/v10/internal/rsync"
)

type c31Input struct {
	Kind      string `json:"kind"` // prim | close
	TimeoutMs int    `json:"timeout_ms,omitempty"`
	IntervalMs int   `json:"interval_ms,omitempty"`
	ReleaseMs int    `json:"release_ms"` // prim: holder releases after this (-1: gate free, -2: never); close: hold time
	SnapOnClose bool `json:"snap_on_close,omitempty"`
}

const c31Never = 1000000000

// ---------------------------------------------------------------- source constants

func c31EvalDur(e ast.Expr, consts map[string]ast.Expr, depth int) (time.Duration, bool) {
	if depth > 8 {
		return 0, false
	}
	switch x := e.(type) {
	case *ast.ParenExpr:
		return c31EvalDur(x.X, consts, depth+1)
	case *ast.BasicLit:
		if x.Kind == token.INT {
			n, err := strconv.ParseInt(x.Value, 0, 64)
			return time.Duration(n), err == nil
		}
	case *ast.SelectorExpr:
		if id, ok := x.X.(*ast.Ident); ok && id.Name == "time" {
			switch x.Sel.Name {
			case "Nanosecond":
				return time.Nanosecond, true
			case "Microsecond":
				return time.Microsecond, true
			case "Millisecond":
				return time.Millisecond, true
			case "Second":
				return time.Second, true
			case "Minute":
				return time.Minute, true
			case "Hour":
				return time.Hour, true
			}
		}
	case *ast.Ident:
		if v, ok := consts[x.Name]; ok {
			return c31EvalDur(v, consts, depth+1)
		}
	case *ast.CallExpr: // time.Duration(x)
		if len(x.Args) == 1 {
			return c31EvalDur(x.Args[0], consts, depth+1)
		}
	case *ast.BinaryExpr:
		a, ok1 := c31EvalDur(x.X, consts, depth+1)
		b, ok2 := c31EvalDur(x.Y, consts, depth+1)
		if !ok1 || !ok2 {
			return 0, false
		}
		switch x.Op {
		case token.MUL:
			return a * b, true
		case token.ADD:
			return a + b, true
		case token.SUB:
			return a - b, true
		case token.QUO:
			if b != 0 {
				return a / b, true
			}
		}
	}
	return 0, false
}

// c31CloseConstants returns the (timeout, retryInterval) arguments of the
// BeginWithRetry("close", ...) call in store.go, in milliseconds.
func c31CloseConstants() (timeoutMs, intervalMs int64, err error) {
	fset := token.NewFileSet()
	f, err := parser.ParseFile(fset, "store.go", nil, 0)
	if err != nil {
		return 0, 0, err
	}
	consts := map[string]ast.Expr{}
	for _, d := range f.Decls {
		gd, ok := d.(*ast.GenDecl)
		if !ok || (gd.Tok != token.CONST && gd.Tok != token.VAR) {
			continue
		}
		for _, sp := range gd.Specs {
			vs := sp.(*ast.ValueSpec)
			for i, n := range vs.Names {
				if i < len(vs.Values) {
					consts[n.Name] = vs.Values[i]
				}
			}
		}
	}
	found := 0
	ast.Inspect(f, func(n ast.Node) bool {
		ce, ok := n.(*ast.CallExpr)
		if !ok || len(ce.Args) != 3 {
			return true
		}
		sel, ok := ce.Fun.(*ast.SelectorExpr)
		if !ok || sel.Sel.Name != "BeginWithRetry" {
			return true
		}
		lit, ok := ce.Args[0].(*ast.BasicLit)
		if !ok || lit.Value != `"close"` {
			return true
		}
		found++
		t, ok1 := c31EvalDur(ce.Args[1], consts, 0)
		i, ok2 := c31EvalDur(ce.Args[2], consts, 0)
		if !ok1 || !ok2 {
			err = errors.New("cannot evaluate the arguments of BeginWithRetry(\"close\", ...)")
			return true
		}
		timeoutMs, intervalMs = int64(t/time.Millisecond), int64(i/time.Millisecond)
		return true
	})
	if found != 1 && err == nil {
		err = fmt.Errorf("%d BeginWithRetry(\"close\", ...) calls in store.go", found)
	}
	return
}

// ---------------------------------------------------------------- scheduling-noise canary

// c31Canary sleeps `step` repeatedly and reports the worst cumulative lateness of its wake-ups
// over the first n of them - the same pattern as the retry loop under test.
type c31Canary struct {
	worst time.Duration
	stop  chan struct{}
	done  chan struct{}
}

func c31StartCanary(step time.Duration) *c31Canary {
	c := &c31Canary{stop: make(chan struct{}), done: make(chan struct{})}
	go func() {
		defer close(c.done)
		start := time.Now()
		for k := 1; ; k++ {
			select {
			case <-c.stop:
				return
			default:
			}
			time.Sleep(step)
			late := time.Since(start) - time.Duration(k)*step
			if k <= 8 && late > c.worst {
				c.worst = late
			}
			if k > 8 {
				// keep measuring single-sleep lateness afterwards
				t0 := time.Now()
				time.Sleep(step)
				if l := time.Since(t0) - step; l > c.worst {
					c.worst = l
				}
			}
		}
	}()
	return c
}

func (c *c31Canary) Stop() time.Duration {
	close(c.stop)
	<-c.done
	return c.worst
}

// ---------------------------------------------------------------- (a) the primitive

type c31PrimObs struct {
	acquired   bool
	elapsed    time.Duration
	releasedAt time.Duration // actual release time relative to the call (0 if none)
	noise      time.Duration
}

func c31PrimOnce(in c31Input) c31PrimObs {
	timeout := time.Duration(in.TimeoutMs) * time.Millisecond
	interval := time.Duration(in.IntervalMs) * time.Millisecond
	cas := rsync.NewCheckAndSet()
	var obs c31PrimObs
	var wg sync.WaitGroup
	if in.ReleaseMs != -1 {
		if err := cas.Begin("holder"); err != nil {
			panic(err)
		}
	}
	can := c31StartCanary(interval)
	start := time.Now()
	stopHolder := make(chan struct{})
	if in.ReleaseMs >= 0 {
		wg.Add(1)
		go func() {
			defer wg.Done()
			select {
			case <-time.After(time.Until(start.Add(time.Duration(in.ReleaseMs) * time.Millisecond))):
			case <-stopHolder:
			}
			cas.End()
			obs.releasedAt = time.Since(start)
		}()
	}
	err := cas.BeginWithRetry("caller", timeout, interval)
	obs.elapsed = time.Since(start)
	obs.acquired = err == nil
	close(stopHolder)
	wg.Wait()
	obs.noise = can.Stop()
	return obs
}

func c31RunPrim(w *vWriter, in c31Input) {
	interval := time.Duration(in.IntervalMs) * time.Millisecond
	timeout := time.Duration(in.TimeoutMs) * time.Millisecond
	var obs c31PrimObs
	quiet, canaryQuiet := false, false
	for attempt := 0; attempt < 4 && !quiet; attempt++ {
		obs = c31PrimOnce(in)
		rel := time.Duration(in.ReleaseMs) * time.Millisecond
		lateRelease := in.ReleaseMs >= 0 && obs.acquired && obs.releasedAt-rel > interval/5
		canaryQuiet = obs.noise <= interval/5 && !lateRelease
		// the call returns right after a poll, and polls are due at multiples of the interval: a
		// return far from every multiple means this run's sleeps were stretched (whatever the outcome)
		onGrid := obs.elapsed%interval <= interval/4
		quiet = canaryQuiet && onGrid
	}
	key := fmt.Sprintf("prim:%d:%d:%d", in.TimeoutMs, in.IntervalMs, in.ReleaseMs)
	if !canaryQuiet { // (off-grid four times in a row with a quiet canary is reported as observed)
		w.Emit(VCase{Input: in, Key: key, Inconcl: fmt.Sprintf("scheduling noise %s exceeds a fifth of the %s interval in 4 attempts", obs.noise, interval), Tags: []string{"prim-noisy"}})
		return
	}
	release := uint64(0)
	switch {
	case in.ReleaseMs == -2:
		release = c31Never
	case in.ReleaseMs > 0:
		release = uint64(in.ReleaseMs)
	}
	ms := uint64(obs.elapsed / time.Millisecond)
	vc := VCase{Input: in, Key: key,
		Coq:        fmt.Sprintf("CasePrim %s %s %s %s %s", coqN(uint64(in.TimeoutMs)), coqN(uint64(in.IntervalMs)), coqN(release), coqBool(obs.acquired), coqN(ms)),
		Nontrivial: in.ReleaseMs > 0 && obs.acquired,
		Tags:       []string{"prim", fmt.Sprintf("prim-interval=%d", in.IntervalMs)}}
	// oracle from the property text: a holder that releases within the wait limit is waited for and the
	// caller proceeds within one retry interval of the release; the call fails only if the gate is
	// still held after the limit, and then within one interval of the limit
	rel := time.Duration(in.ReleaseMs) * time.Millisecond
	slack := interval / 2
	switch {
	case in.ReleaseMs == -1:
		if !obs.acquired || obs.elapsed > slack {
			vc.OracleFail, vc.Sig = fmt.Sprintf("free gate: acquired=%v after %s", obs.acquired, obs.elapsed), "C31:prim:free-gate"
		}
	case in.ReleaseMs >= 0 && rel < timeout:
		if !obs.acquired {
			vc.OracleFail, vc.Sig = fmt.Sprintf("holder released after %s, within the %s timeout, but the call failed after %s", rel, timeout, obs.elapsed), "C31:prim:failed-before-limit"
		} else if obs.elapsed < rel {
			vc.OracleFail, vc.Sig = fmt.Sprintf("acquired after %s, before the holder's release at %s", obs.elapsed, rel), "C31:prim:acquired-while-held"
		} else if obs.elapsed > obs.releasedAt+interval+slack {
			vc.OracleFail, vc.Sig = fmt.Sprintf("holder released after %s but the call (interval %s) returned only after %s", obs.releasedAt, interval, obs.elapsed), "C31:prim:slow-after-release"
		}
	case in.ReleaseMs == -2 || rel > timeout+interval:
		if obs.acquired {
			if in.ReleaseMs == -2 || obs.elapsed < rel {
				vc.OracleFail, vc.Sig = fmt.Sprintf("acquired after %s while the gate was held", obs.elapsed), "C31:prim:acquired-while-held"
			}
		} else if obs.elapsed <= timeout || obs.elapsed > timeout+interval+slack {
			vc.OracleFail, vc.Sig = fmt.Sprintf("timeout %s, interval %s: gave up after %s", timeout, interval, obs.elapsed), "C31:prim:limit"
		}
	}
	w.Emit(vc)
}

// ---------------------------------------------------------------- (b) Store.Close

func c31RunClose(t *testing.T, w *vWriter, in c31Input, srcT, srcI int64, srcErr error) {
	key := fmt.Sprintf("close:%d:%v", in.ReleaseMs, in.SnapOnClose)
	if srcErr != nil {
		w.Emit(VCase{Input: in, Key: key, Coq: fmt.Sprintf("CaseClose 0%%N 0%%N %s false false 0%%N", coqN(uint64(in.ReleaseMs))),
			OracleFail: "store.go: " + srcErr.Error(), Sig: "C31:close-call-site-not-found"})
		return
	}
	s, ln := mustNewStore(t)
	defer ln.Close()
	s.NoSnapshotOnClose = !in.SnapOnClose
	if err := s.Open(); err != nil {
		w.Emit(VCase{Input: in, Key: key, Inconcl: "open: " + err.Error()})
		return
	}
	if err := s.Bootstrap(NewServer(s.ID(), s.Addr(), true)); err != nil {
		w.Emit(VCase{Input: in, Key: key, Inconcl: "bootstrap: " + err.Error()})
		s.Close(true)
		return
	}
	if _, err := s.WaitForLeader(20 * time.Second); err != nil {
		w.Emit(VCase{Input: in, Key: key, Inconcl: "no leader: " + err.Error()})
		s.Close(true)
		return
	}
	hold := time.Duration(in.ReleaseMs) * time.Millisecond
	if hold > 0 {
		// wait for a startup integrity check, if any, to leave the gate
		for i := 0; i < 2000 && s.snapshotCAS.Begin("verif-holder") != nil; i++ {
			time.Sleep(5 * time.Millisecond)
		}
		if s.snapshotCAS.Owner() != "verif-holder" {
			w.Emit(VCase{Input: in, Key: key, Inconcl: "could not take the snapshot gate"})
			s.Close(true)
			return
		}
	}
	can := c31StartCanary(10 * time.Millisecond)
	start := time.Now()
	var releasedAt, tookGateAt time.Duration
	var wg sync.WaitGroup
	closeDone := make(chan struct{})
	if hold > 0 {
		wg.Add(2)
		go func() { // the in-flight operation
			defer wg.Done()
			time.Sleep(time.Until(start.Add(hold)))
			s.snapshotCAS.End()
			releasedAt = time.Since(start)
		}()
		go func() { // white-box observer: when does Close own the gate
			defer wg.Done()
			for {
				if s.snapshotCAS.Owner() == "close" {
					tookGateAt = time.Since(start)
					return
				}
				select {
				case <-closeDone:
					return
				default:
					time.Sleep(200 * time.Microsecond)
				}
			}
		}()
	}
	err := s.Close(true)
	closeTook := time.Since(start)
	close(closeDone)
	wg.Wait()
	noise := can.Stop()
	ok := err == nil
	if !ok && !errors.Is(err, rsync.ErrCASConflictTimeout) {
		w.Emit(VCase{Input: in, Key: key, Inconcl: "close failed for another reason: " + err.Error()})
		return
	}
	if !ok {
		// leave no store behind
		s.Close(true)
	}
	if noise > 500*time.Millisecond {
		w.Emit(VCase{Input: in, Key: key, Inconcl: fmt.Sprintf("scheduling noise %s", noise), Tags: []string{"close-noisy"}})
		return
	}
	// latency of taking the gate after the release (upper bound: return of Close if the observer missed it)
	var after time.Duration
	if ok && hold > 0 {
		if tookGateAt == 0 {
			tookGateAt = closeTook
		}
		after = tookGateAt - releasedAt
	}
	prompt := ok && after <= 100*time.Millisecond
	promptLoose := ok && after <= time.Second // oracle threshold: 100x the 10 ms poll, 10x below the defect
	gaveUp := uint64(0)
	if !ok {
		gaveUp = uint64(closeTook / time.Millisecond)
	}
	vc := VCase{Input: in, Key: key, Nontrivial: hold > 0 && ok,
		Coq: fmt.Sprintf("CaseClose %s %s %s %s %s %s", coqN(uint64(srcT)), coqN(uint64(srcI)), coqN(uint64(in.ReleaseMs)), coqBool(ok), coqBool(prompt || promptLoose), coqN(gaveUp)),
		Tags: []string{"close", fmt.Sprintf("close-hold=%d", in.ReleaseMs)}}
	switch {
	case hold <= 9*time.Second && !ok:
		vc.OracleFail = fmt.Sprintf("gate held for %s only, yet Close failed after %s: %v", hold, closeTook, err)
		vc.Sig = "C31:close-failed-before-limit"
	case hold <= 9*time.Second && hold > 0 && tookGateAt < releasedAt-5*time.Millisecond:
		vc.OracleFail = fmt.Sprintf("Close took the gate after %s, before the holder released it at %s", tookGateAt, releasedAt)
		vc.Sig = "C31:close-did-not-wait"
	case hold <= 9*time.Second && !promptLoose:
		vc.OracleFail = fmt.Sprintf("holder released the gate after %s; Close took it only %s later (Close returned after %s)", releasedAt, after, closeTook)
		vc.Sig = "C31:close-slow-after-release"
	case hold >= 11*time.Second && ok:
		vc.OracleFail = fmt.Sprintf("gate held for %s, Close succeeded after %s", hold, closeTook)
		vc.Sig = "C31:close-did-not-wait"
	case hold >= 11*time.Second && (closeTook < 9*time.Second || closeTook > 11500*time.Millisecond):
		vc.OracleFail = fmt.Sprintf("gate held for %s: Close gave up after %s, not after about ten seconds", hold, closeTook)
		vc.Sig = "C31:close-limit"
	}
	w.Emit(vc)
}

func TestVerif_C31(t *testing.T) {
	w := vOpen()
	defer w.Close()
	srcT, srcI, srcErr := c31CloseConstants()
	if raw := vReplayInput(); raw != nil {
		var in c31Input
		if err := json.Unmarshal(raw, &in); err != nil {
			t.Fatal(err)
		}
		if in.Kind == "close" {
			c31RunClose(t, w, in, srcT, srcI, srcErr)
		} else {
			c31RunPrim(w, in)
		}
		return
	}
	var wg sync.WaitGroup
	// (b) every Close scenario on its own store, concurrently with the grid
	holds := []int{0, 5, 50, 500, 2000, 11000}
	if vTier() == "thorough" {
		holds = append(holds, 1, 17, 150, 5000, 9000, 12000)
	}
	for i, h := range holds {
		in := c31Input{Kind: "close", ReleaseMs: h, SnapOnClose: i%3 == 2}
		wg.Add(1)
		go func() {
			defer wg.Done()
			c31RunClose(t, w, in, srcT, srcI, srcErr)
		}()
	}
	// (a) grid: timeouts and releases at half-interval offsets (never on a poll instant)
	intervals := []int{150, 250}
	reps := 1
	if vTier() == "thorough" {
		intervals = []int{120, 150, 200, 250, 400}
		reps = 4
	}
	sem := make(chan struct{}, 8)
	for rep := 0; rep < reps; rep++ {
		for _, iv := range intervals {
			for _, th := range []int{1, 3, 5, 7} { // timeout = th/2 intervals
				for _, rh := range []int{-1, -2, 1, 3, 5, 7, 9, 11} { // release = rh/2 intervals
					in := c31Input{Kind: "prim", TimeoutMs: th * iv / 2, IntervalMs: iv, ReleaseMs: rh}
					if rh > 0 {
						in.ReleaseMs = rh * iv / 2
					}
					wg.Add(1)
					sem <- struct{}{}
					go func() {
						defer wg.Done()
						defer func() { <-sem }()
						c31RunPrim(w, in)
					}()
				}
			}
		}
	}
	wg.Wait()
}
