package store

// C02 driver, part B2: non-idempotent writes through the proxy rule while the leader is deposed
// mid-write.
//
// Every client call inserts a row carrying a tag of its own (INSERT INTO seq(tag) - no uniqueness,
// so a statement applied twice shows).  The call goes to a store and, exactly as proxy.Execute /
// proxy.Request do, is sent on to the leader that store knows of when - and only when - the store
// answers ErrNotLeader.  The leader is made "deaf" (what it sends is delivered, the replies are
// lost), k writes are sent to it (appended and replicated, never committed there), it is then cut
// off until a successor holding those entries is elected and has committed them, and is
// re-connected: the successor's first message deposes it and raft fails the writes in flight.
// Observed per call: the class of what the store returned, whether the node's log had grown by
// the call's entry, whether the statement was sent on (Model.C02 execute_class / forwards), and at
// the end how many rows carry each tag.
// Oracle: a tag is never there twice; an acknowledged call's tag is there once; a call refused
// with "certainly not applied" left nothing; acked <= applied <= issued.

import (
	"context"
	"errors"
	"fmt"
	"strings"
	"testing"
	"time"

	"github.com/hashicorp/raft"
	"github.com/rqlite/rqlite/v10/command/proto"
)

type c02WriteIn struct {
	Kind  string `json:"kind"`  // "deposed-writes"
	K     int    `json:"k"`     // writes in flight when the leader is deposed
	Entry string `json:"entry"` // execute | request
	Round int    `json:"round"`
}

type c02Call struct {
	tag       int64
	class     string // WAcked | WNotLeader | WNotReady | WUnknown  (of the store the client talked to)
	final     string // what the client is told after the proxy rule
	forwarded bool
	appended  bool // the local node's log grew by an entry while the call was in flight
	leader    bool
	ready     bool
	errText   string
	done      chan struct{}
}

func c02WriteClass(err error) string {
	switch {
	case err == nil:
		return "WAcked"
	case errors.Is(err, ErrNotLeader):
		return "WNotLeader"
	case errors.Is(err, ErrNotReady):
		return "WNotReady"
	}
	return "WUnknown"
}

func c02Submit(s *Store, entry string, tag int64) error {
	sql := fmt.Sprintf("INSERT INTO seq(tag) VALUES(%d)", tag)
	ctx := context.Background()
	if entry == "request" {
		rs, _, _, err := s.Request(ctx, executeQueryRequestFromStrings([]string{sql}, proto.ConsistencyLevel_WEAK, false, false, false))
		if err == nil && (len(rs) != 1 || rs[0].GetError() != "") {
			return errors.New("statement failed")
		}
		return err
	}
	rs, _, err := s.Execute(ctx, executeRequestFromStrings([]string{sql}, false, false))
	if err == nil && (len(rs) != 1 || rs[0].GetError() != "") {
		return errors.New("statement failed")
	}
	return err
}

// c02ProxyCall is proxy.Execute / proxy.Request without the wire: the local store first; on
// ErrNotLeader, and only then, the leader the LOCAL store knows of.
func c02ProxyCall(c *vCluster, local *Store, entry string, call *c02Call) {
	defer close(call.done)
	call.leader, call.ready = local.IsLeader(), local.Ready()
	last := local.raft.LastIndex()
	err := c02Submit(local, entry, call.tag)
	call.appended = local.raft.LastIndex() > last
	call.class = c02WriteClass(err)
	call.final = call.class
	if err != nil {
		call.errText = err.Error()
	}
	if !errors.Is(err, ErrNotLeader) {
		return
	}
	addr, _ := local.LeaderAddr()
	if addr == "" || addr == local.Addr() {
		return // the proxy has nowhere to send it: the client is told "not leader"
	}
	for _, n := range c.nodes {
		if n.s != nil && n.s.Addr() == addr {
			call.forwarded = true
			call.final = c02WriteClass(c02Submit(n.s, entry, call.tag))
			return
		}
	}
}

func c02TagCounts(s *Store, lo, hi int64) (map[int64]int64, error) {
	qr := queryRequestFromString(fmt.Sprintf("SELECT tag, COUNT(*) FROM seq WHERE tag BETWEEN %d AND %d GROUP BY tag", lo, hi), false, false, false)
	qr.Level = proto.ConsistencyLevel_STRONG
	rows, _, _, err := s.Query(context.Background(), qr)
	if err != nil {
		return nil, err
	}
	out := map[int64]int64{}
	if len(rows) == 1 {
		for _, v := range rows[0].Values {
			out[v.Parameters[0].GetI()] = v.Parameters[1].GetI()
		}
	}
	return out, nil
}

var c02TagSeq int64 = 7000000

func c02DeposedWrites(w *vWriter, in c02WriteIn, g *c02Gated) {
	key := vJSON(in)
	tags := []string{"deposed-writes", fmt.Sprintf("k=%d", in.K), "entry=" + in.Entry}
	inconcl := func(why string) {
		g.heal()
		w.Emit(VCase{Input: in, Key: key, Inconcl: why, Tags: tags})
	}
	c := g.c
	g0 := c.nodes[2] // the node with the long lease
	others := c.nodes[:2]
	// make it the leader
	for i := 0; i < 4; i++ {
		ld := c.leader(20 * time.Second)
		if ld == nil {
			inconcl("no leader")
			return
		}
		if ld == g0 {
			break
		}
		ld.s.Stepdown(true, g0.s.ID())
		time.Sleep(200 * time.Millisecond)
	}
	if ld := c.leader(20 * time.Second); ld != g0 || !c.settle(g0, 15*time.Second) {
		inconcl("could not make the long-lease node the settled leader")
		return
	}
	old := g0.s
	idx0 := old.raft.LastIndex()

	// 1. deaf: its entries reach the followers, their answers do not reach it
	g.gates[g0].deaf.Store(true)
	var calls []*c02Call
	lo := c02TagSeq + 1
	for j := 0; j < in.K; j++ {
		c02TagSeq++
		cl := &c02Call{tag: c02TagSeq, done: make(chan struct{})}
		calls = append(calls, cl)
		go c02ProxyCall(c, old, in.Entry, cl)
	}
	hi := c02TagSeq
	want := idx0 + uint64(in.K)
	replicated := false
	for i := 0; i < 3000 && !replicated; i++ {
		replicated = true
		for _, n := range others {
			if n.s.raft.LastIndex() < want {
				replicated = false
			}
		}
		if !replicated {
			time.Sleep(time.Millisecond)
		}
	}
	if !replicated || old.raft.CommitIndex() >= idx0+1 {
		inconcl("the writes were not replicated-but-uncommitted")
		return
	}
	// 2. cut it off until a successor is elected and has committed the entries
	g.gates[g0].isolated.Store(true)
	var nl *vcNode
	for i := 0; i < 6000 && nl == nil; i++ {
		for _, n := range others {
			if n.s.raft.State() == raft.Leader && n.s.raft.CommitIndex() >= want {
				nl = n
			}
		}
		if nl == nil {
			time.Sleep(time.Millisecond)
		}
	}
	if nl == nil {
		inconcl("no successor committed the entries")
		return
	}
	stillLeader := old.raft.State() == raft.Leader
	// 3. re-connect: the successor's first message deposes it
	g.heal()
	for _, cl := range calls {
		select {
		case <-cl.done:
		case <-time.After(30 * time.Second):
			inconcl("a write call did not return")
			return
		}
	}
	if !stillLeader {
		inconcl("the old leader's lease ran out before it was re-connected")
		return
	}
	ld := c.leader(20 * time.Second)
	if ld == nil || !c.settle(ld, 15*time.Second) {
		inconcl("no settled leader afterwards")
		return
	}
	counts, err := c02TagCounts(ld.s, lo, hi)
	if err != nil {
		inconcl("could not count: " + err.Error())
		return
	}
	for i, cl := range calls {
		n := counts[cl.tag]
		ck := fmt.Sprintf("%s/call%d", key, i)
		cs := VCase{Input: in, Key: ck, Tags: append([]string{"class=" + cl.class, fmt.Sprintf("forwarded=%v", cl.forwarded), fmt.Sprintf("applied=%d", n)}, tags...),
			Nontrivial: cl.appended && cl.class != "WAcked",
			// how raft ended the future is known from the construction: the entry was in the log of a leader that was deposed
			Coq: fmt.Sprintf("CWrite {| ws_attempt := {| at_leader := %s; at_ready := %s; at_end := ALeadershipLost; at_appended := %s |}; ws_class := %s; ws_forwarded := %s |}",
				coqBool(cl.leader), coqBool(cl.ready), coqBool(cl.appended), cl.class, coqBool(cl.forwarded))}
		switch {
		case n > 1:
			cs.Sig = "C02:write-applied-twice-after-one-call"
			cs.OracleFail = fmt.Sprintf("one client call (tag %d, %s on the deposed leader: store answered %q, sent on to the new leader=%v, client told %s) took effect %d times", cl.tag, in.Entry, cl.errText, cl.forwarded, cl.final, n)
		case cl.final == "WAcked" && n != 1:
			cs.Sig = "C02:acknowledged-write-not-applied-once"
			cs.OracleFail = fmt.Sprintf("acknowledged call (tag %d) took effect %d times", cl.tag, n)
		case cl.class == "WNotLeader" && cl.appended:
			cs.Sig = "C02:write-reported-not-leader-but-appended"
			cs.OracleFail = fmt.Sprintf("store answered %q (nothing happened here) for tag %d although its log had grown by the entry; it took effect %d times", cl.errText, cl.tag, n)
		case (cl.final == "WNotLeader" || cl.final == "WNotReady") && !cl.forwarded && n != 0 && !cl.appended:
			cs.Sig = "C02:refused-write-applied"
			cs.OracleFail = fmt.Sprintf("call refused as certainly-not-applied (tag %d) took effect %d times", cl.tag, n)
		}
		w.Emit(cs)
	}
}

// c02TagAudit: after a workload, every tag at most once, acknowledged ones exactly once.
func c02TagAudit(s *Store, ops []c02Op) (string, string) {
	if len(ops) == 0 {
		return "", ""
	}
	lo, hi := ops[0].Val, ops[0].Val
	for _, o := range ops {
		if o.Val < lo {
			lo = o.Val
		}
		if o.Val > hi {
			hi = o.Val
		}
	}
	counts, err := c02TagCounts(s, lo, hi)
	if err != nil {
		return "", ""
	}
	acked, applied := 0, 0
	for _, o := range ops {
		n := counts[o.Val]
		if n > 0 {
			applied++
		}
		if o.Known {
			acked++
		}
		if n > 1 {
			return "C02:write-applied-twice-after-one-call", fmt.Sprintf("write of value %d (one client call, known outcome=%v) took effect %d times", o.Val, o.Known, n)
		}
		if o.Known && n != 1 {
			return "C02:acknowledged-write-not-applied-once", fmt.Sprintf("acknowledged write of value %d took effect %d times", o.Val, n)
		}
	}
	if !(acked <= applied && applied <= len(ops)) {
		return "C02:acked-applied-issued", fmt.Sprintf("acked %d, applied %d, issued %d", acked, applied, len(ops))
	}
	return "", strings.TrimSpace(fmt.Sprintf("acked=%d applied=%d issued=%d", acked, applied, len(ops)))
}

func c02RunDeposedWrites(t *testing.T, w *vWriter, ins []c02WriteIn) {
	g := c02NewGatedLease(t, true)
	if g == nil {
		w.Emit(VCase{Input: c02WriteIn{Kind: "deposed-writes"}, Key: "gated-long-lease-cluster", Inconcl: "gated cluster did not start"})
		return
	}
	defer g.c.close()
	for _, in := range ins {
		c02DeposedWrites(w, in, g)
	}
}
