package store

// C01 driver: generated SQL programs go through the real write processing (command/sql.Process, then
// Store.Execute) on a leader; the same committed log is then observed through every apply path:
// live apply on a second node, a node joining late (snapshot install + later entries), close and re-open of a
// node with its database file reused and with the file restored from the snapshot (entries after the snapshot
// are re-applied seconds later), and peers.json recovery of a copy of that node.  Observable: logical dump.

import (
	"crypto/sha1"
	"encoding/hex"
	"encoding/json"
	"fmt"
	"math/rand"
	"net"
	"os"
	"os/exec"
	"path/filepath"
	"reflect"
	"sort"
	"strings"
	"sync"
	"testing"
	"time"

	"context"

	"github.com/hashicorp/raft"
	"github.com/rqlite/rqlite/v10/command"
	"github.com/rqlite/rqlite/v10/command/proto"
	csql "github.com/rqlite/rqlite/v10/command/sql"
	rsql "github.com/rqlite/sql"
)

// ---------------------------------------------------------------- parser tree -> Model.C14.node (same conversion as the C14 driver)

type c01Node struct {
	K, S, F string
	A, E    []*c01Node
}

var c01PosType = reflect.TypeOf(rsql.Pos{})
var c01TokType = reflect.TypeOf(rsql.Token(0))
var c01PosIgnore = map[string]bool{
	"As": true, "Lparen": true, "Rparen": true, "ColumnsLparen": true, "ColumnsRparen": true,
	"NamePos": true, "ValuePos": true, "OpPos": true, "Pos": true, "Comma": true, "Dot": true,
	"SelectLparen": true, "SelectRparen": true, "Into": true, "Outer": true, "Row": true, "Column": true,
	"TableNamePos": true,
}

func c01IsNil(x any) bool {
	if x == nil {
		return true
	}
	v := reflect.ValueOf(x)
	switch v.Kind() {
	case reflect.Ptr, reflect.Interface, reflect.Slice, reflect.Map:
		return v.IsNil()
	}
	return false
}

func c01Tag(full string) string {
	h := sha1.Sum([]byte(full))
	d := hex.EncodeToString(h[:3])
	if strings.HasPrefix(full, "ExplainStatement") {
		return "X" + d[:5]
	}
	return d
}

func c01Conv(x any) *c01Node {
	if c01IsNil(x) {
		return nil
	}
	switch n := x.(type) {
	case *rsql.NumberLit:
		return &c01Node{K: "num", S: n.Value}
	case *rsql.StringLit:
		return &c01Node{K: "str", S: n.Value}
	case *rsql.BlobLit:
		return &c01Node{K: "blob", S: n.Value}
	case *rsql.Ident:
		return &c01Node{K: "ident", S: n.Name}
	case *rsql.NullLit:
		return &c01Node{K: "tok", S: "NULL"}
	case *rsql.BoolLit:
		return &c01Node{K: "tok", S: fmt.Sprint(n.Value)}
	case *rsql.BindExpr:
		return &c01Node{K: "tok", S: n.Name}
	case *rsql.Call:
		c := &c01Node{K: "call"}
		if n.Name != nil {
			c.S = n.Name.Name
		}
		if n.Star.IsValid() {
			c.F += "*"
		}
		if n.Distinct.IsValid() {
			c.F += "distinct"
		}
		for _, a := range n.Args {
			c.A = append(c.A, c01Conv(a))
		}
		if n.Filter != nil {
			c.E = append(c.E, c01Conv(n.Filter))
		}
		if n.Over != nil {
			c.E = append(c.E, c01Conv(n.Over))
		}
		return c
	case rsql.SelectExpr:
		return &c01Node{K: "n", S: c01Tag("SelectExpr"), A: []*c01Node{c01Conv(n.SelectStatement)}}
	}
	v := reflect.ValueOf(x)
	for v.Kind() == reflect.Ptr || v.Kind() == reflect.Interface {
		v = v.Elem()
	}
	t := v.Type()
	out := &c01Node{K: "n"}
	parts := []string{t.Name()}
	if v.Kind() != reflect.Struct {
		out.S = c01Tag(t.Name() + "=" + fmt.Sprint(v.Interface()))
		return out
	}
	for i := 0; i < t.NumField(); i++ {
		f, ft := v.Field(i), t.Field(i)
		if !ft.IsExported() {
			continue
		}
		switch {
		case f.Type() == c01PosType:
			if f.Interface().(rsql.Pos).IsValid() && !c01PosIgnore[ft.Name] {
				parts = append(parts, ft.Name)
			}
		case f.Type() == c01TokType:
			parts = append(parts, ft.Name+"="+f.Interface().(rsql.Token).String())
		case f.Kind() == reflect.Bool:
			if f.Bool() {
				parts = append(parts, ft.Name)
			}
		case f.Kind() == reflect.String:
			parts = append(parts, ft.Name+"="+f.String())
		case f.Kind() == reflect.Slice:
			if f.Len() > 0 {
				parts = append(parts, fmt.Sprintf("%s:%d", ft.Name, f.Len()))
			}
			for j := 0; j < f.Len(); j++ {
				if c := c01Conv(f.Index(j).Interface()); c != nil {
					out.A = append(out.A, c)
				}
			}
		case f.Kind() == reflect.Ptr || f.Kind() == reflect.Interface:
			if !f.IsNil() {
				parts = append(parts, ft.Name)
				if c := c01Conv(f.Interface()); c != nil {
					out.A = append(out.A, c)
				}
			}
		case f.Kind() == reflect.Struct:
			parts = append(parts, ft.Name)
			out.A = append(out.A, c01Conv(f.Interface()))
		}
	}
	out.S = c01Tag(strings.Join(parts, " "))
	switch x.(type) {
	case *rsql.OrderingTerm:
		out.K = "ord"
	case *rsql.ReturningClause:
		out.K = "ret"
	}
	return out
}

func c01Parse(text string) *c01Node {
	var st rsql.Statement
	var err error
	func() {
		defer func() {
			if r := recover(); r != nil {
				err = fmt.Errorf("panic: %v", r)
			}
		}()
		st, err = rsql.NewParser(strings.NewReader(text)).ParseStatement()
	}()
	if err != nil || st == nil {
		return nil
	}
	return c01Conv(st)
}

func (n *c01Node) coq() string {
	l := func(ns []*c01Node) string {
		it := make([]string, len(ns))
		for i, c := range ns {
			it[i] = c.coq()
		}
		return coqList(it)
	}
	switch n.K {
	case "num":
		return "Leaf KNum " + coqStr(n.S)
	case "str":
		return "Leaf KStr " + coqStr(n.S)
	case "blob":
		return "Leaf KBlob " + coqStr(n.S)
	case "ident":
		return "Leaf KIdent " + coqStr(n.S)
	case "tok":
		return "Leaf KTok " + coqStr(n.S)
	case "call":
		return fmt.Sprintf("Call %s %s %s %s", coqStr(n.S), coqStr(n.F), l(n.A), l(n.E))
	case "ord":
		return fmt.Sprintf("Ord %s %s", coqStr(n.S), l(n.A))
	case "ret":
		return "Ret " + l(n.A)
	}
	return fmt.Sprintf("Nd %s %s", coqStr(n.S), l(n.A))
}

func c01OptTree(n *c01Node) string {
	if n == nil {
		return "None"
	}
	return "(Some (" + n.coq() + "))"
}

// ---------------------------------------------------------------- programs

type c01Stmt struct {
	SQL   string `json:"sql"`
	Param *int64 `json:"param,omitempty"` // value of the single positional parameter, if the statement has one
}
type c01Req struct {
	Tx      bool      `json:"tx,omitempty"`
	Stmts   []c01Stmt `json:"stmts,omitempty"`
	BadLoad string    `json:"bad_load,omitempty"` // instead of statements: a load of unreadable data, committed and refused by every node
}
type c01Input struct {
	Reqs     []c01Req `json:"reqs"`      // the program proper
	SnapAt   int      `json:"snap_at"`   // follower snapshots after this many requests (its restart re-applies the rest)
	TailReqs []c01Req `json:"tail_reqs"` // sent after the leader truncated its log and the third node joined
	Session  string   `json:"session,omitempty"` // "within-segments": session state is created and used between two snapshot points; "across-snapshot": known finding
	GapS     int      `json:"gap_s,omitempty"`   // > 0: the long-gap scenario instead (nodes idle that many seconds between two dependent entries)
}

type c01Gen struct{ r *rand.Rand }

func (g *c01Gen) pick(xs ...string) string { return xs[g.r.Intn(len(xs))] }
func (g *c01Gen) fn(name string) string {
	switch g.r.Intn(8) {
	case 0:
		name = strings.ToUpper(name)
	case 1:
		name = strings.ToUpper(name[:1]) + name[1:]
	}
	switch g.r.Intn(12) {
	case 0:
		name += g.pick(" ", "\t", "  ")
	case 1:
		name += g.pick("/**/", " /* c */ ", " -- c\n")
	case 2:
		name = `"` + name + `"`
	case 3:
		// the other white space SQLite's tokenizer accepts
		name += g.pick("\n", "\r", "\f", "\r\n", "\f ")
	}
	return name
}

// an expression whose value depends on the clock (sub-second forms mostly) or on the random generator
func (g *c01Gen) nondet() string {
	s := g.nondet0()
	// 'now' in any letter case, or as a double-quoted identifier
	if strings.Contains(s, "'now'") && g.r.Intn(3) == 0 {
		s = strings.Replace(s, "'now'", g.pick("'NOW'", "'Now'", `"now"`, "'nOw'"), 1)
	}
	return s
}

func (g *c01Gen) nondet0() string {
	mod := func() string { return g.pick("", "", ", '+1 day'", ", 'subsec'", ", '-3 hours', 'subsec'") }
	switch g.r.Intn(16) {
	case 0:
		return g.fn("julianday") + "('now'" + mod() + ")"
	case 1:
		return g.fn("julianday") + "()"
	case 2:
		return g.fn("unixepoch") + "('now', 'subsec')"
	case 3:
		return g.fn("unixepoch") + "('subsec')"
	case 4:
		return g.fn("strftime") + "('%Y-%m-%d %H:%M:%f')"
	case 5:
		return g.fn("strftime") + "(" + g.pick("'%J'", "'%f'", "'%s'") + ", " + g.pick("'now'", "'NOW'", `"now"`, "'subsecond'") + ")"
	case 6:
		return g.fn("datetime") + "(" + g.pick("'now', 'subsec'", "'subsec'", "", "'now'") + ")"
	case 7:
		return g.fn("time") + "(" + g.pick("", "'now'", "'now', 'subsec'") + ")"
	case 8:
		return g.fn("date") + "(" + g.pick("", "'now'", "'now', '+1 day'") + ")"
	case 9:
		return g.fn("timediff") + "(" + g.pick("'now', '2000-01-01'", "'2000-01-01 00:00:00', 'subsec'") + ")"
	case 10, 11:
		return g.fn("random") + "()"
	case 12:
		return "abs(" + g.fn("random") + "()) % 1000"
	case 13:
		return "hex(" + g.fn("randomblob") + "(" + g.pick("4", "8", "1") + "))"
	case 14:
		return g.fn("randomblob") + "(3)"
	default:
		return g.fn("unixepoch") + "()"
	}
}

func (g *c01Gen) expr(d int) string {
	if d <= 0 || g.r.Intn(3) == 0 {
		if g.r.Intn(5) == 0 {
			return g.pick("1", "'x'", "2.5", "NULL", "'random()'", "'julianday(''now'')'")
		}
		return g.nondet()
	}
	switch g.r.Intn(8) {
	case 0:
		return "coalesce(" + g.expr(d-1) + ", 0)"
	case 1:
		return "(" + g.expr(d-1) + ") || '-' || (" + g.expr(d-1) + ")"
	case 2:
		return "CASE WHEN 1 THEN " + g.expr(d-1) + " ELSE " + g.expr(d-1) + " END"
	case 3:
		return "(SELECT " + g.expr(d-1) + ")"
	case 4:
		return "typeof(" + g.expr(d-1) + ") || ':' || (" + g.expr(d-1) + ")"
	case 5:
		return "(" + g.expr(d-1) + ") IS NOT NULL"
	case 6:
		return "(SELECT max(x) FROM u WHERE (" + g.expr(d-1) + ") NOTNULL)"
	default:
		return "CAST(" + g.expr(d-1) + " AS TEXT)"
	}
}

func (g *c01Gen) stmt(i int) c01Stmt {
	d := g.r.Intn(3)
	switch g.r.Intn(14) {
	case 0, 1, 2:
		return c01Stmt{SQL: "INSERT INTO t(a, b) VALUES (" + g.expr(d) + ", " + g.expr(d) + ")"}
	case 3:
		return c01Stmt{SQL: "INSERT INTO t(a, b) VALUES (" + g.expr(d) + ", 1), (" + g.expr(d) + ", 2)"}
	case 4:
		return c01Stmt{SQL: "INSERT INTO t(a, b) SELECT " + g.expr(d) + ", x FROM u" + g.pick("", " WHERE x > 1", " ORDER BY x DESC", " ORDER BY "+g.fn("julianday")+"('now'), x")}
	case 5:
		return c01Stmt{SQL: "UPDATE t SET a = " + g.expr(d) + g.pick("", " WHERE id % 2 = 0", " WHERE id = (SELECT min(id) FROM t)", ", b = "+g.expr(d))}
	case 6:
		return c01Stmt{SQL: "INSERT INTO t(id, a) VALUES (" + g.pick("1", "2", "50") + ", " + g.expr(d) + ") ON CONFLICT(id) DO UPDATE SET b = " + g.expr(d)}
	case 7:
		return c01Stmt{SQL: "WITH k(v) AS (SELECT " + g.expr(d) + ") INSERT INTO t(a, b) SELECT v, " + g.expr(d) + " FROM k"}
	case 8:
		p := int64(g.r.Intn(100))
		return c01Stmt{SQL: "INSERT INTO t(a, b) VALUES (?, " + g.expr(d) + ")", Param: &p}
	case 9:
		return c01Stmt{SQL: "DELETE FROM t WHERE id = (SELECT max(id) FROM t) AND (" + g.expr(d) + ") IS NOT NULL"}
	case 10:
		return c01Stmt{SQL: g.pick("INSERT INTO u(x) VALUES (7)", "UPDATE u SET x = x + 1 WHERE id = 1", "INSERT INTO t(a, b) VALUES ('plain', 0)", "DELETE FROM t WHERE id = 3")}
	case 11:
		return c01Stmt{SQL: fmt.Sprintf("CREATE TABLE IF NOT EXISTS x%d (id INTEGER PRIMARY KEY, v, w DEFAULT 5)", g.r.Intn(3))}
	case 12:
		return c01Stmt{SQL: "INSERT INTO t(a, b) VALUES (" + g.expr(d) + ", 'r') RETURNING id, a"}
	default:
		return c01Stmt{SQL: fmt.Sprintf("CREATE INDEX IF NOT EXISTS t_a%d ON t(%s)", g.r.Intn(2), g.pick("a", "b", "a, b"))}
	}
}

func (g *c01Gen) reqs(n int) []c01Req {
	var out []c01Req
	for i := 0; i < n; i++ {
		r := c01Req{Tx: g.r.Intn(10) < 3}
		for j := 0; j <= g.r.Intn(3); j++ {
			r.Stmts = append(r.Stmts, g.stmt(i))
		}
		out = append(out, r)
	}
	return out
}

// two requests of which the second depends on state the first leaves on the SQLite connection
func (g *c01Gen) sessionPair(k int) (c01Req, c01Req, bool) {
	switch g.r.Intn(3) {
	case 0:
		tt := fmt.Sprintf("tt%d", k)
		return c01Req{Stmts: []c01Stmt{{SQL: "CREATE TEMP TABLE " + tt + " (v)"}, {SQL: "INSERT INTO " + tt + " VALUES (" + g.expr(1) + ")"}}},
			c01Req{Stmts: []c01Stmt{{SQL: "INSERT INTO t(a, b) SELECT v, 'tmp' FROM " + tt}}}, false
	case 1:
		return c01Req{Stmts: []c01Stmt{{SQL: fmt.Sprintf("INSERT INTO u(x) VALUES (%d)", 70+k)}}},
			c01Req{Stmts: []c01Stmt{{SQL: "INSERT INTO t(a, b) VALUES (last_insert_rowid(), changes())"}}}, false
	default:
		// a transaction left open by one request and committed by the next
		return c01Req{Stmts: []c01Stmt{{SQL: "BEGIN"}, {SQL: "INSERT INTO t(a, b) VALUES ('intx', " + g.expr(1) + ")"}}},
			c01Req{Stmts: []c01Stmt{{SQL: "INSERT INTO t(a, b) VALUES ('intx2', 1)"}, {SQL: "COMMIT"}}}, true
	}
}

func c01Insert(seg []c01Req, at int, r c01Req) []c01Req {
	out := append([]c01Req{}, seg[:at]...)
	out = append(out, r)
	return append(out, seg[at:]...)
}

func c01GenInput(r *rand.Rand) c01Input {
	g := &c01Gen{r: r}
	n := 4 + r.Intn(6)
	snapAt := 1 + r.Intn(n-1)
	reqs := g.reqs(n)
	segs := [][]c01Req{reqs[:snapAt], reqs[snapAt:], g.reqs(1 + r.Intn(2))}
	in := c01Input{}
	// session state never crosses a snapshot point: both requests of a pair lie in the same segment
	npairs := []int{0, 1, 1, 1, 2}[r.Intn(5)]
	for k := 0; k < npairs; k++ {
		a, b, adjacent := g.sessionPair(k)
		si := r.Intn(3)
		seg := segs[si]
		i := r.Intn(len(seg) + 1)
		j := i + 1
		if !adjacent {
			j += r.Intn(len(seg) + 1 - i)
		}
		seg = c01Insert(seg, i, a)
		seg = c01Insert(seg, j, b)
		segs[si] = seg
		in.Session = "within-segments"
	}
	// a load every node refuses, somewhere after the follower's snapshot
	if r.Intn(10) < 4 {
		segs[1] = c01Insert(segs[1], r.Intn(len(segs[1])+1), c01Req{BadLoad: vfBadKinds[r.Intn(len(vfBadKinds))]})
	}
	in.Reqs = append(append([]c01Req{}, segs[0]...), segs[1]...)
	in.SnapAt = len(segs[0])
	in.TailReqs = segs[2]
	return in
}

var c01Setup = []string{
	`CREATE TABLE t (id INTEGER PRIMARY KEY, a, b)`,
	`CREATE TABLE u (id INTEGER PRIMARY KEY, x)`,
	`INSERT INTO u(x) VALUES (1), (2), (3)`,
	`INSERT INTO t(a, b) VALUES ('seed', 0)`,
}

// ---------------------------------------------------------------- observation

// logical dump: schema objects and every row of every table, each value with its type
func c01Dump(s *Store) (string, error) {
	q := func(sq string) (*proto.QueryRows, error) {
		r, err := vfQuery(s, sq)
		if err != nil {
			return nil, err
		}
		if r[0].Error != "" {
			return nil, fmt.Errorf("%s: %s", sq, r[0].Error)
		}
		return r[0], nil
	}
	var sb strings.Builder
	render := func(rows *proto.QueryRows) {
		for _, vs := range rows.Values {
			for _, p := range vs.Parameters {
				switch v := p.GetValue().(type) {
				case *proto.Parameter_I:
					fmt.Fprintf(&sb, "i:%d|", v.I)
				case *proto.Parameter_D:
					fmt.Fprintf(&sb, "d:%v|", v.D)
				case *proto.Parameter_S:
					fmt.Fprintf(&sb, "s:%q|", v.S)
				case *proto.Parameter_Y:
					fmt.Fprintf(&sb, "y:%x|", v.Y)
				case *proto.Parameter_B:
					fmt.Fprintf(&sb, "b:%v|", v.B)
				default:
					sb.WriteString("null|")
				}
			}
			sb.WriteString("\n")
		}
	}
	m, err := q("SELECT type, name, tbl_name, sql FROM sqlite_master ORDER BY name")
	if err != nil {
		return "", err
	}
	render(m)
	var tables []string
	for _, vs := range m.Values {
		if vs.Parameters[0].GetS() == "table" {
			tables = append(tables, vs.Parameters[1].GetS())
		}
	}
	sort.Strings(tables)
	for _, tb := range tables {
		rows, err := q(fmt.Sprintf("SELECT * FROM %q ORDER BY id", tb))
		if err != nil {
			return "", err
		}
		sb.WriteString("== " + tb + "\n")
		render(rows)
	}
	return sb.String(), nil
}

func c01Digest(d string) string {
	h := sha1.Sum([]byte(d))
	return hex.EncodeToString(h[:8])
}

func c01FirstDiff(a, b string) string {
	la, lb := strings.Split(a, "\n"), strings.Split(b, "\n")
	for i := 0; i < len(la) || i < len(lb); i++ {
		x, y := "", ""
		if i < len(la) {
			x = la[i]
		}
		if i < len(lb) {
			y = lb[i]
		}
		if x != y {
			return fmt.Sprintf("line %d: %q vs %q", i, x, y)
		}
	}
	return "equal"
}

// c01WaitApplied waits until the node's state machine has applied the command at index idx (raft's AppliedIndex
// runs ahead of the FSM goroutine, so the store's own FSM index is what counts)
func c01WaitApplied(s *Store, idx uint64, d time.Duration) error {
	dl := time.Now().Add(d)
	for time.Now().Before(dl) {
		if s.fsmIdx.Load() >= idx {
			return nil
		}
		time.Sleep(20 * time.Millisecond)
	}
	return fmt.Errorf("node %s: fsm index %d, waiting for %d", s.raftID, s.fsmIdx.Load(), idx)
}

// c01WaitRaft waits for raft's applied index (configuration entries never reach the FSM)
func c01WaitRaft(s *Store, idx uint64, d time.Duration) error {
	dl := time.Now().Add(d)
	for time.Now().Before(dl) {
		if s.raft.AppliedIndex() >= idx {
			return nil
		}
		time.Sleep(20 * time.Millisecond)
	}
	return fmt.Errorf("node %s: applied index %d, waiting for %d", s.raftID, s.raft.AppliedIndex(), idx)
}

type c01Logged struct {
	sent   string
	logged string
}

// the leader's write path: the processing the HTTP layer does, then Execute
func c01Send(s *Store, r c01Req, rec *[]c01Logged, written *int) (uint64, error) {
	stmts := make([]*proto.Statement, len(r.Stmts))
	for i, st := range r.Stmts {
		stmts[i] = &proto.Statement{Sql: st.SQL}
		if st.Param != nil {
			stmts[i].Parameters = []*proto.Parameter{{Value: &proto.Parameter_I{I: *st.Param}}}
		}
	}
	if err := csql.Process(stmts, true, true); err != nil {
		return 0, err
	}
	res, idx, err := s.Execute(context.Background(), &proto.ExecuteRequest{Request: &proto.Request{Statements: stmts, Transaction: r.Tx}})
	if err != nil {
		return 0, err
	}
	for i := range r.Stmts {
		*rec = append(*rec, c01Logged{sent: r.Stmts[i].SQL, logged: stmts[i].Sql})
		if i < len(res) && stmts[i].Sql != r.Stmts[i].SQL {
			if e := res[i].GetE(); e != nil && e.RowsAffected > 0 {
				*written++
			} else if q := res[i].GetQ(); q != nil && len(q.Values) > 0 {
				*written++
			}
		}
	}
	return idx, nil
}

// a scenario that could not be evaluated (no stable leader in time on a loaded machine, ...) is tried again
func c01Run(w *vWriter, in c01Input) {
	var vc VCase
	for try := 0; try < 3; try++ {
		vc = c01Try(in)
		if vc.Inconcl == "" {
			break
		}
	}
	w.Emit(vc)
}

// The long-gap scenario: the live nodes apply an entry that leaves state on the SQLite connection, apply nothing for
// GapS seconds, then apply an entry that uses the state; a node joining afterwards, a restart without any snapshot and
// a peers.json recovery apply the same two entries back to back.  "Regardless of when or how fast each node applies them."
func c01Gap(in c01Input) (vc VCase) {
	vc = VCase{Input: in, Key: vJSON(in), Tags: []string{fmt.Sprintf("idle-gap=%ds", in.GapS)}}
	inconcl := func(format string, a ...any) { vc.Inconcl = fmt.Sprintf(format, a...) }
	root, err := os.MkdirTemp("", "c01gap-")
	if err != nil {
		inconcl("tempdir: %v", err)
		return
	}
	defer os.RemoveAll(root)
	var open []*Store
	defer func() {
		for _, s := range open {
			s.NoSnapshotOnClose = true
			s.Close(true)
			s.ly.Close()
		}
	}()
	mk := func(id string, ln net.Listener) (*Store, error) {
		s := vfNewClusterStore(id, filepath.Join(root, id), false, ln)
		s.SnapshotThreshold = 1 << 20 // never snapshot on its own: the later paths replay the whole log
		if err := s.Open(); err != nil {
			return nil, err
		}
		open = append(open, s)
		return s, nil
	}
	s0, err := mk("n0", nil)
	if err != nil {
		inconcl("open n0: %v", err)
		return
	}
	if err := s0.Bootstrap(NewServer(s0.ID(), s0.Addr(), true)); err != nil {
		inconcl("bootstrap: %v", err)
		return
	}
	if _, err := s0.WaitForLeader(15 * time.Second); err != nil {
		inconcl("leader: %v", err)
		return
	}
	s1, err := mk("n1", nil)
	if err != nil {
		inconcl("open n1: %v", err)
		return
	}
	if err := s0.Join(joinRequest(s1.ID(), s1.Addr(), true)); err != nil {
		inconcl("join n1: %v", err)
		return
	}
	if err := c01WaitRaft(s1, s0.raft.LastIndex(), 15*time.Second); err != nil {
		inconcl("%v", err)
		return
	}
	var rec []c01Logged
	written := 0
	var last uint64
	send := func(stmts ...string) error {
		r := c01Req{}
		for _, q := range stmts {
			r.Stmts = append(r.Stmts, c01Stmt{SQL: q})
		}
		idx, err := c01Send(s0, r, &rec, &written)
		if err == nil {
			last = idx
		}
		return err
	}
	if err := send(c01Setup...); err != nil {
		inconcl("setup: %v", err)
		return
	}
	// entry that leaves session state: a TEMP table, last_insert_rowid(), changes()
	if err := send(`CREATE TEMP TABLE g1 (v)`, `INSERT INTO g1 VALUES (41), (julianday('now'))`, `INSERT INTO t(a, b) VALUES ('before-gap', random())`); err != nil {
		inconcl("entry 1: %v", err)
		return
	}
	time.Sleep(time.Duration(in.GapS) * time.Second)
	if err := send(`INSERT INTO t(a, b) SELECT v, last_insert_rowid() FROM g1`, `INSERT INTO t(a, b) VALUES (changes(), 'after-gap')`); err != nil {
		inconcl("entry 2: %v", err)
		return
	}
	if err := c01WaitApplied(s1, last, 15*time.Second); err != nil {
		inconcl("%v", err)
		return
	}
	paths, dumps := []string{}, []string{}
	add := func(name string, s *Store) bool {
		d, err := c01Dump(s)
		if err != nil {
			inconcl("dump %s: %v", name, err)
			return false
		}
		paths, dumps = append(paths, name), append(dumps, d)
		return true
	}
	if !add("leader", s0) || !add("follower-live", s1) {
		return
	}
	// a node joining now gets the whole log (no snapshot exists) and applies it back to back
	s2, err := mk("n2", nil)
	if err != nil {
		inconcl("open n2: %v", err)
		return
	}
	if err := s0.Join(joinRequest(s2.ID(), s2.Addr(), true)); err != nil {
		inconcl("join n2: %v", err)
		return
	}
	if err := c01WaitApplied(s2, last, 20*time.Second); err != nil {
		inconcl("%v", err)
		return
	}
	if !add("late-join-replay", s2) {
		return
	}
	// restart of the follower: no snapshot, the whole log is applied again back to back
	addr1 := s1.Addr()
	s1.NoSnapshotOnClose = true
	if err := s1.Close(true); err != nil {
		inconcl("close n1: %v", err)
		return
	}
	cp := filepath.Join(root, "n1-copy")
	if out, err := exec.Command("cp", "-a", filepath.Join(root, "n1"), cp).CombinedOutput(); err != nil {
		inconcl("cp: %v %s", err, out)
		return
	}
	var ln net.Listener
	for i := 0; i < 50; i++ {
		if ln, err = net.Listen("tcp", addr1); err == nil {
			break
		}
		time.Sleep(50 * time.Millisecond)
	}
	if err != nil {
		inconcl("listen: %v", err)
		return
	}
	s1b, err := mk("n1", ln)
	if err != nil {
		inconcl("re-open n1: %v", err)
		return
	}
	if err := c01WaitApplied(s1b, last, 20*time.Second); err != nil {
		inconcl("%v", err)
		return
	}
	if !add("restart-replay", s1b) {
		return
	}
	// peers.json recovery of the copy: RecoverNode replays the whole log back to back
	sr := vfNewStore("n1", cp, false, nil)
	if err := os.WriteFile(sr.peersPath, []byte(fmt.Sprintf(`[{"id": "n1", "address": "%s"}]`, sr.ly.Addr().String())), 0644); err != nil {
		inconcl("peers: %v", err)
		return
	}
	if err := sr.Open(); err != nil {
		inconcl("recovery open: %v", err)
		return
	}
	open = append(open, sr)
	if !add("recovered", sr) {
		return
	}
	var progCoq, digests []string
	for _, l := range rec {
		progCoq = append(progCoq, c01StmtCoq(l))
	}
	for _, d := range dumps {
		digests = append(digests, coqStr(c01Digest(d)))
	}
	vc.Coq = fmt.Sprintf("{| c_prog := %s; c_dumps := %s |}", coqList(progCoq), coqList(digests))
	vc.Nontrivial = true
	vc.Tags = append(vc.Tags, "session-state:across-idle-gap")
	for i := 1; i < len(dumps); i++ {
		if dumps[i] != dumps[0] {
			vc.OracleFail = fmt.Sprintf("after the live nodes were idle for %d s between two dependent entries, %s (which applied them back to back) differs from the leader: %s", in.GapS, paths[i], c01FirstDiff(dumps[0], dumps[i]))
			vc.Sig = "C01:diverged:" + paths[i] + ":after-idle-gap"
			break
		}
	}
	return vc
}

func c01Try(in c01Input) (vc VCase) {
	if in.GapS > 0 {
		return c01Gap(in)
	}
	vc = VCase{Input: in, Key: vJSON(in)}
	inconcl := func(format string, a ...any) {
		vc.Inconcl = fmt.Sprintf(format, a...)
	}
	root, err := os.MkdirTemp("", "c01-")
	if err != nil {
		inconcl("tempdir: %v", err)
		return
	}
	defer os.RemoveAll(root)
	var open []*Store
	defer func() {
		for _, s := range open {
			s.NoSnapshotOnClose = true
			s.Close(true)
			s.ly.Close()
		}
	}()
	mk := func(id string) (*Store, error) {
		s := vfNewClusterStore(id, filepath.Join(root, id), false, nil)
		if err := s.Open(); err != nil {
			return nil, err
		}
		open = append(open, s)
		return s, nil
	}
	s0, err := mk("n0")
	if err != nil {
		inconcl("open n0: %v", err)
		return
	}
	if err := s0.Bootstrap(NewServer(s0.ID(), s0.Addr(), true)); err != nil {
		inconcl("bootstrap: %v", err)
		return
	}
	if _, err := s0.WaitForLeader(10 * time.Second); err != nil {
		inconcl("leader: %v", err)
		return
	}
	s1, err := mk("n1")
	if err != nil {
		inconcl("open n1: %v", err)
		return
	}
	if err := s0.Join(joinRequest(s1.ID(), s1.Addr(), true)); err != nil {
		inconcl("join n1: %v", err)
		return
	}
	if err := c01WaitRaft(s1, s0.raft.LastIndex(), 15*time.Second); err != nil {
		inconcl("%v", err)
		return
	}
	var rec []c01Logged
	written := 0
	var last uint64
	send := func(r c01Req) error {
		if r.BadLoad != "" {
			idx, err := vfExec(s0, vfStep{Kind: "badload", Bad: r.BadLoad})
			if err == nil {
				last = idx
				vc.Tags = append(vc.Tags, "rejected-load")
			}
			return err
		}
		idx, err := c01Send(s0, r, &rec, &written)
		if err == nil {
			last = idx
		}
		return err
	}
	if err := send(c01Req{Stmts: func() []c01Stmt {
		var o []c01Stmt
		for _, q := range c01Setup {
			o = append(o, c01Stmt{SQL: q})
		}
		return o
	}()}); err != nil {
		inconcl("setup: %v", err)
		return
	}
	for i, r := range in.Reqs {
		if i == in.SnapAt {
			if err := c01WaitApplied(s1, last, 10*time.Second); err != nil {
				inconcl("%v", err)
				return
			}
			if err := s1.Snapshot(0); err != nil && err != ErrNothingNewToSnapshot && err != ErrNoWALToSnapshot {
				inconcl("snapshot on follower: %v", err)
				return
			}
		}
		if err := send(r); err != nil {
			inconcl("execute: %v", err)
			return
		}
	}
	t0 := time.Now()
	// the leader snapshots and truncates its log; a third node joins and is sent the snapshot, then the tail
	if err := s0.Snapshot(1); err != nil && err != ErrNothingNewToSnapshot && err != ErrNoWALToSnapshot {
		inconcl("snapshot on leader: %v", err)
		return
	}
	s2, err := mk("n2")
	if err != nil {
		inconcl("open n2: %v", err)
		return
	}
	if err := s0.Join(joinRequest(s2.ID(), s2.Addr(), true)); err != nil {
		inconcl("join n2: %v", err)
		return
	}
	for _, r := range in.TailReqs {
		if err := send(r); err != nil {
			inconcl("execute (tail): %v", err)
			return
		}
	}
	for _, s := range []*Store{s1, s2} {
		if err := c01WaitApplied(s, last, 15*time.Second); err != nil {
			inconcl("%v", err)
			return
		}
	}
	paths := []string{"leader", "follower-live", "late-join"}
	dumps := []string{}
	for _, s := range []*Store{s0, s1, s2} {
		d, err := c01Dump(s)
		if err != nil {
			inconcl("dump: %v", err)
			return
		}
		dumps = append(dumps, d)
	}
	installed := s2.numSnapshotsInstalled()
	// restart of the follower: its snapshot is older than the end of the log, the later entries are applied again — later
	if d := 1200*time.Millisecond - time.Since(t0); d > 0 {
		time.Sleep(d)
	}
	// Close shuts the node's listener: the node comes back as a new process would, on the same address
	addr1 := s1.Addr()
	reopen := func() error {
		var ln net.Listener
		var err error
		for i := 0; i < 50; i++ {
			if ln, err = net.Listen("tcp", addr1); err == nil {
				break
			}
			time.Sleep(50 * time.Millisecond)
		}
		if err != nil {
			return err
		}
		s := vfNewClusterStore("n1", filepath.Join(root, "n1"), false, ln)
		if err := s.Open(); err != nil {
			ln.Close()
			return err
		}
		s1 = s
		open = append(open, s)
		return nil
	}
	restart := func(removeMarker bool) (string, error) {
		s1.NoSnapshotOnClose = true
		if err := s1.Close(true); err != nil {
			return "", err
		}
		if removeMarker {
			os.Remove(s1.cleanSnapshotPath)
		}
		if err := reopen(); err != nil {
			return "", err
		}
		if err := c01WaitApplied(s1, last, 20*time.Second); err != nil {
			return "", err
		}
		return c01Dump(s1)
	}
	fastTaken := fileExistsC01(s1.cleanSnapshotPath)
	d, err := restart(false)
	if err != nil {
		inconcl("restart (file reused): %v", err)
		return
	}
	paths, dumps = append(paths, "restart-file-reused"), append(dumps, d)
	d, err = restart(true)
	if err != nil {
		inconcl("restart (restored): %v", err)
		return
	}
	paths, dumps = append(paths, "restart-restored"), append(dumps, d)
	// manual recovery of a copy of the follower's directory
	s1.NoSnapshotOnClose = true
	if err := s1.Close(true); err != nil {
		inconcl("close n1: %v", err)
		return
	}
	cp := filepath.Join(root, "n1-copy")
	if out, err := exec.Command("cp", "-a", filepath.Join(root, "n1"), cp).CombinedOutput(); err != nil {
		inconcl("cp: %v %s", err, out)
		return
	}
	sr := vfNewStore("n1", cp, false, nil)
	if err := os.WriteFile(sr.peersPath, []byte(fmt.Sprintf(`[{"id": "n1", "address": "%s"}]`, sr.ly.Addr().String())), 0644); err != nil {
		inconcl("peers: %v", err)
		return
	}
	if err := sr.Open(); err != nil {
		inconcl("recovery open: %v", err)
		return
	}
	open = append(open, sr)
	d, err = c01Dump(sr)
	if err != nil {
		inconcl("dump recovered: %v", err)
		return
	}
	paths, dumps = append(paths, "recovered"), append(dumps, d)

	// the statements as they are in the leader's log
	var progCoq []string
	rewritten := 0
	asciiOK := true
	for _, l := range rec {
		if l.sent != l.logged {
			rewritten++
		}
		for _, r := range l.sent + l.logged {
			if r > 126 || (r < 32 && r != '\n' && r != '\t' && r != '\r' && r != '\f') {
				asciiOK = false
			}
		}
		progCoq = append(progCoq, c01StmtCoq(l))
	}
	digests := make([]string, len(dumps))
	for i, d := range dumps {
		digests[i] = coqStr(c01Digest(d))
	}
	if asciiOK {
		vc.Coq = fmt.Sprintf("{| c_prog := %s; c_dumps := %s |}", coqList(progCoq), coqList(digests))
	}
	vc.Nontrivial = rewritten > 0 && written > 0
	if in.Session != "" {
		vc.Tags = append(vc.Tags, "session-state:"+in.Session)
	}
	vc.Tags = append(vc.Tags, fmt.Sprintf("requests=%d", len(in.Reqs)+len(in.TailReqs)), fmt.Sprintf("snapshot-installed=%v", installed > 0), fmt.Sprintf("file-reused-on-restart=%v", fastTaken))
	if rewritten > 0 {
		vc.Tags = append(vc.Tags, "has-rewritten-statement")
	}
	for i := 1; i < len(dumps); i++ {
		if dumps[i] != dumps[0] {
			vc.OracleFail = fmt.Sprintf("%s differs from the leader: %s", paths[i], c01FirstDiff(dumps[0], dumps[i]))
			vc.Sig = "C01:diverged:" + paths[i]
			if in.Session == "across-snapshot" {
				// state on the SQLite connection (TEMP tables, last_insert_rowid(), an open transaction) is not part of a
				// snapshot: a path that starts from a snapshot taken between its creation and its use cannot have it
				vc.Sig = "C01:session-state-not-in-snapshot"
				vc.Coq = "" // outside the model: there restore (snapshot d) = d is a premise
			}
			break
		}
	}
	return vc
}

func c01StmtCoq(l c01Logged) string {
	return fmt.Sprintf("{| s_text := %s; s_tree := %s; s_logged := %s; s_same := %s |}", coqStr(l.sent), c01OptTree(c01Parse(l.sent)), c01OptTree(c01Parse(l.logged)), coqBool(l.sent == l.logged))
}

func fileExistsC01(p string) bool { _, err := os.Stat(p); return err == nil }

func (s *Store) numSnapshotsInstalled() int {
	// a node that was sent a snapshot has restored it through fsmRestore
	return int(s.numSnapshots.Load()) + func() int {
		if li, err := s.boltStore.FirstIndex(); err == nil && li > 1 {
			return 1
		}
		return 0
	}()
}

var _ = raft.Voter
var _ = command.Unmarshal

func TestVerif_C01(t *testing.T) {
	w := vOpen()
	defer w.Close()
	if raw := vReplayInput(); raw != nil {
		var in c01Input
		if err := json.Unmarshal(raw, &in); err != nil {
			t.Fatal(err)
		}
		c01Run(w, in)
		return
	}
	rng := vRand()
	var ins []c01Input
	// every implicit-now and spaced form in one program
	corpus := c01Input{SnapAt: 1, Reqs: []c01Req{
		{Stmts: []c01Stmt{{SQL: `INSERT INTO t(a, b) VALUES (julianday(), strftime('%f'))`}, {SQL: `INSERT INTO t(a, b) VALUES (unixepoch('subsec'), datetime ('now', 'subsec'))`}}},
		{Tx: true, Stmts: []c01Stmt{{SQL: `INSERT INTO t(a, b) VALUES (random (), hex(randomblob(4)))`}, {SQL: `UPDATE t SET b = (SELECT julianday('now')) WHERE id = 1`}}},
		{Stmts: []c01Stmt{{SQL: `WITH k(v) AS (SELECT random()) INSERT INTO t(a, b) SELECT v, time() FROM k`}}},
		{Stmts: []c01Stmt{{SQL: "INSERT INTO t(a, b) VALUES (random\r\n(), strftime\f('%f','now'))"}}},
	}, TailReqs: []c01Req{{Stmts: []c01Stmt{{SQL: `INSERT INTO t(a, b) VALUES (strftime('%J'), "random"())`}}}}}
	ins = append(ins, corpus)
	// session state created before a snapshot point and used after it (known finding: not part of a snapshot)
	ins = append(ins, c01Input{SnapAt: 1, Session: "across-snapshot", Reqs: []c01Req{
		{Stmts: []c01Stmt{{SQL: `CREATE TEMP TABLE tt0 (v)`}, {SQL: `INSERT INTO tt0 VALUES (7)`}, {SQL: `INSERT INTO u(x) VALUES (77)`}}},
		{Stmts: []c01Stmt{{SQL: `INSERT INTO t(a, b) SELECT v, last_insert_rowid() FROM tt0`}}},
	}, TailReqs: []c01Req{{Stmts: []c01Stmt{{SQL: `INSERT INTO t(a, b) VALUES ('tail', 1)`}}}}})
	// the long-gap scenario runs beside everything else
	gaps := []int{62}
	if vTier() == "thorough" {
		gaps = []int{35, 65, 130}
	}
	var gwg sync.WaitGroup
	for _, gp := range gaps {
		gwg.Add(1)
		go func(gp int) {
			defer gwg.Done()
			c01Run(w, c01Input{GapS: gp})
		}(gp)
	}
	defer gwg.Wait()
	n := vN(8, 200)
	for i := 0; i < n; i++ {
		ins = append(ins, c01GenInput(rng))
	}
	ch := make(chan c01Input)
	var wg sync.WaitGroup
	for k := 0; k < 5; k++ {
		wg.Add(1)
		go func() {
			defer wg.Done()
			for in := range ch {
				c01Run(w, in)
			}
		}()
	}
	for _, in := range ins {
		ch <- in
	}
	close(ch)
	wg.Wait()
}
