(* C37 — property theorems only. *)
From Coq Require Import List NArith Bool.
From RQ Require Import Model.C37 Proofs.C37.
Import ListNotations.
Open Scope N_scope.

(* changed since the last successful upload => the round uploads an object labelled with the
   index read first, containing everything committed when the data was copied afterwards *)
Theorem C37_uploads_when_changed : forall w e,
  provider_ok e -> changed w -> ~ already_there w e ->
  let li := last_index (w_db w) in
  let w' := fst (fst (round w e)) in
  exists data,
    In (CUpload li data) (snd (round w e)) /\
    (snd (fst (round w e)) = OUploaded li data \/ (e_up_fail e = true /\ snd (fst (round w e)) = OUploadFailed li data)) /\
    w_db w' = w_db w ++ e_mid e /\
    (forall c, In c (w_db w') -> In c data) /\
    (e_up_fail e = false -> w_last w' = li /\ w_rid w' = Some li /\ w_rdata w' = data).
Proof. exact uploads_when_changed. Qed.
Print Assumptions C37_uploads_when_changed.

(* any Upload call made by such a round carries every change up to its label *)
Theorem C37_upload_reflects_label : forall w e,
  provider_ok e -> changed w -> ~ already_there w e ->
  forall li data, In (CUpload li data) (snd (round w e)) ->
    li = last_index (w_db w) /\ reflects data (w_db (fst (fst (round w e)))) li.
Proof. exact upload_reflects_label. Qed.
Print Assumptions C37_upload_reflects_label.

(* the snapshot gate: an attempt that finds the gate held copies nothing (it must fail: the
   newest changes are still in the WAL), and Provide gets past up to 10 such attempts, handing
   over the complete database after k+1 attempts *)
Theorem C37_provide_retries_past_gate : forall db k,
  backup_copy db AGate = None /\
  ((k < 11)%nat -> provide 11 db (repeat AGate k) 0 = (Some db, 0 + N.of_nat k + 1)).
Proof. exact provide_retries_past_gate. Qed.
Print Assumptions C37_provide_retries_past_gate.

Theorem C37_skips_when_unchanged : forall w e,
  e_li_err e = false -> ~ changed w -> round w e = (w, OSkipped, [CLast]).
Proof. exact skips_when_unchanged. Qed.
Print Assumptions C37_skips_when_unchanged.

Theorem C37_no_upload_when_unchanged : forall w e li data,
  ~ changed w -> ~ In (CUpload li data) (snd (round w e)).
Proof. exact no_upload_when_unchanged. Qed.
Print Assumptions C37_no_upload_when_unchanged.

Theorem C37_failure_not_recorded : forall w e,
  is_error (snd (fst (round w e))) = true ->
  let w' := fst (fst (round w e)) in
  w_last w' = w_last w /\ w_rid w' = w_rid w /\ w_rdata w' = w_rdata w.
Proof. exact failure_not_recorded. Qed.
Print Assumptions C37_failure_not_recorded.

Theorem C37_failed_upload_retried : forall w e e2 li data,
  incr 0 (w_db w) -> wf_ev w (EvRound e) ->
  snd (fst (round w e)) = OUploadFailed li data ->
  provider_ok e2 -> e_up_fail e2 = false ->
  let w' := fst (fst (round w e)) in
  let li2 := last_index (w_db w') in
  li <= li2 /\
  (snd (fst (round w' e2)) = OUploaded li2 (w_db w' ++ e_mid e2) \/
   (snd (fst (round w' e2)) = OSkippedID /\ w_rid w' = Some li2)).
Proof. exact failed_upload_retried. Qed.
Print Assumptions C37_failed_upload_retried.

Theorem C37_first_round_id_check : forall w e,
  provider_ok e -> changed w ->
  (snd (fst (round w e)) = OSkippedID <-> already_there w e) /\
  (w_last w <> 0 -> ~ In CCurID (snd (round w e))).
Proof. exact first_round_id_check. Qed.
Print Assumptions C37_first_round_id_check.

(* after any history of writes and rounds (with any failures), a round that succeeds leaves in
   storage an object with every change up to the index it read; with no write racing that
   round, that is every committed change.
   PARTIAL: "change" here (and in `changed` above) is a change that moved the applied index
   (EvWrite).  What is missing is exactly what the next theorem refutes. *)
Theorem C37_history_newest_object_reflects_all_partial : forall db0 rid0 rdata0 evs e,
  incr 0 db0 ->
  let w := run (fresh db0 rid0 rdata0) evs in
  wf_evs (fresh db0 rid0 rdata0) evs -> wf_ev w (EvRound e) ->
  succeeded (snd (fst (round w e))) ->
  let w' := fst (fst (round w e)) in
  honest rid0 rdata0 (w_db w') ->
  reflects (w_rdata w') (w_db w') (last_index (w_db w)) /\
  (e_mid e = [] -> forall c, In c (w_db w') -> In c (w_rdata w')) /\
  (w_db w' <> [] -> last_index (w_db w) <= w_last w' \/ w_rid w' = Some (last_index (w_db w))).
Proof. exact history_newest_object_reflects_all. Qed.
Print Assumptions C37_history_newest_object_reflects_all_partial.

(* REFUTED for changes that do not move the applied index (EvSilent; reproduced on the real
   store, known finding C37:change-without-index-not-uploaded): after such a change every
   round skips and the stored object stays behind the database. *)
Theorem C37_unindexed_change_refuted :
  exists evs, wf_evs (fresh [] None []) evs /\
    let w := run (fresh [] None []) evs in
    forall n, let w' := run w (repeat (EvRound clean0) n) in
      behind w' /\ snd (fst (round w' clean0)) = OSkipped.
Proof. exact unindexed_change_refuted. Qed.
Print Assumptions C37_unindexed_change_refuted.

(* Second tie (DESIGN 3.5, docs/gotrans.md): Uploader.upload as translated from auto/backup/uploader.go on this run
   leaves lastIndex, reports an error and calls its provider / storage in the order of the hand model's round
   (gen_upload = the generated function with the outside calls instantiated from the model's world and
   environment; kinds_of_effects = the recorded provider / storage calls).  Premise: strconv.FormatUint(_, 10) is
   injective and never yields the string standing for "not a number". *)
From Coq Require Import ZArith String.
From RQ Require Import Lib.GoLib.
From RQ Require Import Gen.Uploader.
From RQ Require Import Proofs.C37_Gen.
Theorem C37_source_derived_eq : forall (fmt : Z -> Z -> string) (nonum : string),
  (forall a b, fmt a 10%Z = fmt b 10%Z -> a = b) -> (forall a, fmt a 10%Z <> nonum) ->
  forall (now : Z) w e,
    Uploader_lastIndex _ _ _ (fst (fst (gen_upload fmt nonum now w e))) = Z.of_N (w_last (fst (fst (round w e)))) /\
    isSome (snd (fst (gen_upload fmt nonum now w e))) = is_error (snd (fst (round w e))) /\
    kinds_of_effects (snd (gen_upload fmt nonum now w e)) = map (kind_of_call fmt) (snd (round w e)).
Proof. exact gen_upload_eq. Qed.
Print Assumptions C37_source_derived_eq.
