(* C03 — crash model of one node: the write, snapshot (full and incremental), fingerprint, snapshot-install /
   restore and restart paths as micro-step lists (DESIGN Appendix B.1-B.5), and the function transcribed
   from Store.Open (clean_snapshot fast path or restore of the newest snapshot, then log replay).
   Executable definitions only; proofs are in Proofs/C03.v.

   Log entries are identified by their position 1,2,3...; the content of a database is the list of entries
   that were applied to it, in order (so a double apply or a missing entry shows).  Indices are small naturals. *)
From Coq Require Import List Arith Bool.
Import ListNotations.

Definition seqN (m : nat) : list nat := seq 1 m.

Fixpoint list_eqb {A} (f : A -> A -> bool) (a b : list A) : bool :=
  match a, b with
  | [], [] => true
  | x :: a', y :: b' => f x y && list_eqb f a' b'
  | _, _ => false
  end.


Record st := {
  n : nat;                          (* durable raft log: entries 1..n *)
  first : nat;                      (* first entry still in the log (log compaction) *)
  applied : nat;                    (* fsmIdx: last entry applied to the database *)
  dbc : list nat;                   (* database FILE: entries whose effects it contains *)
  ver : nat;                        (* identity (mtime,size,crc) of the database file; every change of the file gives a new one *)
  walc : list nat;                  (* entries whose effects are in the WAL only (the WAL is discarded on open) *)
  snaps : list (nat * list nat);    (* visible snapshots, newest first: index, content *)
  tmp : option (nat * list nat);    (* snapshot being written (<id>.tmp): index, content *)
  fp : option (nat * option nat);   (* clean_snapshot: identity of the fingerprinted file, snapshot index recorded in it *)
  insnap : bool;                    (* a snapshot operation is in progress (it was not aborted for lack of a WAL) *)
  sidx : nat;                       (* index of the snapshot in progress (the FSM index when fsmSnapshot ran) *)
  acked : nat;                      (* writes acknowledged to the client *)
  gap : bool;                       (* a restart needed log entries that were compacted away *)
}.

Definition init : st :=
  {| n := 0; first := 1; applied := 0; dbc := []; ver := 0; walc := []; snaps := []; tmp := None; fp := None;
     insnap := false; sidx := 0; acked := 0; gap := false |}.

Definition newest_idx (s : st) : nat := match snaps s with (i, _) :: _ => i | [] => 0 end.

(* ---- Store.Open + raft start-up ----
   fast path iff the fingerprint matches the database file and, when it records a snapshot index (the
   repaired code always records one), that index is the newest snapshot's. *)
Definition fast_path (s : st) (i : nat) : bool :=
  match fp s with
  | Some (v, oi) => Nat.eqb v (ver s) && match oi with Some j => Nat.eqb j i | None => true end
  | None => false
  end.

Definition restart (fixed : bool) (s : st) : st :=
  match snaps s with
  | [] =>
      (* empty snapshot store: database files removed, whole log replayed *)
      {| n := n s; first := first s; applied := n s; dbc := []; ver := S (ver s); walc := seq 1 (n s);
         snaps := []; tmp := None; fp := fp s; insnap := false; sidx := sidx s; acked := acked s;
         gap := gap s || negb (first s <=? 1) |}
  | (i, c) :: _ =>
      let g := gap s || (negb (first s <=? S i) && negb (n s <=? i)) in
      if fast_path s i then
        {| n := n s; first := first s; applied := Nat.max i (n s); dbc := dbc s; ver := ver s; walc := seq (S i) (n s - i);
           snaps := snaps s; tmp := None; fp := fp s; insnap := false; sidx := sidx s; acked := acked s; gap := g |}
      else
        (* fingerprint and database files removed; raft restores the newest snapshot; fsmRestore writes a new fingerprint *)
        {| n := n s; first := first s; applied := Nat.max i (n s); dbc := c; ver := S (ver s); walc := seq (S i) (n s - i);
           snaps := snaps s; tmp := None; fp := Some (S (ver s), if fixed then Some i else None); insnap := false;
           sidx := sidx s; acked := acked s; gap := g |}
  end.

Definition content (s : st) : list nat := dbc s ++ walc s.

(* ---- micro-steps ---- *)
Inductive mstep :=
| MAppend            (* raft.Apply: entry appended to the log store (durable) *)
| MApply             (* fsmApply: statement executed, pages in the WAL *)
| MAck               (* the client of an applied write gets its answer *)
| MCheckpoint        (* fsmSnapshot: (stage WAL,) checkpoint into the database file; aborted if incremental and no WAL *)
| MStream            (* Persist: stream into <id>.tmp *)
| MFingerprint       (* Persist's finalizer: clean_snapshot written *)
| MSinkClose         (* sink.Close: (move staged WALs,) meta, rename into place: the snapshot is visible *)
| MCompact (t : nat) (* raft compactLogs leaving t trailing entries, then Release *)
| MRelease           (* Release without log compaction (nothing old enough to compact) *)
| MInstallClose (e : nat)  (* follower: incoming snapshot at index n+e streamed and closed: visible *)
| MRestoreRmFp       (* fsmRestore: clean_snapshot removed *)
| MRestoreSwap       (* fsmRestore: database swapped for the restored one *)
| MRestoreFp         (* fsmRestore: fingerprint written *)
| MRestart.          (* clean stop and start *)

Definition set_snapshot (s : st) tmp' fp' snaps' insnap' sidx' :=
  {| n := n s; first := first s; applied := applied s; dbc := dbc s; ver := ver s; walc := walc s;
     snaps := snaps'; tmp := tmp'; fp := fp'; insnap := insnap'; sidx := sidx'; acked := acked s; gap := gap s |}.

Definition exec1 (fixed : bool) (s : st) (m : mstep) : st :=
  match m with
  | MAppend =>
      {| n := S (n s); first := first s; applied := applied s; dbc := dbc s; ver := ver s; walc := walc s;
         snaps := snaps s; tmp := tmp s; fp := fp s; insnap := insnap s; sidx := sidx s; acked := acked s; gap := gap s |}
  | MApply =>
      if applied s <? n s then
      {| n := n s; first := first s; applied := S (applied s); dbc := dbc s; ver := ver s; walc := walc s ++ [S (applied s)];
         snaps := snaps s; tmp := tmp s; fp := fp s; insnap := insnap s; sidx := sidx s; acked := acked s; gap := gap s |}
      else s
  | MAck =>
      if acked s <? applied s then
      {| n := n s; first := first s; applied := applied s; dbc := dbc s; ver := ver s; walc := walc s;
         snaps := snaps s; tmp := tmp s; fp := fp s; insnap := insnap s; sidx := sidx s; acked := S (acked s); gap := gap s |}
      else s
  | MCheckpoint =>
      (* a new snapshot operation: no sink yet.  Operations of one node are sequential: a snapshot is not
         started between the Close of an incoming snapshot and its restore. *)
      if newest_idx s <=? applied s then
        match snaps s, walc s with
        | _ :: _, [] => set_snapshot s None (fp s) (snaps s) false (sidx s)          (* ErrNoWALToSnapshot *)
        | _, [] => set_snapshot s None (fp s) (snaps s) true (applied s)              (* full, nothing to checkpoint *)
        | _, _ =>
            {| n := n s; first := first s; applied := applied s; dbc := dbc s ++ walc s; ver := S (ver s); walc := [];
               snaps := snaps s; tmp := None; fp := fp s; insnap := true; sidx := applied s; acked := acked s; gap := gap s |}
        end
      else set_snapshot s None (fp s) (snaps s) false (sidx s)
  | MStream => if insnap s then set_snapshot s (Some (sidx s, dbc s)) (fp s) (snaps s) true (sidx s) else s
  | MFingerprint =>
      if insnap s then
        match tmp s with
        | Some (i, _) => set_snapshot s (tmp s) (Some (ver s, if fixed then Some i else None)) (snaps s) true (sidx s)
        | None => s
        end
      else s
  | MSinkClose =>
      if insnap s then
        match tmp s with
        | Some t => set_snapshot s None (fp s) (t :: snaps s) true (sidx s)
        | None => s
        end
      else s
  | MCompact t =>
      if insnap s then
        match snaps s with
        | (i, _) :: _ =>
            {| n := n s; first := if t <? n s then Nat.max (first s) (S (Nat.min i (n s - t))) else first s;
               applied := applied s; dbc := dbc s; ver := ver s; walc := walc s;
               snaps := snaps s; tmp := tmp s; fp := fp s; insnap := false; sidx := sidx s; acked := acked s; gap := gap s |}
        | [] => set_snapshot s (tmp s) (fp s) (snaps s) false (sidx s)
        end
      else s
  | MRelease => set_snapshot s (tmp s) (fp s) (snaps s) false (sidx s)
  | MInstallClose e =>
      let j := n s + e in
      {| n := j; first := S j; applied := applied s; dbc := dbc s; ver := ver s; walc := walc s;
         snaps := (j, seqN j) :: snaps s; tmp := None; fp := fp s; insnap := false; sidx := sidx s; acked := acked s; gap := gap s |}
  | MRestoreRmFp => set_snapshot s (tmp s) None (snaps s) (insnap s) (sidx s)
  | MRestoreSwap =>
      match snaps s with
      | (i, c) :: _ =>
          {| n := n s; first := first s; applied := i; dbc := c; ver := S (ver s); walc := [];
             snaps := snaps s; tmp := tmp s; fp := fp s; insnap := false; sidx := sidx s; acked := acked s; gap := gap s |}
      | [] => s
      end
  | MRestoreFp =>
      match snaps s with
      | (i, c) :: _ =>
          (* fsmRestore fingerprints the file it has just swapped in: the step is enabled only then *)
          if list_eqb Nat.eqb (dbc s) c
          then set_snapshot s (tmp s) (Some (ver s, if fixed then Some i else None)) (snaps s) (insnap s) (sidx s)
          else s
      | [] => s
      end
  | MRestart => restart fixed s
  end.

Definition exec (fixed : bool) (ms : list mstep) (s : st) : st := fold_left (exec1 fixed) ms s.

(* ---- operations of a history and their micro-step lists ---- *)
Inductive hop :=
| HWrite
| HSnap (compact : option nat)       (* one snapshot; Some t = raft compacts the log leaving t trailing entries *)
| HInstall (e : nat)                 (* snapshot install at index n+e, then fsmRestore *)
| HRestart.

Definition msteps (o : hop) : list mstep :=
  match o with
  | HWrite => [MAppend; MApply; MAck]
  | HSnap c => [MCheckpoint; MStream; MFingerprint; MSinkClose; match c with Some t => MCompact t | None => MRelease end]
  | HInstall e => [MInstallClose e; MRestoreRmFp; MRestoreSwap; MRestoreFp]
  | HRestart => [MRestart]
  end.

Definition flatten (h : list hop) : list mstep := flat_map msteps h.

(* state after a crash following the first k micro-steps of the history, and what the restart makes of it *)
Definition crashed (fixed : bool) (h : list hop) (k : nat) : st := exec fixed (firstn k (flatten h)) init.
Definition recovered (fixed : bool) (h : list hop) (k : nat) : st := restart fixed (crashed fixed h k).

(* ---- correspondence ---- *)
(* a case: the history, and for a list of crash indices k what the implementation came back with:
   (k, the database content after reopening the crash image, whether Open took the fast path) *)
Record case := { c_hist : list hop; c_obs : list (nat * list nat * bool) }.

Definition took_fast (s : st) : bool :=
  match snaps s with
  | (i, _) :: _ => fast_path s i
  | [] => false
  end.

Definition check_obs (h : list hop) (o : nat * list nat * bool) : bool :=
  let '(k, c, f) := o in
  let s := crashed true h k in
  list_eqb Nat.eqb (content (restart true s)) c && Bool.eqb (took_fast s) f && negb (gap (restart true s)).

Definition check_case (c : case) : bool := forallb (check_obs (c_hist c)) (c_obs c).
