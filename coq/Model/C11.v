(* C11 — model of snapshot/store.go: Open / LockingStreamer (Read, Close, checkIdle) / Reap /
   reapLoop, over the MultiRSW model of C34 (Model.C34.mrsw_step_obs is the lock; the lock's
   thread ids are: 0 = the reaper goroutine (reapLoop, blocking writer), 1 = a caller of
   Store.Reap (non-blocking writer), 2+i = the i-th stream returned by Store.Open).
   LockingStreamer.Close and checkIdle run under the streamer's mutex, so each is one atomic
   action.  A real timer firing before the idle time has elapsed re-arms and changes nothing
   (AEarlyFire).  No proofs here. *)
From Coq Require Import List String Bool ZArith Arith.
From RQ Require Import Lib.C34_Sched Model.C34.
Import ListNotations.
Open Scope string_scope.

Definition tid_loop : nat := 0.
Definition tid_reap : nat := 1.
Definition tid_stream (i : nat) : nat := S (S i).

Record stream := {
  s_opened : bool;      (* Open returned a LockingStreamer (false: Open failed on the lock) *)
  s_closed : bool;      (* l.closed *)
  s_timedout : bool;    (* l.timedOut *)
  s_released : nat      (* ghost: number of EndRead calls made on behalf of this stream *) }.

Inductive lphase := LIdle | LWaiting | LReaping.

Record sstore := {
  lk : mrsw;
  strs : list stream;       (* in order of Open calls *)
  manual : bool;            (* a Store.Reap() call is inside its critical section *)
  loop : lphase;            (* reapLoop: idle / inside BeginWriteBlocking / reaping *)
  nsnap : nat               (* snapshots created (sinks closed); creation takes no lock *) }.

Definition sinit : sstore :=
  {| lk := mrsw_init; strs := []; manual := false; loop := LIdle; nsnap := 0 |}.

Inductive sact :=
| AOpen | ARead (i : nat) | AClose (i : nat) | AFire (i : nat) | AEarlyFire (i : nat)
| ACreate | AReapBegin | AReapEnd | ALoopBegin | ALoopResume | ALoopEnd
| ATick (* time passes; nothing is called *).

Inductive sobs := OOk | OConflict | OBlocked | OData | OTimeoutErr | OClosedErr | OInvalid | OPanic.
Definition sobs_eqb (a b : sobs) : bool :=
  match a, b with
  | OOk, OOk | OConflict, OConflict | OBlocked, OBlocked | OData, OData | OTimeoutErr, OTimeoutErr
  | OClosedErr, OClosedErr | OInvalid, OInvalid | OPanic, OPanic => true
  | _, _ => false
  end.

Definition holding (st : stream) : bool := s_opened st && negb (s_closed st).

Fixpoint upd_nth (i : nat) (f : stream -> stream) (l : list stream) : list stream :=
  match l, i with
  | [], _ => []
  | x :: r, O => f x :: r
  | x :: r, S j => x :: upd_nth j f r
  end.

Definition set_lk (s : sstore) (l : mrsw) : sstore :=
  {| lk := l; strs := strs s; manual := manual s; loop := loop s; nsnap := nsnap s |}.
Definition set_strs (s : sstore) (l : list stream) : sstore :=
  {| lk := lk s; strs := l; manual := manual s; loop := loop s; nsnap := nsnap s |}.
Definition set_manual (s : sstore) (b : bool) : sstore :=
  {| lk := lk s; strs := strs s; manual := b; loop := loop s; nsnap := nsnap s |}.
Definition set_loop (s : sstore) (p : lphase) : sstore :=
  {| lk := lk s; strs := strs s; manual := manual s; loop := p; nsnap := nsnap s |}.

(* the common tail of Close and of an idle fire: mark closed, release the read lock once *)
Definition release_stream (s : sstore) (i : nat) (timedout : bool) : sstore * sobs :=
  let '(l1, o) := mrsw_step_obs (lk s) (MEndRead (tid_stream i)) in
  let s1 := set_strs (set_lk s l1)
              (upd_nth i (fun st => {| s_opened := s_opened st; s_closed := true;
                                       s_timedout := timedout; s_released := S (s_released st) |}) (strs s)) in
  (s1, match o with Ok => OOk | _ => OPanic end).

Definition sstep_obs (s : sstore) (a : sact) : sstore * sobs :=
  match a with
  | AOpen =>
      let i := List.length (strs s) in
      let '(l1, o) := mrsw_step_obs (lk s) (MBeginRead (tid_stream i)) in
      match o with
      | Ok => (set_strs (set_lk s l1)
                 (strs s ++ [{| s_opened := true; s_closed := false; s_timedout := false; s_released := 0 |}]), OOk)
      | _ => (set_strs s
                 (strs s ++ [{| s_opened := false; s_closed := false; s_timedout := false; s_released := 0 |}]), OConflict)
      end
  | ARead i =>
      match nth_error (strs s) i with
      | None => (s, OInvalid)
      | Some st =>
          if negb (s_opened st) then (s, OInvalid)
          else if s_timedout st then (s, OTimeoutErr)
          else if s_closed st then (s, OClosedErr)
          else (s, OData)
      end
  | AClose i =>
      match nth_error (strs s) i with
      | None => (s, OInvalid)
      | Some st =>
          if negb (s_opened st) then (s, OInvalid)
          else if s_closed st then (s, OOk)
          else release_stream s i (s_timedout st)
      end
  | AFire i =>
      match nth_error (strs s) i with
      | None => (s, OInvalid)
      | Some st =>
          if negb (s_opened st) then (s, OInvalid)
          else if s_closed st then (s, OOk)
          else release_stream s i true
      end
  | AEarlyFire i =>
      match nth_error (strs s) i with
      | None => (s, OInvalid)
      | Some st => if negb (s_opened st) then (s, OInvalid) else (s, OOk)
      end
  | ACreate =>
      ({| lk := lk s; strs := strs s; manual := manual s; loop := loop s; nsnap := S (nsnap s) |}, OOk)
  | AReapBegin =>
      let '(l1, o) := mrsw_step_obs (lk s) (MBeginWrite tid_reap "reap") in
      match o with
      | Ok => (set_manual (set_lk s l1) true, OOk)
      | Conflict => (s, OConflict)
      | _ => (s, OPanic)
      end
  | AReapEnd =>
      let '(l1, o) := mrsw_step_obs (lk s) (MEndWrite tid_reap) in
      match o with
      | Ok => (set_manual (set_lk s l1) false, OOk)
      | _ => (s, OPanic)
      end
  | ALoopBegin =>
      let '(l1, o) := mrsw_step_obs (lk s) (MBeginWriteB tid_loop "reap") in
      match o with
      | Ok => (set_loop (set_lk s l1) LReaping, OOk)
      | Blocked => (set_loop (set_lk s l1) LWaiting, OBlocked)
      | _ => (s, OPanic)
      end
  | ALoopResume =>
      let '(l1, o) := mrsw_step_obs (lk s) (MResume tid_loop) in
      match o with
      | Ok => (set_loop (set_lk s l1) LReaping, OOk)
      | Blocked => (set_loop (set_lk s l1) LWaiting, OBlocked)
      | _ => (s, OInvalid)
      end
  | ALoopEnd =>
      let '(l1, o) := mrsw_step_obs (lk s) (MEndWrite tid_loop) in
      match o with
      | Ok => (set_loop (set_lk s l1) LIdle, OOk)
      | _ => (s, OPanic)
      end
  | ATick => (s, OOk)
  end.
Definition sstep (s : sstore) (a : sact) : sstore := fst (sstep_obs s a).

Definition lphase_eqb (a b : lphase) : bool :=
  match a, b with LIdle, LIdle | LWaiting, LWaiting | LReaping, LReaping => true | _, _ => false end.

(* what the environment can do: a stream handle exists only for a successful Open; one
   Store.Reap call at a time ends what it began; the reaper goroutine is sequential *)
Definition senabled (s : sstore) (a : sact) : bool :=
  match a with
  | AOpen | ACreate | ATick => true
  | ARead i | AClose i | AFire i | AEarlyFire i =>
      match nth_error (strs s) i with Some st => s_opened st | None => false end
  | AReapBegin => negb (manual s)
  | AReapEnd => manual s
  | ALoopBegin => lphase_eqb (loop s) LIdle
  | ALoopResume => lphase_eqb (loop s) LWaiting && memn tid_loop (map fst (m_woken (lk s)))
  | ALoopEnd => lphase_eqb (loop s) LReaping
  end.

Definition nholding (l : list stream) : nat := List.length (filter holding l).
Definition reaping (s : sstore) : bool := manual s || lphase_eqb (loop s) LReaping.

(* ---- correspondence ---- *)
(* One driver step: the action, what it returned, streams whose idle timer was seen to have
   fired during the step (real-timer schedules), whether the parked reaper goroutine got the
   lock during the step, and the white-box numReaders / owner once quiescent. *)
Record sstepobs := { so_act : sact; so_obs : sobs; so_fired : list nat; so_loop_acquired : bool;
                     so_nr : Z; so_owner : string }.

Fixpoint fire_all (s : sstore) (l : list nat) : sstore :=
  match l with [] => s | i :: r => fire_all (sstep s (AFire i)) r end.

(* after a step the reaper goroutine, if woken, re-evaluates its guard *)
Definition settle_loop (s : sstore) : sstore * bool :=
  if senabled s ALoopResume then
    let '(s1, o) := sstep_obs s ALoopResume in (s1, sobs_eqb o OOk)
  else (s, false).

(* In real-timer schedules the driver only knows WHICH idle timers fired during a step, not when:
   each fire may precede or follow the step's action, and a reaper woken by an early fire may
   already have re-evaluated its guard (and taken the lock) before the action.  Every combination
   the observation cannot distinguish is tried.  A fire of stream i detected in the step of
   Close i preceded the Close (after it the callback finds the stream closed and sets nothing). *)
Fixpoint splits (l : list nat) : list (list nat * list nat) :=
  match l with
  | [] => [([], [])]
  | i :: r => flat_map (fun p => [(i :: fst p, snd p); (fst p, i :: snd p)]) (splits r)
  end.

Definition split_ok (a : sact) (after : list nat) : bool :=
  match a with AClose i => negb (memn i after) | _ => true end.

(* LockingStreamer.Read does not take the streamer's mutex: a Read that overlaps the idle callback
   of its own stream may still deliver data, find the files closed under it, or see the timeout *)
Definition read_raced (x : sstepobs) : bool :=
  match so_act x with
  | ARead i => memn i (so_fired x) &&
               match so_obs x with OData | OTimeoutErr | OClosedErr => true | _ => false end
  | _ => false
  end.

Definition step_variant (s : sstore) (x : sstepobs) (before after : list nat) (resume_early : bool) : option sstore :=
  let s0 := fire_all s before in
  let '(s0', acq0) := if resume_early then settle_loop s0 else (s0, false) in
  let '(s1, o) := sstep_obs s0' (so_act x) in
  let s2 := fire_all s1 after in
  let '(s3, acq1) := settle_loop s2 in
  if split_ok (so_act x) after
     && (sobs_eqb o (so_obs x) || read_raced x) && Bool.eqb (acq0 || acq1) (so_loop_acquired x)
     && (m_nr (lk s3) =? so_nr x)%Z && String.eqb (m_owner (lk s3)) (so_owner x)
  then Some s3 else None.

Fixpoint first_variant (s : sstore) (x : sstepobs) (l : list (list nat * list nat)) : option sstore :=
  match l with
  | [] => None
  | (b, a) :: r =>
      match step_variant s x b a false with
      | Some s' => Some s'
      | None => match b with
                | [] => first_variant s x r
                | _ => match step_variant s x b a true with
                       | Some s' => Some s'
                       | None => first_variant s x r
                       end
                end
      end
  end.

Fixpoint sexec (s : sstore) (l : list sstepobs) : bool :=
  match l with
  | [] => true
  | x :: r =>
      match first_variant s x (splits (so_fired x)) with
      | Some s' => sexec s' r
      | None => false
      end
  end.

Record case := { c_steps : list sstepobs }.
Definition check_case (c : case) : bool := sexec sinit (c_steps c).
