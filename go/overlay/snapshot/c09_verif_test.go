package snapshot

// C09 driver: snapshot catalog stays well-formed; full-needed is honoured.
//
// Random and hand-picked histories of the snapshot-store API (create / write full or incremental
// payload / close / cancel / set full-needed / reap / reopen), including closes that are cut by an
// injected I/O failure after k of Sink.Close's steps, optionally followed by a restart (= crash
// there).  After every operation the catalog as the real store shows it (ListAll, kinds, WAL
// counts, what each snapshot resolves to, *.tmp directories, FULL_NEEDED, DueNext) is recorded
// for the Coq model (Model/C09.v) and checked against the property text by c09Oracle.

import (
	"encoding/json"
	"errors"
	"fmt"
	"hash/crc32"
	"io"
	"math/rand"
	"os"
	"path/filepath"
	"sort"
	"strconv"
	"strings"
	"testing"
	"time"

	"github.com/hashicorp/raft"
	"github.com/rqlite/rqlite/v10/snapshot/sidecar"
)

type c09Op struct {
	Op    string `json:"op"` // create | full | inc | close | cancel | setfull | reap | reopen
	Term  uint64 `json:"term,omitempty"`
	Index uint64 `json:"index,omitempty"`
	Sink  int    `json:"sink"` // which sink: the n-th created in this history (0-based)
	NWal  int    `json:"nwal,omitempty"`
	Bad   bool   `json:"bad,omitempty"`  // full payload cut short
	Mode  string `json:"mode,omitempty"` // "" normal | "fail" | "crash"
	K     int    `json:"k,omitempty"`    // steps of Close completed before the failure
}

type c09Input struct {
	Ops []c09Op `json:"ops"`
}

type c09Sink struct {
	seq   int
	sink  *Sink
	hdr   string // "", "full", "bad", "inc", "rejected"
	nwal  int
	wdir  string
	term  uint64
	index uint64
}

type c09STC struct {
	s       *Store
	failDue bool
	failSet bool
}

func (c *c09STC) DueNext() (Type, error) {
	if c.failDue {
		return Full, errors.New("injected: cannot stat FULL_NEEDED")
	}
	return c.s.DueNext()
}
func (c *c09STC) SetDueNext(t Type) error {
	if c.failSet {
		return errors.New("injected: cannot remove FULL_NEEDED")
	}
	return c.s.SetDueNext(t)
}

type c09World struct {
	scratch string
	dir     string
	store   *Store
	sinks   map[int]*c09Sink
	clock   int
	seqMono bool // so far: one sink at a time and strictly increasing (term, index)
	lastT   uint64
	lastI   uint64
}

func c09Must(err error) {
	if err != nil {
		panic(err)
	}
}

func c09Scratch() string {
	root := os.TempDir()
	if st, err := os.Stat("/dev/shm"); err == nil && st.IsDir() {
		root = "/dev/shm"
	}
	d, err := os.MkdirTemp(root, "c09-")
	c09Must(err)
	return d
}

func (w *c09World) open() {
	s, err := NewStore(w.dir)
	c09Must(err)
	s.reapDisabled.Set()
	s.fatalFn = nil
	w.store = s
	w.sinks = map[int]*c09Sink{}
}

const c09TD = "testdata/db-and-wals/"

func c09WalName(i int) string { return fmt.Sprintf("%swal-%02d", c09TD, i%4) }

// c09View is the projection compared with the model
type c09View struct {
	out     [3]uint64
	list    []string // Gallina entries
	listErr bool
	tmps    [][2]uint64
	flag    bool
	dueFull bool
	resolve []string
}

func c09ParseName(name string) (uint64, uint64) {
	parts := strings.Split(strings.TrimSuffix(name, tmpSuffix), "-")
	if len(parts) < 2 {
		return 0, 0
	}
	t, _ := strconv.ParseUint(parts[0], 10, 64)
	i, _ := strconv.ParseUint(parts[1], 10, 64)
	return t, i
}

// c09Observe builds the view and evaluates the per-state part of the oracle.
func (w *c09World) observe() (v c09View, fail, sig string) {
	ents, err := os.ReadDir(w.dir)
	c09Must(err)
	for _, e := range ents {
		if e.IsDir() && isTmpName(e.Name()) {
			t, i := c09ParseName(e.Name())
			v.tmps = append(v.tmps, [2]uint64{t, i})
		}
	}
	sort.Slice(v.tmps, func(a, b int) bool {
		if v.tmps[a][0] != v.tmps[b][0] {
			return v.tmps[a][0] < v.tmps[b][0]
		}
		return v.tmps[a][1] < v.tmps[b][1]
	})
	_, err = os.Stat(filepath.Join(w.dir, fullNeededFile))
	v.flag = err == nil
	dn, err := w.store.DueNext()
	c09Must(err)
	v.dueFull = dn == Full

	metas, err := w.store.ListAll()
	if err != nil {
		v.listErr = true
		return v, "ListAll fails: " + err.Error(), "C09:catalog-unreadable"
	}
	set, err := w.store.getSnapshots()
	c09Must(err)
	var prevT, prevI uint64
	for n, m := range metas {
		snap, ok := set.WithID(m.ID)
		if !ok {
			return v, "listed snapshot " + m.ID + " is not in the catalog", "C09:catalog-unreadable"
		}
		v.list = append(v.list, fmt.Sprintf("(%s, %s, %s, %s)", coqN(m.Term), coqN(m.Index), coqBool(snap.typ == Full), coqN(uint64(len(snap.walFiles)))))
		// ---- property: only fully written snapshots are listed, newest first
		p := filepath.Join(w.dir, m.ID)
		if isTmpName(m.ID) {
			fail, sig = "a temporary directory is listed: "+m.ID, "C09:incomplete-snapshot-listed"
		}
		if _, e := os.Stat(filepath.Join(p, metaFileName)); e != nil {
			fail, sig = "listed snapshot "+m.ID+" has no meta.json", "C09:incomplete-snapshot-listed"
		}
		wals, _ := filepath.Glob(filepath.Join(p, "*"+walfileSuffix))
		if _, e := os.Stat(filepath.Join(p, dbfileName)); e != nil && len(wals) == 0 {
			fail, sig = "listed snapshot "+m.ID+" has no data", "C09:incomplete-snapshot-listed"
		}
		if _, e := os.Stat(filepath.Join(p, "wal-incoming")); e == nil {
			fail, sig = "listed snapshot "+m.ID+" still has its wal-incoming directory", "C09:incomplete-snapshot-listed"
		}
		if n > 0 && (m.Term > prevT || (m.Term == prevT && m.Index > prevI)) {
			fail, sig = "ListAll is not ordered newest first", "C09:list-order"
		}
		prevT, prevI = m.Term, m.Index
		// ---- what it resolves to
		dbf, wfs, rerr := set.ResolveFiles(m.ID)
		if rerr != nil {
			v.resolve = append(v.resolve, "None")
			if w.seqMono && fail == "" {
				fail, sig = "listed snapshot "+m.ID+" does not resolve: "+rerr.Error(), "C09:listed-snapshot-does-not-resolve"
			}
			continue
		}
		bt, bi := c09ParseName(filepath.Base(filepath.Dir(dbf.Path)))
		v.resolve = append(v.resolve, fmt.Sprintf("(Some (%s, %s, %s))", coqN(bt), coqN(bi), coqN(uint64(len(wfs)))))
		// one full database followed by WAL segments in order, all present
		if _, e := os.Stat(dbf.Path); e != nil && fail == "" {
			fail, sig = "snapshot "+m.ID+" resolves to a missing database", "C09:listed-snapshot-does-not-resolve"
		}
		for k := 1; k < len(wfs); k++ {
			da, db := filepath.Base(filepath.Dir(wfs[k-1].Path)), filepath.Base(filepath.Dir(wfs[k].Path))
			ta, ia := c09ParseName(da)
			tb, ib := c09ParseName(db)
			if (ta > tb || (ta == tb && ia > ib)) && fail == "" {
				fail, sig = "snapshot "+m.ID+" resolves to WAL segments out of order", "C09:listed-snapshot-does-not-resolve"
			}
		}
	}
	return v, fail, sig
}

func (v c09View) coq() string {
	tm := make([]string, len(v.tmps))
	for i, t := range v.tmps {
		tm[i] = coqPair(coqN(t[0]), coqN(t[1]))
	}
	return fmt.Sprintf("{| v_out := (%s, %s, %s); v_list := %s; v_tmps := %s; v_flag := %s; v_due_full := %s; v_resolve := %s |}",
		coqN(v.out[0]), coqN(v.out[1]), coqN(v.out[2]), coqOpt(!v.listErr, coqList(v.list)), coqList(tm), coqBool(v.flag), coqBool(v.dueFull), coqList(v.resolve))
}

func c09CoqOp(o c09Op) string {
	switch o.Op {
	case "create":
		return fmt.Sprintf("OCreate %s %s", coqN(o.Term), coqN(o.Index))
	case "full":
		return fmt.Sprintf("OWriteFull %s %s %s", coqN(uint64(o.Sink)), coqN(uint64(o.NWal)), coqBool(!o.Bad))
	case "inc":
		return fmt.Sprintf("OWriteInc %s %s", coqN(uint64(o.Sink)), coqN(uint64(o.NWal)))
	case "close":
		m := "CNormal"
		if o.Mode == "fail" {
			m = "(CFail " + coqNat(o.K) + ")"
		} else if o.Mode == "crash" {
			m = "(CCrash " + coqNat(o.K) + ")"
		}
		return fmt.Sprintf("OClose %s %s", coqN(uint64(o.Sink)), m)
	case "cancel":
		return fmt.Sprintf("OCancel %s", coqN(uint64(o.Sink)))
	case "setfull":
		return "OSetFull"
	case "reap":
		return "OReap"
	}
	return "OReopen"
}

// c09Inject arranges for Close to fail after k of its steps; returns a cleanup to run after Close.
//
//	incremental: 0 recheck | 1 move | 2 distribute | 3 remove wal-incoming | 4 meta | 5 rename
//	full:        0 FullSink.Close | 1 meta | 2 rename | 3 clear flag
func (w *c09World) inject(k *c09Sink, n int) func() {
	stc := &c09STC{s: w.store}
	k.sink.stc = stc
	tmp := k.sink.snapTmpDirPath
	final := k.sink.snapDirPath
	blockMeta := func() { c09Must(os.Mkdir(filepath.Join(tmp, metaFileName), 0755)) }
	blockRename := func() func() {
		c09Must(os.MkdirAll(filepath.Join(final, "blocker"), 0755))
		return func() { os.RemoveAll(final) }
	}
	nothing := func() {}
	if k.hdr == "inc" {
		switch n {
		case 0:
			stc.failDue = true
		case 1:
			c09Must(os.Rename(k.wdir, k.wdir+".gone"))
		case 2:
			first, _ := filepath.Glob(filepath.Join(k.wdir, "*"+walfileSuffix))
			sort.Strings(first)
			c09Must(os.Remove(first[0] + crcSuffix))
		case 3:
			c09Must(os.WriteFile(filepath.Join(k.wdir, "junk"), []byte("x"), 0644))
		case 4:
			blockMeta()
		case 5:
			return blockRename()
		}
		return nothing
	}
	switch n {
	case 0:
		os.Remove(filepath.Join(tmp, dbfileName))
	case 1:
		blockMeta()
	case 2:
		return blockRename()
	case 3:
		stc.failSet = true
	}
	return nothing
}

func c09Steps(hdr string) int {
	switch hdr {
	case "inc":
		return 6
	case "full", "bad":
		return 4
	}
	return 0
}

// exec runs one operation on the real store; returns the outcome code and the oracle's verdict
// on the transition.
func (w *c09World) exec(o c09Op) (out [3]uint64, fail, sig string) {
	flagBefore := func() bool {
		_, err := os.Stat(filepath.Join(w.dir, fullNeededFile))
		return err == nil
	}()
	clearedOK := false
	switch o.Op {
	case "create":
		if len(w.sinks) > 0 || !(o.Term > w.lastT || (o.Term == w.lastT && o.Index > w.lastI)) {
			w.seqMono = false
		}
		w.lastT, w.lastI = o.Term, o.Index
		sk, err := w.store.Create(1, o.Index, o.Term, raft.Configuration{}, 1, nil)
		c09Must(err)
		sink := sk.(*Sink)
		sink.fatalFn = nil
		w.sinks[w.clock] = &c09Sink{seq: w.clock, sink: sink, term: o.Term, index: o.Index}
		w.clock++
	case "full":
		k := w.sinks[o.Sink]
		var wals []string
		for i := 0; i < o.NWal; i++ {
			wals = append(wals, c09WalName(i))
		}
		st, err := NewSnapshotStreamer(c09TD+"backup.db", wals...)
		c09Must(err)
		c09Must(st.Open())
		all, err := io.ReadAll(st)
		c09Must(err)
		st.Close()
		k.hdr, k.nwal = "full", o.NWal
		if o.Bad {
			all = all[:len(all)-100]
			k.hdr = "bad"
		}
		if _, err := k.sink.Write(all[:50]); err != nil {
			return [3]uint64{5}, "", ""
		}
		if _, err := k.sink.Write(all[50:]); err != nil {
			return [3]uint64{5}, "", ""
		}
	case "inc":
		k := w.sinks[o.Sink]
		wd, err := os.MkdirTemp(w.scratch, "waldir-")
		c09Must(err)
		for i := 0; i < o.NWal; i++ {
			p := filepath.Join(wd, fmt.Sprintf("%020d.wal", i+1))
			b, err := os.ReadFile(c09WalName(i))
			c09Must(err)
			c09Must(os.WriteFile(p, b, 0644))
			c09Must(sidecar.WriteFile(p+crcSuffix, crc32.Checksum(b, crc32.MakeTable(crc32.Castagnoli))))
		}
		st, err := NewSnapshotPathStreamer(wd)
		c09Must(err)
		_, err = io.Copy(k.sink, st)
		k.wdir, k.nwal = wd, o.NWal
		if err != nil {
			k.hdr = "rejected"
			if strings.Contains(err.Error(), "full snapshot needed") {
				return [3]uint64{4}, "", ""
			}
			return [3]uint64{5}, "", ""
		}
		k.hdr = "inc"
	case "close":
		k := w.sinks[o.Sink]
		delete(w.sinks, o.Sink)
		cleanup := func() {}
		injected := o.Mode != "" && o.K < c09Steps(k.hdr)
		if injected {
			cleanup = w.inject(k, o.K)
		}
		err := k.sink.Close()
		cleanup()
		_, statErr := os.Stat(k.sink.snapDirPath)
		installed := statErr == nil
		switch {
		case err == nil && installed && k.hdr == "inc":
			out = [3]uint64{2}
			if flagBefore {
				fail, sig = fmt.Sprintf("incremental snapshot %d-%d was installed although FULL_NEEDED was set when Close was called", k.term, k.index), "C09:incremental-installed-while-full-needed"
			}
		case err == nil && installed:
			out = [3]uint64{1}
			clearedOK = true
		case err == nil:
			out = [3]uint64{3}
		case strings.Contains(err.Error(), "full snapshot needed"):
			out = [3]uint64{4}
		default:
			out = [3]uint64{5}
			if !injected && k.hdr != "bad" {
				fail, sig = "Close failed without an injected fault: "+err.Error(), "C09:close-error"
			}
		}
		if o.Mode == "crash" && injected {
			w.store.Close()
			w.open()
			if ents, _ := filepath.Glob(filepath.Join(w.dir, "*"+tmpSuffix)); len(ents) > 0 && fail == "" {
				fail, sig = "temporary directories survive a restart", "C09:tmp-survives-restart"
			}
		}
	case "cancel":
		k := w.sinks[o.Sink]
		delete(w.sinks, o.Sink)
		if err := k.sink.Cancel(); err != nil {
			// Cancel closes the underlying FullSink first; with data missing that fails and the
			// temporary directory stays until the next restart
			out = [3]uint64{5}
		}
	case "setfull":
		c09Must(w.store.SetDueNext(Full))
	case "reap":
		time.Sleep(2 * time.Millisecond)
		n, c, err := w.store.Reap()
		if err != nil {
			out = [3]uint64{5}
		} else {
			out = [3]uint64{6, uint64(n), uint64(c)}
		}
	case "reopen":
		w.store.Close()
		w.open()
		if ents, _ := filepath.Glob(filepath.Join(w.dir, "*"+tmpSuffix)); len(ents) > 0 {
			fail, sig = "temporary directories survive a restart", "C09:tmp-survives-restart"
		}
	}
	_, err := os.Stat(filepath.Join(w.dir, fullNeededFile))
	if flagBefore && err != nil && !clearedOK && fail == "" {
		fail, sig = "FULL_NEEDED was removed by '"+o.Op+"' which did not install a full snapshot", "C09:full-needed-cleared-without-full-install"
	}
	return out, fail, sig
}

func c09Run(w *vWriter, scratch string, in c09Input) {
	dir, err := os.MkdirTemp(scratch, "store-")
	c09Must(err)
	defer os.RemoveAll(dir)
	world := &c09World{scratch: scratch, dir: dir, seqMono: true}
	world.open()
	defer func() { world.store.Close() }()

	var ops, views []string
	fail, sig := "", ""
	tags := map[string]bool{}
	nInc, nSpecial := 0, 0
	for n, o := range in.Ops {
		out, f1, s1 := world.exec(o)
		v, f2, s2 := world.observe()
		v.out = out
		ops = append(ops, c09CoqOp(o))
		views = append(views, v.coq())
		if fail == "" && f1 != "" {
			fail, sig = fmt.Sprintf("op %d (%s): %s", n, vJSON(o), f1), s1
		}
		if fail == "" && f2 != "" {
			fail, sig = fmt.Sprintf("after op %d (%s): %s", n, vJSON(o), f2), s2
		}
		tags["op="+o.Op] = true
		if o.Op == "inc" {
			nInc++
		}
		if o.Op == "cancel" || o.Op == "setfull" || o.Op == "reap" || (o.Op == "close" && (o.Mode != "" || out[0] >= 3)) {
			nSpecial++
		}
		if o.Mode != "" {
			tags["close-"+o.Mode] = true
		}
	}
	if world.seqMono {
		tags["sequential-monotone"] = true
	} else {
		tags["interleaved-or-unordered"] = true
	}
	c := VCase{Input: in, Coq: fmt.Sprintf("{| c_ops := %s; c_views := %s |}", coqList(ops), coqList(views)),
		Nontrivial: nInc >= 1 && nSpecial >= 1, Key: vJSON(in), OracleFail: fail, Sig: sig}
	for _, k := range vSortedKeys(tags) {
		c.Tags = append(c.Tags, k)
	}
	w.Emit(c)
}

// ---------------------------------------------------------------- generator

type c09Gen struct {
	rng   *rand.Rand
	ops   []c09Op
	open  []*c09Sink // generator's view of the open sinks
	clock int
	term  uint64
	index uint64
	used  map[[2]uint64]bool
	snaps int // rough count of installed snapshots, to steer
}

func (g *c09Gen) add(o c09Op) { g.ops = append(g.ops, o) }

func (g *c09Gen) create(mono bool) *c09Sink {
	if mono || g.rng.Intn(2) > 0 {
		if g.rng.Intn(6) == 0 {
			g.term++
		}
		g.index += uint64(1 + g.rng.Intn(3))
	} else {
		for {
			t, i := uint64(1+g.rng.Intn(3)), uint64(1+g.rng.Intn(40))
			if !g.used[[2]uint64{t, i}] {
				g.term, g.index = t, i
				break
			}
		}
	}
	for g.used[[2]uint64{g.term, g.index}] {
		g.index++
	}
	g.used[[2]uint64{g.term, g.index}] = true
	k := &c09Sink{seq: g.clock, term: g.term, index: g.index}
	g.clock++
	g.open = append(g.open, k)
	g.add(c09Op{Op: "create", Term: k.term, Index: k.index})
	return k
}

func (g *c09Gen) drop(k *c09Sink) {
	for i, x := range g.open {
		if x == k {
			g.open = append(g.open[:i], g.open[i+1:]...)
			return
		}
	}
}

func (g *c09Gen) closeOp(k *c09Sink) {
	o := c09Op{Op: "close", Sink: k.seq}
	if n := c09Steps(k.hdr); n > 0 {
		switch g.rng.Intn(5) {
		case 0:
			o.Mode, o.K = "fail", g.rng.Intn(n)
		case 1:
			o.Mode, o.K = "crash", g.rng.Intn(n)
		}
	}
	g.add(o)
	g.drop(k)
	if o.Mode == "crash" {
		g.open = nil
	}
}

func c09Random(rng *rand.Rand, maxOps int, sequential bool) c09Input {
	g := &c09Gen{rng: rng, term: 1, used: map[[2]uint64]bool{}}
	// most histories start with an installed full snapshot
	if rng.Intn(5) > 0 {
		k := g.create(true)
		g.add(c09Op{Op: "full", Sink: k.seq, NWal: rng.Intn(3)})
		g.add(c09Op{Op: "close", Sink: k.seq})
		g.drop(k)
	}
	for len(g.ops) < maxOps {
		r := rng.Intn(100)
		switch {
		case r < 30 && (len(g.open) == 0 || (!sequential && len(g.open) < 3)):
			k := g.create(sequential)
			// usually give it a payload at once
			if rng.Intn(8) > 0 {
				if rng.Intn(3) == 0 {
					k.hdr, k.nwal = "full", rng.Intn(3)
					bad := rng.Intn(6) == 0
					if bad {
						k.hdr = "bad"
					}
					g.add(c09Op{Op: "full", Sink: k.seq, NWal: k.nwal, Bad: bad})
				} else {
					k.hdr, k.nwal = "inc", 1+rng.Intn(3)
					g.add(c09Op{Op: "inc", Sink: k.seq, NWal: k.nwal})
				}
			}
		case r < 60 && len(g.open) > 0:
			g.closeOp(g.open[rng.Intn(len(g.open))])
		case r < 70 && len(g.open) > 0:
			k := g.open[rng.Intn(len(g.open))]
			g.add(c09Op{Op: "cancel", Sink: k.seq})
			g.drop(k)
		case r < 76:
			g.add(c09Op{Op: "setfull"})
		case r < 90:
			g.add(c09Op{Op: "reap"})
		case r < 96:
			g.add(c09Op{Op: "reopen"})
			g.open = nil
		}
	}
	return c09Input{Ops: g.ops}
}

func c09Corpus() []c09Input {
	full := func(seq int, t, i uint64, nwal int) []c09Op {
		return []c09Op{{Op: "create", Term: t, Index: i}, {Op: "full", Sink: seq, NWal: nwal}, {Op: "close", Sink: seq}}
	}
	var out []c09Input
	// the check-then-act window of FULL_NEEDED
	out = append(out, c09Input{Ops: append(full(0, 1, 1, 0),
		c09Op{Op: "create", Term: 1, Index: 2}, c09Op{Op: "inc", Sink: 1, NWal: 1}, c09Op{Op: "setfull"}, c09Op{Op: "close", Sink: 1},
		c09Op{Op: "create", Term: 1, Index: 3}, c09Op{Op: "inc", Sink: 2, NWal: 1}, c09Op{Op: "close", Sink: 2})})
	// incremental into an empty store
	out = append(out, c09Input{Ops: []c09Op{{Op: "create", Term: 1, Index: 1}, {Op: "inc", Sink: 0, NWal: 1}, {Op: "close", Sink: 0}}})
	// every cut point of an incremental close, as failure and as crash
	for _, mode := range []string{"fail", "crash"} {
		for k := 0; k < 6; k++ {
			out = append(out, c09Input{Ops: append(full(0, 1, 1, 1),
				c09Op{Op: "create", Term: 1, Index: 2}, c09Op{Op: "inc", Sink: 1, NWal: 2}, c09Op{Op: "close", Sink: 1, Mode: mode, K: k},
				c09Op{Op: "create", Term: 1, Index: 3}, c09Op{Op: "inc", Sink: 2, NWal: 1}, c09Op{Op: "close", Sink: 2}, c09Op{Op: "reap"})})
		}
		for k := 0; k < 4; k++ {
			out = append(out, c09Input{Ops: append(full(0, 1, 1, 0),
				c09Op{Op: "setfull"}, c09Op{Op: "create", Term: 1, Index: 2}, c09Op{Op: "full", Sink: 1, NWal: 1}, c09Op{Op: "close", Sink: 1, Mode: mode, K: k},
				c09Op{Op: "create", Term: 1, Index: 3}, c09Op{Op: "inc", Sink: 2, NWal: 1}, c09Op{Op: "close", Sink: 2}, c09Op{Op: "reopen"})})
		}
	}
	// two sinks open at once, the older one installed after a reap
	out = append(out, c09Input{Ops: append(full(0, 1, 1, 0),
		c09Op{Op: "create", Term: 1, Index: 2}, c09Op{Op: "create", Term: 1, Index: 3}, c09Op{Op: "full", Sink: 2, NWal: 0}, c09Op{Op: "close", Sink: 2},
		c09Op{Op: "inc", Sink: 1, NWal: 1}, c09Op{Op: "close", Sink: 1}, c09Op{Op: "reap"})})
	// the order is (term, index), not index alone: a higher term with a lower index is newer
	out = append(out, c09Input{Ops: append(append(full(0, 1, 9, 0), full(1, 2, 5, 1)...),
		c09Op{Op: "create", Term: 2, Index: 3}, c09Op{Op: "inc", Sink: 2, NWal: 1}, c09Op{Op: "close", Sink: 2},
		c09Op{Op: "create", Term: 3, Index: 1}, c09Op{Op: "inc", Sink: 3, NWal: 2}, c09Op{Op: "close", Sink: 3}, c09Op{Op: "reap"})})
	// cancelling a sink whose full payload was cut short
	out = append(out, c09Input{Ops: append(full(0, 1, 1, 0),
		c09Op{Op: "create", Term: 1, Index: 2}, c09Op{Op: "full", Sink: 1, NWal: 1, Bad: true}, c09Op{Op: "cancel", Sink: 1},
		c09Op{Op: "create", Term: 1, Index: 3}, c09Op{Op: "full", Sink: 2, NWal: 1}, c09Op{Op: "cancel", Sink: 2},
		c09Op{Op: "create", Term: 1, Index: 4}, c09Op{Op: "inc", Sink: 3, NWal: 1}, c09Op{Op: "cancel", Sink: 3}, c09Op{Op: "reopen"})})
	// cancelled, unfinished and bad payloads, then a reap over a chain
	out = append(out, c09Input{Ops: append(full(0, 2, 5, 2),
		c09Op{Op: "create", Term: 2, Index: 6}, c09Op{Op: "cancel", Sink: 1},
		c09Op{Op: "create", Term: 2, Index: 7}, c09Op{Op: "close", Sink: 2},
		c09Op{Op: "create", Term: 2, Index: 8}, c09Op{Op: "full", Sink: 3, NWal: 1, Bad: true}, c09Op{Op: "close", Sink: 3},
		c09Op{Op: "create", Term: 2, Index: 9}, c09Op{Op: "inc", Sink: 4, NWal: 3}, c09Op{Op: "close", Sink: 4},
		c09Op{Op: "create", Term: 3, Index: 10}, c09Op{Op: "inc", Sink: 5, NWal: 1}, c09Op{Op: "close", Sink: 5},
		c09Op{Op: "reap"}, c09Op{Op: "reopen"})})
	return out
}

func TestVerif_C09(t *testing.T) {
	w := vOpen()
	defer w.Close()
	scratch := c09Scratch()
	defer os.RemoveAll(scratch)
	rng := vRand()

	if raw := vReplayInput(); raw != nil {
		var in c09Input
		if err := json.Unmarshal(raw, &in); err != nil {
			t.Fatal(err)
		}
		c09Run(w, scratch, in)
		return
	}
	for _, in := range c09Corpus() {
		c09Run(w, scratch, in)
	}
	n := vN(260, 4000)
	maxOps := 12
	if vTier() == "thorough" {
		maxOps = 30
	}
	for i := 0; i < n; i++ {
		c09Run(w, scratch, c09Random(rng, 4+rng.Intn(maxOps-3), rng.Intn(3) > 0))
	}
}
