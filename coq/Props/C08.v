(* C08 — property theorems only.  The model is the upgrade code WITH the fix
   .work/fixes/C08-upgrade8to10-resume.patch (resume skips what precedes an applied rename). *)
From Coq Require Import List NArith.
From RQ Require Import Lib.C07_Crash Model.C08 Proofs.C08.

(* A node whose raft directory holds a v7 snapshot directory (n7 > 0 entries): whatever
   micro-step of the start-up sequence (Upgrade7To8; Upgrade8To10; NewStore) the process dies at,
   and however many times in a row (the recovery run is the same sequence), the next start
   completes without error and leaves exactly the upgraded v10 store: one snapshot whose
   meta.json and database are complete copies of the newest old snapshot's, no old directory,
   temporary directory or plan file. *)
Theorem C08_crash_safe_v7 : forall n7 n8, n7 <> 0 -> n8 <> 0 ->
  forall s, reach (open_node n8) (init7 n7) s ->
  exists f, result (open_node n8) s = Some f /\ upgraded f = true.
Proof. exact upgrade_crash_safe_v7. Qed.
Print Assumptions C08_crash_safe_v7.

(* The same for a node that starts with a v8 snapshot directory. *)
Theorem C08_crash_safe_v8 : forall n8, n8 <> 0 ->
  forall s, reach (open_node n8) (init8 n8) s ->
  exists f, result (open_node n8) s = Some f /\ upgraded f = true.
Proof. exact upgrade_crash_safe_v8_only. Qed.
Print Assumptions C08_crash_safe_v8.

(* With explicit crash positions: die at image k of each successive run, for any list of k. *)
Theorem C08_crash_sequence : forall n7 n8, n7 <> 0 -> n8 <> 0 -> forall (v7 : bool) ks,
  exists f, result (open_node n8)
              (fold_left (fun s k => crash_at (open_node n8) k s) ks (if v7 then init7 n7 else init8 n8)) = Some f
            /\ upgraded f = true.
Proof. exact upgrade_crash_sequence. Qed.
Print Assumptions C08_crash_sequence.

(* Once upgraded, later starts do nothing. *)
Theorem C08_upgraded_stable : forall n8 s, upgraded s = true -> open_node n8 s = (nil, Some s).
Proof. exact upgraded_stable. Qed.
Print Assumptions C08_upgraded_stable.

(* The snapshot that is carried over is a newest one in (term, index, id) order. *)
Theorem C08_newest_is_upgraded : forall l b, pick_newest l = Some b ->
  In b l /\ forall a, In a l -> snap_lt b a = false.
Proof. exact pick_newest_max. Qed.
Print Assumptions C08_newest_is_upgraded.

(* Whatever is left of the old directory when its removal is interrupted -- any number of
   entries, i.e. any subset unlinked in any order -- every restart completes the upgrade:
   after the 7->8 rename (old = the v7 directory) ... *)
Theorem C08_any_remainder_of_v7 : forall n8, n8 <> 0 -> forall left tmpfile s,
  reach (open_node n8) (after_rename8 n8 left tmpfile) s ->
  exists f, result (open_node n8) s = Some f /\ upgraded f = true.
Proof. exact any_remainder_of_v7_only. Qed.
Print Assumptions C08_any_remainder_of_v7.

(* ... and after the 8->10 plan's rename (old = the v8 directory). *)
Theorem C08_any_remainder_of_v8 : forall n8, n8 <> 0 -> forall left s,
  reach (open_node n8) (after_rename10 left) s ->
  exists f, result (open_node n8) s = Some f /\ upgraded f = true.
Proof. exact any_remainder_of_v8_only. Qed.
Print Assumptions C08_any_remainder_of_v8.
