package cdc

// C26 driver: random histories of enqueue / delete-range / receive / reopen / kill on the real
// Queue.  After every operation Len, FirstKey, HighestKey and HasNext are read.  The history and
// the answers go (a) to the Coq model (Model.C26.check_case) and (b) through a reference written
// from the property text (c26Ref below), which knows nothing about cursors or cached heads.
//
// kill: the queue runs in a child process (this test binary re-executed) that is SIGKILLed while
// idle or a random 0-3 ms after an operation was sent to it.

import (
	"bufio"
	"encoding/hex"
	"encoding/json"
	"fmt"
	"io"
	"math/rand"
	"os"
	"os/exec"
	"path/filepath"
	"sort"
	"strconv"
	"strings"
	"testing"
	"time"

	"go.etcd.io/bbolt"
)

type c26Op struct {
	T       string `json:"t"` // enq del take reopen kill killenq killdel
	K       uint64 `json:"k,omitempty"`
	D       string `json:"d,omitempty"`
	DelayUs int    `json:"delay_us,omitempty"` // kill this long after sending the operation
}

type c26Input struct {
	Ops   []c26Op `json:"ops"`
	Child bool    `json:"child"` // run the queue in a child process (needed for kill)
}

type c26Obs struct {
	Ev      *Event
	Len     uint64
	First   uint64
	High    uint64
	HasNext bool
}

// ---------------------------------------------------------------- executors

type c26Exec interface {
	enq(k uint64, d string) error
	del(i uint64) error
	take() (*Event, string) // event or nil; second value: problem with the probe itself
	obs() (c26Obs, error)
	reopen() error
	kill() error                           // SIGKILL while idle, then open again
	killDuring(op c26Op) (acked bool, err error) // send op, SIGKILL after op.DelayUs, open again
	stop()
}

// ---- in-process

type c26Local struct {
	path string
	q    *Queue
}

func c26Take(q *Queue) (*Event, string) {
	// HasNext is answered by the manager goroutine after it finished the previous operation
	// completely, so there is no race between an operation's response and the head being loaded.
	if q.HasNext() {
		select {
		case ev, ok := <-q.C:
			if !ok {
				return nil, "C closed"
			}
			return ev, ""
		case <-time.After(5 * time.Second):
			return nil, "HasNext()=true but nothing offered on C within 5s"
		}
	}
	select {
	case ev, ok := <-q.C:
		if ok {
			return ev, ""
		}
		return nil, "C closed"
	case <-time.After(3 * time.Millisecond):
		return nil, ""
	}
}

func c26Observe(q *Queue) (c26Obs, error) {
	var o c26Obs
	o.Len = uint64(q.Len())
	f, err := q.FirstKey()
	if err != nil {
		return o, err
	}
	o.First = f
	h, err := q.HighestKey()
	if err != nil {
		return o, err
	}
	o.High = h
	o.HasNext = q.HasNext()
	return o, nil
}

func (l *c26Local) enq(k uint64, d string) error { return l.q.Enqueue(&Event{Index: k, Data: []byte(d)}) }
func (l *c26Local) del(i uint64) error           { return l.q.DeleteRange(i) }
func (l *c26Local) take() (*Event, string)       { return c26Take(l.q) }
func (l *c26Local) obs() (c26Obs, error)         { return c26Observe(l.q) }
func (l *c26Local) reopen() error {
	l.q.Close()
	q, err := NewQueue(l.path)
	if err != nil {
		return err
	}
	l.q = q
	return nil
}
func (l *c26Local) kill() error                     { return fmt.Errorf("kill needs child mode") }
func (l *c26Local) killDuring(c26Op) (bool, error)  { return false, fmt.Errorf("kill needs child mode") }
func (l *c26Local) stop()                           { l.q.Close() }

// ---- child process

type c26Remote struct {
	path string
	cmd  *exec.Cmd
	in   io.WriteCloser
	out  *bufio.Reader
}

func (r *c26Remote) start() error {
	cmd := exec.Command(os.Args[0], "-test.run=^TestVerif_C26$", "-test.count=1")
	cmd.Env = append(os.Environ(), "VERIF_C26_CHILD="+r.path)
	in, err := cmd.StdinPipe()
	if err != nil {
		return err
	}
	out, err := cmd.StdoutPipe()
	if err != nil {
		return err
	}
	cmd.Stderr = os.Stderr
	if err := cmd.Start(); err != nil {
		return err
	}
	r.cmd, r.in, r.out = cmd, in, bufio.NewReader(out)
	resp, err := r.read()
	if err != nil {
		return err
	}
	if resp != "ready" {
		return fmt.Errorf("child did not open the queue: %s", resp)
	}
	return nil
}

func (r *c26Remote) read() (string, error) {
	for {
		line, err := r.out.ReadString('\n')
		if err != nil {
			return "", err
		}
		if strings.HasPrefix(line, "R ") {
			return strings.TrimSpace(line[2:]), nil
		}
	}
}

func (r *c26Remote) call(cmd string) (string, error) {
	if _, err := io.WriteString(r.in, cmd+"\n"); err != nil {
		return "", err
	}
	return r.read()
}

func c26Line(op c26Op) string {
	switch op.T {
	case "enq", "killenq":
		return "enq " + strconv.FormatUint(op.K, 10) + " x" + hex.EncodeToString([]byte(op.D))
	default:
		return "del " + strconv.FormatUint(op.K, 10)
	}
}

func c26Err(resp string, err error) error {
	if err != nil {
		return err
	}
	if resp != "ok" {
		return fmt.Errorf("%s", resp)
	}
	return nil
}

func (r *c26Remote) enq(k uint64, d string) error {
	return c26Err(r.call(c26Line(c26Op{T: "enq", K: k, D: d})))
}
func (r *c26Remote) del(i uint64) error { return c26Err(r.call(c26Line(c26Op{T: "del", K: i}))) }
func (r *c26Remote) take() (*Event, string) {
	resp, err := r.call("take")
	if err != nil {
		return nil, err.Error()
	}
	f := strings.Fields(resp)
	switch {
	case len(f) == 1 && f[0] == "none":
		return nil, ""
	case len(f) == 3 && f[0] == "ev":
		k, _ := strconv.ParseUint(f[1], 10, 64)
		d, _ := hex.DecodeString(f[2][1:])
		return &Event{Index: k, Data: d}, ""
	}
	return nil, resp
}
func (r *c26Remote) obs() (c26Obs, error) {
	var o c26Obs
	resp, err := r.call("obs")
	if err != nil {
		return o, err
	}
	f := strings.Fields(resp)
	if len(f) != 5 || f[0] != "obs" {
		return o, fmt.Errorf("%s", resp)
	}
	o.Len, _ = strconv.ParseUint(f[1], 10, 64)
	o.First, _ = strconv.ParseUint(f[2], 10, 64)
	o.High, _ = strconv.ParseUint(f[3], 10, 64)
	o.HasNext = f[4] == "true"
	return o, nil
}
func (r *c26Remote) reopen() error {
	// Close + NewQueue inside the same child (a new process is only needed after a kill)
	resp, err := r.call("reopen")
	if err != nil {
		return err
	}
	if resp != "ready" {
		return fmt.Errorf("%s", resp)
	}
	return nil
}
func (r *c26Remote) kill() error {
	r.cmd.Process.Kill()
	r.in.Close()
	io.Copy(io.Discard, r.out)
	r.cmd.Wait()
	return r.start()
}
func (r *c26Remote) killDuring(op c26Op) (bool, error) {
	if _, err := io.WriteString(r.in, c26Line(op)+"\n"); err != nil {
		return false, err
	}
	time.Sleep(time.Duration(op.DelayUs) * time.Microsecond)
	r.cmd.Process.Kill()
	r.in.Close()
	rest, _ := io.ReadAll(r.out)
	r.cmd.Wait()
	acked := false
	for _, line := range strings.Split(string(rest), "\n") {
		if strings.TrimSpace(line) == "R ok" {
			acked = true
		}
	}
	return acked, r.start()
}
func (r *c26Remote) stop() {
	if r.cmd != nil {
		r.call("close")
		r.in.Close()
		r.cmd.Wait()
	}
}

// the child: executes commands from stdin on the queue at path
func c26Child(path string) {
	say := func(s string) { os.Stdout.WriteString("R " + s + "\n") }
	q, err := NewQueue(path)
	if err != nil {
		say("open-error " + strings.ReplaceAll(err.Error(), "\n", " "))
		return
	}
	say("ready")
	sc := bufio.NewScanner(os.Stdin)
	sc.Buffer(make([]byte, 1<<20), 1<<20)
	for sc.Scan() {
		f := strings.Fields(sc.Text())
		if len(f) == 0 {
			continue
		}
		switch f[0] {
		case "enq":
			k, _ := strconv.ParseUint(f[1], 10, 64)
			d, _ := hex.DecodeString(f[2][1:])
			if err := q.Enqueue(&Event{Index: k, Data: d}); err != nil {
				say("err " + err.Error())
			} else {
				say("ok")
			}
		case "del":
			k, _ := strconv.ParseUint(f[1], 10, 64)
			if err := q.DeleteRange(k); err != nil {
				say("err " + err.Error())
			} else {
				say("ok")
			}
		case "take":
			ev, prob := c26Take(q)
			switch {
			case prob != "":
				say("probe-problem " + prob)
			case ev == nil:
				say("none")
			default:
				say("ev " + strconv.FormatUint(ev.Index, 10) + " x" + hex.EncodeToString(ev.Data))
			}
		case "obs":
			o, err := c26Observe(q)
			if err != nil {
				say("err " + err.Error())
			} else {
				say(fmt.Sprintf("obs %d %d %d %v", o.Len, o.First, o.High, o.HasNext))
			}
		case "reopen":
			q.Close()
			q, err = NewQueue(path)
			if err != nil {
				say("open-error " + strings.ReplaceAll(err.Error(), "\n", " "))
				return
			}
			say("ready")
		case "close":
			q.Close()
			say("closed")
			return
		}
	}
}

// ---------------------------------------------------------------- reference from the property text

type c26Ref struct {
	items   map[uint64]string // what the queue must hold
	highest uint64            // highest index ever stored
	anyEm   bool              // something was received since the last open
	lastEm  uint64
	anyDel  bool // delete_range calls since the last open
	maxDel  uint64
}

func (r *c26Ref) open() { r.anyEm, r.anyDel = false, false }
func (r *c26Ref) enq(k uint64, d string) {
	if k <= r.highest {
		return
	}
	r.items[k] = d
	r.highest = k
}
func (r *c26Ref) del(i uint64) {
	for k := range r.items {
		if k <= i {
			delete(r.items, k)
		}
	}
}
func (r *c26Ref) keys() []uint64 {
	ks := make([]uint64, 0, len(r.items))
	for k := range r.items {
		ks = append(ks, k)
	}
	sort.Slice(ks, func(i, j int) bool { return ks[i] < ks[j] })
	return ks
}

// checkTake: what the property allows a receive to give
func (r *c26Ref) checkTake(ev *Event) (string, string) {
	// must: stored, not yet received in this open, not below a delete_range of this open
	var must []uint64
	for _, k := range r.keys() {
		if r.anyEm && k <= r.lastEm {
			continue
		}
		if r.anyDel && k <= r.maxDel {
			continue // stored after a delete_range that covered it (documented cursor behaviour)
		}
		must = append(must, k)
	}
	if ev == nil {
		if len(must) > 0 {
			return fmt.Sprintf("nothing offered although index %d is stored and was not received in this open", must[0]), "C26:owed-item-not-emitted"
		}
		return "", ""
	}
	d, ok := r.items[ev.Index]
	if !ok {
		return fmt.Sprintf("received index %d which is not in the queue", ev.Index), "C26:emitted-item-not-stored"
	}
	if d != string(ev.Data) {
		return fmt.Sprintf("received index %d with data %q, stored was %q", ev.Index, ev.Data, d), "C26:emitted-data-differs"
	}
	if r.anyEm && ev.Index <= r.lastEm {
		return fmt.Sprintf("received index %d after index %d in the same open", ev.Index, r.lastEm), "C26:emission-not-increasing"
	}
	if len(must) > 0 && ev.Index > must[0] {
		return fmt.Sprintf("received index %d while the lower index %d was owed", ev.Index, must[0]), "C26:owed-item-skipped"
	}
	r.anyEm, r.lastEm = true, ev.Index
	return "", ""
}

func (r *c26Ref) checkObs(o c26Obs, after string) (string, string) {
	ks := r.keys()
	first := uint64(0)
	if len(ks) > 0 {
		first = ks[0]
	}
	if o.High != r.highest {
		return fmt.Sprintf("after %s: HighestKey=%d, highest index ever stored is %d", after, o.High, r.highest), "C26:highest-differs"
	}
	if o.Len != uint64(len(ks)) || o.First != first {
		sig := "C26:content-differs"
		if o.Len < uint64(len(ks)) {
			sig = "C26:item-lost"
		} else if o.Len > uint64(len(ks)) {
			sig = "C26:extra-item"
		}
		return fmt.Sprintf("after %s: Len=%d FirstKey=%d, expected %d items %v", after, o.Len, o.First, len(ks), ks), sig
	}
	return "", ""
}

// c26Dump reads the bolt file directly (queue closed)
func c26Dump(path string) (map[uint64]string, uint64, error) {
	db, err := bbolt.Open(path, 0600, &bbolt.Options{Timeout: time.Second, ReadOnly: true})
	if err != nil {
		return nil, 0, err
	}
	defer db.Close()
	m := map[uint64]string{}
	var hi uint64
	err = db.View(func(tx *bbolt.Tx) error {
		if b := tx.Bucket(bucketName); b != nil {
			b.ForEach(func(k, v []byte) error {
				m[btouint64(k)] = string(v)
				return nil
			})
		}
		if b := tx.Bucket(metaBucketName); b != nil {
			if v := b.Get([]byte("max_key")); v != nil {
				hi = btouint64(v)
			}
		}
		return nil
	})
	return m, hi, err
}

// ---------------------------------------------------------------- one case

func c26CoqOp(op c26Op, applied bool) string {
	switch op.T {
	case "enq":
		return fmt.Sprintf("Enq %s %s", coqN(op.K), coqStr(op.D))
	case "del":
		return fmt.Sprintf("Del %s", coqN(op.K))
	case "take":
		return "Take"
	case "reopen":
		return "Reopen"
	case "kill":
		return "Kill"
	case "killenq":
		return fmt.Sprintf("KillEnq %s %s %s", coqN(op.K), coqStr(op.D), coqBool(applied))
	case "killdel":
		return fmt.Sprintf("KillDel %s %s", coqN(op.K), coqBool(applied))
	}
	return "Take"
}

func c26CoqObs(o c26Obs) string {
	ev := "None"
	if o.Ev != nil {
		ev = "(Some (" + coqN(o.Ev.Index) + ", " + coqStr(string(o.Ev.Data)) + "))"
	}
	return fmt.Sprintf("{| o_ev := %s; o_len := %s; o_first := %s; o_high := %s; o_hasnext := %s |}",
		ev, coqN(o.Len), coqN(o.First), coqN(o.High), coqBool(o.HasNext))
}

func c26Run(w *vWriter, in c26Input, dir string, id int) {
	path := filepath.Join(dir, fmt.Sprintf("q%d.db", id))
	os.Remove(path)
	var ex c26Exec
	if in.Child {
		r := &c26Remote{path: path}
		if err := r.start(); err != nil {
			w.Emit(VCase{Input: in, Inconcl: "child start: " + err.Error()})
			return
		}
		ex = r
	} else {
		q, err := NewQueue(path)
		if err != nil {
			w.Emit(VCase{Input: in, OracleFail: "NewQueue: " + err.Error(), Sig: "C26:open-error"})
			return
		}
		ex = &c26Local{path: path, q: q}
	}
	defer ex.stop()
	defer os.Remove(path)

	ref := &c26Ref{items: map[uint64]string{}}
	var coqOps, coqObs, keyParts []string
	fail, sig := "", ""
	note := func(f, s string) {
		if fail == "" && f != "" {
			fail, sig = f, s
		}
	}
	stale, delHit, emits, restarts, kills, quirk := 0, 0, 0, 0, 0, 0
	for _, op := range in.Ops {
		var ev *Event
		var err error
		applied := false
		switch op.T {
		case "enq":
			if op.K <= ref.highest {
				stale++
			}
			err = ex.enq(op.K, op.D)
			ref.enq(op.K, op.D)
		case "del":
			for k := range ref.items {
				if k <= op.K {
					delHit++
					break
				}
			}
			if op.K > ref.highest && ref.anyEm {
				quirk++
			}
			err = ex.del(op.K)
			ref.del(op.K)
			if !ref.anyDel || op.K > ref.maxDel {
				ref.anyDel, ref.maxDel = true, op.K
			}
		case "take":
			var prob string
			ev, prob = ex.take()
			if prob != "" {
				note("receive probe: "+prob, "C26:receive-stuck")
			} else {
				note(ref.checkTake(ev))
			}
			if ev != nil {
				emits++
			}
		case "reopen":
			restarts++
			if l, ok := ex.(*c26Local); ok {
				// look into the file between Close and NewQueue
				l.q.Close()
				m, hi, derr := c26Dump(path)
				if derr != nil {
					note("reading the queue file: "+derr.Error(), "C26:file-unreadable")
				} else {
					if hi != ref.highest {
						note(fmt.Sprintf("stored max_key=%d, highest index ever stored is %d", hi, ref.highest), "C26:highest-differs")
					}
					if fmt.Sprint(m) != fmt.Sprint(ref.items) {
						note(fmt.Sprintf("file holds %v, expected %v", m, ref.items), "C26:stored-set-differs")
					}
				}
				q, oerr := NewQueue(path)
				err = oerr
				if oerr == nil {
					l.q = q
				}
			} else {
				err = ex.reopen()
			}
			ref.open()
		case "kill":
			kills++
			err = ex.kill()
			ref.open()
		case "killenq", "killdel":
			kills++
			var acked bool
			acked, err = ex.killDuring(op)
			ref.open()
			if err == nil {
				o, oerr := ex.obs()
				if oerr != nil {
					err = oerr
					break
				}
				// the operation was in flight: it may or may not have taken effect (atomically)
				if op.T == "killenq" {
					if op.K <= ref.highest {
						stale++
					}
					applied = op.K > ref.highest && o.High == op.K
					if acked && op.K > ref.highest && !applied {
						note(fmt.Sprintf("enqueue %d was acknowledged, process killed, item gone after restart", op.K), "C26:acknowledged-enqueue-lost-by-kill")
					}
					if applied {
						ref.enq(op.K, op.D)
					}
				} else {
					hit := false
					for k := range ref.items {
						if k <= op.K {
							hit = true
						}
					}
					applied = hit && (o.Len == 0 || o.First > op.K)
					if acked && hit && !applied {
						note(fmt.Sprintf("delete_range %d was acknowledged, process killed, items back after restart", op.K), "C26:acknowledged-delete-undone-by-kill")
					}
					if applied {
						ref.del(op.K)
					}
				}
				if acked {
					// acknowledged, then killed = the operation followed by Kill = KillEnq/KillDel applied
					applied = true
				}
			}
		}
		if err != nil {
			note(fmt.Sprintf("%s %d: %v", op.T, op.K, err), "C26:operation-error")
			break
		}
		o, oerr := ex.obs()
		if oerr != nil {
			note("query: "+oerr.Error(), "C26:operation-error")
			break
		}
		o.Ev = ev
		note(ref.checkObs(o, fmt.Sprintf("%s %d", op.T, op.K)))
		coqOps = append(coqOps, c26CoqOp(op, applied))
		coqObs = append(coqObs, c26CoqObs(o))
		keyParts = append(keyParts, fmt.Sprintf("%s:%d:%s:%v", op.T, op.K, op.D, applied))
	}
	c := VCase{Input: in, Key: strings.Join(keyParts, " ")}
	c.Coq = fmt.Sprintf("{| c_ops := %s; c_impl := %s |}", coqList(coqOps), coqList(coqObs))
	c.Nontrivial = stale > 0 && delHit > 0 && emits >= 2 && restarts+kills > 0
	c.Tags = []string{fmt.Sprintf("ops=%d0s", len(in.Ops)/10)}
	if in.Child {
		c.Tags = append(c.Tags, "child-process")
	}
	if kills > 0 {
		c.Tags = append(c.Tags, "kill")
	}
	if quirk > 0 {
		c.Tags = append(c.Tags, "delete-above-highest-after-emission")
	}
	if stale > 0 {
		c.Tags = append(c.Tags, "stale-enqueue")
	}
	if fail != "" {
		c.OracleFail, c.Sig = fail, sig
	}
	w.Emit(c)
}

// ---------------------------------------------------------------- generator

func c26Gen(rng *rand.Rand, n int, child bool) c26Input {
	in := c26Input{Child: child}
	var hi uint64       // highest generated so far
	var stored []uint64 // rough picture of what is in the queue, to aim deletes
	base := uint64(0)
	switch rng.Intn(6) {
	case 0:
		base = 1 << 32
	case 1:
		base = 1<<63 - 1000
	}
	data := func() string {
		switch rng.Intn(8) {
		case 0:
			return ""
		case 1:
			return strings.Repeat("z", 300+rng.Intn(2000))
		}
		b := make([]byte, 1+rng.Intn(6))
		for i := range b {
			b[i] = "abcdefghijklmnopqrstuvwxyz0123456789 _-{}:,"[rng.Intn(43)]
		}
		return string(b)
	}
	for len(in.Ops) < n {
		x := rng.Intn(100)
		switch {
		case x < 38: // enqueue, mostly fresh
			var k uint64
			switch y := rng.Intn(10); {
			case y < 7 || hi == 0:
				if hi == 0 {
					k = base + uint64(rng.Intn(3))
				} else {
					k = hi + 1 + uint64(rng.Intn(3))
				}
			case y < 9:
				k = hi - uint64(rng.Intn(4)) // stale: at or below the highest
				if k > hi {
					k = hi
				}
			default:
				k = uint64(rng.Intn(5)) // far below
			}
			t := "enq"
			if child && rng.Intn(6) == 0 {
				t = "killenq"
			}
			in.Ops = append(in.Ops, c26Op{T: t, K: k, D: data(), DelayUs: rng.Intn(3000)})
			if k > hi {
				hi = k
				stored = append(stored, k)
			}
		case x < 55: // delete range
			var k uint64
			switch y := rng.Intn(10); {
			case y < 6 && len(stored) > 0:
				k = stored[rng.Intn(len(stored))]
				if rng.Intn(3) == 0 {
					k--
				}
			case y < 8:
				k = hi + uint64(rng.Intn(4)) // at or above the highest
			case y < 9:
				k = 0
			default:
				k = hi / 2
			}
			t := "del"
			if child && rng.Intn(6) == 0 {
				t = "killdel"
			}
			in.Ops = append(in.Ops, c26Op{T: t, K: k, DelayUs: rng.Intn(3000)})
			var keep []uint64
			for _, s := range stored {
				if s > k {
					keep = append(keep, s)
				}
			}
			stored = keep
		case x < 88:
			in.Ops = append(in.Ops, c26Op{T: "take"})
		case x < 95 || !child:
			in.Ops = append(in.Ops, c26Op{T: "reopen"})
		default:
			in.Ops = append(in.Ops, c26Op{T: "kill"})
		}
	}
	// always finish with a restart and a full drain
	if child && rng.Intn(2) == 0 {
		in.Ops = append(in.Ops, c26Op{T: "kill"})
	} else {
		in.Ops = append(in.Ops, c26Op{T: "reopen"})
	}
	for i := 0; i <= len(stored); i++ {
		in.Ops = append(in.Ops, c26Op{T: "take"})
	}
	return in
}

func c26Corpus() []c26Input {
	e := func(k uint64, d string) c26Op { return c26Op{T: "enq", K: k, D: d} }
	d := func(k uint64) c26Op { return c26Op{T: "del", K: k} }
	tk := c26Op{T: "take"}
	ro := c26Op{T: "reopen"}
	return []c26Input{
		{Ops: []c26Op{tk, ro, tk}},
		{Ops: []c26Op{e(0, "zero"), tk, e(1, "a"), tk, tk}},
		{Ops: []c26Op{e(3, "a"), e(5, "b"), tk, e(4, "x"), d(9), e(7, "c"), tk, ro, tk, tk}},            // delete above highest after an emission
		{Ops: []c26Op{e(3, "a"), e(5, "b"), d(9), e(7, "c"), tk, tk, ro, tk}},                           // same without an emission before
		{Ops: []c26Op{e(1, "a"), e(2, "b"), e(3, "c"), tk, d(1), tk, d(3), tk, e(3, "again"), ro, tk}},  // delete the offered head
		{Ops: []c26Op{e(1, "a"), e(2, "b"), e(3, "c"), d(2), tk, tk, ro, tk, tk}},                       // delete before anything was received
		{Ops: []c26Op{e(10, "a"), ro, e(10, "dup"), e(9, "low"), tk, tk, d(10), ro, e(10, "re-add"), e(11, "b"), tk, tk}},
		{Ops: []c26Op{e(1<<63, "big"), e(1<<63+5, "bigger"), tk, d(1 << 63), tk, ro, tk, tk}},
	}
}

// ---- large backlogs.  The histories above keep the number of stored-but-unreceived items small; these vary it over
// orders of magnitude: bursts of enqueues without receiving, partial drains, delete_range into the backlog, more
// enqueues while a backlog exists, full drains inside the open, then the usual restart and drain.

type c26Hist struct {
	in     c26Input
	hi     uint64
	stored []uint64
	ctr    int
}

func (h *c26Hist) enq(k uint64) {
	h.ctr++
	h.in.Ops = append(h.in.Ops, c26Op{T: "enq", K: k, D: fmt.Sprintf("d%d", h.ctr)})
	if k > h.hi {
		h.hi = k
		h.stored = append(h.stored, k)
	}
}
func (h *c26Hist) fresh(step uint64) { h.enq(h.hi + step) }
func (h *c26Hist) take(n int) {
	for i := 0; i < n; i++ {
		h.in.Ops = append(h.in.Ops, c26Op{T: "take"})
	}
}
func (h *c26Hist) del(k uint64) {
	h.in.Ops = append(h.in.Ops, c26Op{T: "del", K: k})
	var keep []uint64
	for _, s := range h.stored {
		if s > k {
			keep = append(keep, s)
		}
	}
	h.stored = keep
}
func (h *c26Hist) finish(reopenFirst bool) c26Input {
	if !reopenFirst {
		h.take(len(h.stored) + 1) // everything owed in this open, and one more
	}
	h.in.Ops = append(h.in.Ops, c26Op{T: "reopen"})
	h.take(len(h.stored) + 1)
	return h.in
}

// the systematic family: a backlog of exactly b unreceived items, one more enqueue, room is made (one receive, or a
// delete_range of the first item, or of the first half), another enqueue, full drain
func c26BacklogSweep(b int, variant int) c26Input {
	h := &c26Hist{hi: 0}
	for i := 0; i < b; i++ {
		h.fresh(1)
	}
	h.fresh(1)
	switch variant {
	case 0:
		h.take(1)
	case 1:
		h.del(h.stored[0])
	default:
		h.take(1)
		h.del(h.stored[len(h.stored)/2])
	}
	h.fresh(2)
	h.take(2)
	h.fresh(1)
	return h.finish(false)
}

func c26GenBacklog(rng *rand.Rand) c26Input {
	h := &c26Hist{}
	if rng.Intn(4) == 0 {
		h.hi = 1 << 40
	}
	// burst sizes over orders of magnitude
	burst := func() int {
		switch rng.Intn(4) {
		case 0:
			return 1 + rng.Intn(4)
		case 1:
			return 5 + rng.Intn(12)
		case 2:
			return 14 + rng.Intn(8) // around typical read-ahead sizes
		}
		return 20 + rng.Intn(61)
	}
	for round, rounds := 0, 1+rng.Intn(3); round < rounds; round++ {
		for i, n := 0, burst(); i < n; i++ {
			if rng.Intn(12) == 0 && h.hi > 3 {
				h.enq(h.hi - uint64(rng.Intn(3))) // stale
			} else {
				h.fresh(uint64(1 + rng.Intn(2)))
			}
		}
		// partial drain
		if len(h.stored) > 0 {
			h.take(1 + rng.Intn(len(h.stored)))
		}
		// delete_range into the backlog (or just below / above it)
		if len(h.stored) > 0 && rng.Intn(3) > 0 {
			k := h.stored[rng.Intn(len(h.stored))]
			switch rng.Intn(6) {
			case 0:
				k--
			case 1:
				k = h.hi + uint64(rng.Intn(3))
			}
			h.del(k)
		}
		// more enqueues while (part of) the backlog is still unreceived, with a few receives in between
		for i, n := 0, 1+rng.Intn(20); i < n; i++ {
			h.fresh(uint64(1 + rng.Intn(2)))
			if rng.Intn(5) == 0 {
				h.take(1 + rng.Intn(3))
			}
		}
		switch rng.Intn(4) {
		case 0:
			h.take(len(h.stored) + 1) // full drain inside the open
		case 1:
			h.in.Ops = append(h.in.Ops, c26Op{T: "reopen"})
		}
	}
	return h.finish(rng.Intn(4) == 0)
}

func TestVerif_C26(t *testing.T) {
	if p := os.Getenv("VERIF_C26_CHILD"); p != "" {
		c26Child(p)
		return
	}
	w := vOpen()
	defer w.Close()
	rng := vRand()
	dir, err := os.MkdirTemp("", "c26")
	if err != nil {
		t.Fatal(err)
	}
	defer os.RemoveAll(dir)
	if raw := vReplayInput(); raw != nil {
		var in c26Input
		if err := json.Unmarshal(raw, &in); err != nil {
			t.Fatal(err)
		}
		c26Run(w, in, dir, 0)
		return
	}
	id := 0
	for _, in := range c26Corpus() {
		c26Run(w, in, dir, id)
		id++
		in.Child = true
		c26Run(w, in, dir, id)
		id++
	}
	// backlog sweep: every backlog size 1..40 (thorough: 1..120), three ways of making room
	maxB := 40
	if vTier() == "thorough" {
		maxB = 120
	}
	for b := 1; b <= maxB; b++ {
		for v := 0; v < 3; v++ {
			if vTier() != "thorough" && v != b%3 && b != 16 && b != 17 && b != 32 && b != 33 {
				continue // quick: one variant per size, all three around powers of two
			}
			c26Run(w, c26BacklogSweep(b, v), dir, id)
			id++
		}
	}
	nb := vN(10, 400)
	for i := 0; i < nb; i++ {
		c26Run(w, c26GenBacklog(rng), dir, id)
		id++
	}
	n := vN(70, 3000)
	for i := 0; i < n; i++ {
		c26Run(w, c26Gen(rng, 10+rng.Intn(50), false), dir, id)
		id++
		w.mu.Lock()
		w.w.Flush()
		w.mu.Unlock()
	}
	nk := vN(14, 600)
	for i := 0; i < nk; i++ {
		c26Run(w, c26Gen(rng, 10+rng.Intn(40), true), dir, id)
		id++
	}
}
