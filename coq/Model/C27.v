(* C27 — model of the CDC event path inside the database layer:
     db/db.go   RegisterPreUpdateHook: convertFn (table filter, operation, row ids, row-ids-only, values)
     db/cdc.go  CDCStreamer: PreupdateHook / CommitHook / RollbackHook / Reset (grouping per commit)
     cdc/json/marshal.go  MarshalToEnvelopeJSON (one message per group, one entry per event)
   Executable definitions only; proofs are in Proofs/C27.v.

   Column values are opaque tokens (the driver renders a value of each SQLite storage class to a
   canonical string, both for what SQLite hands to the hook and for what comes out of the JSON), so
   normalizeCDCValues / getV are the identity here; their type switches are covered by the oracle. *)
From Coq Require Import List String Bool ZArith NArith.
From RQ Require Import Lib.AList.
Import ListNotations.
Local Open Scope string_scope.

Inductive rop := RInsert | RUpdate | RDelete | ROther.

(* sqlite3.SQLitePreUpdateData as the hook sees it *)
Record raw := { r_op : rop; r_table : string; r_old : Z; r_new : Z;
                r_oldv : list string; r_newv : list string }.

(* settings of RegisterPreUpdateHook: tblRe as the set of table names it matches (None = no filter) *)
Record cfg := { ids_only : bool; filt : option (list string) }.

(* command.CDCEvent *)
Inductive cop := CUnknown | CInsert | CUpdate | CDelete.
Record event := { e_op : cop; e_table : string; e_old : Z; e_new : Z;
                  e_oldrow : option (list string); e_newrow : option (list string);
                  e_cols : list string; e_err : string }.

Definition mem (s : string) (l : list string) : bool := existsb (String.eqb s) l.

Definition table_matches (c : cfg) (t : string) : bool :=
  match filt c with None => true | Some l => mem t l end.

(* convertFn; None = the hook is not called for this row *)
Definition convert (c : cfg) (d : raw) : option event :=
  if negb (table_matches c (r_table d)) then None
  else
    match r_op d with
    | ROther => Some {| e_op := CUnknown; e_table := r_table d; e_old := 0; e_new := 0;
                        e_oldrow := None; e_newrow := None; e_cols := [];
                        e_err := "unknown preupdate hook operation" |}
    | op =>
        let ev_op := match op with RInsert => CInsert | RUpdate => CUpdate | _ => CDelete end in
        let old := match op with RInsert => 0%Z | _ => r_old d end in
        let new := match op with RDelete => 0%Z | _ => r_new d end in
        if ids_only c then
          Some {| e_op := ev_op; e_table := r_table d; e_old := old; e_new := new;
                  e_oldrow := None; e_newrow := None; e_cols := []; e_err := "" |}
        else
          Some {| e_op := ev_op; e_table := r_table d; e_old := old; e_new := new;
                  e_oldrow := match op with RInsert => None | _ => Some (r_oldv d) end;
                  e_newrow := match op with RDelete => None | _ => Some (r_newv d) end;
                  e_cols := []; e_err := "" |}
    end.

(* what SQLite calls, in order, while a request is executed *)
Inductive cb :=
| Reset            (* CDCStreamer.Reset before a log entry is applied *)
| Pre (d : raw)    (* pre-update hook *)
| Commit           (* commit hook *)
| Rollback         (* rollback hook *)
| Schema (e : alist (list string)).
                   (* not a callback: from here on ColumnNames(table) answers e.  db.ColumnNames reads the names
                      on a pooled read-only connection from a statement prepared against that connection's cached
                      schema; the cache is renewed when the connection steps a statement.  So after a schema change
                      the answers change when the read connection first steps a statement (a read, or the lookup of
                      the first commit itself - whose answer is still the old one). *)

(* ColumnNames(table) at commit time *)
Definition colenv := alist (list string).

Definition attach_cols (env : colenv) (e : event) : event :=
  match lookup env (e_table e) with
  | Some names => {| e_op := e_op e; e_table := e_table e; e_old := e_old e; e_new := e_new e;
                     e_oldrow := e_oldrow e; e_newrow := e_newrow e; e_cols := names; e_err := e_err e |}
  | None => {| e_op := e_op e; e_table := e_table e; e_old := e_old e; e_new := e_new e;
               e_oldrow := e_oldrow e; e_newrow := e_newrow e; e_cols := e_cols e;
               e_err := "failed to get column names" |}
  end.

(* the streamer: pending events; every commit with pending events sends one group *)
Definition streamer_step (c : cfg) (env : colenv) (pending : list event) (x : cb)
  : list event * option (list event) :=
  match x with
  | Reset => ([], None)
  | Pre d => match convert c d with
             | Some e => ((pending ++ [e])%list, None)
             | None => (pending, None)
             end
  | Commit => match pending with
              | [] => ([], None)
              | _ => ([], Some (map (attach_cols env) pending))
              end
  | Rollback => ([], None)
  | Schema _ => (pending, None)
  end.

Fixpoint streamer (c : cfg) (env : colenv) (pending : list event) (tr : list cb) : list (list event) :=
  match tr with
  | [] => []
  | Schema e :: r => streamer c e pending r
  | x :: r =>
      let '(p', out) := streamer_step c env pending x in
      match out with
      | Some g => g :: streamer c env p' r
      | None => streamer c env p' r
      end
  end.

(* ---- MarshalToEnvelopeJSON, one CDCMessageEvent ---- *)
Record jevent := { j_op : string; j_table : string; j_new : Z; j_old : Z;
                   j_before : option (list (string * string)); j_after : option (list (string * string));
                   j_err : string }.

Definition op_name (o : cop) : string :=
  match o with CUnknown => "UNKNOWN" | CInsert => "INSERT" | CUpdate => "UPDATE" | CDelete => "DELETE" end.

Definition marshal_event (e : event) : jevent :=
  let base b a err := {| j_op := op_name (e_op e); j_table := e_table e; j_new := e_new e; j_old := e_old e;
                         j_before := b; j_after := a; j_err := err |} in
  if negb (String.eqb (e_err e) "") then base None None (e_err e)
  else
    match e_oldrow e with
    | Some old =>
        if negb (Nat.eqb (List.length (e_cols e)) (List.length old))
        then base None None "mismatched column names and old CDC row column count"
        else
          match e_newrow e with
          | Some new =>
              if negb (Nat.eqb (List.length (e_cols e)) (List.length new))
              then base (Some (combine (e_cols e) old)) None "mismatched column names and new CDC row column count"
              else base (Some (combine (e_cols e) old)) (Some (combine (e_cols e) new)) ""
          | None => base (Some (combine (e_cols e) old)) None ""
          end
    | None =>
        match e_newrow e with
        | Some new =>
            if negb (Nat.eqb (List.length (e_cols e)) (List.length new))
            then base None None "mismatched column names and new CDC row column count"
            else base None (Some (combine (e_cols e) new)) ""
        | None => base None None ""
        end
    end.

(* everything delivered for a callback trace: one list of JSON events per group *)
Definition deliver (c : cfg) (env : colenv) (tr : list cb) : list (list jevent) :=
  map (map marshal_event) (streamer c env [] tr).

(* ---- correspondence ---- *)
Definition ostr_eqb (a b : option (list (string * string))) : bool :=
  match a, b with
  | None, None => true
  | Some x, Some y =>
      (fix go (x y : list (string * string)) : bool :=
         match x, y with
         | [], [] => true
         | (k1, v1) :: x', (k2, v2) :: y' => String.eqb k1 k2 && String.eqb v1 v2 && go x' y'
         | _, _ => false
         end) x y
  | _, _ => false
  end.

(* the error text is compared by its first 20 characters (the real text continues with details) *)
Definition err_eqb (a b : string) : bool := String.eqb (substring 0 20 a) (substring 0 20 b).

Definition jevent_eqb (a b : jevent) : bool :=
  String.eqb (j_op a) (j_op b) && String.eqb (j_table a) (j_table b)
  && Z.eqb (j_new a) (j_new b) && Z.eqb (j_old a) (j_old b)
  && ostr_eqb (j_before a) (j_before b) && ostr_eqb (j_after a) (j_after b) && err_eqb (j_err a) (j_err b).

Fixpoint list_eqb {A} (f : A -> A -> bool) (a b : list A) : bool :=
  match a, b with
  | [], [] => true
  | x :: a', y :: b' => f x y && list_eqb f a' b'
  | _, _ => false
  end.

(* a case: settings, column names per table, the callbacks SQLite made (captured on a twin database
   with no filter and full values), and the groups the real streamer + marshaller delivered *)
Record case := { c_cfg : cfg; c_env : colenv; c_trace : list cb; c_impl : list (list jevent) }.
Definition check_case (c : case) : bool :=
  list_eqb (list_eqb jevent_eqb) (deliver (c_cfg c) (c_env c) (c_trace c)) (c_impl c).
