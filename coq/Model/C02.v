(* C02 — model of rqlite's part of a linearizable history: the replicated log as one sequence
   of entries, the sequential database it defines, and the read protocol of
   Store.Query/Request at level linearizable (Model/C02_ReadIndex.v, dispatch in Model/C16.v).
   Executable definitions only; proofs are in Proofs/C02.v. *)
From Coq Require Import List NArith Bool.
From RQ Require Export Model.C02_ReadIndex.
Import ListNotations.
Local Open Scope N_scope.

(* ---------- the sequential database ---------- *)

(* a committed log entry as the register workload sees it: a write of v to key k, or anything
   else (a strong-read command, no-op, configuration change, barrier) *)
Inductive lentry := LWrite (k v : N) | LOther.

(* the value of key k after the entries have been applied in order; 0 = never written *)
Fixpoint replay (es : list lentry) (k : N) (cur : N) : N :=
  match es with
  | [] => cur
  | LWrite k' v :: r => replay r k (if k' =? k then v else cur)
  | LOther :: r => replay r k cur
  end.

(* the database a node holds once its FSM has applied the first a entries *)
Definition db_at (log : list lentry) (a : N) (k : N) : N := replay (firstn (N.to_nat a) log) k 0.

(* ---------- client operations and their linearization points ---------- *)

(* what is known of a completed linearizable read: what waitForLinearizableRead read, when it
   read the commit index, what the FSM had applied when the local query ran, and when that was *)
Record lin_read := {
  lr_obs : lin_obs;
  lr_t0 : N;
  lr_applied : N;
  lr_tq : N
}.

Inductive op :=
  | OpWrite (inv resp idx k v : N)            (* acknowledged write and the index of its log entry *)
  | OpStrong (inv resp idx k ret : N)         (* strong read: a log entry of its own *)
  | OpLin (inv resp : N) (r : lin_read) (k ret : N).

Definition op_inv (o : op) : N := match o with OpWrite i _ _ _ _ | OpStrong i _ _ _ _ | OpLin i _ _ _ _ => i end.
Definition op_resp (o : op) : N := match o with OpWrite _ r _ _ _ | OpStrong _ r _ _ _ | OpLin _ r _ _ _ => r end.

(* where the operation takes effect: entries are at even points, a linearizable read that saw
   the first a entries sits just after entry a *)
Definition op_point (o : op) : N :=
  match o with
  | OpWrite _ _ idx _ _ | OpStrong _ _ idx _ _ => 2 * idx
  | OpLin _ _ r _ _ => 2 * lr_applied r + 1
  end.

(* the order of the linearization: by point, reads at the same point by invocation *)
Definition lin_before (x y : op) : Prop :=
  op_point x < op_point y \/ (op_point x = op_point y /\ op_inv x < op_inv y).

(* ---------- correspondence: step traces of waitForLinearizableRead ---------- *)

Record case := {
  c_obs : lin_obs;           (* what the call read, observed around it on the live node *)
  c_result : lin_result;     (* what it returned *)
  c_verified : bool          (* a VerifyLeader was counted during the call *)
}.

Definition lin_result_eqb (a b : lin_result) : bool :=
  match a, b with
  | LinOk, LinOk | LinStrongNeeded, LinStrongNeeded | LinNotLeader, LinNotLeader | LinNotReady, LinNotReady
  | LinVerifyFailed, LinVerifyFailed | LinTermChanged, LinTermChanged | LinTimeout, LinTimeout => true
  | _, _ => false
  end.

Definition check_case (c : case) : bool :=
  lin_result_eqb (wait_lin (c_obs c)) (c_result c)
  && Bool.eqb (lin_calls_verify (c_obs c)) (c_verified c).
