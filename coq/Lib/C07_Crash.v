(* Generic crash-recovery schema (DESIGN.md Appendix A.3), used by C07 (reap) and C08 (upgrades).

   A procedure is a [run]: from a start state it yields the list of states the disk passes
   through (one per micro-step, the last one included) and the outcome (Some final state, or
   None when the procedure returned an error; the disk then stays at the last state of the
   list).  A crash image of a run is the start state or any state of the list.  A restart runs
   the recovery procedure on the image; it may crash again.  [crash_any_number] is the
   induction on the number of restarts. *)
From Coq Require Import List Lia PeanoNat.
Import ListNotations.

Section Run.
  Context {S : Type}.

  Definition run := S -> list S * option S.

  Definition ret : run := fun s => ([], Some s).
  Definition fail : run := fun _ => ([], None).
  Definition step (f : S -> S) : run := fun s => ([f s], Some (f s)).
  Definition seq (a b : run) : run := fun s =>
    match a s with
    | (t, None) => (t, None)
    | (t, Some s1) => match b s1 with (t2, o) => (t ++ t2, o) end
    end.
  (* a procedure that first inspects the state (stat, readdir, read plan file) *)
  Definition dyn (f : S -> run) : run := fun s => f s s.
  Fixpoint seqs (l : list run) : run :=
    match l with [] => ret | r :: l' => seq r (seqs l') end.

  Definition trace (r : run) (s : S) : list S := fst (r s).
  Definition result (r : run) (s : S) : option S := snd (r s).
  Definition images (r : run) (s : S) : list S := s :: trace r s.

  (* Hoare triple with an invariant for every intermediate disk state *)
  Definition triple (I P : S -> Prop) (r : run) (Q : S -> Prop) : Prop :=
    forall s, P s -> Forall I (trace r s) /\ exists s', result r s = Some s' /\ Q s'.

  Lemma triple_ret : forall I (P : S -> Prop), triple I P ret P.
  Proof. intros I P s HP. split; [constructor | exists s; split; [reflexivity | exact HP]]. Qed.

  Lemma triple_step : forall I (P Q : S -> Prop) f,
    (forall s, P s -> I (f s) /\ Q (f s)) -> triple I P (step f) Q.
  Proof.
    intros I P Q f H s HP. destruct (H s HP) as [HI HQ]. split.
    - constructor; [exact HI | constructor].
    - exists (f s). split; [reflexivity | exact HQ].
  Qed.

  Lemma triple_seq : forall I P Q R a b,
    triple I P a Q -> triple I Q b R -> triple I P (seq a b) R.
  Proof.
    intros I P Q R a b Ha Hb s HP. unfold trace, result, seq in *.
    destruct (Ha s HP) as [HIa (s1 & Hr1 & HQ)]. unfold trace, result in *.
    destruct (a s) as [t o] eqn:Ea. cbn in *. subst o.
    destruct (Hb s1 HQ) as [HIb (s2 & Hr2 & HR)]. unfold trace, result in *.
    destruct (b s1) as [t2 o2] eqn:Eb. cbn in *. subst o2. split.
    - apply Forall_app. split; assumption.
    - exists s2. split; [reflexivity | exact HR].
  Qed.

  Lemma triple_dyn : forall I (P : S -> Prop) Q f,
    (forall s0, P s0 -> triple I (fun s => s = s0) (f s0) Q) -> triple I P (dyn f) Q.
  Proof. intros I P Q f H s HP. exact (H s HP s eq_refl). Qed.

  Lemma triple_conseq : forall I (P P' Q Q' : S -> Prop) r,
    (forall s, P' s -> P s) -> (forall s, Q s -> Q' s) -> triple I P r Q -> triple I P' r Q'.
  Proof.
    intros I P P' Q Q' r HP HQ H s Hs. destruct (H s (HP s Hs)) as [HI (s' & Hr & Hq)].
    split; [exact HI | exists s'; split; [exact Hr | exact (HQ s' Hq)]].
  Qed.

  Lemma triple_weaken_inv : forall (I I' P Q : S -> Prop) r,
    (forall s, I s -> I' s) -> triple I P r Q -> triple I' P r Q.
  Proof.
    intros I I' P Q r HI H s Hs. destruct (H s Hs) as [HF Hr]. split; [|exact Hr].
    eapply Forall_impl; [|exact HF]. exact HI.
  Qed.

  (* loop rule: the invariant is indexed by the list of items still to be processed *)
  Lemma triple_seqs_map : forall {A} I (J : list A -> S -> Prop) (body : A -> run) l,
    (forall a rest, triple I (J (a :: rest)) (body a) (J rest)) ->
    triple I (J l) (seqs (map body l)) (J []).
  Proof.
    intros A I J body l H. induction l as [|a l IH]; cbn [map seqs].
    - apply triple_ret.
    - eapply triple_seq; [apply H | exact IH].
  Qed.

  Lemma seq_assoc : forall (a b c : run) s, seq a (seq b c) s = seq (seq a b) c s.
  Proof.
    intros a b c s. unfold seq. destruct (a s) as [t [s1|]]; [|reflexivity].
    destruct (b s1) as [t1 [s2|]]; [|reflexivity]. destruct (c s2). rewrite app_assoc. reflexivity.
  Qed.

  Lemma seq_ext : forall (a b b' : run) s, (forall x, b x = b' x) -> seq a b s = seq a b' s.
  Proof. intros a b b' s H. unfold seq. destruct (a s) as [t [s1|]]; [|reflexivity]. rewrite H. reflexivity. Qed.

  Lemma seqs_app : forall (l1 l2 : list run) s, seqs (l1 ++ l2) s = seq (seqs l1) (seqs l2) s.
  Proof.
    induction l1 as [|r l1 IH]; intros l2 s; cbn [app seqs].
    - unfold seq, ret. destruct (seqs l2 s). reflexivity.
    - rewrite (seq_ext r _ _ s (IH l2)). apply seq_assoc.
  Qed.

  Lemma triple_seqs_app : forall I P Q R l1 l2,
    triple I P (seqs l1) Q -> triple I Q (seqs l2) R -> triple I P (seqs (l1 ++ l2)) R.
  Proof.
    intros I P Q R l1 l2 H1 H2 s HP.
    pose proof (triple_seq I P Q R _ _ H1 H2 s HP) as H.
    unfold trace, result in *. rewrite seqs_app. exact H.
  Qed.

  (* ---- restarts ---- *)
  Section Restarts.
    Variable recover : run.

    (* s is reachable from s0 by any number of crashes, each during a recovery run *)
    Inductive reach (s0 : S) : S -> Prop :=
    | reach_refl : reach s0 s0
    | reach_crash : forall s s', reach s0 s -> In s' (images recover s) -> reach s0 s'.

    Definition good (final : S -> Prop) (s : S) : Prop :=
      exists f, result recover s = Some f /\ final f.

    Theorem crash_any_number : forall (Inv final : S -> Prop) s0,
      Inv s0 ->
      (forall s, Inv s -> triple Inv (fun x => x = s) recover final) ->
      forall s, reach s0 s -> Inv s /\ good final s.
    Proof.
      intros Inv final s0 H0 Hpres s Hreach.
      assert (HI : Inv s).
      { induction Hreach as [|s s' _ IH Hin]; [exact H0|].
        destruct Hin as [<- | Hin]; [exact IH|].
        destruct (Hpres s IH s eq_refl) as [HF _].
        rewrite Forall_forall in HF. exact (HF s' Hin). }
      split; [exact HI|].
      destruct (Hpres s HI s eq_refl) as [_ (f & Hr & Hf)]. exists f. split; assumption.
    Qed.

    (* the same, phrased with an explicit list of crash positions: the k-th image of each run *)
    Definition crash_at (k : nat) (s : S) : S := nth k (images recover s) s.

    Lemma crash_at_in : forall k s, In (crash_at k s) (images recover s).
    Proof.
      intros k s. unfold crash_at. destruct (Compare_dec.le_lt_dec (length (images recover s)) k) as [Hge|Hlt].
      - rewrite nth_overflow by exact Hge. left. reflexivity.
      - apply nth_In. exact Hlt.
    Qed.

    Lemma reach_crashes_from : forall ks s0 s,
      reach s0 s -> reach s0 (fold_left (fun s k => crash_at k s) ks s).
    Proof.
      induction ks as [|k ks IH]; intros s0 s Hs; cbn [fold_left]; [exact Hs|].
      apply IH. eapply reach_crash; [exact Hs | apply crash_at_in].
    Qed.

    Lemma reach_crashes : forall s0 ks, reach s0 (fold_left (fun s k => crash_at k s) ks s0).
    Proof. intros s0 ks. apply reach_crashes_from. constructor. Qed.
  End Restarts.
End Run.

Arguments run S : clear implicits.
