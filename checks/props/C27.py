# C27 — configuration read by bin/check (see checks/registry.py)
SPEC = dict(
    title="CDC events describe exactly the rows changed",
    pkg="./db", files=["db/c27_verif_test.go"],
    rule="generated write programs (3-7 requests: single statement, several autocommit statements, transaction flag, explicit BEGIN..COMMIT/ROLLBACK "
         "inside a plain request) over five tables of widths 6/4/3/2/2 (items(id INTEGER PRIMARY KEY, name TEXT UNIQUE, qty INTEGER, price REAL, data BLOB, note), ledger, big_tbl, logs(msg TEXT NOT NULL, lvl), "
         "aux_tbl; every program first changes all of them widest first, and every filter that selects more than one table selects two widths), multi-row INSERT [OR IGNORE|FAIL|REPLACE], range UPDATE (also of the rowid), DELETE, values of all five storage classes, "
         "constraint failures on the first or a later row; table filter (5 regexps or none) and row-ids-only; one program in three also changes the schema of logs/aux_tbl/big_tbl (same width: RENAME COLUMN, DROP+ADD COLUMN, DROP TABLE+CREATE TABLE with renamed columns in another order; other width: ADD COLUMN, DROP COLUMN, re-create wider), each change preceded by a delivered write and followed by 3-4 committed writes to that table in separate requests, with or without read requests in between; a program is non-trivial when it has a "
         "multi-statement request, >= 1 failing statement, >= 1 statement changing several rows and >= 2 kinds of operation delivered; distinct by program text",
    trusted=["SQLite hook semantics (hypothesis in Proofs.C27.trace_of): pre-update hook once per row change before it is made, also when undone later; "
             "commit hook once per committed transaction; rollback hook once per rolled-back transaction",
             "db.ColumnNames answers with the names of the schema its pooled read-only connection had when it last stepped a statement (marker Schema in the model trace; the first commit after a schema change without a read in between is therefore described with the old names: known finding, bounded)",
             "column values are opaque tokens in the model; normalizeCDCValues/getV type switches are checked by the oracle only",
             "Go regexp for the table filter (the model gets the set of table names it matches)"],
    assumptions=["WITHOUT ROWID tables, triggers and savepoints are not generated; schema changes are their own requests (not inside a transaction with row changes, except the create-table probe)",
                 "within one statement the order of events is compared up to permutation; across statements and groups exactly"],
    level_text="C27_delivered_is_all_attempted_changes_of_committed_transactions, C27_events_exact_partial, C27_events_exact_partial_across_schema_changes (phases of constant schema; the transient window after a schema change is excluded), C27_ids_only_has_no_values, "
               "C27_filter_only_matching hold for every request execution / callback trace of any length; C27_events_exact_refuted shows the full statement "
               "is false (statement undone inside an explicit transaction that commits). Model = convertFn + CDCStreamer + MarshalToEnvelopeJSON run on the "
               "callback trace captured on a twin database and compared with what the configured streamer delivered.",
    level_note="Oracle = row images of a shadow SQLite database before/after every statement, independent of the hooks.",
    technique="Coq proofs over all executions (SQLite hook semantics as explicit structure) + differential run (model vs real hooks/streamer/marshaller) + shadow-database diff oracle",
    design_ref="6/C27",
    timeout_quick=300, timeout_thorough=7200,
)
