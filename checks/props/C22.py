# C22 — configuration read by bin/check (see checks/registry.py)
SPEC = dict(
    title="Loads and boots replace the database everywhere, durably",
    pkg="./store", files=["store/c22_verif_test.go", "store/c04_verif_test.go", "store/c03c04c22_common_verif_test.go"],
    case_preamble="Open Scope N_scope.\n",
    rule="12 hand-picked histories (every kind of invalid data against a node with data; load through the log on three nodes; failing snapshot attempts between a load and the next successful snapshot, then rebuilds from the snapshot store; an unpersisted incremental, then a boot, then incrementals and rebuilds; boot then joiners that receive the database "
         "by snapshot install; SQL-text and DELETE-mode loads) + 12 (quick) / 500 (thorough) random histories of <= 9 / <= 20 operations over writes, loads of generated "
         "WAL-/DELETE-mode files, SQL-text loads, invalid loads (empty, truncated, header only, header + garbage, intact first pages + garbage, not SQLite), boots, snapshots of any node (as one step or as fsmSnapshot ... persist with writes / loads applied in between; persist ok / not invoked / failed, checkpoint blocked by a stalled reader, with or without log compaction), clean and unclean restarts of any node, "
         "joins (by log replay or by snapshot install), on an in-process cluster of one voter and up to two read-only nodes; a history is non-trivial when a successful load/boot is followed by a snapshot and "
         "then a restart or a join; distinct by the JSON of the history",
    exhaustive=False,
    trusted=["C04's abstraction of SQLite (cells, override); raft replication delivers the same log to every node and installs the leader's newest snapshot on a node "
             "that needs entries the leader no longer has (hashicorp/raft)",
             "followers are read-only (non-voting) nodes so that the leader never changes; a restarted follower re-joins with its new address",
             "what SQLite's quick_check accepts is what counts as 'a valid database'"],
    assumptions=["the leader's log is only compacted by a boot or by a snapshot the history marks as compacting (one trailing entry)"],
    level_text="C22_load_everywhere holds for every cluster history of any length (induction with a cluster invariant on top of C04's chain invariant); "
               "C22_invalid_load_rejected_without_change holds in every cluster state. The model's cluster step is run on every driver history and compared per step and per node.",
    level_note="Model = C04's node model x N nodes + SQL-text load, rejected load, join by replay or by snapshot install; tie = per-step per-node differential run "
               "(database dump, FULL_NEEDED, snapshot catalog) + Go oracle (loaded database plus later writes on every node; invalid data rejected, nothing changed).",
    technique="Coq cluster invariant over all histories + per-step model/implementation differential run on 1-3 in-process nodes + independent oracle",
    design_ref="6/C22",
    timeout_quick=600, timeout_thorough=14000, shard=60,
)
