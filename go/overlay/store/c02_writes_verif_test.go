package store

// C02 driver, part B2: non-idempotent writes through the proxy rule while the leader is deposed
// mid-write.
//
// Every client call inserts a row carrying a tag of its own (INSERT INTO seq(tag) - no uniqueness,
// so a statement applied twice shows).  The call goes to a store and, exactly as proxy.Execute /
// proxy.Request do, is sent on to the leader that store knows of when - and only when - the store
// answers ErrNotLeader.  The leader is made "deaf" (what it sends is delivered, the replies are
// lost), k writes are sent to it (appended and replicated, never committed there), it is then cut
// off until a successor holding those entries is elected and has committed them, and is
// re-connected: the successor's first message deposes it and raft fails the writes in flight.
// Observed per call: the class of what the store returned, whether the node's log had grown by
// the call's entry, whether the statement was sent on (Model.C02 execute_class / forwards), and at
// the end how many rows carry each tag.
// Oracle: a tag is never there twice; an acknowledged call's tag is there once; a call refused
// with "certainly not applied" left nothing; acked <= applied <= issued.

import (
	"context"
	"errors"
	"fmt"
	"strings"
	"testing"
	"time"

	"github.com/hashicorp/raft"
	"github.com/rqlite/rqlite/v10/command/proto"
)

type c02WriteIn struct {
	Kind  string `json:"kind"`  // "deposed-writes"
	K     int    `json:"k"`     // writes in flight when the leader is deposed
	Entry string `json:"entry"` // execute | request
	Round int    `json:"round"`
}

type c02Call struct {
	tag       int64
	class     string // WAcked | WNotLeader | WNotReady | WUnknown  (of the store the client talked to)
	final     string // what the client is told after the proxy rule
	forwarded bool
	appended  bool // the local node's log grew by an entry while the call was in flight
	leader    bool
	ready     bool
	errText   string
	done      chan struct{}
}

func c02WriteClass(err error) string {
	switch {
	case err == nil:
		return "WAcked"
	case errors.Is(err, ErrNotLeader):
		return "WNotLeader"
	case errors.Is(err, ErrNotReady):
		return "WNotReady"
	}
	return "WUnknown"
}

func c02Submit(s *Store, entry string, tag int64) error {
	sql := fmt.Sprintf("INSERT INTO seq(tag) VALUES(%d)", tag)
	ctx := context.Background()
	if entry == "request" {
		rs, _, _, err := s.Request(ctx, executeQueryRequestFromStrings([]string{sql}, proto.ConsistencyLevel_WEAK, false, false, false))
		if err == nil && (len(rs) != 1 || rs[0].GetError() != "") {
			return errors.New("statement failed")
		}
		return err
	}
	rs, _, err := s.Execute(ctx, executeRequestFromStrings([]string{sql}, false, false))
	if err == nil && (len(rs) != 1 || rs[0].GetError() != "") {
		return errors.New("statement failed")
	}
	return err
}

// c02ProxyCall is proxy.Execute / proxy.Request without the wire: the local store first; on
// ErrNotLeader, and only then, the leader the LOCAL store knows of.
func c02ProxyCall(c *vCluster, local *Store, entry string, call *c02Call) {
	defer close(call.done)
	call.leader, call.ready = local.IsLeader(), local.Ready()
	last := local.raft.LastIndex()
	err := c02Submit(local, entry, call.tag)
	call.appended = local.raft.LastIndex() > last
	call.class = c02WriteClass(err)
	call.final = call.class
	if err != nil {
		call.errText = err.Error()
	}
	if !errors.Is(err, ErrNotLeader) {
		return
	}
	addr, _ := local.LeaderAddr()
	if addr == "" || addr == local.Addr() {
		return // the proxy has nowhere to send it: the client is told "not leader"
	}
	for _, n := range c.nodes {
		if n.s != nil && n.s.Addr() == addr {
			call.forwarded = true
			call.final = c02WriteClass(c02Submit(n.s, entry, call.tag))
			return
		}
	}
}

func c02TagCounts(s *Store, lo, hi int64) (map[int64]int64, error) {
	qr := queryRequestFromString(fmt.Sprintf("SELECT tag, COUNT(*) FROM seq WHERE tag BETWEEN %d AND %d GROUP BY tag", lo, hi), false, false, false)
	qr.Level = proto.ConsistencyLevel_STRONG
	rows, _, _, err := s.Query(context.Background(), qr)
	if err != nil {
		return nil, err
	}
	out := map[int64]int64{}
	if len(rows) == 1 {
		for _, v := range rows[0].Values {
			out[v.Parameters[0].GetI()] = v.Parameters[1].GetI()
		}
	}
	return out, nil
}

var c02TagSeq int64 = 7000000

// c02MakeLeader moves leadership to node x and waits for the cluster to settle.
func c02MakeLeader(c *vCluster, x *vcNode) bool {
	for i := 0; i < 4; i++ {
		ld := c.leader(20 * time.Second)
		if ld == nil {
			return false
		}
		if ld == x {
			break
		}
		ld.s.Stepdown(true, x.s.ID())
		time.Sleep(200 * time.Millisecond)
	}
	return c.leader(20*time.Second) == x && c.settle(x, 15*time.Second)
}

func c02DeposedWrites(w *vWriter, in c02WriteIn, g *c02Gated) {
	key := vJSON(in)
	tags := []string{"deposed-writes", fmt.Sprintf("k=%d", in.K), "entry=" + in.Entry}
	inconcl := func(why string) {
		g.heal()
		w.Emit(VCase{Input: in, Key: key, Inconcl: why, Tags: tags})
	}
	c := g.c
	g0 := c.nodes[2] // the node with the long lease
	others := c.nodes[:2]
	if !c02MakeLeader(c, g0) {
		inconcl("could not make the long-lease node the settled leader")
		return
	}
	old := g0.s
	idx0 := old.raft.LastIndex()

	// 1. deaf: its entries reach the followers, their answers do not reach it
	g.gates[g0].deaf.Store(true)
	var calls []*c02Call
	lo := c02TagSeq + 1
	for j := 0; j < in.K; j++ {
		c02TagSeq++
		cl := &c02Call{tag: c02TagSeq, done: make(chan struct{})}
		calls = append(calls, cl)
		go c02ProxyCall(c, old, in.Entry, cl)
	}
	hi := c02TagSeq
	want := idx0 + uint64(in.K)
	replicated := false
	for i := 0; i < 3000 && !replicated; i++ {
		replicated = true
		for _, n := range others {
			if n.s.raft.LastIndex() < want {
				replicated = false
			}
		}
		if !replicated {
			time.Sleep(time.Millisecond)
		}
	}
	if !replicated || old.raft.CommitIndex() >= idx0+1 {
		inconcl("the writes were not replicated-but-uncommitted")
		return
	}
	// 2. cut it off until a successor is elected and has committed the entries
	g.gates[g0].isolated.Store(true)
	var nl *vcNode
	for i := 0; i < 6000 && nl == nil; i++ {
		for _, n := range others {
			if n.s.raft.State() == raft.Leader && n.s.raft.CommitIndex() >= want {
				nl = n
			}
		}
		if nl == nil {
			time.Sleep(time.Millisecond)
		}
	}
	if nl == nil {
		inconcl("no successor committed the entries")
		return
	}
	stillLeader := old.raft.State() == raft.Leader
	// 3. re-connect: the successor's first message deposes it
	g.heal()
	for _, cl := range calls {
		select {
		case <-cl.done:
		case <-time.After(30 * time.Second):
			inconcl("a write call did not return")
			return
		}
	}
	if !stillLeader {
		inconcl("the old leader's lease ran out before it was re-connected")
		return
	}
	ld := c.leader(20 * time.Second)
	if ld == nil || !c.settle(ld, 15*time.Second) {
		inconcl("no settled leader afterwards")
		return
	}
	counts, err := c02TagCounts(ld.s, lo, hi)
	if err != nil {
		inconcl("could not count: " + err.Error())
		return
	}
	for i, cl := range calls {
		n := counts[cl.tag]
		ck := fmt.Sprintf("%s/call%d", key, i)
		cs := VCase{Input: in, Key: ck, Tags: append([]string{"class=" + cl.class, fmt.Sprintf("forwarded=%v", cl.forwarded), fmt.Sprintf("applied=%d", n)}, tags...),
			Nontrivial: cl.appended && cl.class != "WAcked",
			// how raft ended the future is known from the construction: the entry was in the log of a leader that was deposed
			Coq: fmt.Sprintf("CWrite {| ws_attempt := {| at_leader := %s; at_ready := %s; at_end := ALeadershipLost; at_appended := %s |}; ws_class := %s; ws_forwarded := %s |}",
				coqBool(cl.leader), coqBool(cl.ready), coqBool(cl.appended), cl.class, coqBool(cl.forwarded))}
		switch {
		case n > 1:
			cs.Sig = "C02:write-applied-twice-after-one-call"
			cs.OracleFail = fmt.Sprintf("one client call (tag %d, %s on the deposed leader: store answered %q, sent on to the new leader=%v, client told %s) took effect %d times", cl.tag, in.Entry, cl.errText, cl.forwarded, cl.final, n)
		case cl.final == "WAcked" && n != 1:
			cs.Sig = "C02:acknowledged-write-not-applied-once"
			cs.OracleFail = fmt.Sprintf("acknowledged call (tag %d) took effect %d times", cl.tag, n)
		case cl.class == "WNotLeader" && cl.appended:
			cs.Sig = "C02:write-reported-not-leader-but-appended"
			cs.OracleFail = fmt.Sprintf("store answered %q (nothing happened here) for tag %d although its log had grown by the entry; it took effect %d times", cl.errText, cl.tag, n)
		case (cl.final == "WNotLeader" || cl.final == "WNotReady") && !cl.forwarded && n != 0 && !cl.appended:
			cs.Sig = "C02:refused-write-applied"
			cs.OracleFail = fmt.Sprintf("call refused as certainly-not-applied (tag %d) took effect %d times", cl.tag, n)
		}
		w.Emit(cs)
	}
}

// ---------------------------------------------------------------- a read on the old leader after a transfer

type c02TransferIn struct {
	Kind  string `json:"kind"` // "transfer-read"
	Entry string `json:"entry"` // query | request
	Round int    `json:"round"`
}

var c02RegKey int64 = 900

// c02TransferRead: the leader (long lease) serves a linearizable read through the read-index path,
// is then made deaf and told to hand leadership to another node; that node is elected at once
// (TimeoutNow: followers vote although they still have a leader) and acknowledges a write; a
// linearizable read is then sent to the old leader, which has heard nothing of all this.
func c02TransferRead(w *vWriter, in c02TransferIn, g *c02Gated) {
	key := vJSON(in)
	tags := []string{"transfer-read", "entry=" + in.Entry}
	inconcl := func(why string) {
		g.heal()
		w.Emit(VCase{Input: in, Key: key, Inconcl: why, Tags: tags})
	}
	c := g.c
	g0, n1 := c.nodes[2], c.nodes[0]
	if !c02MakeLeader(c, g0) {
		inconcl("could not make the long-lease node the settled leader")
		return
	}
	old := g0.s
	ctx := context.Background()
	c02RegKey++
	k := c02RegKey
	if err := vcExec(old, fmt.Sprintf("INSERT OR REPLACE INTO reg(k, v) VALUES(%d, 1)", k)); err != nil {
		inconcl("first write failed: " + err.Error())
		return
	}
	read := func(s *Store) (int64, proto.ConsistencyLevel, uint64, error) {
		sql := fmt.Sprintf("SELECT v FROM reg WHERE k=%d", k)
		if in.Entry == "request" {
			eqr := executeQueryRequestFromStrings([]string{sql}, proto.ConsistencyLevel_LINEARIZABLE, false, false, false)
			eqr.LinearizableTimeout = int64(20 * time.Second)
			rs, _, idx, err := s.Request(ctx, eqr)
			if err != nil {
				return 0, 0, 0, err
			}
			lvl := proto.ConsistencyLevel_LINEARIZABLE
			if idx != 0 {
				lvl = proto.ConsistencyLevel_STRONG
			}
			if len(rs) == 1 && rs[0].GetQ() != nil && len(rs[0].GetQ().Values) == 1 {
				return rs[0].GetQ().Values[0].Parameters[0].GetI(), lvl, idx, nil
			}
			return 0, lvl, idx, nil
		}
		qr := queryRequestFromString(sql, false, false, false)
		qr.Level = proto.ConsistencyLevel_LINEARIZABLE
		qr.LinearizableTimeout = int64(20 * time.Second)
		rows, lvl, idx, err := s.Query(ctx, qr)
		if err != nil {
			return 0, 0, 0, err
		}
		if len(rows) == 1 && len(rows[0].Values) == 1 {
			return rows[0].Values[0].Parameters[0].GetI(), lvl, idx, nil
		}
		return 0, lvl, idx, nil
	}
	// the term's first read (upgraded), then one through the read-index path
	if _, _, _, err := read(old); err != nil {
		inconcl("first read failed: " + err.Error())
		return
	}
	tPrime := time.Now()
	v, lvl, _, err := read(old)
	if err != nil || lvl != proto.ConsistencyLevel_LINEARIZABLE || v != 1 {
		inconcl(fmt.Sprintf("second read was not a plain linearizable read of 1: v=%d level=%v err=%v", v, lvl, err))
		return
	}
	if !c.settle(g0, 10*time.Second) {
		inconcl("not settled before the transfer")
		return
	}
	// deaf, hand over, successor writes
	g.gates[g0].deaf.Store(true)
	term := old.raft.CurrentTerm()
	old.Stepdown(false, n1.s.ID())
	elected := false
	for i := 0; i < 3000 && !elected; i++ {
		elected = n1.s.raft.State() == raft.Leader
		if !elected {
			time.Sleep(time.Millisecond)
		}
	}
	if !elected {
		inconcl("the transfer target was not elected")
		return
	}
	if err := vcExec(n1.s, fmt.Sprintf("INSERT OR REPLACE INTO reg(k, v) VALUES(%d, 2)", k)); err != nil {
		inconcl("the new leader's write was not acknowledged: " + err.Error())
		return
	}
	elapsed := time.Since(tPrime)
	window := old.raftConfig().LeaderLeaseTimeout / 2 // the longest a cached confirmation could plausibly be trusted
	tags = append(tags, fmt.Sprintf("since-last-verified-read-ms=%d", elapsed.Milliseconds()))
	if elapsed > window/3 {
		inconcl(fmt.Sprintf("transfer and write took %v, more than a third of half the lease (%v)", elapsed, window))
		return
	}
	if old.raft.State() != raft.Leader || old.raft.CurrentTerm() != term {
		inconcl("the old leader had already heard of the new term")
		return
	}
	// the read on the old leader
	pre := vcLinBefore(old)
	type res struct {
		v   int64
		lvl proto.ConsistencyLevel
		err error
	}
	ch := make(chan res, 1)
	st := time.Now()
	go func() {
		v, lvl, _, err := read(old)
		ch <- res{v, lvl, err}
	}()
	var r res
	early := false
	select {
	case r = <-ch:
		early = true
	case <-time.After(time.Second):
		// correct code is waiting for heartbeat replies that cannot arrive; let it hear of the new term
		g.heal()
		select {
		case r = <-ch:
		case <-time.After(40 * time.Second):
			inconcl("the read on the old leader did not return after the heal")
			return
		}
	}
	lat := time.Since(st)
	g.heal()
	coq, verified, verifiedOK := vcLinAfter(old, pre, r.err)
	result := c02Result(r.err)
	cs := VCase{Input: in, Key: key, Tags: append(tags, "result="+result, fmt.Sprintf("returned-before-heal=%v", early)), Nontrivial: true,
		Coq: fmt.Sprintf("CTrace {| c_obs := %s; c_result := %s; c_verified := %s |}", coq, result, coqBool(verified))}
	switch {
	case r.err == nil && r.v != 2:
		cs.Sig = "C02:stale-linearizable-read-after-transfer"
		cs.OracleFail = fmt.Sprintf("linearizable read on the old leader returned v=%d after %v (%v after its last verified read; level %v, own leadership check: %v) although the new leader had acknowledged v=2 before the read began",
			r.v, lat.Round(time.Millisecond), elapsed.Round(time.Millisecond), r.lvl, verifiedOK)
	case r.err == nil && r.lvl == proto.ConsistencyLevel_LINEARIZABLE && !verifiedOK:
		cs.Sig = "C02:linearizable-read-without-leadership-check"
		cs.OracleFail = "linearizable read served locally without a successful VerifyLeader of its own"
	}
	w.Emit(cs)
	if ld := c.leader(20 * time.Second); ld != nil {
		c.settle(ld, 15*time.Second)
	}
}

// c02TagAudit: after a workload, every tag at most once, acknowledged ones exactly once.
func c02TagAudit(s *Store, ops []c02Op) (string, string) {
	if len(ops) == 0 {
		return "", ""
	}
	lo, hi := ops[0].Val, ops[0].Val
	for _, o := range ops {
		if o.Val < lo {
			lo = o.Val
		}
		if o.Val > hi {
			hi = o.Val
		}
	}
	counts, err := c02TagCounts(s, lo, hi)
	if err != nil {
		return "", ""
	}
	acked, applied := 0, 0
	for _, o := range ops {
		n := counts[o.Val]
		if n > 0 {
			applied++
		}
		if o.Known {
			acked++
		}
		if n > 1 {
			return "C02:write-applied-twice-after-one-call", fmt.Sprintf("write of value %d (one client call, known outcome=%v) took effect %d times", o.Val, o.Known, n)
		}
		if o.Known && n != 1 {
			return "C02:acknowledged-write-not-applied-once", fmt.Sprintf("acknowledged write of value %d took effect %d times", o.Val, n)
		}
	}
	if !(acked <= applied && applied <= len(ops)) {
		return "C02:acked-applied-issued", fmt.Sprintf("acked %d, applied %d, issued %d", acked, applied, len(ops))
	}
	return "", strings.TrimSpace(fmt.Sprintf("acked=%d applied=%d issued=%d", acked, applied, len(ops)))
}

func c02RunDeposedWrites(t *testing.T, w *vWriter, ins []c02WriteIn, trs []c02TransferIn) {
	g := c02NewGatedLease(t, true)
	if g == nil {
		w.Emit(VCase{Input: c02WriteIn{Kind: "deposed-writes"}, Key: "gated-long-lease-cluster", Inconcl: "gated cluster did not start"})
		return
	}
	defer g.c.close()
	for _, in := range trs {
		c02TransferRead(w, in, g)
	}
	for _, in := range ins {
		c02DeposedWrites(w, in, g)
	}
}
