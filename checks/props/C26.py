# C26 — configuration read by bin/check (see checks/registry.py)
SPEC = dict(
    title="The CDC disk queue is ordered, durable and duplicate-suppressing",
    pkg="./cdc", files=["cdc/c26_verif_test.go"],
    rule="hand-picked histories; a backlog sweep (for every backlog size 1..40 (thorough 1..120) of stored-but-unreceived items: one more enqueue, room made by one receive / a delete_range of the first item / a receive plus a delete_range into the middle, further enqueues, full drain inside the open); random backlog histories (1-3 rounds of: enqueue burst of 1..80 without receiving, partial drain of k items, delete_range into the backlog, 1-20 more enqueues with a few receives, sometimes a full drain or a reopen); plus random histories of 10-60 operations (enqueue fresh/stale/far below, delete_range aimed at stored indices/"
         "above the highest/0, receive, reopen; in child-process mode also SIGKILL while idle and 0-3 ms into an enqueue or delete_range), each "
         "ending with a restart and a full drain; after every operation Len/FirstKey/HighestKey/HasNext are read; a history is non-trivial when it has "
         ">= 1 stale enqueue, >= 1 delete_range that removed something, >= 2 received events and >= 1 reopen or kill; distinct by operation list",
    trusted=["BoltDB (go.etcd.io/bbolt): an ordered map whose Update transaction is atomic and, once it returned, durable across process kill; "
             "modelled as a key-sorted list with Put/Seek/First/Next/Delete (Model.C26 put/seek/collect/del_key)",
             "process kill stands for crash: the page cache survives SIGKILL, power loss is not exercised",
             "indices below 2^64-1 (index+1 does not wrap)"],
    assumptions=["one consumer receives from C; operations are issued one at a time (the manager goroutine serialises them anyway)",
                 "BoltDB operations do not fail"],
    level_text="Theorems C26_* hold for every history of any length over enqueue, delete_range, receive, reopen, kill-while-idle and kill in the middle "
               "of an enqueue/delete_range (either outcome); the model is run on the very histories executed on the real queue and must predict every "
               "answer (event received, Len, FirstKey, HighestKey, HasNext) after every operation.",
    level_note="Model = the select arms of Queue.run transcribed (cached head, cursor, highest key) over an ordered map; kill = reopen from the persistent part.",
    technique="Coq invariant proofs over all histories (refinement of the stored set to a sequential specification, emission order, owed items) + "
              "differential run of model and real queue, incl. child-process SIGKILL",
    design_ref="6/C26",
    timeout_quick=300, timeout_thorough=7200,
)
