package sql

// C14 driver: generated statements -> real Process; the real parser's trees of input and output are
// handed to the Coq model (Model.C14.check_case); independent oracles:
//   B (static, from SQLite's documentation): no non-deterministic call survives in the output,
//   A (dynamic): the output evaluated by real SQLite twice >= 1.2 s apart gives identical results,
//   C (dynamic): the output evaluated next to the original has the same shape (and, without random, values).

import (
	"crypto/sha1"
	"encoding/hex"
	"encoding/json"
	"fmt"
	"math"
	"math/rand"
	"os"
	"path/filepath"
	"reflect"
	"regexp"
	"sort"
	"strconv"
	"strings"
	"testing"
	"time"

	"github.com/rqlite/rqlite/v10/command/proto"
	"github.com/rqlite/rqlite/v10/db"
	rsql "github.com/rqlite/sql"
)

type c14Input struct {
	SQL    string `json:"sql"`
	RwRand bool   `json:"rwrand"`
	RwTime bool   `json:"rwtime"`
}

// ---------------------------------------------------------------- AST -> model tree

type c14Node struct {
	K string // num str blob ident tok | call ord ret n
	S string // leaf text / call name / tag
	F string // call flags
	A []*c14Node
	E []*c14Node
}

var c14PosType = reflect.TypeOf(rsql.Pos{})
var c14TokType = reflect.TypeOf(rsql.Token(0))

// keyword positions whose presence is not preserved by printing and re-parsing (optional keywords
// the printer always/never writes) — found by c14RoundTrip on the generated grammar
var c14PosIgnore = map[string]bool{
	"As": true, "Lparen": true, "Rparen": true, "ColumnsLparen": true, "ColumnsRparen": true,
	"NamePos": true, "ValuePos": true, "OpPos": true, "Pos": true, "Comma": true, "Dot": true,
	"SelectLparen": true, "SelectRparen": true, "Into": true, "Outer": true, "Row": true, "Column": true,
	"TableNamePos": true,
}

func c14IsNil(x any) bool {
	if x == nil {
		return true
	}
	v := reflect.ValueOf(x)
	switch v.Kind() {
	case reflect.Ptr, reflect.Interface, reflect.Slice, reflect.Map:
		return v.IsNil()
	}
	return false
}

func c14Conv(x any) *c14Node {
	if c14IsNil(x) {
		return nil
	}
	switch n := x.(type) {
	case *rsql.NumberLit:
		return &c14Node{K: "num", S: n.Value}
	case *rsql.StringLit:
		return &c14Node{K: "str", S: n.Value}
	case *rsql.BlobLit:
		return &c14Node{K: "blob", S: n.Value}
	case *rsql.Ident:
		return &c14Node{K: "ident", S: n.Name}
	case *rsql.NullLit:
		return &c14Node{K: "tok", S: "NULL"}
	case *rsql.BoolLit:
		return &c14Node{K: "tok", S: fmt.Sprint(n.Value)}
	case *rsql.BindExpr:
		return &c14Node{K: "tok", S: n.Name}
	case *rsql.Call:
		c := &c14Node{K: "call"}
		if n.Name != nil {
			c.S = n.Name.Name
		}
		if n.Star.IsValid() {
			c.F += "*"
		}
		if n.Distinct.IsValid() {
			c.F += "distinct"
		}
		for _, a := range n.Args {
			c.A = append(c.A, c14Conv(a))
		}
		if n.Filter != nil {
			c.E = append(c.E, c14Conv(n.Filter))
		}
		if n.Over != nil {
			c.E = append(c.E, c14Conv(n.Over))
		}
		return c
	case rsql.SelectExpr:
		return &c14Node{K: "n", S: c14Tag("SelectExpr"), A: []*c14Node{c14Conv(n.SelectStatement)}}
	}
	g := c14Generic(x)
	switch x.(type) {
	case *rsql.OrderingTerm:
		g.K = "ord"
	case *rsql.ReturningClause:
		g.K = "ret"
	}
	return g
}

func c14Generic(x any) *c14Node {
	v := reflect.ValueOf(x)
	for v.Kind() == reflect.Ptr || v.Kind() == reflect.Interface {
		v = v.Elem()
	}
	t := v.Type()
	out := &c14Node{K: "n"}
	parts := []string{t.Name()}
	if v.Kind() != reflect.Struct {
		out.S = t.Name() + "=" + fmt.Sprint(v.Interface())
		return out
	}
	for i := 0; i < t.NumField(); i++ {
		f, ft := v.Field(i), t.Field(i)
		if !ft.IsExported() {
			continue
		}
		switch {
		case f.Type() == c14PosType:
			if f.Interface().(rsql.Pos).IsValid() && !c14PosIgnore[ft.Name] {
				parts = append(parts, ft.Name)
			}
		case f.Type() == c14TokType:
			parts = append(parts, ft.Name+"="+f.Interface().(rsql.Token).String())
		case f.Kind() == reflect.Bool:
			if f.Bool() {
				parts = append(parts, ft.Name)
			}
		case f.Kind() == reflect.String:
			parts = append(parts, ft.Name+"="+f.String())
		case f.Kind() == reflect.Slice:
			if f.Len() > 0 {
				parts = append(parts, fmt.Sprintf("%s:%d", ft.Name, f.Len()))
			}
			for j := 0; j < f.Len(); j++ {
				if c := c14Conv(f.Index(j).Interface()); c != nil {
					out.A = append(out.A, c)
				}
			}
		case f.Kind() == reflect.Ptr || f.Kind() == reflect.Interface:
			if !f.IsNil() {
				parts = append(parts, ft.Name)
				if c := c14Conv(f.Interface()); c != nil {
					out.A = append(out.A, c)
				}
			}
		case f.Kind() == reflect.Struct:
			parts = append(parts, ft.Name)
			out.A = append(out.A, c14Conv(f.Interface()))
		}
	}
	out.S = c14Tag(strings.Join(parts, " "))
	return out
}

// The model only compares tags for equality, so a tag is sent as a short digest of the node type, operators,
// keyword flags and child layout ("X…" for an EXPLAIN statement); VERIF_C14_LONGTAGS=1 keeps the readable form.
func c14Tag(full string) string {
	if os.Getenv("VERIF_C14_LONGTAGS") == "1" {
		if strings.HasPrefix(full, "ExplainStatement") {
			return "X" + full
		}
		return full
	}
	h := sha1.Sum([]byte(full))
	d := hex.EncodeToString(h[:3])
	if strings.HasPrefix(full, "ExplainStatement") {
		return "X" + d[:5]
	}
	return d
}

func c14Parse(text string) *c14Node {
	var st rsql.Statement
	var err error
	func() {
		defer func() {
			if r := recover(); r != nil {
				err = fmt.Errorf("panic: %v", r)
			}
		}()
		st, err = rsql.NewParser(strings.NewReader(text)).ParseStatement()
	}()
	if err != nil || st == nil {
		return nil
	}
	return c14Conv(st)
}

func (n *c14Node) coq() string {
	l := func(ns []*c14Node) string {
		it := make([]string, len(ns))
		for i, c := range ns {
			it[i] = c.coq()
		}
		return coqList(it)
	}
	switch n.K {
	case "num":
		return "Leaf KNum " + coqStr(n.S)
	case "str":
		return "Leaf KStr " + coqStr(n.S)
	case "blob":
		return "Leaf KBlob " + coqStr(n.S)
	case "ident":
		return "Leaf KIdent " + coqStr(n.S)
	case "tok":
		return "Leaf KTok " + coqStr(n.S)
	case "call":
		return fmt.Sprintf("Call %s %s %s %s", coqStr(n.S), coqStr(n.F), l(n.A), l(n.E))
	case "ord":
		return fmt.Sprintf("Ord %s %s", coqStr(n.S), l(n.A))
	case "ret":
		return "Ret " + l(n.A)
	}
	return fmt.Sprintf("Nd %s %s", coqStr(n.S), l(n.A))
}

func (n *c14Node) equal(m *c14Node) bool {
	if n == nil || m == nil {
		return n == m
	}
	if n.K != m.K || n.S != m.S || n.F != m.F || len(n.A) != len(m.A) || len(n.E) != len(m.E) {
		return false
	}
	for i := range n.A {
		if !n.A[i].equal(m.A[i]) {
			return false
		}
	}
	for i := range n.E {
		if !n.E[i].equal(m.E[i]) {
			return false
		}
	}
	return true
}

// ---------------------------------------------------------------- oracle B: SQLite's documentation

var c14Time5 = map[string]bool{"date": true, "time": true, "datetime": true, "julianday": true, "unixepoch": true}
var c14Digits = regexp.MustCompile(`^[0-9]+$`)
var c14NullPrec = regexp.MustCompile(`(?i)(ISNULL|NOTNULL|NOT NULL|IS NULL)\s*(%|>|<|=|\+|-|\*|/|\|\|)`)
var c14MinusMinus = regexp.MustCompile(`-\s+-`)
var c14JdRe = regexp.MustCompile(`^24[0-9]{5}\.[0-9]{6}$`)

// "now" forms of a time value per https://sqlite.org/lang_datefunc.html: 'now' (any case; a double-quoted
// "now" falls back to the string), and 'subsec'/'subsecond' in place of the time value.
func c14NowForm(a *c14Node) string {
	if a == nil {
		return ""
	}
	if (a.K == "str" || a.K == "ident") && strings.EqualFold(a.S, "now") {
		return "now"
	}
	if a.K == "str" && (strings.EqualFold(a.S, "subsec") || strings.EqualFold(a.S, "subsecond")) {
		return "subsec"
	}
	return ""
}

// every non-deterministic call in the tree, as "fn:form"
func c14Nondet(n *c14Node, inOrd bool, rnd, tim bool, out *[]string, excl *[]string) {
	if n == nil {
		return
	}
	if n.K == "ord" {
		inOrd = true
	}
	if n.K == "call" {
		name := strings.ToLower(n.S)
		switch {
		case name == "random" && len(n.A) == 0:
			if inOrd {
				*excl = append(*excl, "random-in-order-by")
			} else if rnd {
				*out = append(*out, "random:call")
			}
		case name == "randomblob" && len(n.A) == 1:
			if n.A[0].K == "num" && c14Digits.MatchString(n.A[0].S) && !inOrd {
				if rnd {
					*out = append(*out, "randomblob:literal")
				}
			} else {
				*excl = append(*excl, "randomblob-not-literal-or-in-order-by")
			}
		case c14Time5[name]:
			if len(n.A) == 0 {
				if tim {
					*out = append(*out, name+":implicit")
				}
			} else if f := c14NowForm(n.A[0]); f != "" && tim {
				*out = append(*out, name+":"+f)
			}
		case name == "strftime":
			if len(n.A) == 1 {
				if tim {
					*out = append(*out, name+":implicit")
				}
			} else if len(n.A) > 1 {
				if f := c14NowForm(n.A[1]); f != "" && tim {
					*out = append(*out, name+":"+f)
				}
			}
		case name == "timediff" && len(n.A) == 2:
			for _, a := range n.A {
				if f := c14NowForm(a); f != "" && tim {
					*out = append(*out, name+":"+f)
					break
				}
			}
		}
	}
	for _, c := range n.A {
		c14Nondet(c, inOrd, rnd, tim, out, excl)
	}
	for _, c := range n.E {
		c14Nondet(c, inOrd, rnd, tim, out, excl)
	}
}

// random()/randomblob() calls inside ORDER BY terms
func c14OrdRandom(n *c14Node, inOrd bool) int {
	if n == nil {
		return 0
	}
	if n.K == "ord" {
		inOrd = true
	}
	k := 0
	if ln := strings.ToLower(n.S); n.K == "call" && inOrd && (ln == "random" || ln == "randomblob") {
		k++
	}
	for _, c := range n.A {
		k += c14OrdRandom(c, inOrd)
	}
	for _, c := range n.E {
		k += c14OrdRandom(c, inOrd)
	}
	return k
}

func c14CountCalls(n *c14Node) (calls int, depthMax int) {
	var rec func(n *c14Node, d int)
	rec = func(n *c14Node, d int) {
		if n == nil {
			return
		}
		if n.K == "call" {
			calls++
			d++
			if d > depthMax {
				depthMax = d
			}
		}
		for _, c := range n.A {
			rec(c, d)
		}
		for _, c := range n.E {
			rec(c, d)
		}
	}
	rec(n, 0)
	return
}

// ---------------------------------------------------------------- scratch database for the dynamic oracles

var c14Schema = []string{
	`CREATE TABLE t (id INTEGER PRIMARY KEY, a, b, c)`,
	`CREATE TABLE u (id INTEGER PRIMARY KEY, x, y)`,
	`CREATE TABLE w (id INTEGER PRIMARY KEY, "random()", "date(", updatetime, randomness)`,
	`INSERT INTO t(id,a,b,c) VALUES (1,10,'p',1.5),(2,20,'q',2.5),(3,30,'r',NULL)`,
	`INSERT INTO u(id,x,y) VALUES (1,1,'now'),(2,2,'random()'),(3,3,NULL)`,
	`INSERT INTO w VALUES (1,'r1','d1',5,7)`,
	`CREATE TABLE zz_guard (k CHECK (k > 0))`,
}

var c14Dumps = []string{
	`SELECT id, typeof(a), quote(a), typeof(b), quote(b), typeof(c), quote(c) FROM t ORDER BY id`,
	`SELECT id, typeof(x), quote(x), typeof(y), quote(y) FROM u ORDER BY id`,
	`SELECT id, quote("random()"), quote("date("), quote(updatetime), quote(randomness) FROM w ORDER BY id`,
	`INSERT INTO zz_guard VALUES (0)`, // fails at run time: the transaction is rolled back
}

type c14Cell struct {
	T string // i d s y b n
	V string
}
type c14Eval struct {
	Err   string
	Resp  [][][]c14Cell // per response: rows of cells (statement result first, then the three dumps)
	Cols  []int
	NResp int
}

func c14Run(d *db.DB, text string, fq bool) c14Eval {
	req := &proto.Request{Transaction: true}
	req.Statements = append(req.Statements, &proto.Statement{Sql: text, ForceQuery: fq})
	for _, q := range c14Dumps {
		req.Statements = append(req.Statements, &proto.Statement{Sql: q})
	}
	resp, err := d.Request(req, false)
	var ev c14Eval
	if err != nil {
		ev.Err = "request: " + err.Error()
	}
	for i, r := range resp {
		if i == len(c14Dumps) { // the rollback trigger
			break
		}
		var rows [][]c14Cell
		ncol := 0
		if q := r.GetQ(); q != nil {
			if q.GetError() != "" && i == 0 {
				ev.Err = q.GetError()
			}
			ncol = len(q.GetColumns())
			for _, vs := range q.GetValues() {
				var row []c14Cell
				for _, p := range vs.GetParameters() {
					switch v := p.GetValue().(type) {
					case *proto.Parameter_I:
						row = append(row, c14Cell{"i", strconv.FormatInt(v.I, 10)})
					case *proto.Parameter_D:
						row = append(row, c14Cell{"d", strconv.FormatFloat(v.D, 'g', -1, 64)})
					case *proto.Parameter_S:
						row = append(row, c14Cell{"s", v.S})
					case *proto.Parameter_Y:
						row = append(row, c14Cell{"y", fmt.Sprintf("%x", v.Y)})
					case *proto.Parameter_B:
						row = append(row, c14Cell{"b", fmt.Sprint(v.B)})
					default:
						row = append(row, c14Cell{"n", ""})
					}
				}
				rows = append(rows, row)
			}
		} else if e := r.GetE(); e != nil {
			if e.GetError() != "" && i == 0 {
				ev.Err = e.GetError()
			}
			rows = [][]c14Cell{{{"i", strconv.FormatInt(e.GetRowsAffected(), 10)}}}
			ncol = -1
		} else if r.GetError() != "" && i == 0 {
			ev.Err = r.GetError()
		}
		ev.Resp = append(ev.Resp, rows)
		ev.Cols = append(ev.Cols, ncol)
	}
	ev.NResp = len(ev.Resp)
	return ev
}

func (e c14Eval) String() string { return vJSON(e) }

var c14DigitsRe = regexp.MustCompile(`[0-9]+`)

// c14ValueError: a run-time error that depends on the values the statement computes (SQLite's own random() or clock
// could have produced a value with the same effect), as opposed to an error of syntax or structure
func c14ValueError(msg string) bool {
	m := strings.ToLower(msg)
	for _, k := range []string{"integer overflow", "constraint failed", "datatype mismatch", "string or blob too big", "too big",
		"malformed json", "out of range", "division by zero", "math error", "domain error", "blob too large"} {
		if strings.Contains(m, k) {
			return true
		}
	}
	return false
}

// shape comparison of the original and the rewritten statement; values too when withValues
func c14Compare(orig, rew c14Eval, withValues bool) string {
	if (orig.Err == "") != (rew.Err == "") {
		if c14ValueError(orig.Err) || c14ValueError(rew.Err) {
			return "" // the error is what the statement means for the values drawn this time
		}
		return fmt.Sprintf("error: original %q, rewritten %q", orig.Err, rew.Err)
	}
	if orig.Err != "" {
		return ""
	}
	if orig.NResp != rew.NResp {
		return fmt.Sprintf("result-shape: %d vs %d responses", orig.NResp, rew.NResp)
	}
	for i := range orig.Resp {
		what := "rows"
		if i == 0 {
			what = "result-shape"
		}
		if orig.Cols[i] != rew.Cols[i] {
			return fmt.Sprintf("result-shape: response %d has %d vs %d columns", i, orig.Cols[i], rew.Cols[i])
		}
		if len(orig.Resp[i]) != len(rew.Resp[i]) {
			return fmt.Sprintf("%s: response %d has %d vs %d rows", what, i, len(orig.Resp[i]), len(rew.Resp[i]))
		}
		for r := range orig.Resp[i] {
			if len(orig.Resp[i][r]) != len(rew.Resp[i][r]) {
				return fmt.Sprintf("%s: response %d row %d width", what, i, r)
			}
			if !withValues {
				continue
			}
			for c := range orig.Resp[i][r] {
				a, b := orig.Resp[i][r][c], rew.Resp[i][r][c]
				if a.T != b.T {
					return fmt.Sprintf("value: response %d row %d col %d type %s vs %s (%q vs %q)", i, r, c, a.T, b.T, a.V, b.V)
				}
				fa, ea := strconv.ParseFloat(strings.Trim(a.V, "'"), 64)
				fb, eb := strconv.ParseFloat(strings.Trim(b.V, "'"), 64)
				if ea == nil && eb == nil {
					if math.Abs(fa-fb) > 2 && math.Abs(fa-fb) > 1e-8*math.Abs(fa) {
						return fmt.Sprintf("value: response %d row %d col %d: %s vs %s", i, r, c, a.V, b.V)
					}
					continue
				}
				if c14DigitsRe.ReplaceAllString(a.V, "0") != c14DigitsRe.ReplaceAllString(b.V, "0") {
					return fmt.Sprintf("value: response %d row %d col %d: %q vs %q", i, r, c, a.V, b.V)
				}
			}
		}
	}
	return ""
}

// ---------------------------------------------------------------- one case

type c14Case struct {
	in     c14Input
	tags   []string
	out    string
	fq     bool
	expl   bool
	tree   *c14Node
	otree  *c14Node
	nondet []string // in the input, per oracle B
	surv   []string // surviving in the output
	excl   []string
	multi  bool
	e1, eo c14Eval // rewritten (first evaluation), original
	e2     c14Eval // rewritten, second evaluation
	dyn    bool

	variantFail string // another draw of the replaced values gives a text that does not parse / evaluates to another shape
	variantOut  string
	nvariants   int
	clockSplit  string // several different 'now' values within one statement
	ordIn      int    // random()/randomblob() calls inside ORDER BY terms, input
	ordOut     int    // ... output
}

func c14Process(in c14Input, tags []string) *c14Case {
	c := &c14Case{in: in, tags: tags}
	st := []*proto.Statement{{Sql: in.SQL}}
	if err := Process(st, in.RwRand, in.RwTime); err != nil {
		c.tags = append(c.tags, "process-error")
	}
	c.out, c.fq, c.expl = st[0].Sql, st[0].ForceQuery, st[0].SqlExplain
	c.tree = c14Parse(in.SQL)
	c.otree = c14Parse(c.out)
	if c.tree != nil {
		var ex []string
		c14Nondet(c.tree, false, true, true, &c.nondet, &ex)
	}
	if c.otree != nil {
		c14Nondet(c.otree, false, in.RwRand, in.RwTime, &c.surv, &c.excl)
		c.ordIn, c.ordOut = c14OrdRandom(c.tree, false), c14OrdRandom(c.otree, false)
	} else {
		c.excl = append(c.excl, "output-unparsable")
	}
	func() {
		defer func() { recover() }()
		if all, err := rsql.NewParser(strings.NewReader(in.SQL)).ParseStatements(); err == nil && len(all) > 1 {
			c.multi = true
		}
	}()
	// white-box: the rewriter with a clock that advances an hour per reading must still give one 'now' per statement
	if c.tree != nil && in.RwTime {
		func() {
			defer func() { recover() }()
			st, err := rsql.NewParser(strings.NewReader(in.SQL)).ParseStatement()
			if err != nil {
				return
			}
			rw := NewRewriter()
			rw.RewriteRand, rw.RewriteTime = in.RwRand, in.RwTime
			k := 0
			base := time.Date(2024, 5, 6, 7, 8, 9, 0, time.UTC)
			rw.nowFn = func() time.Time { k++; return base.Add(time.Duration(k) * time.Hour) }
			out, _, _, err := rw.Do(st)
			if err != nil {
				return
			}
			seen := map[string]bool{}
			var walk func(n *c14Node)
			walk = func(n *c14Node) {
				if n == nil {
					return
				}
				if n.K == "num" && c14JdRe.MatchString(n.S) {
					seen[n.S] = true
				}
				for _, x := range n.A {
					walk(x)
				}
				for _, x := range n.E {
					walk(x)
				}
			}
			walk(c14Conv(out))
			if len(seen) > 1 {
				c.clockSplit = fmt.Sprint(vSortedKeys(seen))
			}
		}()
	}
	// dynamic oracles only where rqlite claims determinism
	c.dyn = in.RwRand && in.RwTime && len(c.excl) == 0 && c.tree != nil && !c.expl
	return c
}

func c14AsciiOK(s string) bool {
	for _, r := range s {
		if r > 126 || (r < 32 && r != '\n' && r != '\t' && r != '\r' && r != '\f') {
			return false
		}
	}
	return true
}

func (c *c14Case) emit(w *vWriter) {
	vc := VCase{Input: c.in, Key: fmt.Sprintf("%v/%v/%s", c.in.RwRand, c.in.RwTime, c.in.SQL), Tags: c.tags}
	if c14AsciiOK(c.in.SQL) && c14AsciiOK(c.out) {
		vc.Coq = fmt.Sprintf("{| c_rand := %s; c_time := %s; c_text := %s; c_tree := %s; c_same := %s; c_out := %s; c_fq := %s; c_expl := %s |}",
			coqBool(c.in.RwRand), coqBool(c.in.RwTime), coqStr(c.in.SQL),
			coqOpt(c.tree != nil, c.treeCoq(c.tree)), coqBool(c.out == c.in.SQL), coqOpt(c.otree != nil, c.treeCoq(c.otree)),
			coqBool(c.fq), coqBool(c.expl))
	}
	calls, depth := 0, 0
	if c.tree != nil {
		calls, depth = c14CountCalls(c.tree)
	} else {
		vc.Tags = append(vc.Tags, "parse-error")
	}
	look := false
	for _, t := range c.tags {
		if t == "look-alike" || t == "spaced-call" {
			look = true
		}
	}
	vc.Nontrivial = (len(c.nondet) > 0 && (calls > 1 || depth > 1)) || (look && c.tree != nil)
	if len(c.nondet) > 0 {
		vc.Tags = append(vc.Tags, "has-nondet")
	} else {
		vc.Tags = append(vc.Tags, "clean")
	}
	if c.out != c.in.SQL {
		vc.Tags = append(vc.Tags, "rewritten")
	}
	if len(c.excl) > 0 {
		vc.Tags = append(vc.Tags, "excluded-form")
	}
	if c.nvariants > 0 {
		vc.Tags = append(vc.Tags, "other-draws-checked")
	}
	if c.dyn {
		vc.Tags = append(vc.Tags, "dynamic")
		if c.e1.Err != "" {
			vc.Tags = append(vc.Tags, "dynamic-sql-error")
		}
	}
	same := "rewritten"
	if c.out == c.in.SQL {
		same = "untouched"
	}
	switch {
	case len(c.surv) > 0:
		sort.Strings(c.surv)
		vc.OracleFail = fmt.Sprintf("non-deterministic call survives (%s): %q -> %q", strings.Join(c.surv, ","), c.in.SQL, c.out)
		vc.Sig = "C14:nondet-survives:" + c.surv[0] + ":" + same
	case c.tree != nil && c.otree == nil:
		vc.OracleFail = fmt.Sprintf("the replicated text is not parsed by the parser that printed it: %q -> %q", c.in.SQL, c.out)
		vc.Sig = "C14:output-unparsable"
	case c.variantFail != "":
		vc.OracleFail = fmt.Sprintf("with other values for its random() calls the statement is replicated as %q (%s); sent: %q", c.variantOut, c.variantFail, c.in.SQL)
		vc.Sig = "C14:meaning-changed:variant"
		c.out = c.variantOut
	case c.clockSplit != "":
		vc.OracleFail = fmt.Sprintf("'now' has several values within one statement (%s): %q", c.clockSplit, c.in.SQL)
		vc.Sig = "C14:now-differs-within-statement"
	case c.tree != nil && c.otree != nil && c.ordIn != c.ordOut:
		vc.OracleFail = fmt.Sprintf("random calls inside ORDER BY: %d before, %d after: %q -> %q", c.ordIn, c.ordOut, c.in.SQL, c.out)
		vc.Sig = "C14:order-by-random-replaced"
	case c.dyn && c.e1.String() != c.e2.String():
		vc.OracleFail = fmt.Sprintf("replicated text %q evaluates differently 1.2 s later: %s vs %s", c.out, c.e1, c.e2)
		vc.Sig = "C14:evaluations-differ:" + same
	case c.dyn:
		hasRandom := false
		for _, n := range c.nondet {
			if strings.HasPrefix(n, "random") {
				hasRandom = true
			}
		}
		if d := c14Compare(c.eo, c.e1, !hasRandom); d != "" {
			vc.OracleFail = fmt.Sprintf("meaning changed (%s): %q -> %q", d, c.in.SQL, c.out)
			vc.Sig = "C14:meaning-changed:" + strings.SplitN(d, ":", 2)[0]

		}
	}
	if vc.OracleFail != "" && strings.HasPrefix(vc.Sig, "C14:meaning-changed") && c14NullPrec.MatchString(c.in.SQL) {
		vc.Sig = "C14:reprint-changes-binding:postfix-null-test"
	}
	if vc.OracleFail != "" && (strings.HasPrefix(vc.Sig, "C14:meaning-changed") || vc.Sig == "C14:output-unparsable") && c14CommentMarker(c.out) {
		// a comment marker appeared. The known printer finding is the one that appears when the statement is printed
		// as parsed, without any rewriting (a negated negative literal in the text as sent); anything else is new.
		printedAsParsed := ""
		func() {
			defer func() { recover() }()
			if st, err := rsql.NewParser(strings.NewReader(c.in.SQL)).ParseStatement(); err == nil {
				printedAsParsed = st.String()
			}
		}()
		if c14CommentMarker(printedAsParsed) {
			vc.Sig = "C14:reprint-joins-minus-signs"
			vc.Coq = "" // the output is no longer the statement the model predicts, and cannot be parsed back
		} else {
			vc.Sig = "C14:meaning-changed:rewritten-literal-breaks-syntax"
		}
	}
	if c.multi && vc.OracleFail != "" {
		vc.Sig = "C14:multi-statement-string:" + same
	}
	if len(c.nondet) == 0 && c.out != c.in.SQL && vc.OracleFail == "" {
		// a clean statement may only be re-rendered when it calls a time function
		if c.tree != nil {
			hasTime := false
			var walk func(n *c14Node)
			walk = func(n *c14Node) {
				if n == nil {
					return
				}
				ln := strings.ToLower(n.S)
				if n.K == "call" && (c14Time5[ln] || ln == "strftime" || ln == "timediff" || ln == "random" || ln == "randomblob") {
					hasTime = true
				}
				for _, x := range n.A {
					walk(x)
				}
				for _, x := range n.E {
					walk(x)
				}
			}
			walk(c.tree)
			if !hasTime {
				vc.OracleFail = fmt.Sprintf("statement without any listed call was changed: %q -> %q", c.in.SQL, c.out)
				vc.Sig = "C14:clean-statement-changed"
			}
		}
	}
	w.Emit(vc)
}

func (c *c14Case) treeCoq(n *c14Node) string {
	if n == nil {
		return ""
	}
	return "(" + n.coq() + ")"
}

// ---------------------------------------------------------------- generator

type c14Gen struct {
	r    *rand.Rand
	tags map[string]bool
}

func (g *c14Gen) pick(xs ...string) string { return xs[g.r.Intn(len(xs))] }
func (g *c14Gen) p(pct int) bool          { return g.r.Intn(100) < pct }

func (g *c14Gen) fname(name string) string {
	switch g.r.Intn(10) {
	case 0:
		name = strings.ToUpper(name)
	case 1:
		name = strings.ToUpper(name[:1]) + name[1:]
	case 2:
		b := []byte(name)
		for i := range b {
			if g.r.Intn(2) == 0 {
				b[i] = byte(strings.ToUpper(string(b[i]))[0])
			}
		}
		name = string(b)
	}
	if g.p(4) {
		g.tags["spaced-call"] = true
		q := g.pick(`"`, "`")
		name = q + name + q
	}
	if g.p(22) {
		g.tags["spaced-call"] = true
		// every kind of white space SQLite's tokenizer accepts between a name and its parenthesis (space, \t, \n, \r, \f), and comments
		name += g.pick(" ", " ", "  ", "\n", "\t", "\r", "\f", "\r\n", " \f\t", "\n\r ", "/**/", " /* c */ ", " -- c\n", "/* ( */ ", "\r/* c */\f", " -- c\r\n")
	}
	return name
}

func (g *c14Gen) timeValue(now bool) string {
	if now {
		return g.pick(`'now'`, `'now'`, `'now'`, `'NOW'`, `'Now'`, `"now"`, `'subsec'`, `'SUBSEC'`, `'subsecond'`)
	}
	return g.pick(`'2024-02-29 12:34:56.789'`, `'2000-01-01'`, `2460000.5`, `'12:00'`, `b`, `'nowhere'`, `'now '`, `'2024-02-29T01:02:03'`)
}
func (g *c14Gen) modifier() string {
	return g.pick(`'+1 day'`, `'-3 hours'`, `'start of month'`, `'start of day'`, `'subsec'`, `'weekday 0'`, `'+1.5 seconds'`, `'-1 month'`, `'subsecond'`)
}

// a call of one of the listed functions; nd: may be non-deterministic
func (g *c14Gen) listed(d int, nd bool) string {
	g.tags["listed-call"] = true
	switch k := g.r.Intn(12); {
	case k < 2:
		if !nd {
			return g.fname("abs") + "(-3)"
		}
		return g.fname("random") + "()"
	case k < 3:
		if !nd {
			return g.fname("randomblob") + "(" + g.pick("a", "2+2", "'3'", "2.5", "x'01'") + ")" // excluded forms
		}
		return g.fname("randomblob") + "(" + g.pick("0", "1", "4", "16", "007") + ")"
	case k < 8:
		fn := g.pick("date", "time", "datetime", "julianday", "unixepoch", "julianday", "unixepoch")
		n := g.r.Intn(4)
		var args []string
		if n > 0 {
			args = append(args, g.timeValue(nd && g.p(75)))
			for i := 1; i < n; i++ {
				if g.p(15) && d > 0 {
					args = append(args, "'+' || ("+g.expr(d-1, nd)+") % 3 || ' days'")
				} else {
					args = append(args, g.modifier())
				}
			}
		} else if !nd {
			args = append(args, g.timeValue(false))
		}
		return g.fname(fn) + "(" + strings.Join(args, g.pick(",", ", ")) + ")"
	case k < 10:
		fmtS := g.pick(`'%Y-%m-%d %H:%M:%f'`, `'%s'`, `'%J'`, `'%f'`, `'%H:%M:%S'`)
		n := g.r.Intn(3)
		args := []string{fmtS}
		if n > 0 || !nd {
			args = append(args, g.timeValue(nd && g.p(75)))
			if n > 1 {
				args = append(args, g.modifier())
			}
		}
		return g.fname("strftime") + "(" + strings.Join(args, ", ") + ")"
	case k < 11:
		a, b := g.timeValue(nd && g.p(60)), g.timeValue(nd && g.p(40))
		return g.fname("timediff") + "(" + a + ", " + b + ")"
	default:
		// wrong arities: errors or non-rewritten forms
		if !nd {
			return g.fname("strftime") + "('%Y', '2001-01-01')"
		}
		return g.pick(g.fname("random")+"(1)", g.fname("strftime")+"()", g.fname("timediff")+"('now')", g.fname("timediff")+"('now','2000-01-01','now')", g.fname("randomblob")+"()")
	}
}

func (g *c14Gen) atom() string {
	switch k := g.r.Intn(20); {
	case k < 5:
		return g.pick("1", "2", "42", "0", "3.5", "-7", "1e3")
	case k < 9:
		return g.pick("'x'", "'hello'", "''", "'it''s'", "x'AB01'", "NULL")
	case k < 11:
		g.tags["look-alike"] = true
		return g.pick(`'random()'`, `'datetime(''now'')'`, `'select time()'`, `'RANDOMBLOB(4)'`, `(SELECT "random()" FROM w)`, `(SELECT "date(" FROM w)`,
			`(SELECT updatetime FROM w)`, `(SELECT randomness FROM w)`, `'strftime(' || 'now)'`, `'julianday ('`)
	default:
		return g.pick("a", "b", "c", "id", "t.a", "a", "c")
	}
}

// deterministic predicate, or a wrapper around a (possibly non-deterministic) expression that is true regardless of its value
func (g *c14Gen) pred(d int, nd bool) string {
	if nd && g.p(50) {
		e := g.expr(d, true)
		// true whatever e evaluates to (a NULL may depend on the replaced value, e.g. NULL OR random() % 3)
		return g.pick("(("+e+") IS NOT NULL OR 1)", "(("+e+") NOTNULL OR 1)", "(NOT (("+e+") ISNULL) OR 1)", "typeof("+e+") <> 'zzz'", "coalesce("+e+", 1) IS NOT NULL",
			"(("+e+") IS NULL OR 1)")
	}
	e := g.expr(d, false)
	return g.pick("("+e+") > 1", "a >= 20", "("+e+") IS NOT NULL", "id IN (1, 2)", "a BETWEEN 15 AND 40", "b <> 'q' OR ("+e+") IS NULL", "NOT (a = 10)")
}

func (g *c14Gen) expr(d int, nd bool) string {
	if d <= 0 {
		if g.p(12) {
			g.tags["unary-on-call"] = true
			return g.pick("-", "- ", "+", "NOT ", "~", "-") + g.listed(0, nd)
		}
		if g.p(40) {
			return g.listed(0, nd)
		}
		return g.atom()
	}
	switch k := g.r.Intn(30); {
	case k < 7:
		return g.listed(d, nd)
	case k < 9:
		return g.atom()
	case k < 12:
		// (no length()/hex(): the Julian-day literal has 6 decimals, so the text form of a real 'now' value is shorter after the rewrite)
		return g.pick("abs", "typeof", "lower", "quote", "ABS", "trim") + "(" + g.expr(d-1, nd) + ")"
	case k < 13:
		return g.pick("coalesce", "ifnull", "max", "min") + "(" + g.expr(d-1, nd) + ", " + g.expr(d-1, nd) + ")"
	case k < 15:
		return g.expr(d-1, nd) + g.pick(" + ", " - ", " || ", "||", " % ") + g.pick("1", "3", "'z'", "7")
	case k < 16:
		return g.expr(d-1, nd) + g.pick(" = ", " <> ", " != ", " < ", " >= ", " IS ", " IS NOT ", " == ") + g.expr(d-1, nd)
	case k < 17:
		return g.expr(d-1, nd) + g.pick(" AND ", " OR ") + g.expr(d-1, nd)
	case k < 18 && g.p(50):
		// a unary operator directly on a listed call: the literal that replaces the call is printed right after the operator
		g.tags["unary-on-call"] = true
		return g.pick("-", "- ", "+", "NOT ", "~", "-", "-") + g.listed(d-1, nd)
	case k < 18:
		// the operand is parenthesised: the printer writes "- -7" as "--7", which starts a comment (known finding, see the corpus)
		return g.pick("- ", "NOT ", "+", "~") + "(" + g.expr(d-1, nd) + ")"
	case k < 19:
		return "(" + g.expr(d-1, nd) + ")"
	case k < 21:
		if g.p(50) {
			return "CASE WHEN " + g.pred(d-1, nd) + " THEN " + g.expr(d-1, nd) + " ELSE " + g.expr(d-1, nd) + " END"
		}
		return "CASE " + g.expr(d-1, false) + " WHEN 10 THEN " + g.expr(d-1, nd) + " WHEN 'p' THEN " + g.expr(d-1, nd) + " END"
	case k < 22:
		return "CAST(" + g.expr(d-1, nd) + " AS " + g.pick("TEXT", "INTEGER", "REAL", "BLOB") + ")"
	case k < 23:
		// parenthesised: the printer writes a postfix NULL test without parentheses, which changes how a following
		// operator binds (known finding, see the corpus)
		return "((" + g.expr(d-1, nd) + ")" + g.pick(" IS NULL", " ISNULL", " NOTNULL", " IS NOT NULL", " NOT NULL") + ")"
	case k < 24:
		return g.expr(d-1, nd) + g.pick(" BETWEEN ", " NOT BETWEEN ") + g.expr(d-1, nd) + " AND " + g.expr(d-1, nd)
	case k < 25:
		if g.p(50) {
			return g.expr(d-1, nd) + g.pick(" IN ", " NOT IN ") + "(" + g.expr(d-1, nd) + ", " + g.expr(d-1, nd) + ")"
		}
		return g.expr(d-1, nd) + " IN (SELECT " + g.subExpr(d-1, nd) + " FROM u)"
	case k < 27:
		g.tags["subquery"] = true
		if g.p(50) {
			return "(SELECT " + g.subExpr(d-1, nd) + ")"
		}
		return "(SELECT " + g.subExpr(d-1, nd) + " FROM u WHERE " + g.subPred(d-1, nd) + " ORDER BY x" + g.pick("", " DESC") + " LIMIT 1)"
	case k < 28:
		g.tags["subquery"] = true
		return g.pick("EXISTS", "NOT EXISTS") + " (SELECT " + g.subExpr(d-1, nd) + " FROM u WHERE " + g.subPred(d-1, nd) + ")"
	case k < 29:
		return g.expr(d-1, nd) + " COLLATE " + g.pick("NOCASE", "BINARY")
	default:
		g.tags["subquery"] = true
		return g.pick("(SELECT count("+g.subExpr(d-1, nd)+") FILTER (WHERE x > 1) FROM u)", "(SELECT max("+g.subExpr(d-1, nd)+") FROM u)",
			"(SELECT sum(x) OVER (ORDER BY "+g.subExpr(d-1, nd && false)+") FROM u LIMIT 1)", "(SELECT group_concat("+g.subExpr(d-1, nd)+") FROM u)")
	}
}

// expressions inside a subquery over u: outer columns still resolve (correlated)
func (g *c14Gen) subExpr(d int, nd bool) string { return g.expr(d, nd) }
func (g *c14Gen) subPred(d int, nd bool) string {
	if g.p(60) {
		return g.pick("x > 1", "y IS NULL", "x IN (1, 3)")
	}
	return g.pred(d, nd)
}

func (g *c14Gen) orderBy(d int, nd bool) string {
	if !g.p(35) {
		return ""
	}
	var ts []string
	for i := 0; i <= g.r.Intn(2); i++ {
		switch {
		case nd && g.p(18):
			g.tags["order-by-random"] = true
			ts = append(ts, g.pick(g.fname("random")+"()", g.fname("randomblob")+"(4)", "abs("+g.fname("random")+"())", "x + "+g.fname("random")+"() % 2",
				"(SELECT x FROM u ORDER BY id LIMIT 1) + "+g.fname("random")+"()"))
		case g.p(30):
			ts = append(ts, g.listedTimeOnly(d, nd))
		default:
			ts = append(ts, g.pick("id", "id DESC", "1", "a ASC", "b COLLATE NOCASE", "a NULLS LAST"))
		}
	}
	return " ORDER BY " + strings.Join(ts, ", ")
}

func (g *c14Gen) listedTimeOnly(d int, nd bool) string {
	for {
		s := g.listed(d, nd)
		if !strings.Contains(strings.ToLower(s), "random") {
			return s
		}
	}
}

func (g *c14Gen) returning(d int, nd bool) string {
	if !g.p(30) {
		return ""
	}
	g.tags["returning"] = true
	n := 1 + g.r.Intn(2)
	var cs []string
	for i := 0; i < n; i++ {
		if g.p(25) {
			cs = append(cs, g.pick("*", "id", "a AS aa"))
		} else {
			cs = append(cs, g.expr(d, nd))
		}
	}
	return g.pick(" RETURNING ", " returning ", " Returning ") + strings.Join(cs, ", ")
}

func (g *c14Gen) statement(nd bool) (string, []string) {
	g.tags = map[string]bool{}
	d := 1 + g.r.Intn(3)
	var s string
	switch k := g.r.Intn(20); {
	case k < 5:
		g.tags["insert-values"] = true
		rows := 1 + g.r.Intn(2)
		var vs []string
		for i := 0; i < rows; i++ {
			vs = append(vs, "("+g.exprNoCol(d, nd)+", "+g.exprNoCol(d-1, nd)+")")
		}
		s = g.pick("INSERT INTO", "insert into", "INSERT OR REPLACE INTO", "REPLACE INTO") + " t(a, b) VALUES " + strings.Join(vs, ", ")
		if g.p(30) {
			g.tags["upsert"] = true
			s = "INSERT INTO t(id, a) VALUES (" + g.pick("1", "2", "9") + ", " + g.exprNoCol(d, nd) + ") ON CONFLICT(id) DO UPDATE SET a = " + g.expr(d, nd) +
				g.pick("", ", b = excluded.a", " WHERE "+g.pred(d-1, nd))
		}
		s += g.returning(d-1, nd)
	case k < 8:
		g.tags["insert-select"] = true
		s = "INSERT INTO t(a, b) SELECT " + g.exprU(d, nd) + ", " + g.exprU(d-1, nd) + " FROM u" + g.pick("", " WHERE "+g.predU(d-1, nd)) + g.orderByU(d-1, nd) + g.pick("", "", " LIMIT 2")
		s += g.returning(d-1, nd)
	case k < 11:
		g.tags["cte"] = true
		cte := "WITH " + g.pick("", "", "RECURSIVE ") + "k(v" + g.pick("", ", v2") + ") AS (SELECT " + g.exprNoCol(d, nd)
		if strings.Contains(cte, ", v2") {
			cte += ", " + g.exprNoCol(d-1, nd)
		}
		cte += ")"
		switch g.r.Intn(4) {
		case 0:
			s = cte + " INSERT INTO t(a) SELECT v FROM k"
		case 1:
			s = cte + " UPDATE t SET a = (SELECT v FROM k) WHERE " + g.pred(d-1, nd)
		case 2:
			s = cte + " DELETE FROM t WHERE id = 3 AND (SELECT v FROM k) IS NOT NULL"
		default:
			s = cte + ", k2 AS (SELECT v AS z FROM k) SELECT z, " + g.exprNoCol(d-1, nd) + " FROM k2"
		}
	case k < 15:
		g.tags["update"] = true
		s = "UPDATE " + g.pick("t", "t", "OR IGNORE t") + " SET a = " + g.expr(d, nd) + g.pick("", ", b = "+g.expr(d-1, nd), ", (b, c) = ("+g.expr(d-1, nd)+", 1)") +
			g.pick("", " WHERE "+g.pred(d-1, nd)) + g.returning(d-1, nd)
	case k < 17:
		g.tags["delete"] = true
		s = "DELETE FROM t WHERE " + g.pred(d, nd) + g.returning(d-1, nd)
	default:
		g.tags["select"] = true
		distinct := ""
		if !nd && g.p(30) {
			distinct = "DISTINCT " // with a rewritten call the value is per statement, not per row: documented rqlite behaviour
		}
		s = "SELECT " + distinct + g.expr(d, nd)
		two := g.p(40)
		if two {
			s += ", " + g.expr(d-1, nd)
		} else if g.p(30) {
			s += " AS v"
		}
		s += " FROM t" + g.pick("", " WHERE "+g.pred(d-1, nd)) + g.pick("", "", " GROUP BY id HAVING "+g.pred(d-1, nd))
		if g.p(15) {
			g.tags["compound"] = true
			s += " UNION ALL SELECT " + g.exprNoCol(d-1, nd)
			if two {
				s += ", 1"
			}
			s += g.pick("", " ORDER BY 1", " LIMIT 3")
		} else {
			s += g.orderBy(d-1, nd) + g.pick("", " LIMIT 2", " LIMIT 2 OFFSET 1")
		}
	}
	if g.p(6) {
		s = g.pick("EXPLAIN QUERY PLAN ", "explain ") + s
		g.tags["explain"] = true
	}
	if g.p(8) {
		s += g.pick(";", " ;", " -- done", " /* random() */")
	}
	var tags []string
	for t := range g.tags {
		tags = append(tags, t)
	}
	sort.Strings(tags)
	return s, tags
}

// expressions without bare column references (VALUES lists, CTE bodies without FROM)
var c14ColRe = regexp.MustCompile(`(^|[^A-Za-z0-9_.'"%])(t\.a|a|b|c|id)($|[^A-Za-z0-9_('"])`)

func (g *c14Gen) exprNoCol(d int, nd bool) string {
	e := g.expr(d, nd)
	for i := 0; i < 4; i++ {
		e = c14ColRe.ReplaceAllString(e, "${1}5${3}")
	}
	return e
}

// expressions over u's columns
func (g *c14Gen) exprU(d int, nd bool) string {
	e := g.exprNoCol(d, nd)
	if g.p(50) {
		return "x + " + "(" + e + ")"
	}
	return e
}
func (g *c14Gen) predU(d int, nd bool) string {
	if nd && g.p(50) {
		return "((" + g.exprNoCol(d, true) + ") IS NOT NULL OR 1)"
	}
	return g.pick("x > 1", "y IS NULL", "x IN (1, 3)")
}
func (g *c14Gen) orderByU(d int, nd bool) string {
	if !g.p(30) {
		return ""
	}
	if nd && g.p(30) {
		g.tags["order-by-random"] = true
		return " ORDER BY " + g.fname("random") + "()"
	}
	return " ORDER BY " + g.pick("x", "x DESC", "id", g.fname("julianday")+"('now')", g.fname("unixepoch")+"()")
}

// ---------------------------------------------------------------- corpus

var c14Corpus = []string{
	// the forms of DESIGN.md section 7, row 15
	`INSERT INTO t(a) VALUES (datetime())`, `INSERT INTO t(a) VALUES (date())`, `INSERT INTO t(a) VALUES (time())`,
	`INSERT INTO t(a) VALUES (julianday())`, `INSERT INTO t(a) VALUES (unixepoch())`, `INSERT INTO t(a) VALUES (strftime('%J'))`,
	`INSERT INTO t(a) VALUES (datetime ('now'))`, `INSERT INTO t(a) VALUES (random ())`, `INSERT INTO t(a) VALUES (hex(randomblob (4)))`,
	`INSERT INTO t(a) VALUES (unixepoch('subsec'))`, `INSERT INTO t(a) VALUES (strftime('%f', 'subsecond'))`,
	`INSERT INTO t(a) VALUES ("random"())`, "INSERT INTO t(a) VALUES (random/**/())", "INSERT INTO t(a) VALUES (julianday -- x\n ('now'))",
	// every white space character between the name and the parenthesis
	"INSERT INTO t(a) VALUES (random\r\n())", "INSERT INTO t(a) VALUES (strftime\f('%f','now'))", "INSERT INTO t(a, b) VALUES (julianday\r('now'), hex(randomblob\f\t(4)))",
	// positions sql.Walk does not reach
	`INSERT INTO t(a) VALUES ((SELECT random()))`, `WITH k(v) AS (SELECT random()) INSERT INTO t(a) SELECT v FROM k`,
	`WITH k(v) AS (SELECT julianday('now')) INSERT INTO t(a) SELECT v FROM k`, `INSERT INTO t(a) VALUES (random() ISNULL)`,
	`INSERT INTO t(a) VALUES (julianday('now') NOTNULL)`, `INSERT INTO t(a) SELECT x FROM u WHERE x IN (SELECT abs(random()) % 1 + x FROM u)`,
	// RETURNING must survive the rewrite
	`UPDATE t SET a = random() WHERE id = 1 RETURNING a, id`, `DELETE FROM t WHERE julianday('now') > 0 RETURNING id`,
	`INSERT INTO t(a) VALUES (random()) RETURNING a`, `UPDATE t SET a = 5 RETURNING random(), julianday()`,
	// ORDER BY
	`INSERT INTO t(a) SELECT x FROM u ORDER BY random()`, `SELECT a FROM t ORDER BY (SELECT x FROM u ORDER BY id LIMIT 1) + random(), id`,
	`SELECT sum(a) OVER (ORDER BY id) + random() FROM t ORDER BY julianday('now'), id`,
	// two 'now' in one statement are the same instant
	`INSERT INTO t(a, b) VALUES (julianday('now') = julianday(), unixepoch('now','subsec') = unixepoch('subsec'))`,
	// look-alikes and clean statements
	`INSERT INTO t(a) VALUES ('random()')`, `SELECT "random()", "date(", updatetime FROM w`, `UPDATE t SET b = 'datetime(''now'')' WHERE id = 2`,
	`INSERT INTO t(a) VALUES (date('2024-02-29', '+1 day'))`, `SELECT randomness + 1 FROM w`, `INSERT INTO t(a) VALUES (1)`,
	`INSERT INTO t(a) VALUES (1) RETURNING id`, `EXPLAIN QUERY PLAN SELECT random()`,
	// not valid SQL / not parsed
	`INSERT INTO t(a) VALUES (random()`, `SELEC random()`,
	// re-rendering a postfix NULL test without parentheses changes the binding of the operator after it (known finding)
	`INSERT INTO t(a, b) VALUES (1 ISNULL % 'z', strftime('%s', '2001-01-01'))`,
	`SELECT id, date('2001-01-01') FROM t WHERE 'x' IS NOT NULL > 1`,
	// unary operators directly on replaced calls
	`INSERT INTO t(a) VALUES (-random())`, `INSERT INTO t(a, b) VALUES (-random() % 1000, abs(-RANDOM()))`, `UPDATE t SET a = - random(), b = ~random()`,
	`INSERT INTO t(a, b) VALUES (NOT random(), +random())`, `INSERT INTO t(a, b) VALUES (-julianday('now'), -randomblob(4))`,
	// re-rendering joins two minus signs into a comment marker (known finding)
	`INSERT INTO t(a, b) VALUES (- -7, date('2001-01-01'))`,
	// several statements in one string (known finding: everything after the first statement is dropped)
	`INSERT INTO t(a) VALUES (random()); INSERT INTO t(a) VALUES (7)`,
	`INSERT INTO t(a) VALUES (1); INSERT INTO t(a) VALUES (julianday('now'))`,
}

// ---------------------------------------------------------------- test

// c14CommentMarker reports whether text contains "--" outside string literals and quoted identifiers
func c14CommentMarker(text string) bool {
	var q byte
	for i := 0; i < len(text); i++ {
		ch := text[i]
		switch {
		case q != 0:
			if ch == q {
				q = 0
			}
		case ch == '\'' || ch == '"' || ch == '`':
			q = ch
		case ch == '-' && i+1 < len(text) && text[i+1] == '-':
			return true
		}
	}
	return false
}

// the values random() may be replaced by, taken from the tree under test: the rewriter's own generator is sampled, and
// the boundaries of the range it shows (negative ones only if it produces negative numbers) are injected besides fresh draws
var c14RandBounds []int64

func c14ProbeRand() {
	rw := NewRewriter()
	neg := false
	for i := 0; i < 256; i++ {
		if rw.randFn() < 0 {
			neg = true
		}
	}
	c14RandBounds = []int64{0, math.MaxInt64}
	if neg {
		c14RandBounds = append(c14RandBounds, -1, math.MinInt64)
	}
}

// c14Variants: the same statement with other values drawn for its random() calls (fresh draws through Process, and the
// boundaries of the generator's range through the Rewriter) must still be text the parser reads back, and — where a
// replaced call stands directly under a unary operator, and on a sample of the others — evaluate to the original's shape
func c14Variants(d *db.DB, c *c14Case, unary bool, sample bool) {
	var texts []string
	if unary {
		for i := 0; i < 5; i++ {
			st := []*proto.Statement{{Sql: c.in.SQL}}
			if Process(st, c.in.RwRand, c.in.RwTime) == nil {
				texts = append(texts, st[0].Sql)
			}
		}
	}
	for _, v := range c14RandBounds {
		v := v
		func() {
			defer func() { recover() }()
			parsed, err := rsql.NewParser(strings.NewReader(c.in.SQL)).ParseStatement()
			if err != nil {
				return
			}
			rw := NewRewriter()
			rw.RewriteRand, rw.RewriteTime = c.in.RwRand, c.in.RwTime
			rw.randFn = func() int64 { return v }
			out, mod, _, err := rw.Do(parsed)
			if err != nil || !mod {
				return
			}
			texts = append(texts, statementString(out))
		}()
	}
	for _, tx := range texts {
		c.nvariants++
		if c14Parse(tx) == nil {
			c.variantFail, c.variantOut = "not parsed by the parser that printed it", tx
			return
		}
		if !(unary || sample) {
			continue
		}
		// required of another draw: the text is read back by the parser (above), SQLite prepares it, and unless it stops with
		// a value-dependent run-time error (abs(~9223372036854775807) overflows in SQLite itself) it has the original's shape
		if c.eo.Err != "" {
			// the statement as sent is in error; with a literal in place of the call SQLite may not even reach the faulty
			// part (`0 AND randomblob()` is folded away before the arity check) — nothing to compare for an injected value
			continue
		}
		ev := c14Run(d, tx, c.fq)
		if df := c14Compare(c.eo, ev, false); df != "" {
			c.variantFail, c.variantOut = df, tx
			return
		}
	}
}

func c14Batch(t *testing.T, w *vWriter, d *db.DB, ins []c14Input, tags [][]string) {
	cases := make([]*c14Case, len(ins))
	for i := range ins {
		// Process immediately before the evaluations, so that "at once" holds for the original
		c := c14Process(ins[i], tags[i])
		for try := 0; try < 2 && c.dyn; try++ {
			c.e1 = c14Run(d, c.out, c.fq)
			c.eo = c14Run(d, c.in.SQL, c.fq)
			if c14Compare(c.eo, c.e1, true) == "" {
				break
			}
			if try == 0 { // a clock field may have wrapped between Process and the evaluation: once more
				c = c14Process(ins[i], tags[i])
			}
		}
		if c.dyn && c.tree != nil {
			hasRandom, unary := false, false
			for _, n := range c.nondet {
				if strings.HasPrefix(n, "random:") {
					hasRandom = true
				}
			}
			for _, t := range c.tags {
				if t == "unary-on-call" || t == "corpus" {
					unary = true
				}
			}
			if hasRandom {
				c14Variants(d, c, unary, i%7 == 0)
			}
		}
		cases[i] = c
	}
	time.Sleep(1200 * time.Millisecond)
	for _, c := range cases {
		if c.dyn {
			c.e2 = c14Run(d, c.out, c.fq)
		}
		c.emit(w)
	}
}

func TestVerif_C14(t *testing.T) {
	w := vOpen()
	defer w.Close()
	d, err := db.Open(filepath.Join(t.TempDir(), "c14.db"), false, true)
	if err != nil {
		t.Fatal(err)
	}
	defer d.Close()
	for _, s := range c14Schema {
		if r, err := d.ExecuteStringStmt(s); err != nil || r[0].GetE().GetError() != "" {
			t.Fatalf("schema %s: %v %v", s, err, r)
		}
	}
	c14ProbeRand()
	if raw := vReplayInput(); raw != nil {
		var in c14Input
		if err := json.Unmarshal(raw, &in); err != nil {
			t.Fatal(err)
		}
		c14Batch(t, w, d, []c14Input{in}, [][]string{{"replay"}})
		return
	}
	rng := vRand()
	var ins []c14Input
	var tgs [][]string
	add := func(in c14Input, tags []string) {
		ins = append(ins, in)
		tgs = append(tgs, tags)
	}
	for _, s := range c14Corpus {
		add(c14Input{SQL: s, RwRand: true, RwTime: true}, []string{"corpus"})
	}
	for _, s := range c14Corpus[:12] {
		add(c14Input{SQL: s, RwRand: false, RwTime: true}, []string{"corpus", "flags-partial"})
		add(c14Input{SQL: s, RwRand: true, RwTime: false}, []string{"corpus", "flags-partial"})
	}
	g := &c14Gen{r: rng}
	n := vN(1000, 20000)
	batch := 20000
	for i := 0; i < n; i++ {
		nd := rng.Intn(100) < 80
		s, tags := g.statement(nd)
		in := c14Input{SQL: s, RwRand: true, RwTime: true}
		switch rng.Intn(20) {
		case 0:
			in.RwRand = false
			tags = append(tags, "flags-partial")
		case 1:
			in.RwTime = false
			tags = append(tags, "flags-partial")
		case 2:
			in.RwRand, in.RwTime = false, false
			tags = append(tags, "flags-off")
		}
		add(in, tags)
		if len(ins) >= batch {
			c14Batch(t, w, d, ins, tgs)
			ins, tgs = nil, nil
		}
	}
	c14Batch(t, w, d, ins, tgs)
}
