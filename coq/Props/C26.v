(* C26 — property theorems only. *)
From Coq Require Import List String NArith Sorted.
From RQ Require Import Model.C26 Proofs.C26.
Open Scope N_scope.

(* refinement of the persistent content: after ANY history (enqueue, delete_range, receive, reopen,
   kill idle or in the middle of an operation) the bucket holds exactly the set the sequential
   specification holds, and both the stored and the in-memory highest index equal the specification's *)
Theorem C26_content_refines_spec : forall ops,
  (forall x, In x (bucket (P (final ops))) <-> In x (fst (spec_store ops)))
  /\ max_key (P (final ops)) = snd (spec_store ops)
  /\ highest (V (final ops)) = snd (spec_store ops).
Proof. exact content_refines. Qed.
Print Assumptions C26_content_refines_spec.

(* an acknowledged enqueue above everything stored before is still in the queue after any
   continuation (reopens and kills included) that does not delete a range reaching it *)
Theorem C26_acknowledged_not_lost : forall pre k d post,
  max_enq pre < k ->
  (forall o, In o post -> ~ deletes_at_least k o) ->
  In (k, d) (bucket (P (final (pre ++ Enq k d :: post)))).
Proof. exact acknowledged_not_lost. Qed.
Print Assumptions C26_acknowledged_not_lost.

(* an enqueue at or below the highest index ever stored changes nothing at all *)
Theorem C26_stale_enqueue_is_noop : forall pre k d,
  k <= max_enq pre -> final (pre ++ (Enq k d :: nil)) = final pre.
Proof. exact stale_enqueue_noop. Qed.
Print Assumptions C26_stale_enqueue_is_noop.

(* the highest index is the maximum over every enqueue that reached the store, whatever
   reopens and kills happened in between *)
Theorem C26_highest_survives : forall ops,
  max_key (P (final ops)) = max_enq ops /\ highest (V (final ops)) = max_enq ops.
Proof. exact highest_survives. Qed.
Print Assumptions C26_highest_survives.

(* delete_range i removes exactly the items at or below i *)
Theorem C26_delete_removes_exactly : forall pre i,
  bucket (P (final (pre ++ (Del i :: nil)))) = filter (fun x => i <? fst x) (bucket (P (final pre)))
  /\ max_key (P (final (pre ++ (Del i :: nil)))) = max_key (P (final pre)).
Proof. exact delete_exact. Qed.
Print Assumptions C26_delete_removes_exactly.

(* the indices received from C since the queue was last opened strictly increase *)
Theorem C26_emission_increasing : forall ops, StronglySorted N.lt (emitted_this_open ops).
Proof. exact emission_increasing. Qed.
Print Assumptions C26_emission_increasing.

(* the next receive gives the least stored item at or above the cursor, with its stored data,
   above everything received in this open; nothing is offered only if nothing is at or above the cursor *)
Theorem C26_next_emission_is_least_owed : forall ops,
  match snd (take (final ops)) with
  | Some e => In e (bucket (P (final ops))) /\ nextFrom (V (final ops)) <= fst e
              /\ (forall x, In x (bucket (P (final ops))) -> nextFrom (V (final ops)) <= fst x -> fst e <= fst x)
              /\ Forall (fun j => j < fst e) (emitted_this_open ops)
  | None => forall x, In x (bucket (P (final ops))) -> fst x < nextFrom (V (final ops))
  end.
Proof. exact take_least. Qed.
Print Assumptions C26_next_emission_is_least_owed.

(* every stored item is still owed (at or above the cursor), or was received in this open, or
   lies at or below a delete_range made in this open before it was stored (the documented cursor
   behaviour for delete_range above the highest index) *)
Theorem C26_stored_item_owed_or_emitted : forall ops x,
  In x (bucket (P (final ops))) ->
  nextFrom (V (final ops)) <= fst x
  \/ In (fst x) (emitted_this_open ops)
  \/ exists i, In i (deletes_this_open ops) /\ fst x <= i.
Proof. exact emission_owed. Qed.
Print Assumptions C26_stored_item_owed_or_emitted.

(* a consumer that keeps receiving gets every owed item, in index order *)
Theorem C26_drain_gives_all_owed : forall ops n,
  (List.length (bucket (P (final ops))) <= n)%nat ->
  events (snd (run (final ops) (repeat Take n)))
  = filter (atleast (nextFrom (V (final ops)))) (bucket (P (final ops))).
Proof. exact drain_owed. Qed.
Print Assumptions C26_drain_gives_all_owed.

(* after a reopen (or kill) everything stored is delivered again, in index order *)
Theorem C26_drain_after_reopen_gives_everything : forall ops n,
  (List.length (bucket (P (final ops))) <= n)%nat ->
  events (snd (run (reopen (final ops)) (repeat Take n))) = bucket (P (final ops)).
Proof. exact drain_after_reopen. Qed.
Print Assumptions C26_drain_after_reopen_gives_everything.
